"""Unit registry: scanned from the harness sources themselves.

Kani units are declared by a structured comment in the harness file, directly above the harness
(or the macro invocation that generates it):

    // <free text lines: the contract in words; copied into evidence samples>
    // @unit name=<harness fn> props=C11[,C10] kind=complete|bounded [bound=<text_with_underscores>]
    //       fns=<a,b,c> [tier=quick|thorough] [mem=<GB>] [timeout=<s>] [mayreject=1] [covers=0]

Verus units are /verif/verus/*.spec.toml files (see vlib/extract.py) with a [unit] table.
"""
import os, re, glob
try:
    import tomllib
except ImportError:  # pragma: no cover
    import tomli as tomllib

ROOT = os.path.dirname(os.path.dirname(os.path.abspath(__file__)))
KANI_DIR = os.environ.get('VERIF_KANI_DIR', os.path.join(ROOT, 'kani'))
VERUS_DIR = os.path.join(ROOT, 'verus')


def hooked_files():
    res = []
    for line in open(os.path.join(ROOT, 'hooks.txt')):
        rel = line.strip()
        if rel and not rel.startswith('#'): res.append(rel)
    return res


def module_path(rel):
    crate, rest = rel.split('/src/', 1)
    parts = rest[:-3].split('/')
    if parts[-1] in ('mod', 'lib'): parts = parts[:-1]
    return crate, '::'.join(parts + ['verif_kani'])


def kani_units():
    units = []
    for rel in hooked_files():
        crate, mod = module_path(rel)
        hpath = os.path.join(KANI_DIR, crate, rel.split('/src/', 1)[1])
        if not os.path.exists(hpath): continue
        lines = open(hpath).read().split('\n')
        for i, ln in enumerate(lines):
            m = re.match(r'\s*//\s*@unit\s+(.*)$', ln)
            if not m: continue
            text = m.group(1)
            j = i + 1
            while j < len(lines) and re.match(r'\s*//\s{2,}\S', lines[j]) and '@unit' not in lines[j] and '=' in lines[j]:
                text += ' ' + lines[j].strip().lstrip('/').strip(); j += 1
            kv = dict(re.findall(r'(\w+)=(\S+)', text))
            if 'name' not in kv or 'props' not in kv:
                raise SystemExit('bad @unit line in %s:%d' % (hpath, i + 1))
            k = i - 1; desc = []
            # nearest comment block above (skipping code, e.g. earlier macro invocations of the same contract)
            while k >= 0 and not (lines[k].strip().startswith('//') and '@unit' not in lines[k]): k -= 1
            while k >= 0 and lines[k].strip().startswith('//') and '@unit' not in lines[k]:
                desc.insert(0, lines[k].strip().lstrip('/').strip()); k -= 1
            units.append({
                'backend': 'kani', 'crate': crate, 'src': rel, 'harness_file': hpath,
                'name': kv['name'], 'harness': mod + '::' + kv['name'],
                'id': kv.get('id', '%s.%s.%s' % (crate, mod.replace('::verif_kani', '').replace('::', '.') or 'lib', kv['name'])),
                'props': kv['props'].split(','), 'kind': kv.get('kind', 'bounded'),
                'bound': kv.get('bound', '').replace('_', ' '),
                'fns': [f for f in kv.get('fns', '').split(',') if f],
                'tier': kv.get('tier', 'quick'), 'mem': float(kv.get('mem', 2)), 'timeout': int(kv.get('timeout', 600)),
                'mayreject': kv.get('mayreject', '0') == '1', 'covers': kv.get('covers', '1') != '0',
                'contract': ' '.join(desc)[-1200:],
            })
    return units


def verus_units():
    units = []
    for p in sorted(glob.glob(os.path.join(VERUS_DIR, '*.spec.toml'))):
        spec = tomllib.load(open(p, 'rb'))
        u = spec.get('unit', {})
        units.append({
            'backend': 'verus', 'spec_path': p, 'spec': spec,
            'id': u.get('id', 'verus.' + os.path.basename(p)[:-10]),
            'props': u.get('props', []), 'kind': 'verus', 'tier': u.get('tier', 'quick'),
            'pair': u.get('pair', []), 'contract': u.get('contract', ''),
            'assumed': u.get('assumed', []),
        })
    return units


def all_units():
    us = kani_units() + verus_units()
    # tiers.json: measured tier assignment (quick / thorough / off) decided on a quiet machine; overrides the
    # authors' annotation. `off` units stay in the harness files but are not run (reason recorded there).
    tp = os.path.join(ROOT, 'tiers.json')
    if os.path.exists(tp):
        import json
        ov = json.load(open(tp))
        out = []
        for u in us:
            o = ov.get(u['id'])
            if os.environ.get('VERIF_PENDING_ONLY'):
                # development: run exactly the units still marked pending (second measurement pass)
                if o and o.get('pending'): u['tier'] = 'thorough'; out.append(u)
                continue
            if o:
                if o.get('tier') == 'off': continue
                u['tier'] = o.get('tier', u['tier'])
                if o.get('mem'): u['mem'] = float(o['mem'])
                if o.get('timeout'): u['timeout'] = int(o['timeout'])
            out.append(u)
        us = out
    return us


def select(prop, tier):
    res = []
    for u in all_units():
        if prop != 'ANY' and prop not in u['props']: continue
        if tier == 'quick' and u['tier'] != 'quick': continue
        res.append(u)
    return res
