"""Run Kani units of one crate on the real code in REPO and classify every CBMC check."""
import json, os, re, shutil, subprocess, threading, time

ROOT = os.path.dirname(os.path.dirname(os.path.abspath(__file__)))
ENV = dict(os.environ, CARGO_NET_OFFLINE='true', CARGO_TERM_COLOR='never')
MEM_KILL_GB = float(os.environ.get('VERIF_MEM_KILL_GB', '24'))


def target_dir(repo):
    tag = 'kani' if os.path.realpath(repo) == '/repo' else 'kani_' + re.sub(r'\W', '_', os.path.realpath(repo))
    return os.path.join(os.environ.get('VERIF_TARGET', os.path.join(ROOT, 'target')), tag)


class MemWatch(threading.Thread):
    """kills any cbmc process whose RSS exceeds the cap (there is no swap); the harness is then undecided"""
    def __init__(self, cap_gb):
        super().__init__(daemon=True); self.cap = cap_gb * 1024 * 1024; self.killed = []; self.stop = False; self.peak = 0

    def run(self):
        while not self.stop:
            try:
                out = subprocess.run(['ps', '-eo', 'pid,rss,comm'], capture_output=True, text=True).stdout
                avail = 1 << 40
                for ml in open('/proc/meminfo'):
                    if ml.startswith('MemAvailable:'): avail = int(ml.split()[1])
                if avail < 5 * 1024 * 1024:
                    # machine-wide emergency (no swap): kill the largest cbmc, whoever started it
                    big = sorted(((int(l.split()[1]), l.split()[0]) for l in out.split('\n')[1:] if len(l.split()) >= 3 and l.split()[2].startswith('cbmc')), reverse=True)
                    if big: subprocess.run(['kill', '-9', big[0][1]]); self.killed.append(int(big[0][1]))
                for ln in out.split('\n')[1:]:
                    p = ln.split()
                    if len(p) >= 3 and p[2].startswith('cbmc'):
                        rss = int(p[1]); self.peak = max(self.peak, rss)
                        if rss > self.cap:
                            subprocess.run(['kill', '-9', p[0]]); self.killed.append(int(p[0]))
            except Exception:
                pass
            time.sleep(2)


def run_crate(repo, crate, units, jobs, log_dir):
    """returns dict harness -> result dict; result['state'] in ok|violation|undecided"""
    os.makedirs(log_dir, exist_ok=True)
    out_json = os.path.join(log_dir, 'kani_%s.json' % crate)
    if os.path.exists(out_json): os.remove(out_json)
    # generous floor: a timeout is 'undecided' (exit 2), which must never happen on the unchanged tree of a loaded machine
    timeout = max([u['timeout'] for u in units] + [int(os.environ.get('VERIF_MIN_TIMEOUT', '1200' if os.path.realpath(repo) == '/repo' else '0'))])
    if os.environ.get('VERIF_MAX_TIMEOUT'): timeout = min(timeout, int(os.environ['VERIF_MAX_TIMEOUT']))
    cmd = ['cargo', 'kani', '-p', crate, '--lib', '-Z', 'stubbing', '-Z', 'unstable-options',
           '--output-format=terse', '--target-dir', target_dir(repo), '--export-json', out_json,
           '--harness-timeout', '%ds' % timeout, '-j', str(jobs), '--exact']
    for u in units: cmd += ['--harness', u['harness']]
    t0 = time.time()
    watch = MemWatch(MEM_KILL_GB); watch.start()
    p = subprocess.run(cmd, cwd=repo, env=ENV, capture_output=True, text=True)
    watch.stop = True
    wall = time.time() - t0
    log = p.stdout + '\n' + p.stderr
    open(os.path.join(log_dir, 'kani_%s.log' % crate), 'w').write(' '.join(cmd) + '\n' + log)
    res = {}
    data = None
    if os.path.exists(out_json):
        try: data = json.load(open(out_json))
        except Exception: data = None
    if data is None:
        why = 'Kani build failed or produced no result file (compile error in the tree under test or in a harness)'
        m = re.findall(r'^error(?:\[E\d+\])?: .*$', log, flags=re.M)
        for u in units:
            res[u['harness']] = {'state': 'undecided', 'why': why + ': ' + '; '.join(m[:3]), 'checks': 0, 'failed': [], 'time_s': 0}
        return res, {'cmd': ' '.join(cmd), 'wall_s': wall, 'tools': {}, 'peak_rss_kb': watch.peak}
    by_id = {r['harness_id']: r for r in data.get('verification_results', {}).get('results', [])}
    stats = {c['harness_id']: (c.get('cbmc_stats') or {}) for c in (data.get('cbmc') or [])}
    for u in units:
        h = u['harness']; r = by_id.get(h)
        if r is None:
            res[h] = {'state': 'undecided', 'why': 'harness not found by Kani (renamed or removed?)', 'checks': 0, 'failed': [], 'time_s': 0}
            continue
        checks = r.get('checks', [])
        failed = [c for c in checks if c.get('status') in ('Failure', 'Failed')]
        undet = [c for c in checks if c.get('status') in ('Undetermined', 'Unknown')]
        covers = [c for c in checks if c.get('category') == 'cover']
        unsat_cov = [c for c in covers if c.get('status') not in ('Satisfied',)]
        unwind_fail = [c for c in failed + undet if c.get('category') == 'unwind']
        nchecks = len([c for c in checks if c.get('category') != 'cover'])
        out = {'checks': nchecks, 'covers': len(covers), 'time_s': r.get('duration_ms', 0) / 1000.0,
               'solver_s': stats.get(h, {}).get('runtime_solver_s'), 'vccs': stats.get(h, {}).get('vccs_generated'),
               'kani_status': r.get('status'), 'failed': []}

        def is_harness(c):
            return '/verif/kani/' in (c.get('location') or {}).get('file', '') or 'verif_kani' in c.get('function', '')
        counted = []; ignored = 0
        for c in failed:
            if c.get('category') == 'unwind': continue
            if c.get('category') == 'NaN':
                ignored += 1; continue   # CBMC --nan-check: producing a NaN is legal IEEE-754 / Rust behaviour, not a violation
            if u['mayreject'] and c.get('category') == 'assertion' and not is_harness(c):
                ignored += 1; continue   # the validator's own assert!/expect/unwrap/index panic: a rejection
            if c.get('category') == 'unsupported_construct' or 'not currently supported' in c.get('description', ''):
                undet.append(c); continue
            counted.append(c)
        out['failed'] = [{'description': c.get('description'), 'category': c.get('category'), 'function': c.get('function'),
                          'location': c.get('location')} for c in counted]
        if unwind_fail:
            out['state'] = 'undecided'; out['why'] = 'unwinding assertion failed (loop bound too small for this code): other red checks of this harness are not reported'
        elif counted:
            out['state'] = 'violation'
        elif r.get('status') != 'Success' and not (ignored > 0 and not undet and ignored == len([c for c in failed if c.get('category') != 'unwind'])):
            # timeout / OOM / solver error / killed
            out['state'] = 'undecided'
            out['why'] = 'harness did not complete (status %s; timeout, memory cap or tool limit)' % r.get('status')
        elif nchecks == 0:
            out['state'] = 'undecided'; out['why'] = 'zero obligations generated'
        elif u['covers'] and (not covers or unsat_cov):
            out['state'] = 'undecided'
            out['why'] = 'vacuity guard: ' + ('no cover points' if not covers else 'cover not satisfied: ' + '; '.join(c.get('description', '') for c in unsat_cov[:3]))
        else:
            out['state'] = 'ok'
        res[h] = out
    meta = {'cmd': ' '.join(cmd), 'wall_s': wall, 'tools': data.get('tools', {}), 'peak_rss_kb': watch.peak,
            'killed_for_memory': len(watch.killed)}
    return res, meta


def playback(repo, unit, out_path, log_dir):
    """Ask CBMC for a concrete failing input of `unit` and replay it natively on the real crate.
    Returns (found: bool, text)."""
    hf = unit['harness_file']
    backup = open(hf).read()
    text = []
    found = False
    try:
        cmd = ['cargo', 'kani', '-p', unit['crate'], '--lib', '-Z', 'stubbing', '-Z', 'unstable-options', '-Z', 'concrete-playback',
               '--concrete-playback=print', '--output-format=terse', '--target-dir', target_dir(repo),
               '--harness-timeout', '%ds' % unit['timeout'], '--exact', '--harness', unit['harness']]
        p = subprocess.run(cmd, cwd=repo, env=ENV, capture_output=True, text=True)
        blocks = re.findall(r"Concrete playback unit test for `[^`]*`:\n```\n(.*?)\n```", p.stdout, flags=re.S)
        blocks = [b for b in blocks if 'Check for `cover`' not in b]
        tests = []
        for b in blocks:
            m = re.search(r'fn (kani_concrete_playback_\w+)\(\)', b)
            if m and m.group(1) not in tests: tests.append(m.group(1))
            else: blocks = [x for x in blocks if x is not b]
        if not tests:
            text.append('// CBMC produced no concrete trace for this failure.\n// ' + p.stdout[-2000:].replace('\n', '\n// '))
            return False, '\n'.join(text)
        blocks = blocks[:4]; tests = tests[:4]
        gen = '\n\n'.join(blocks)
        text.append('// concrete-playback unit tests generated by Kani for harness %s (appended to the harness module for the native run)' % unit['harness'])
        text.append(gen)
        open(hf, 'w').write(backup + '\n' + gen + '\n')
        env = dict(ENV, CARGO_TARGET_DIR=target_dir(repo).replace('/kani', '/playback', 1) if '/kani' in target_dir(repo) else target_dir(repo) + '_playback')
        for t in tests:
            q = subprocess.run(['cargo', 'kani', 'playback', '-Z', 'concrete-playback', '-p', unit['crate'], '--lib', '--', t],
                               cwd=repo, env=env, capture_output=True, text=True, timeout=3600)
            tail = (q.stdout + q.stderr)
            m = re.search(r"panicked at .*?(?=\nstack backtrace|\nnote:|\Z)", tail, flags=re.S)
            if q.returncode != 0 and 'test result: FAILED' in tail:
                found = True
                text.append('// native replay of %s on the real crate: FAILED as predicted\n// %s' % (t, (m.group(0)[:600] if m else '').replace('\n', '\n// ')))
                break
            else:
                text.append('// native replay of %s did not reproduce (exit %d) %s' % (t, q.returncode, tail[-300:].replace('\n', ' ')))
    finally:
        open(hf, 'w').write(backup)
    return found, '\n'.join(text)
