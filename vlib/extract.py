"""Mechanical extractor for Verus units (DESIGN.md section 2.2).

Copies the *current* text of named functions from /repo's working tree into a single-file
Verus crate, splicing ghost text (requires / ensures / invariants / proof blocks) at anchors.
Nothing inside a function body is touched except for the insertion of ghost text at the anchors.

What the extraction DROPS (also written into every evidence file): doc comments and attributes
in front of the item (#[inline], #[inline(always)], #[inline(never)], #[cold], #[expect(..)],
#[allow(..)], #[must_use]); visibility qualifiers (pub, pub(crate), pub(super)); the surrounding
items of the file that are not listed.  What it CHANGES: `-> T` becomes `-> (r: T)` so that the
postcondition can name the result; optional, declared per function in the spec file and recorded:
literal `replace` pairs (used only for constructs the Verus front end cannot parse; each pair is
listed in the evidence as a deviation).
"""
import re, hashlib, os

DROPS = [
    "doc comments and attributes in front of each extracted item (#[inline], #[inline(always)], #[inline(never)], #[cold], #[expect(..)], #[allow(..)], #[must_use])",
    "visibility qualifiers (pub, pub(crate), pub(super)) - all items land in one module",
    "all items of the source file that are not listed in the spec file",
    "changed: return type `-> T` becomes `-> (r: T)` so the postcondition can name the result",
]


class LostAnchor(Exception):
    pass


def strip_tokens(src):
    """same-length string with comments, string and char literals blanked"""
    out = list(src); i = 0; n = len(src)

    def blank(a, b):
        for k in range(a, min(b, n)):
            if out[k] != '\n': out[k] = ' '
    while i < n:
        c = src[i]
        if src.startswith('//', i):
            j = src.find('\n', i); j = n if j < 0 else j; blank(i, j); i = j
        elif src.startswith('/*', i):
            depth = 1; j = i + 2
            while j < n and depth:
                if src.startswith('/*', j): depth += 1; j += 2
                elif src.startswith('*/', j): depth -= 1; j += 2
                else: j += 1
            blank(i, j); i = j
        elif c == '"':
            j = i + 1
            while j < n and src[j] != '"':
                j += 2 if src[j] == '\\' else 1
            blank(i + 1, j); i = j + 1
        elif c == 'r' and re.match(r'r#*"', src[i:i + 8]) and (i == 0 or not (src[i - 1].isalnum() or src[i - 1] == '_')):
            m = re.match(r'r(#*)"', src[i:i + 8]); close = '"' + m.group(1)
            j = src.find(close, i + len(m.group(0)))
            if j < 0: j = n - len(close)
            blank(i, j + len(close)); i = j + len(close)
        elif c == "'":
            m = re.match(r"'(\\.[^']*|[^\\'])'", src[i:i + 12])
            if m: blank(i + 1, i + len(m.group(0)) - 1); i += len(m.group(0))
            else: i += 1
        else:
            i += 1
    return ''.join(out)


def match_brace(clean, open_idx):
    depth = 0
    for k in range(open_idx, len(clean)):
        if clean[k] == '{': depth += 1
        elif clean[k] == '}':
            depth -= 1
            if depth == 0: return k
    raise LostAnchor('unbalanced braces')


def find_fn(src, clean, name, scope=(0, None), nth=0):
    lo, hi = scope; hi = len(src) if hi is None else hi
    seen = 0
    for m in re.finditer(r'\bfn\s+' + re.escape(name) + r'\b', clean[lo:hi]):
        start_kw = lo + m.start()
        line_start = src.rfind('\n', 0, start_kw) + 1
        try:
            open_idx = clean.index('{', start_kw)
        except ValueError:
            continue
        semi = clean.find(';', start_kw)
        if 0 <= semi < open_idx: continue
        if seen < nth:
            seen += 1; continue
        close_idx = match_brace(clean, open_idx)
        return line_start, start_kw, open_idx, close_idx
    raise LostAnchor('function `%s` not found' % name)


def find_impls(clean, header):
    """spans of `impl <header> {` blocks; header is literal text (whitespace-insensitive), e.g.
    "i256", "Ord for i256", "<T: ArrowNativeType> ScalarBuffer<T>" """
    pat = r'\bimpl\s*' + r'\s*'.join(re.escape(t) for t in header.split()) + r'\s*(where[^{;]*)?\{'
    spans = []
    for m in re.finditer(pat, clean):
        bo = m.end() - 1
        spans.append((bo, match_brace(clean, bo)))
    return spans


def find_item_block(src, clean, kw, name):
    m = re.search(r'\b' + kw + r'\s+' + re.escape(name) + r'\b', clean)
    if not m: raise LostAnchor('%s `%s` not found' % (kw, name))
    depth = 0; k = m.end()
    while k < len(clean):
        c = clean[k]
        if c == '{' and depth == 0:
            return src[m.start():match_brace(clean, k) + 1]
        if c in '([': depth += 1
        elif c in ')]': depth -= 1
        elif c == ';' and depth == 0:
            return src[m.start():k + 1]
        k += 1
    raise LostAnchor('%s `%s`: no body' % (kw, name))


def find_const(src, clean, name, scope=(0, None)):
    lo, hi = scope; hi = len(src) if hi is None else hi
    m = re.search(r'\bconst\s+' + re.escape(name) + r'\s*:', clean[lo:hi])
    if not m: raise LostAnchor('const `%s` not found' % name)
    a = lo + m.start(); depth = 0; k = a
    while True:
        c = clean[k]
        if c in '{[(': depth += 1
        elif c in '}])': depth -= 1
        elif c == ';' and depth == 0: break
        k += 1
    return src[a:k + 1]


def loops(clean, open_idx, close_idx):
    res = []
    for m in re.finditer(r'\b(while|for|loop)\b', clean[open_idx:close_idx]):
        kw = open_idx + m.start()
        # `for` inside `impl ... for` or HRTB does not occur inside bodies we extract
        bo = clean.index('{', kw); bc = match_brace(clean, bo)
        res.append((kw, bo, bc))
    return res


def extract_fn(repo, default_file, f):
    """returns (item_text, meta)"""
    path = os.path.join(repo, f.get('file', default_file))
    src = open(path).read(); clean = strip_tokens(src)
    scope = (0, None)
    if f.get('impl'):
        found = False
        for sp in find_impls(clean, f['impl']):
            try:
                find_fn(src, clean, f['fn'], sp, f.get('nth', 0)); scope = sp; found = True; break
            except LostAnchor:
                pass
        if not found:
            raise LostAnchor('function `%s` not found in any `impl %s`' % (f['fn'], f['impl']))
    line_start, kw, bo, bc = find_fn(src, clean, f['fn'], scope, f.get('nth', 0) if not f.get('impl') else 0)
    header = src[kw:bo].rstrip()
    quals = src[line_start:kw]
    keep_quals = ' '.join(q for q in re.findall(r'\b(const|unsafe)\b', strip_tokens(quals)))
    body = src[bo:bc + 1]
    sha = hashlib.sha256((header + body).encode()).hexdigest()
    meta = {'fn': f['fn'], 'impl': f.get('impl'), 'file': os.path.relpath(path, repo),
            'lines': [src.count('\n', 0, kw) + 1, src.count('\n', 0, bc) + 1], 'sha256': sha,
            'mode': f.get('mode', 'verify')}
    hoisted = []
    for h in f.get('hoist', []):
        # nested items (which cannot capture the environment) are moved, verbatim, in front of the function:
        # Verus treats items nested in a body as external. Recorded as a deviation.
        if h.get('kind', 'fn') == 'fn':
            ls2, kw2, bo2, bc2 = find_fn(src, clean, h['name'], (bo, bc))
            hdr2 = src[kw2:bo2].rstrip(); q2 = ' '.join(re.findall(r'\b(const|unsafe)\b', clean[ls2:kw2]))
            if 'result' in h:
                hdr2 = re.sub(r'->\s*(.+)$', lambda m: '-> (%s: %s)' % (h['result'], m.group(1).strip()), hdr2, flags=re.S)
            c2 = ''
            if h.get('requires'): c2 += '\n    requires\n' + h['requires'].rstrip() + '\n'
            if h.get('ensures'): c2 += '\n    ensures\n' + h['ensures'].rstrip() + '\n'
            b2 = src[bo2:bc2 + 1]
            if h.get('entry'): b2 = b2[:1] + '\n    proof {\n' + h['entry'].rstrip() + '\n    }' + b2[1:]
            hoisted.append((q2 + ' ' if q2 else '') + hdr2 + c2 + b2)
            a2, e2 = ls2, bc2 + 1
        else:
            txt = find_const(src, clean, h['name'], (bo, bc))
            a2 = src.index(txt, bo); e2 = a2 + len(txt)
            hoisted.append(txt)
        blank = ''.join(ch if ch == '\n' else ' ' for ch in src[a2:e2])
        src = src[:a2] + blank + src[e2:]; clean = clean[:a2] + blank + clean[e2:]
        meta.setdefault('deviations', []).append({'hoisted': '%s %s' % (h.get('kind', 'fn'), h['name']), 'why': 'item nested in the function body moved in front of the function verbatim (nested items cannot capture locals; Verus treats nested items as external)'})
    if hoisted:
        body = src[bo:bc + 1]
    if f.get('mode') == 'assume':
        # callee appears as external_body with a contract discharged elsewhere (named in discharged_by)
        if 'result' in f:
            header = re.sub(r'->\s*(.+)$', lambda m: '-> (%s: %s)' % (f['result'], m.group(1).strip()), header, flags=re.S)
        if f.get('rename'): header = re.sub(r'\bfn\s+' + re.escape(f['fn']) + r'\b', 'fn ' + f['rename'], header, count=1)
        item = '#[verifier::external_body]\n' + (keep_quals + ' ' if keep_quals else '') + header
        if f.get('requires'): item += '\n    requires\n' + f['requires'].rstrip()
        if f.get('ensures'): item += '\n    ensures\n' + f['ensures'].rstrip()
        item += '\n{ unimplemented!() }'
        meta['discharged_by'] = f.get('discharged_by')
        return item, meta
    if 'result' in f:
        header = re.sub(r'->\s*(.+)$', lambda m: '-> (%s: %s)' % (f['result'], m.group(1).strip()), header, flags=re.S)
    contract = ''
    if f.get('requires'): contract += '\n    requires\n' + f['requires'].rstrip() + '\n'
    if f.get('ensures'): contract += '\n    ensures\n' + f['ensures'].rstrip() + '\n'
    if f.get('decreases'): contract += '\n    decreases ' + f['decreases'].strip() + '\n'
    cbody = clean[bo:bc + 1]
    inserts = []
    lps = loops(clean, bo, bc)
    for lp in f.get('loop', []):
        if lp['ordinal'] >= len(lps):
            raise LostAnchor('loop ordinal %d of `%s` not found (function has %d loops)' % (lp['ordinal'], f['fn'], len(lps)))
        kwi, lbo, lbc = lps[lp['ordinal']]
        txt = '\n        invariant\n' + lp['invariant'].rstrip() + '\n'
        if lp.get('decreases'): txt += '        decreases ' + lp['decreases'] + '\n'
        inserts.append((lbo - bo, txt + '    '))
        if lp.get('body_end'): inserts.append((lbc - bo, '    proof {\n' + lp['body_end'].rstrip() + '\n        }\n    '))
        if lp.get('body_start') or lp.get('body_start_ghost'):
            inserts.append((lbo - bo + 1, ('\n        ' + lp['body_start_ghost'].rstrip() if lp.get('body_start_ghost') else '') +
                            ('\n        proof {\n' + lp['body_start'].rstrip() + '\n        }' if lp.get('body_start') else '')))
    if f.get('entry') or f.get('entry_ghost'):
        inserts.append((1, ('\n    ' + f['entry_ghost'].rstrip() if f.get('entry_ghost') else '') + ('\n    proof {\n' + f['entry'].rstrip() + '\n    }' if f.get('entry') else '')))
    if f.get('before_tail'):
        # start of the tail expression = just after the last statement at depth 1: the last `;` at depth 1
        # or the closing brace of the last loop at depth 1, whichever comes later
        depth = 0; last = None; depth_at = {}
        for k, ch in enumerate(cbody):
            if ch == '{': depth += 1
            elif ch == '}': depth -= 1
            elif ch == ';' and depth == 1: last = k
            depth_at[k] = depth
        pos = (last + 1) if last is not None else 1
        for kwi, lbo, lbc in lps:
            if depth_at.get(kwi - bo) == 1 and (lbc - bo + 1) > pos: pos = lbc - bo + 1
        inserts.append((pos, '\n        proof {\n' + f['before_tail'].rstrip() + '\n        }'))
    if f.get('at_end'):
        # only for functions without a tail expression: ghost block just before the closing brace
        inserts.append((len(body) - 1, '    proof {\n' + f['at_end'].rstrip() + '\n    }\n'))
    for bs in f.get('before_stmt', []):
        # last resort: anchor on statement text (whitespace-insensitive); `after = true` inserts behind the anchor text
        pat = bs['regex'] if bs.get('regex') else r'\s*'.join(re.escape(t) for t in bs['text'].split())
        ms = list(re.finditer(pat, body))
        if len(ms) <= bs.get('nth', 0):
            # soft anchor: the ghost text is simply not inserted. If the proof then fails, the function text has
            # necessarily changed w.r.t. the baseline (it verified there), and the failing obligation is reported.
            meta.setdefault('skipped_anchors', []).append(bs.get('regex') or bs['text'])
            continue
        m = ms[bs.get('nth', 0)]
        idx = m.end() if bs.get('after') else m.start()
        txt = ''
        if bs.get('ghost'): txt += bs['ghost'].rstrip() + '\n        '
        if bs.get('proof'): txt += 'proof {\n' + bs['proof'].rstrip() + '\n        }\n        '
        if bs.get('after'): txt = '\n        ' + txt
        inserts.append((idx, txt))
    for off, text in sorted(inserts, key=lambda x: x[0], reverse=True):
        body = body[:off] + text + body[off:]
    deviations = []
    for rp in f.get('replace', []):
        if rp['from'] not in header + body:
            raise LostAnchor('replace anchor `%s` of `%s` not found' % (rp['from'], f['fn']))
        header = header.replace(rp['from'], rp['to']); body = body.replace(rp['from'], rp['to'])
        deviations.append({'from': rp['from'], 'to': rp['to'], 'why': rp.get('why', '')})
    if f.get('rename'): header = re.sub(r'\bfn\s+' + re.escape(f['fn']) + r'\b', 'fn ' + f['rename'], header, count=1)
    item = (keep_quals + ' ' if keep_quals else '') + header + contract + body
    if hoisted: item = '\n\n'.join(hoisted) + '\n\n' + item
    if deviations: meta.setdefault('deviations', []).extend(deviations)
    return item, meta


def build(repo, spec):
    """spec: parsed TOML. returns (file_text, metas)"""
    default_file = spec.get('file')
    items, metas = [], []
    if default_file:
        src0 = open(os.path.join(repo, default_file)).read(); clean0 = strip_tokens(src0)
    for st in spec.get('struct', []):
        p = os.path.join(repo, st.get('file', default_file)); s = open(p).read(); c = strip_tokens(s)
        items.append(st.get('attrs', '#[allow(non_camel_case_types)]\n#[derive(Copy, Clone)]') + '\n' + find_item_block(s, c, st.get('kw', 'struct'), st['name']))
    impl_items = {}
    for cst in spec.get('const', []):
        p = os.path.join(repo, cst.get('file', default_file)); s = open(p).read(); c = strip_tokens(s)
        if cst.get('impl'):
            done = False
            for sp in find_impls(c, cst['impl']):
                try:
                    impl_items.setdefault(cst.get('impl_as', cst['impl']), []).append('    ' + find_const(s, c, cst['name'], sp)); done = True; break
                except LostAnchor: pass
            if not done: raise LostAnchor('const `%s` not found in impl %s' % (cst['name'], cst['impl']))
        else:
            items.append(find_const(s, c, cst['name']))
    for f in spec['extract']:
        it, me = extract_fn(repo, default_file, f)
        if f.get('impl') and not f.get('free'):
            impl_items.setdefault(f.get('impl_as', f['impl']), []).append(it)
        else:
            items.append(it)
        metas.append(me)
    for name, its in impl_items.items():
        extra = spec.get('impl_prelude', {}).get(name, '')
        items.append('impl ' + name + ' {\n' + extra + '\n' + '\n\n'.join(its) + '\n}')
    out = 'use vstd::prelude::*;\nverus! {\n' + spec.get('prelude', '') + '\n' + '\n\n'.join(items) + '\n' + spec.get('epilogue', '') + '\n}\nfn main() {}\n'
    return out, metas
