"""Run Verus units: extract the real text from REPO, splice the contract, verify, classify."""
import json, os, re, subprocess, time, hashlib
from . import extract

ROOT = os.path.dirname(os.path.dirname(os.path.abspath(__file__)))


def _run_verus(path):
    t0 = time.time()
    try:
        p = subprocess.run(['verus', path, '--output-json', '--time', '--rlimit', '60'], capture_output=True, text=True, timeout=900,
                           cwd=os.path.dirname(path))
    except subprocess.TimeoutExpired:
        return None, 'verus timed out', time.time() - t0
    try:
        data = json.loads(p.stdout)
    except Exception:
        data = None
    return data, p.stderr, time.time() - t0


def _errors(stderr):
    errs = []
    for m in re.finditer(r'^(error(?:\[E\d+\])?): (.*)\n\s+--> ([^\n:]+):(\d+):(\d+)', stderr, flags=re.M):
        errs.append({'kind': m.group(1), 'msg': m.group(2), 'line': int(m.group(4))})
    return errs


def _fn_at_line(text, line):
    """name of the fn whose text contains `line` (1-based) in the generated file"""
    best = None
    for m in re.finditer(r'\bfn\s+(\w+)', text):
        ln = text.count('\n', 0, m.start()) + 1
        if ln <= line: best = m.group(1)
        else: break
    return best


def _canaries(text, metas, spec):
    """for every verified exec fn with a `requires` and no &mut parameter: a proof fn with the same
    requires and `ensures false` which must FAIL (vacuity guard)."""
    out = []
    for f in spec['extract']:
        if f.get('mode') == 'assume' or not f.get('requires') or 'old(' in f.get('requires', ''): continue
        name = f.get('rename', f['fn'])
        m = re.search(r'\bfn\s+' + re.escape(name) + r'\s*(<[^>(]*>)?\s*\(', text)
        if not m: continue
        # parameter list by paren matching
        i = m.end() - 1; depth = 0; k = i
        while True:
            if text[k] == '(': depth += 1
            elif text[k] == ')':
                depth -= 1
                if depth == 0: break
            k += 1
        params = text[i + 1:k]
        if '&mut' in params: continue
        params = re.sub(r'\bmut\s+', '', params)
        gen = m.group(1) or ''
        out.append((f, 'proof fn canary__%s%s(%s)\n    requires\n%s\n    ensures false\n{}\n' % (name, gen, params, f['requires'].rstrip())))
    return out


def run_unit(repo, unit, work_dir, baseline):
    """returns result dict: state ok|violation|undecided, obligations, functions, failed[]"""
    spec = unit['spec']
    os.makedirs(work_dir, exist_ok=True)
    res = {'failed': [], 'functions': [], 'time_s': 0.0, 'checks': 0}
    try:
        text, metas = extract.build(repo, spec)
    except extract.LostAnchor as e:
        res.update(state='undecided', why='lost anchor: %s' % e); return res
    except FileNotFoundError as e:
        res.update(state='undecided', why='source file missing: %s' % e); return res
    res['functions'] = metas
    path = os.path.join(work_dir, re.sub(r'\W', '_', unit['id']) + '.rs')
    open(path, 'w').write(text)
    data, stderr, wall = _run_verus(path)
    res['time_s'] = wall
    res['file'] = path
    if data is None or 'verification-results' not in data:
        res.update(state='undecided', why='Verus produced no result (front-end failure): ' + (stderr or '')[-800:]); return res
    vr = data['verification-results']
    errs = _errors(stderr)
    breakdown = []
    try:
        for mod in data['times-ms']['smt']['smt-run-module-times']:
            breakdown += mod.get('function-breakdown', [])
    except Exception:
        pass
    res['verified'] = vr.get('verified', 0)
    res['checks'] = vr.get('verified', 0)
    res['smt_ms'] = data.get('times-ms', {}).get('smt', {}).get('total')
    res['breakdown'] = [{'function': b['function'].split('::')[-1], 'mode': b.get('mode:'), 'ms': b.get('time'), 'success': b.get('success')} for b in breakdown]
    front_end = vr.get('encountered-vir-error') or any(e['kind'] != 'error' for e in errs) or \
        any(re.search(r'not supported|unsupported|cannot find|mismatched types|expected|syntax|unresolved|no method|The verifier does not yet support', e['msg']) for e in errs)
    if vr.get('success'):
        # vacuity: canaries must fail
        cans = _canaries(text, metas, spec)
        if cans:
            # insert canaries before the closing of verus! { }
            idx = text.rfind('}\nfn main() {}')
            impl_cans = [c for f, c in cans if f.get('impl') and not f.get('free')]
            free_cans = [c for f, c in cans if not (f.get('impl') and not f.get('free'))]
            ctext = text[:idx] + '\n'.join(free_cans) + '\n'
            # canaries of methods go into a fresh impl block of the same type
            for f, c in cans:
                if f.get('impl') and not f.get('free'):
                    ctext += 'impl %s {\n%s}\n' % (f.get('impl_as', f['impl']), c)
            ctext += text[idx:]
            cpath = path[:-3] + '.canary.rs'
            open(cpath, 'w').write(ctext)
            cdata, cerr, cw = _run_verus(cpath)
            res['time_s'] += cw
            ok_canaries = 0
            if cdata and 'times-ms' in cdata:
                bd = []
                try:
                    for mod in cdata['times-ms']['smt']['smt-run-module-times']: bd += mod.get('function-breakdown', [])
                except Exception: pass
                vac = [b['function'] for b in bd if 'canary__' in b['function'] and b.get('success')]
                ok_canaries = len([b for b in bd if 'canary__' in b['function'] and not b.get('success')])
                if vac:
                    res.update(state='undecided', why='vacuity guard: precondition contradictory for ' + ', '.join(vac)); return res
            res['canaries_failed_as_required'] = ok_canaries
        res['state'] = 'ok'
        return res
    if front_end or vr.get('errors', 0) == 0:
        res.update(state='undecided', why='Verus front-end error (unsupported construct / type error), not a proof failure: ' + '; '.join(e['msg'] for e in errs[:3]) + (stderr[-600:] if not errs else ''))
        return res
    # genuine proof failure(s): map back to functions
    gen_text = text
    failed_fns = set()
    for e in errs:
        fn = _fn_at_line(gen_text, e['line'])
        # map generated line to source line
        src_line = None; src_file = None
        for me in metas:
            if me['fn'] == fn or fn == me.get('rename'):
                src_file = me['file']; src_line = me['lines'][0]
        res['failed'].append({'description': e['msg'], 'function': fn, 'generated_line': e['line'], 'source': '%s:%s' % (src_file, src_line) if src_file else None,
                              'snippet': gen_text.split('\n')[e['line'] - 1].strip()[:200] if 0 < e['line'] <= gen_text.count('\n') + 1 else ''})
        failed_fns.add(fn)
    for b in breakdown:
        if not b.get('success'): failed_fns.add(b['function'].split('::')[-1])
    # compare hashes with baseline: identical text + failing proof = solver instability, not a violation
    base = (baseline or {}).get(unit['id'], {}).get('sha', {})
    changed = [me['fn'] for me in metas if base.get(me['fn'] if not me.get('impl') else me['impl'] + '::' + me['fn']) not in (None, me['sha256'])]
    res['changed_functions'] = changed
    res['verifier_output'] = stderr[-4000:]
    if base and not changed:
        res.update(state='undecided', why='proof failed on text byte-identical to the baseline (solver instability): ' + '; '.join(e['msg'] for e in errs[:3]))
    else:
        res['state'] = 'violation'
    return res


def sha_map(metas):
    return {(me['fn'] if not me.get('impl') else me['impl'] + '::' + me['fn']): me['sha256'] for me in metas}
