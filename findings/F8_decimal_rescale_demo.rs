use arrow_array::{Array, Decimal256Array};
use arrow_buffer::i256;
use arrow_cast::{cast_with_options, CastOptions};
use arrow_schema::DataType;
#[test]
fn upscale_overflowing_precision_sum() {
    let a = Decimal256Array::from(vec![i256::from_i128(10)]).with_precision_and_scale(76, 0).unwrap();
    let r = cast_with_options(&a, &DataType::Decimal256(76, 76), &CastOptions { safe: true, ..Default::default() }).unwrap();
    assert!(r.is_null(0), "10 * 10^76 does not fit 76 digits: safe cast must give null");
    let r = cast_with_options(&a, &DataType::Decimal256(76, 76), &CastOptions { safe: false, ..Default::default() });
    assert!(r.is_err());
}
#[test]
fn scale_difference_exceeding_i8() {
    let a = Decimal256Array::from(vec![i256::from_i128(1)]).with_precision_and_scale(76, -76).unwrap();
    let r = cast_with_options(&a, &DataType::Decimal256(76, 76), &CastOptions { safe: false, ..Default::default() });
    assert!(r.is_err());
}
