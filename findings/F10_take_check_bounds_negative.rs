use arrow_array::{Int32Array, Int8Array};
use arrow_select::take::{take, TakeOptions};

// candidate defect F5: check_bounds accepts a negative valid index when the index array contains a null
#[test]
fn negative_index_with_null_and_check_bounds() {
    let values = Int32Array::from(vec![10, 20]);
    let indices = Int8Array::from(vec![Some(-1), None]);
    let r = std::panic::catch_unwind(|| take(&values, &indices, Some(TakeOptions { check_bounds: true })));
    match r {
        Ok(Ok(a)) => panic!("take returned Ok: {a:?}"),
        Ok(Err(e)) => println!("take returned Err as documented: {e}"),
        Err(_) => panic!("DEFECT REPRODUCED: take panicked although check_bounds was requested"),
    }
}

// same input without the null: the no-null branch of check_bounds does test `>= 0`
#[test]
fn negative_index_without_null_and_check_bounds() {
    let values = Int32Array::from(vec![10, 20]);
    let indices = Int8Array::from(vec![Some(-1), Some(0)]);
    let r = take(&values, &indices, Some(TakeOptions { check_bounds: true }));
    assert!(r.is_err());
}
