#!/usr/bin/env python3
# marks not-yet-confirmed generated units (run after gen_cast_mod.py / gen_decimal.py)
import re,sys
NOTE="// NOT CONFIRMED under load (never seen to finish on the shared machine, load 40-75): keep tier=thorough until re-measured\n"
CONFIRMED_DEC={'rescale32_same0','rescale32_up1','rescale32_up2','rescale32_down1','rescale32_down2','decimal_cast_from_i32','decimal_cast_from_i64','decimal_cast_from_i128','decimal_cast_from_i256','float_to_decimal32_scale0','float_to_decimal64_scale0','rescale32_allscales_same0','rescale32_allscales_up2','rescale32_allscales_down2'}
CONFIRMED_DEC |= set(l.strip() for l in open('/tmp/dev/cast/gen/confirmed.txt')) if __import__('os').path.exists('/tmp/dev/cast/gen/confirmed.txt') else set()
def run(path, confirmed_all=False, unconfirmed=()):
    s=open(path).read(); out=[]; 
    for line in s.split('\n'):
        m=re.match(r'// @unit name=(\S+) ',line)
        if m:
            n=m.group(1)
            unc = (n in unconfirmed) if confirmed_all else (n not in CONFIRMED_DEC)
            if unc:
                line=re.sub(r'tier=\w+','tier=thorough',line) if 'tier=' in line else line+' tier=thorough'
                out.append(NOTE.rstrip('\n'))
        out.append(line)
    open(path,'w').write('\n'.join(out))
run('/tmp/dev/cast/kani/arrow-cast/cast/decimal.rs')
unc=set(l.strip() for l in open('/tmp/dev/cast/gen/unconfirmed_mod.txt')) if __import__('os').path.exists('/tmp/dev/cast/gen/unconfirmed_mod.txt') else set()
run('/tmp/dev/cast/kani/arrow-cast/cast/mod.rs', confirmed_all=True, unconfirmed=unc)
