#!/usr/bin/env python3
# generator for /tmp/dev/cast/kani/arrow-cast/cast/mod.rs (macro instance lines only; the macro bodies are literal text)
ints = ['i8','i16','i32','i64','u8','u16','u32','u64']
def rng(t):
    b = int(t[1:]); return (-(1<<(b-1)), (1<<(b-1))-1) if t[0]=='i' else (0,(1<<b)-1)
out = []
out.append(open('/tmp/dev/cast/gen/cast_mod_head.rs').read())
out.append('// ---- int -> int: all 64 ordered pairs, one harness per source type ----\n')
for i in ints:
    nar = [o for o in ints if rng(i)[0] < rng(o)[0] or rng(i)[1] > rng(o)[1]]
    wid = [o for o in ints if o not in nar]
    n = f'nc_from_{i}'
    out.append(f'// @unit name={n} props=C13 kind=complete fns=num_cast timeout=120\nnc_int_from!({n}, {i}; narrow: [{", ".join(nar)}]; widen: [{", ".join(wid)}]);\n')
out.append('\n// ---- float -> int ----\n')
for f in ['f32','f64']:
    for o in ints:
        n = f'nc_{f}_{o}'
        out.append(f'// @unit name={n} props=C13 kind=complete fns=num_cast timeout=240\nnc_float_int!({n}, {f}, {o}, trunc_{f});\n')
out.append('\n// ---- int -> float: one harness per target float type, all 8 source types inside ----\n')
for f,p in [('f32',24),('f64',53)]:
    lossy = [i for i in ints if int(i[1:]) > p]
    exact = [i for i in ints if i not in lossy]
    n = f'nc_int_to_{f}'
    out.append(f'// @unit name={n} props=C13 kind=complete fns=num_cast timeout=240\nnc_int_to_float!({n}, {f}, trunc_{f}, {p}; lossy: [{", ".join(lossy)}]; exact: [{", ".join(exact)}]);\n')
out.append(open('/tmp/dev/cast/gen/cast_mod_tail.rs').read())
open('/tmp/dev/cast/kani/arrow-cast/cast/mod.rs','w').write(''.join(out))
