
// ---- scratch experiments (to be removed) ----
#[kani::proof]
#[kani::unwind(6)]
#[kani::stub(alloc::fmt::format, stub_format)]
fn exp_try3() {
    let vals: [i64; 3] = kani::any();
    let bits: u8 = kani::any();
    let arr: PrimitiveArray<Int64Type> = mk_prim::<Int64Type>(vals.to_vec(), Some(bits), 3);
    let strict = try_numeric_cast::<Int64Type, Int32Type>(&arr);
    if let Ok(s) = &strict { assert!(s.len() == 3); }
    std::mem::forget(strict);
    std::mem::forget(arr);
}
#[kani::proof]
#[kani::unwind(6)]
#[kani::stub(alloc::fmt::format, stub_format)]
fn exp_safe3() {
    let vals: [i64; 3] = kani::any();
    let bits: u8 = kani::any();
    let arr: PrimitiveArray<Int64Type> = mk_prim::<Int64Type>(vals.to_vec(), Some(bits), 3);
    let safe = numeric_cast::<Int64Type, Int32Type>(&arr);
    assert!(safe.len() == 3);
    std::mem::forget(safe);
    std::mem::forget(arr);
}
#[kani::proof]
#[kani::unwind(6)]
#[kani::stub(alloc::fmt::format, stub_format)]
fn exp_safe1() {
    let vals: [i64; 1] = kani::any();
    let bits: u8 = kani::any();
    let arr: PrimitiveArray<Int64Type> = mk_prim::<Int64Type>(vals.to_vec(), Some(bits), 1);
    let safe = numeric_cast::<Int64Type, Int32Type>(&arr);
    assert!(safe.len() == 1);
    std::mem::forget(safe);
    std::mem::forget(arr);
}
