#!/usr/bin/env python3
out=[open('/tmp/dev/cast/gen/decimal_head.rs').read()]
def nm(d): return ('up%d'%d) if d>0 else ('down%d'%-d) if d<0 else 'same0'
def pair(d): return (-d,0) if d>=0 else (0,d)
def flags(d,mi,mo):
    # fast (infallible) path reachable? slow (fallible) path reachable?  (precisions range over 1..=mi / 1..=mo)
    if d>=0: return ('true' if 1+d<=mo else 'false', 'true', 'true' if d<mo else 'false')
    return ('true', 'true' if mi+d>=1 else 'false', 'true')
D32='Decimal32Type, Decimal32Type, i32, i32, 9, 9, i64, Q10, fits64, is_result64'
out.append('// ---- Decimal32 -> Decimal32, fixed scale pair per delta ----\n')
for d in range(-9,10):
    s,o=pair(d); fn='make_upscaler' if d>=0 else 'make_downscaler'
    quick = abs(d)<=2
    n=f'rescale32_{nm(d)}'
    out.append(f'// @unit name={n} props=C13 kind=bounded bound=scale_pair_fixed_({s},{o})_value_and_both_precisions_full_domain fns=rescale_decimal,{fn},apply_rescaler tier={"quick" if quick else "thorough"} mem=3 timeout={480 if quick else 900}\n')
    f,sl,nz=flags(d,9,9)
    out.append(f'rescale_fixed!({n}, {D32}, {s}, {o}, {f}, {sl}, {nz});\n')
out.append('\n// ---- Decimal32 -> Decimal32, every valid scale pair with the given difference ----\n')
for d in range(-9,10):
    fn='make_upscaler' if d>=0 else 'make_downscaler'
    n=f'rescale32_allscales_{nm(d)}'
    out.append(f'// @unit name={n} props=C13 kind=complete fns=rescale_decimal,{fn},apply_rescaler tier=thorough mem=4 timeout=900\n')
    f,sl,nz=flags(d,9,9)
    out.append(f'rescale_allscales!({n}, Decimal32Type, i32, 9, i64, Q10, fits64, is_result64, {d}, {f}, {sl}, {nz});\n')
out.append('\n// ---- fast path == fallible path (Decimal32) ----\n')
for d in (1,2,9,-1,-2,-9):
    s,o=pair(d); fn='make_upscaler' if d>=0 else 'make_downscaler'
    n=f'paths32_{nm(d)}'
    out.append(f'// @unit name={n} props=C13 kind=bounded bound=scale_pair_fixed_({s},{o})_value_and_both_precisions_full_domain fns={fn} tier=thorough mem=3 timeout=900\n')
    f,sl,nz=flags(d,9,9)
    out.append(f'paths_agree!({n}, Decimal32Type, i32, 9, i64, Q10, is_result64, {s}, {o}, {fn}, {f}, {sl});\n')
out.append('\n// ---- Decimal64 -> Decimal64 (a few deltas), and cross-width ----\n')
D64='Decimal64Type, Decimal64Type, i64, i64, 18, 18, i128, P10, fits128, is_result128'
for d in (1,9,18,-1,-9,-18):
    s,o=pair(d); fn='make_upscaler' if d>=0 else 'make_downscaler'
    n=f'rescale64_{nm(d)}'
    out.append(f'// @unit name={n} props=C13 kind=bounded bound=scale_pair_fixed_({s},{o})_value_and_both_precisions_full_domain fns=rescale_decimal,{fn},apply_rescaler tier=thorough mem=4 timeout=900\n')
    f,sl,nz=flags(d,18,18)
    out.append(f'rescale_fixed!({n}, {D64}, {s}, {o}, {f}, {sl}, {nz});\n')
for d in (2,-2):
    s,o=pair(d); fn='make_upscaler' if d>=0 else 'make_downscaler'
    n=f'rescale32to64_{nm(d)}'
    out.append(f'// @unit name={n} props=C13 kind=bounded bound=scale_pair_fixed_({s},{o})_value_and_both_precisions_full_domain fns=rescale_decimal,{fn},apply_rescaler tier=thorough mem=4 timeout=900\n')
    out.append(f'rescale_fixed!({n}, Decimal32Type, Decimal64Type, i32, i64, 9, 18, i128, P10, fits128, is_result128, {s}, {o}, {flags(d,9,18)[0]}, {flags(d,9,18)[1]}, {flags(d,9,18)[2]});\n')
    n=f'rescale64to32_{nm(d)}'
    out.append(f'// @unit name={n} props=C13 kind=bounded bound=scale_pair_fixed_({s},{o})_value_and_both_precisions_full_domain fns=rescale_decimal,{fn},apply_rescaler tier=thorough mem=4 timeout=900\n')
    out.append(f'rescale_fixed!({n}, Decimal64Type, Decimal32Type, i64, i32, 18, 9, i128, P10, fits128, is_result128, {s}, {o}, {flags(d,18,9)[0]}, {flags(d,18,9)[1]}, {flags(d,18,9)[2]});\n')
out.append(open('/tmp/dev/cast/gen/decimal_tail.rs').read())
open('/tmp/dev/cast/kani/arrow-cast/cast/decimal.rs','w').write(''.join(out))
