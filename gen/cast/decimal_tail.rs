
// ---- scale differences outside the multiplier table ----

// Contract (C13; doc of rescale_decimal: "When the scaling factor exceeds the precision table of the
// destination type, the value is treated as an overflow for upscaling, or rounded to zero for
// downscaling"): for every valid (ip,is),(op,os) of Decimal32 with |os - is| >= 10 (difference
// in -127..=127, see finding_rescale32_scale_difference_overflow for the rest) and |x| < 10^ip:
//   os - is >= 10, x != 0:  x*10^(os-is) has more than 9 digits           => None
//   os - is <= -10:         |x| / 10^(is-os) < 0.1 rounds (half away) to 0 => Some(0)
// (x == 0 with os - is >= 10 is excluded: see finding_rescale32_zero_upscale_beyond_table.)
// @unit name=rescale32_beyond_table props=C13 kind=complete fns=rescale_decimal,make_upscaler,make_downscaler timeout=600 mem=3
#[kani::proof]
#[kani::unwind(22)]
#[kani::stub(alloc::fmt::format, stub_format)]
fn rescale32_beyond_table() {
    let x: i32 = kani::any();
    let (ip, op): (u8, u8) = (kani::any(), kani::any());
    let (is, os): (i8, i8) = (kani::any(), kani::any());
    kani::assume(valid_ps(ip, is, 9) && valid_ps(op, os, 9));
    let delta = os as i16 - is as i16;
    kani::assume(delta >= -127 && delta <= 127);   // both `os - is` (upscaler) and `is - os` (downscaler) representable in i8
    kani::assume(delta >= 10 || delta <= -10);
    kani::assume((if x < 0 { -(x as i64) } else { x as i64 }) < Q10[ip as usize]);
    kani::assume(delta < 0 || x != 0);
    let r = rescale_decimal::<Decimal32Type, Decimal32Type>(x, ip, is, op, os);
    if delta > 0 { assert!(r.is_none()); } else { assert!(r == Some(0)); }
    kani::cover!(delta >= 10);
    kani::cover!(delta <= -10 && x != 0);
    kani::cover!(delta == 127);
    kani::cover!(delta == -127);
}

// KNOWN FINDING F1 (registered so that the runner prints KNOWN-FINDING; FAILS on the current code).
// Contract (C13): the value 0 is representable at every scale, so rescaling 0 must give Some(0) for every
// valid type pair. The code reports overflow (None) as soon as the scale increase exceeds the multiplier
// table (documented as "treated as an overflow for upscaling"); the array kernel
// convert_to_bigger_or_equal_scale_decimal returns Err even in safe mode and even for empty/all-null input.
// Concrete input: rescale_decimal::<Decimal32Type,Decimal32Type>(0, 9, -5, 9, 9) == None, expected Some(0).
// @unit name=finding_rescale32_zero_upscale_beyond_table props=C13 kind=bounded bound=one_concrete_input_(0,9,-5,9,9) fns=rescale_decimal,make_upscaler timeout=300 mem=3
#[kani::proof]
#[kani::unwind(22)]
#[kani::stub(alloc::fmt::format, stub_format)]
fn finding_rescale32_zero_upscale_beyond_table() {
    let r = rescale_decimal::<Decimal32Type, Decimal32Type>(0, 9, -5, 9, 9);
    kani::cover!(true);
    assert!(r == Some(0));
}

// Former finding F2, fixed in /repo by 2659b04 (scale arithmetic in i16); this unit FAILS on a pre-fix tree
// with "attempt to subtract with overflow". validate_decimal_precision_and_scale puts no lower bound on the
// scale, so scale differences outside i8 are reachable through valid types.
// Contract (C13): for every valid (ip,is),(op,os) of Decimal32 whose scale difference os - is does NOT fit
// i8 (< -127 or > 127) and every |x| < 10^ip: no panic/overflow, and
//   os - is > 127  (x != 0):  None      (x * 10^(os-is) has far more than 9 digits)
//   os - is < -127:           Some(0)   (|x| / 10^(is-os) rounds to 0)
// in particular (1, 9, -128, 9, 9) -> None and (1, 9, 9, 9, -119) -> Some(0).
// @unit name=finding_rescale32_scale_difference_overflow props=C13 kind=complete fns=rescale_decimal,make_upscaler,make_downscaler timeout=600 mem=3 tier=thorough
#[kani::proof]
#[kani::unwind(22)]
#[kani::stub(alloc::fmt::format, stub_format)]
fn finding_rescale32_scale_difference_overflow() {
    assert!(rescale_decimal::<Decimal32Type, Decimal32Type>(1, 9, -128, 9, 9).is_none());
    assert!(rescale_decimal::<Decimal32Type, Decimal32Type>(1, 9, 9, 9, -119) == Some(0));
    let x: i32 = kani::any();
    let (ip, op): (u8, u8) = (kani::any(), kani::any());
    let (is, os): (i8, i8) = (kani::any(), kani::any());
    kani::assume(valid_ps(ip, is, 9) && valid_ps(op, os, 9));
    let delta = os as i16 - is as i16;
    kani::assume(delta > 127 || delta < -127);
    kani::assume((if x < 0 { -(x as i64) } else { x as i64 }) < Q10[ip as usize]);
    kani::assume(delta < 0 || x != 0);
    let r = rescale_decimal::<Decimal32Type, Decimal32Type>(x, ip, is, op, os);
    if delta > 0 { assert!(r.is_none()); } else { assert!(r == Some(0)); }
    kani::cover!(delta > 127);
    kani::cover!(delta < -127 && x != 0);
}

// ---- DecimalCast: value-preserving or None ----

/// mathematical value of an i256 given as (low, high) fits i128 <=> high is the sign extension of low
fn i256_as_i128(v: i256) -> Option<i128> {
    let (lo, hi) = v.to_parts();
    let ext: i128 = if (lo as i128) < 0 { -1 } else { 0 };
    if hi == ext { Some(lo as i128) } else { None }
}

// Contract (C13): for S in {i32,i64,i128}: every DecimalCast conversion of x: S to a target T in
// {i32,i64,i128,i256} (to_*, and T::from_decimal(x)) is Some(v) <=> x lies in range(T), and then v is
// the same mathematical integer (i256 results are checked through their (low, high) parts: high must
// be the sign extension and low the two's complement of x).
macro_rules! dc_prim {
    ($name:ident, $s:ty) => {
        #[kani::proof]
        #[allow(trivial_numeric_casts)]
        fn $name() {
            let x: $s = kani::any();
            let xi = x as i128;
            let want32 = if xi >= i32::MIN as i128 && xi <= i32::MAX as i128 { Some(xi as i32) } else { None };
            let want64 = if xi >= i64::MIN as i128 && xi <= i64::MAX as i128 { Some(xi as i64) } else { None };
            assert!(DecimalCast::to_i32(x) == want32);
            assert!(DecimalCast::to_i64(x) == want64);
            assert!(DecimalCast::to_i128(x) == Some(xi));
            let w = DecimalCast::to_i256(x);
            assert!(w.is_some() && i256_as_i128(w.unwrap()) == Some(xi));
            assert!(<i32 as DecimalCast>::from_decimal::<$s>(x) == want32);
            assert!(<i64 as DecimalCast>::from_decimal::<$s>(x) == want64);
            assert!(<i128 as DecimalCast>::from_decimal::<$s>(x) == Some(xi));
            let w2 = <i256 as DecimalCast>::from_decimal::<$s>(x);
            assert!(w2.is_some() && i256_as_i128(w2.unwrap()) == Some(xi));
            kani::cover!(x < 0);
            kani::cover!(want64.is_some() && x != 0);
        }
    };
}
// @unit name=decimal_cast_from_i32 props=C13 kind=complete fns=DecimalCast::to_i32,DecimalCast::to_i64,DecimalCast::to_i128,DecimalCast::to_i256,DecimalCast::from_decimal timeout=120
dc_prim!(decimal_cast_from_i32, i32);
// @unit name=decimal_cast_from_i64 props=C13 kind=complete fns=DecimalCast::to_i32,DecimalCast::to_i64,DecimalCast::to_i128,DecimalCast::to_i256,DecimalCast::from_decimal timeout=120
dc_prim!(decimal_cast_from_i64, i64);
// @unit name=decimal_cast_from_i128 props=C13 kind=complete fns=DecimalCast::to_i32,DecimalCast::to_i64,DecimalCast::to_i128,DecimalCast::to_i256,DecimalCast::from_decimal timeout=120
dc_prim!(decimal_cast_from_i128, i128);

// Contract (C13): for every 256-bit value x = high * 2^128 + low: to_i128 is Some(v) <=> x fits i128
// (high is the sign extension of low), v the same integer; to_i64 / to_i32 likewise with the narrower
// range; to_i256 and i256::from_decimal(x) are the identity on both parts.
// @unit name=decimal_cast_from_i256 props=C13 kind=complete fns=DecimalCast::to_i32,DecimalCast::to_i64,DecimalCast::to_i128,DecimalCast::to_i256,DecimalCast::from_decimal timeout=120
#[kani::proof]
fn decimal_cast_from_i256() {
    let lo: u128 = kani::any();
    let hi: i128 = kani::any();
    let x = i256::from_parts(lo, hi);
    let small = i256_as_i128(x);
    let want64 = match small { Some(v) if v >= i64::MIN as i128 && v <= i64::MAX as i128 => Some(v as i64), _ => None };
    let want32 = match small { Some(v) if v >= i32::MIN as i128 && v <= i32::MAX as i128 => Some(v as i32), _ => None };
    assert!(DecimalCast::to_i128(x) == small);
    assert!(DecimalCast::to_i64(x) == want64);
    assert!(DecimalCast::to_i32(x) == want32);
    assert!(DecimalCast::to_i256(x).map(|v| v.to_parts()) == Some((lo, hi)));
    assert!(<i256 as DecimalCast>::from_decimal::<i256>(x).map(|v| v.to_parts()) == Some((lo, hi)));
    assert!(<i128 as DecimalCast>::from_decimal::<i256>(x) == small);
    assert!(<i64 as DecimalCast>::from_decimal::<i256>(x) == want64);
    assert!(<i32 as DecimalCast>::from_decimal::<i256>(x) == want32);
    kani::cover!(small.is_none() && hi == -1);
    kani::cover!(small.is_none() && hi == 0);
    kani::cover!(matches!(small, Some(v) if v < 0) && want64.is_none());
    kani::cover!(matches!(want32, Some(v) if v < 0));
}

// ---- float -> decimal native (scale 0) ----

/// round-half-away-from-zero of the f64 with the given bit pattern, as a mathematical integer;
/// None for NaN/inf and for |x| >= 2^114 (outside every 64-bit range). Decoded by hand from the bits.
fn round_f64(bits: u64) -> Option<i128> {
    let neg = bits >> 63 == 1;
    let e = ((bits >> 52) & 0x7ff) as i32;
    let m = bits & ((1u64 << 52) - 1);
    if e == 0x7ff { return None; }
    if e == 0 { return Some(0); }                          // +-0, subnormal
    let sig = (m | (1u64 << 52)) as i128;                   // x = +-sig * 2^(e-1075)
    let sh = e - 1075;
    let mag: i128 = if sh >= 0 {
        if sh > 61 { return None; }
        sig << (sh as u32)
    } else if sh <= -54 {
        0                                                   // |x| < 1/2
    } else {
        let s = (-sh) as u32;                               // 1..=53
        let t = sig >> s;
        let frac = sig - (t << s);
        if 2 * frac >= (1i128 << s) { t + 1 } else { t }
    };
    Some(if neg { -mag } else { mag })
}

// Contract (C13, float -> decimal at scale 0, i.e. mul == 1.0): single_float_to_decimal::<D>(x, 1.0) is
// Some(v) <=> x is finite and round-half-away-from-zero(x) lies in range(D::Native); then v is that
// integer. NaN / +-inf / out of range => None. Also DecimalCast::from_f64 (truncation) for i32 and i64:
// Some(v) <=> x finite and trunc(x) in range, v = trunc(x): checked on the already-rounded input where
// trunc is the identity.
macro_rules! float_to_dec {
    ($name:ident, $d:ty, $nat:ty) => {
        #[kani::proof]
        fn $name() {
            let x: f64 = kani::any();
            let r: Option<$nat> = single_float_to_decimal::<$d>(x, 1.0);
            let want: Option<$nat> = match round_f64(x.to_bits()) {
                Some(t) if t >= <$nat>::MIN as i128 && t <= <$nat>::MAX as i128 => Some(t as $nat),
                _ => None,
            };
            assert!(r == want);
            kani::cover!(matches!(r, Some(v) if v < 0));
            kani::cover!(matches!(r, Some(v) if v > 0) && x.fract() == 0.5);     // tie rounds away from zero
            kani::cover!(r.is_none() && x.is_finite());
            kani::cover!(r.is_none() && x.is_nan());
        }
    };
}
// @unit name=float_to_decimal32_scale0 props=C13 kind=complete fns=single_float_to_decimal,DecimalCast::from_f64 timeout=300
float_to_dec!(float_to_decimal32_scale0, Decimal32Type, i32);
// @unit name=float_to_decimal64_scale0 props=C13 kind=complete fns=single_float_to_decimal,DecimalCast::from_f64 timeout=300
float_to_dec!(float_to_decimal64_scale0, Decimal64Type, i64);
