#!/bin/bash
cd /tmp/wt/cast
H=""
for h in predicate::verif_kani::ilike_nonregex_matches_reference predicate::verif_kani::like_contains_w1 predicate::verif_kani::like_contains_w11 predicate::verif_kani::like_contains_w3 substring::verif_kani::substring_by_char_utf8_s1_l1 substring::verif_kani::substring_by_char_utf8_sneg2_none substring::verif_kani::substring_by_char_ascii_sneg2_l1 substring::verif_kani::byte_substring_utf8_split_err substring::verif_kani::byte_substring_utf8_ok substring::verif_kani::byte_substring_utf8_neg_start concat_elements::verif_kani::concat_utf8_shape_a concat_elements::verif_kani::concat_utf8_shape_b_sliced length::verif_kani::length_i64_bitmap length::verif_kani::bit_length_i32_nonulls length::verif_kani::bit_length_i64_bitmap; do H="$H --harness $h"; done
CARGO_NET_OFFLINE=true cargo kani -p arrow-string --lib -Z stubbing -Z unstable-options --target-dir /tmp/dev/cast/target --harness-timeout 1500 -j 2 --output-format=terse --exact $H 2>&1 | grep "Checking\|VERIFICATION\|Verification Time\|^error\|Failed Checks\| File\|failed\|timed\|cover prop\|out of memory\|Verification failed\|Complete"
echo finished
