#!/bin/bash
# deliberate breaks of arrow-string/src/predicate.rs, run against the LIKE units, then restore
cd /tmp/wt/cast
run() { CARGO_NET_OFFLINE=true timeout 3400 cargo kani -p arrow-string --lib -Z stubbing -Z unstable-options --target-dir /tmp/dev/cast/target --harness-timeout 1500 -j 1 --output-format=terse --exact "$@" 2>&1 | grep "Checking\|VERIFICATION\|Verification Time\|^error\|Failed Checks\| File\|failed\|timed"; }
echo "== break A: StartsWith branch without the clean-prefix check ('_%' -> StartsWith('_'))"
python3 - <<'PY'
p='arrow-string/src/predicate.rs'; s=open(p).read()
old="} else if pattern.ends_with('%') && !contains_like_pattern(&pattern[..pattern.len() - 1]) {"
assert s.count(old)==1
s=s.replace(old,"} else if pattern.ends_with('%') {")
open(p,'w').write(s)
PY
git diff --stat
run --harness predicate::verif_kani::like_nonregex_matches_reference
git checkout -- arrow-string/src/predicate.rs
echo "== break B: starts_with: needle.len() > haystack.len()  ->  >="
python3 - <<'PY'
p='arrow-string/src/predicate.rs'; s=open(p).read()
old="fn starts_with(haystack: &str, needle: &str, byte_eq_kernel: impl Fn((&u8, &u8)) -> bool) -> bool {\n    if needle.len() > haystack.len() {"
assert s.count(old)==1
s=s.replace(old,old.replace("needle.len() > haystack.len()","needle.len() >= haystack.len()"))
open(p,'w').write(s)
PY
git diff --stat
run --harness predicate::verif_kani::starts_ends_with_chars --harness predicate::verif_kani::like_nonregex_matches_reference
git checkout -- arrow-string/src/predicate.rs
git status --short
echo finished
