// Kani contract harnesses for /repo/arrow-cast/src/cast/mod.rs (child module: sees private items via super::)
// GENERATED instance lines (the 64+16+16 macro invocations) come from /tmp/dev/cast/gen/gen_cast_mod.py;
// macro bodies and spec helpers are hand-written.
use super::*;
#[path = "/verif/kani/support/spec.rs"]
mod spec;
use spec::*;
use arrow_buffer::{BooleanBuffer, Buffer, NullBuffer, ScalarBuffer};

// ---------------------------------------------------------------------------------------------
// Independent spec helpers (IEEE-754 binary32/binary64 decoded by hand from the bit pattern; no
// float operation of the platform, no num-traits call).
// ---------------------------------------------------------------------------------------------

/// Integer part (truncation toward zero) of a float given by its bit pattern.
#[derive(Clone, Copy, PartialEq, Eq)]
enum Tr {
    /// NaN or +-infinity
    NotFinite,
    /// finite, |x| >= 2^114: outside every 64-bit integer range (sign does not matter)
    Huge,
    /// finite: (trunc(x) as a mathematical integer, x is itself integral)
    Int(i128, bool),
}

fn trunc_f64(bits: u64) -> Tr {
    let neg = bits >> 63 == 1;
    let e = ((bits >> 52) & 0x7ff) as i32;
    let m = bits & ((1u64 << 52) - 1);
    if e == 0x7ff { return Tr::NotFinite; }
    if e == 0 { return Tr::Int(0, m == 0); }            // +-0 or subnormal (|x| < 1)
    let sig = (m | (1u64 << 52)) as i128;                 // x = +-sig * 2^(e-1075)
    let sh = e - 1075;
    if sh >= 0 {
        if sh > 61 { return Tr::Huge; }                   // |x| >= 2^(52+62)
        let t = sig << (sh as u32);
        Tr::Int(if neg { -t } else { t }, true)
    } else if sh <= -53 {
        Tr::Int(0, false)                                 // 0 < |x| < 1
    } else {
        let s = (-sh) as u32;
        let t = sig >> s;
        Tr::Int(if neg { -t } else { t }, (t << s) == sig)
    }
}

fn trunc_f32(bits: u32) -> Tr {
    let neg = bits >> 31 == 1;
    let e = ((bits >> 23) & 0xff) as i32;
    let m = bits & ((1u32 << 23) - 1);
    if e == 0xff { return Tr::NotFinite; }
    if e == 0 { return Tr::Int(0, m == 0); }
    let sig = (m | (1u32 << 23)) as i128;                 // x = +-sig * 2^(e-150)
    let sh = e - 150;
    if sh >= 0 {
        if sh > 90 { return Tr::Huge; }                   // |x| >= 2^(23+91)
        let t = sig << (sh as u32);
        Tr::Int(if neg { -t } else { t }, true)
    } else if sh <= -24 {
        Tr::Int(0, false)
    } else {
        let s = (-sh) as u32;
        let t = sig >> s;
        Tr::Int(if neg { -t } else { t }, (t << s) == sig)
    }
}

fn abs128(x: i128) -> i128 { if x < 0 { -x } else { x } }

// Contract (C13, "representable values are preserved exactly (integer widths)"; strict and safe mode
// both go through this scalar): for every value x of integer type I and every target O in
// {i8,i16,i32,i64,u8,u16,u32,u64} (one harness per source type, all 8 targets inside; 64 ordered pairs):
//   num_cast::<I,O>(x) == Some(v)  <=>  x (as a mathematical integer) lies in [O::MIN, O::MAX],
//   and then v is the same mathematical integer; otherwise None. Full domain, loop-free.
// `narrow:` targets do not contain range(I) (None must be reachable), `widen:` targets do (None never).
macro_rules! nc_int_pair {
    ($i:ty, $o:ty, $x:ident, $narrow:tt) => {{
        let r: Option<$o> = num_cast::<$i, $o>($x);
        let (lo, hi, xi) = (<$o>::MIN as i128, <$o>::MAX as i128, $x as i128);
        let fits = lo <= xi && xi <= hi;
        assert!(r.is_some() == fits, concat!("num_cast ", stringify!($i), "->", stringify!($o), ": Some <=> in range"));
        if let Some(v) = r { assert!(v as i128 == xi, concat!("num_cast ", stringify!($i), "->", stringify!($o), ": same integer")); }
        kani::cover!(r.is_some() && $x != (0 as $i));
        nc_branch!($narrow, kani::cover!(r.is_none()), assert!(fits));
    }};
}
// compile-time selection (an `if false { cover!(..) }` would still register an unsatisfiable cover)
macro_rules! nc_branch { (true, $a:expr, $b:expr) => { $a }; (false, $a:expr, $b:expr) => { $b }; }
macro_rules! nc_int_from {
    ($name:ident, $i:ty; narrow: [$($n:ty),*]; widen: [$($w:ty),*]) => {
        #[kani::proof]
        #[allow(trivial_numeric_casts)]
        fn $name() {
            let x: $i = kani::any();
            $( nc_int_pair!($i, $n, x, true); )*
            $( nc_int_pair!($i, $w, x, false); )*
        }
    };
}

// Contract (C13): for every bit pattern x of float type F (NaN payloads, infinities, subnormals, -0):
//   num_cast::<F,O>(x) == Some(v) <=> x is finite and t = trunc(x) (toward zero) lies in [O::MIN,O::MAX],
//   and then v == t as a mathematical integer; None for NaN, +-inf and every out-of-range value.
//   (So: Some(v) => x finite, v = trunc(x), trunc(x) in range; integral in-range x => Some(exactly x).)
// trunc is specified independently by decoding sign/exponent/mantissa (trunc_f32 / trunc_f64 above).
macro_rules! nc_float_int {
    ($name:ident, $f:ty, $o:ty, $trunc:ident) => {
        #[kani::proof]
        fn $name() {
            let x: $f = kani::any();
            let r: Option<$o> = num_cast::<$f, $o>(x);
            let (lo, hi) = (<$o>::MIN as i128, <$o>::MAX as i128);
            let tr = $trunc(x.to_bits());
            let want: Option<$o> = match tr {
                Tr::Int(t, _) if lo <= t && t <= hi => Some(t as $o),
                _ => None,
            };
            assert!(r == want);
            if let Some(v) = r {
                assert!(x.is_finite());
                if let Tr::Int(t, exact) = tr { if exact { assert!(v as i128 == t && (v as $f) == x); } }
            }
            if x.is_nan() || x.is_infinite() { assert!(r.is_none()); }
            kani::cover!(r.is_some() && x < 0.0);
            kani::cover!(r.is_some() && x > 0.0 && matches!(tr, Tr::Int(_, false)));   // fractional input truncated
            kani::cover!(r.is_some() && x != 0.0 && matches!(tr, Tr::Int(_, true)));   // integral input exact
            kani::cover!(r.is_none() && x.is_nan());
            kani::cover!(r.is_none() && x.is_finite() && x > 0.0);
            kani::cover!(r.is_none() && x.is_finite() && x < 0.0);
        }
    };
}

// Contract (C13): for every integer x of every source type I in {i8..u64}, num_cast::<I,F>(x) is Some(f)
//   with f finite and integral, and |f - x| * 2^P <= |x|   (P = 24 for f32, 53 for f64: f is within
//   half an ulp of x), hence f == x exactly whenever |x| <= 2^P. The value of f is read back by the
//   independent bit decoder. `lossy:` sources have more than P bits (rounding must be reachable).
macro_rules! nc_int_float_pair {
    ($i:ty, $f:ty, $trunc:ident, $p:expr, $lossy:tt) => {{
        let x: $i = kani::any();
        let r: Option<$f> = num_cast::<$i, $f>(x);
        assert!(r.is_some());
        let f = r.unwrap();
        let xi = x as i128;
        match $trunc(f.to_bits()) {
            Tr::Int(t, integral) => {
                assert!(integral);
                assert!((abs128(t - xi) << $p) <= abs128(xi), concat!("num_cast ", stringify!($i), "->", stringify!($f), ": within half ulp"));
                if abs128(xi) <= (1i128 << $p) { assert!(t == xi, concat!("num_cast ", stringify!($i), "->", stringify!($f), ": exact")); }
                nc_branch!($lossy, kani::cover!(t != xi), assert!(t == xi));
            }
            _ => assert!(false),
        }
        kani::cover!(x != 0 as $i);
    }};
}
macro_rules! nc_int_to_float {
    ($name:ident, $f:ty, $trunc:ident, $p:expr; lossy: [$($l:ty),*]; exact: [$($e:ty),*]) => {
        #[kani::proof]
        #[allow(trivial_numeric_casts)]
        fn $name() {
            $( nc_int_float_pair!($l, $f, $trunc, $p, true); )*
            $( nc_int_float_pair!($e, $f, $trunc, $p, false); )*
        }
    };
}

