#!/usr/bin/env python3
# generates the C19 section of kani/arrow-buffer/buffer/mutable.rs
from common import *
HEAD = r'''// Kani contract harnesses for /repo/arrow-buffer/src/buffer/mutable.rs (child module: sees private items via super::)
use super::*;

// ---- C19 bit packing units ----
// (self-contained section: helper names are prefixed c19_ and nothing outside this section is used
//  except `use super::*;` above)

/// bit i of a little-endian bit-packed byte sequence (Arrow validity/boolean layout)
fn c19_bit(s: &[u8], i: usize) -> bool { (s[i / 8] >> (i % 8)) & 1 == 1 }

fn c19_collect_bool_grid<const LEN: usize>() {
    let m: [bool; LEN] = kani::any();
    let mut calls = 0usize;
    let buf = MutableBuffer::collect_bool(LEN, |i| {
        assert!(i == calls); // indexes are presented in order 0, 1, .., len-1, each exactly once
        calls += 1;
        m[i]
    });
    assert!(calls == LEN);
    assert!(buf.len() == (LEN + 7) / 8);
    if LEN > 0 {
        let i: usize = kani::any();
        kani::assume(i < LEN);
        assert!(c19_bit(buf.as_slice(), i) == m[i]);
        kani::cover!(m[i] && i == LEN - 1);
        kani::cover!(LEN % 64 == 0 || (!m[i] && i >= 64 * (LEN / 64)));
    }
    kani::cover!(buf.len() == (LEN + 7) / 8);
}
// Contract (C19) MutableBuffer::collect_bool(len, f): f is invoked with 0, 1, .., len-1 in this order,
// each exactly once; the result has exactly ceil(len/8) bytes and packed bit i == f(i) for every
// i < len (model: an arbitrary array of len booleans), across the 64-bit chunk boundary.
//@@ collect

fn c19_from_iter_bool_grid<const LEN: usize>() {
    let m: [bool; LEN] = kani::any();
    let buf = unsafe { MutableBuffer::from_trusted_len_iter_bool(m.iter().copied()) };
    assert!(buf.len() == (LEN + 7) / 8);
    if LEN > 0 {
        let i: usize = kani::any();
        kani::assume(i < LEN);
        assert!(c19_bit(buf.as_slice(), i) == m[i]);
        kani::cover!(m[i] && i == LEN - 1);
        kani::cover!(!m[i] && i == 0);
    }
    kani::cover!(buf.len() == (LEN + 7) / 8);
}
// Contract (C19) MutableBuffer::from_trusted_len_iter_bool(iter) for an iterator with an exact size hint:
// exactly ceil(len/8) bytes, packed bit i == i-th item of the iterator, for every i < len.
//@@ from_iter

fn c19_extend_bool_grid<const OFF: usize, const LEN: usize, const NB: usize>() {
    let old: [u8; NB] = kani::any();
    let m: [bool; LEN] = kani::any();
    let mut buf = MutableBuffer::new(0);
    buf.extend_from_slice(&old);
    unsafe { buf.extend_bool_trusted_len(m.iter().copied(), OFF) };
    let end = OFF + LEN;
    let end_bytes = (end + 7) / 8;
    assert!(buf.len() == if NB > end_bytes { NB } else { end_bytes });
    let i: usize = kani::any();
    kani::assume(i < 8 * buf.len());
    let got = c19_bit(buf.as_slice(), i);
    if i < OFF {
        assert!(got == c19_bit(&old, i)); // existing bits below `offset` are preserved
        kani::cover!(got);
    } else if i < end {
        assert!(got == m[i - OFF]); // the written range is exactly the iterator's values, whatever was there
        kani::cover!(got && i < 8 * NB && !c19_bit(&old, i));
        kani::cover!(!got && i < 8 * NB && c19_bit(&old, i));
        kani::cover!(got && i == end - 1);
    } else if LEN > 0 && i < 8 * end_bytes {
        assert!(!got); // "All bits not written to (but readable due to byte alignment) will be zeroed out"
    } else if LEN > 0 {
        assert!(got == c19_bit(&old, i)); // whole bytes after the written range are untouched
    } else {
        assert!(got == c19_bit(&old, i)); // nothing to append: nothing changes
    }
    kani::cover!(NB > end_bytes || buf.len() == end_bytes);
}
// Contract (C19) MutableBuffer::extend_bool_trusted_len(iter, offset), offset <= 8*len(), iterator with
// exact size hint, old bytes fully symbolic (also at and after `offset`: the call may point INTO
// existing non-zero data): afterwards len() == max(old len, ceil((offset+n)/8)); every bit below
// offset is unchanged; bit offset+k is the k-th item (independent of the old contents); when n > 0
// the bits between offset+n and the end of that byte are zero; whole bytes after it are unchanged.
//@@ extend_bool
// ---- end of C19 bit packing units ----
'''
out = {}
def add(fam, s): out.setdefault(fam, []).append(s)
def ins(name, unwind, call, **kw):
    return unit_line(name, **kw) + '\n#[kani::proof]\n#[kani::unwind(%d)]\nfn %s() { %s }\n' % (unwind, name, call)
for ln, tier in [(0, 'thorough'), (1, 'thorough'), (7, 'thorough'), (63, 'thorough'), (64, 'quick'), (65, 'quick'), (70, 'thorough'), (127, 'thorough'), (128, 'thorough'), (129, 'thorough'), (200, 'thorough')]:
    add('collect', ins('c19_collect_bool_%d' % ln, max(66, ln + 2), 'c19_collect_bool_grid::<%d>()' % ln, props='C19', bound='grid_len=%d' % ln, fns='MutableBuffer::collect_bool', tier=tier, timeout=300))
for ln, tier in [(0, 'thorough'), (9, 'thorough'), (65, 'quick'), (128, 'thorough'), (130, 'thorough')]:
    add('from_iter', ins('c19_from_trusted_len_iter_bool_%d' % ln, max(66, ln + 2), 'c19_from_iter_bool_grid::<%d>()' % ln, props='C19', bound='grid_len=%d' % ln, fns='MutableBuffer::from_trusted_len_iter_bool,MutableBuffer::collect_bool', tier=tier, timeout=300))
for off, ln, nb, tier in [(3, 70, 1, 'quick'), (1, 63, 12, 'quick'), (0, 64, 0, 'thorough'), (0, 0, 0, 'thorough'), (5, 0, 2, 'thorough'), (3, 5, 1, 'thorough'), (3, 2, 3, 'thorough'), (61, 10, 8, 'thorough'),
                          (61, 10, 12, 'thorough'), (64, 130, 8, 'thorough'), (7, 200, 1, 'thorough'), (60, 4, 8, 'thorough'), (8, 56, 9, 'thorough'), (63, 1, 8, 'thorough'), (65, 127, 30, 'thorough'),
                          (9, 7, 2, 'thorough'), (0, 70, 16, 'thorough'), (13, 3, 2, 'thorough'), (5, 130, 20, 'thorough')]:
    assert 8 * nb >= off
    add('extend_bool', ins('c19_extend_bool_%d_%d_%d' % (off, ln, nb), max(67, ln + 3, nb + 2), 'c19_extend_bool_grid::<%d, %d, %d>()' % (off, ln, nb), props='C19', bound='grid_(offset,items,old_bytes)=(%d,%d,%d)' % (off, ln, nb),
        fns='MutableBuffer::extend_bool_trusted_len', tier=tier, timeout=600))
text = HEAD
for fam, items in out.items():
    text = text.replace('//@@ %s\n' % fam, ''.join(items))
assert '//@@' not in text
write('buffer/mutable.rs', text)
