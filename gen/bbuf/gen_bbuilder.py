#!/usr/bin/env python3
# generates kani/arrow-buffer/builder/boolean.rs
from common import *

HEAD = '// Kani contract harnesses for /repo/arrow-buffer/src/builder/boolean.rs (child module: sees private items via super::)\n' + PRELUDE + r'''
// ---------------------------------------------------------------------------------------------
// Model: the sequence of booleans a Vec<bool> would hold under the same operations
// (fixed-capacity array + length so that the spec side allocates nothing).
// ---------------------------------------------------------------------------------------------
const MAXM: usize = 420;
struct Model { v: [bool; MAXM], n: usize }
impl Model {
    fn new() -> Self { Model { v: [false; MAXM], n: 0 } }
    fn push(&mut self, b: bool) { self.v[self.n] = b; self.n += 1; }
    fn push_n(&mut self, k: usize, b: bool) { let mut i = 0; while i < k { self.push(b); i += 1; } }
    fn push_slice(&mut self, s: &[bool]) { let mut i = 0; while i < s.len() { self.push(s[i]); i += 1; } }
    fn push_bits(&mut self, bytes: &[u8], start: usize, len: usize) { let mut i = 0; while i < len { self.push(bit(bytes, start + i)); i += 1; } }
    /// Vec::truncate: no effect when k > len
    fn truncate(&mut self, k: usize) { if k <= self.n { self.n = k; } }
    /// Vec::resize(k, false)
    fn resize(&mut self, k: usize) { if k <= self.n { self.n = k; } else { self.push_n(k - self.n, false); } }
}

/// observable state of the builder == model: len, every bit below len, and the byte slice is exactly
/// ceil(len/8) bytes long (bytes beyond it are not observable)
fn check(b: &BooleanBufferBuilder, m: &Model) {
    assert!(b.len() == m.n && b.is_empty() == (m.n == 0));
    assert!(b.as_slice().len() == (m.n + 7) / 8);
    assert!(b.capacity() >= m.n);
    if m.n > 0 {
        let i: usize = kani::any();
        kani::assume(i < m.n);
        assert!(b.get_bit(i) == m.v[i]);
        assert!(bit(b.as_slice(), i) == m.v[i]);
    }
}
/// finish(): returns the model as a BooleanBuffer and leaves an empty, reusable builder
fn check_finish(b: &mut BooleanBufferBuilder, m: &Model) {
    let out = b.finish();
    assert!(out.len() == m.n);
    assert!(out.offset() + out.len() <= 8 * out.values().len());
    if m.n > 0 {
        let i: usize = kani::any();
        kani::assume(i < m.n);
        assert!(out.value(i) == m.v[i]);
        kani::cover!(out.value(i));
        kani::cover!(!out.value(i));
    }
    assert!(b.len() == 0 && b.is_empty() && b.as_slice().is_empty());
}

fn seq_append<const CAP: usize, const N1: usize, const N2: usize>() {
    let (v1, v2, v3, v4): (bool, bool, bool, bool) = (kani::any(), kani::any(), kani::any(), kani::any());
    let mut b = BooleanBufferBuilder::new(CAP);
    assert!(b.len() == 0 && b.is_empty() && b.capacity() >= CAP);
    let mut m = Model::new();
    b.append_n(N1, v1); m.push_n(N1, v1);
    b.append(v2); m.push(v2);
    b.append_n(N2, v3); m.push_n(N2, v3);
    b.append(v4); m.push(v4);
    check(&b, &m);
    check_finish(&mut b, &m);
    kani::cover!(v1 && !v2 && v3 && !v4);
    kani::cover!(!v1 && v2 && !v3 && v4);
}
// Contract (C19/C01) BooleanBufferBuilder::{new, append, append_n, len, is_empty, get_bit, as_slice,
// capacity, finish}: after new(cap); append_n(n1, v1); append(v2); append_n(n2, v3); append(v4) with
// symbolic values, the builder is observably the Vec<bool> built by the same pushes (length, every
// bit, byte slice of exactly ceil(len/8) bytes); finish returns that sequence as a BooleanBuffer
// inside its byte buffer and leaves an empty builder.
//@@ append

fn seq_truncate<const N1: usize, const T: usize, const K: usize>() {
    let (v1, v2): (bool, bool) = (kani::any(), kani::any());
    let mut b = BooleanBufferBuilder::new(0);
    let mut m = Model::new();
    b.append_n(N1, v1); m.push_n(N1, v1);
    b.truncate(T); m.truncate(T);
    check(&b, &m);
    b.advance(K); m.push_n(K, false);
    b.append(v2); m.push(v2);
    check(&b, &m);
    check_finish(&mut b, &m);
    kani::cover!(v1 && v2);
    kani::cover!(!v1 && !v2);
}
// Contract (C19/C01) BooleanBufferBuilder::{truncate, advance}: after append_n(n1, v1); truncate(t);
// advance(k); append(v2) the builder equals the model Vec<bool> under truncate(t) (no effect when
// t > len), k pushes of false, one push: in particular the values dropped by truncate are never
// visible again (advance yields false even where true bits were truncated away).
//@@ truncate

fn seq_resize<const N1: usize, const R1: usize, const R2: usize>() {
    let s: [bool; N1] = kani::any();
    let mut b = BooleanBufferBuilder::new(N1);
    let mut m = Model::new();
    b.append_slice(&s); m.push_slice(&s);
    check(&b, &m);
    b.resize(R1); m.resize(R1);
    check(&b, &m);
    b.resize(R2); m.resize(R2);
    check(&b, &m);
    check_finish(&mut b, &m);
}
// Contract (C19/C01) BooleanBufferBuilder::{append_slice, resize}: after append_slice(s) (symbolic
// values); resize(r1); resize(r2) the builder equals the model under Vec::resize(_, false): shrinking
// drops values, growing appends false values (never stale bits).
//@@ resize

fn seq_set_bit<const N1: usize, const K: usize>() {
    let v1: bool = kani::any();
    let s: [bool; K] = kani::any();
    let mut b = BooleanBufferBuilder::new(0);
    let mut m = Model::new();
    b.append_n(N1, v1); m.push_n(N1, v1);
    b.append_slice(&s); m.push_slice(&s);
    check(&b, &m);
    let (j, w): (usize, bool) = (kani::any(), kani::any());
    kani::assume(j < N1 + K);
    b.set_bit(j, w); m.v[j] = w;
    assert!(b.get_bit(j) == w);
    check(&b, &m); // frame: every other bit unchanged, length unchanged
    let x: bool = kani::any();
    b.append(x); m.push(x);
    check(&b, &m);
    check_finish(&mut b, &m);
    kani::cover!(w && j < N1);
    kani::cover!(!w && j >= N1);
}
// Contract (C19/C01) BooleanBufferBuilder::{append_slice, set_bit, get_bit}: after append_n(n1, v);
// append_slice(s); set_bit(j, w) for a symbolic j < len, bit j reads w, every other bit and the
// length are unchanged (frame), and a following append lands at position len.
//@@ set_bit

fn seq_packed<const W: usize, const START: usize, const LEN: usize, const NB: usize>() {
    let (v1, x): (bool, bool) = (kani::any(), kani::any());
    let bytes: [u8; NB] = any_bytes();
    let mut b = BooleanBufferBuilder::new(0);
    let mut m = Model::new();
    b.append_n(W, v1); m.push_n(W, v1);
    b.append_packed_range(START..START + LEN, &bytes); m.push_bits(&bytes, START, LEN);
    check(&b, &m);
    b.append(x); m.push(x);
    check(&b, &m);
    check_finish(&mut b, &m);
    kani::cover!(v1 && !x);
    kani::cover!(!v1 && x);
}
// Contract (C19/C01) BooleanBufferBuilder::append_packed_range(range, bytes): after append_n(w, v) the
// call appends exactly the bits range.start..range.end of `bytes` (all bytes symbolic: bits outside
// the range are not read as data), leaves the first w values unchanged (not modified), and a
// following append lands right after them.
//@@ packed

fn seq_append_buffer<const W: usize, const OFF: usize, const LEN: usize, const NB: usize>() {
    let (v1, x): (bool, bool) = (kani::any(), kani::any());
    let bytes: [u8; NB] = any_bytes();
    let src = BooleanBuffer::new(Buffer::from_slice_ref(&bytes), OFF, LEN);
    let mut b = BooleanBufferBuilder::new(0);
    let mut m = Model::new();
    b.append_n(W, v1); m.push_n(W, v1);
    b.append_buffer(&src); m.push_bits(&bytes, OFF, LEN);
    b.append(x); m.push(x);
    check(&b, &m);
    check_finish(&mut b, &m);
    // the source is unchanged
    if LEN > 0 {
        let i: usize = kani::any();
        kani::assume(i < LEN);
        assert!(src.value(i) == bit(&bytes, OFF + i));
    }
}
// Contract (C19/C01) BooleanBufferBuilder::append_buffer(&BooleanBuffer): appends exactly the values of
// the (offset, len) view, earlier values and the source unchanged.
//@@ append_buffer

fn seq_finish_reuse<const N1: usize, const N2: usize>() {
    let v1: bool = kani::any();
    let s: [bool; N2] = kani::any();
    let mut b = BooleanBufferBuilder::new(8);
    let mut m = Model::new();
    b.append_n(N1, v1); m.push_n(N1, v1);
    check_finish(&mut b, &m);
    // reuse after finish: nothing of the first sequence is visible
    let mut m = Model::new();
    b.append_slice(&s); m.push_slice(&s);
    check(&b, &m);
    let c = b.finish_cloned();
    assert!(c.len() == m.n);
    assert!(c.offset() + c.len() <= 8 * c.values().len());
    if N2 > 0 {
        let i: usize = kani::any();
        kani::assume(i < N2);
        assert!(c.value(i) == s[i]);
    }
    check(&b, &m); // finish_cloned leaves the builder unchanged
    check_finish(&mut b, &m);
}
// Contract (C19/C01) BooleanBufferBuilder::{finish, finish_cloned}: finish resets the builder (a second
// sequence built afterwards shows none of the first one's bits); finish_cloned returns the current
// sequence and leaves the builder unchanged.
//@@ finish_reuse

fn seq_reserve<const N1: usize, const R: usize>() {
    let (v1, x): (bool, bool) = (kani::any(), kani::any());
    let mut b = BooleanBufferBuilder::new(0);
    let mut m = Model::new();
    b.append_n(N1, v1); m.push_n(N1, v1);
    b.reserve(R);
    assert!(b.capacity() >= N1 + R);
    check(&b, &m); // reserve does not change the observable sequence
    b.append(x); m.push(x);
    check(&b, &m);
    check_finish(&mut b, &m);
    kani::cover!(v1 && !x);
}
// Contract (C19/C01) BooleanBufferBuilder::reserve(r): capacity() >= len + r afterwards, observable
// sequence unchanged, later appends behave as before.
//@@ reserve

fn seq_append_word<const W: usize, const COUNT: usize>() {
    let (v1, x): (bool, bool) = (kani::any(), kani::any());
    let word: u64 = kani::any();
    let mut b = BooleanBufferBuilder::new(0);
    let mut m = Model::new();
    b.append_n(W, v1); m.push_n(W, v1);
    b.append_word(word, COUNT);
    let mut k = 0;
    while k < COUNT { m.push((word >> k) & 1 == 1); k += 1; }
    check(&b, &m);
    b.append(x); m.push(x);
    check(&b, &m);
    check_finish(&mut b, &m);
    kani::cover!(v1 && !x && word == u64::MAX);
    kani::cover!(!v1 && x && word == 1 << 63);
}
// Contract (C19/C01) BooleanBufferBuilder::append_word(word, count), count <= 64: after append_n(w, v)
// the call appends exactly the count low bits of the symbolic word, LSB first (bits >= count of the
// word are not read as data), leaves the first w values unchanged, and a following append lands
// right after them.
//@@ append_word

fn seq_extend_trusted<const W: usize, const K: usize>() {
    let (v1, x): (bool, bool) = (kani::any(), kani::any());
    let s: [bool; K] = kani::any();
    let mut b = BooleanBufferBuilder::new(0);
    let mut m = Model::new();
    b.append_n(W, v1); m.push_n(W, v1);
    unsafe { b.extend_trusted_len(s.iter().copied()) };
    m.push_slice(&s);
    check(&b, &m);
    b.append(x); m.push(x);
    check(&b, &m);
    check_finish(&mut b, &m);
    kani::cover!(v1 && !x);
    kani::cover!(!v1 && x);
}
// Contract (C19/C01) BooleanBufferBuilder::extend_trusted_len(iter) (iterator with exact size hint):
// after append_n(w, v) the call appends exactly the items of the iterator in order (through
// MutableBuffer::extend_bool_trusted_len: unaligned prefix up to the next 64-bit boundary, whole
// 64-bit words, suffix), leaves the first w values unchanged, and a following append lands right
// after them.
//@@ extend_trusted

fn seq_new_from_buffer<const NB: usize, const LEN: usize, const K: usize>() {
    let bytes: [u8; NB] = any_bytes();
    let mut mb = MutableBuffer::new(0);
    mb.extend_from_slice(&bytes);
    let mut b = BooleanBufferBuilder::new_from_buffer(mb, LEN);
    let mut m = Model::new();
    m.push_bits(&bytes, 0, LEN);
    check(&b, &m);
    // the bits of the buffer at positions >= LEN are not part of the sequence: growing yields false
    b.advance(K); m.push_n(K, false);
    check(&b, &m);
    // as_slice_mut exposes the same bytes as as_slice / get_bit
    if m.n > 0 {
        let j: usize = kani::any();
        kani::assume(j < m.n);
        b.as_slice_mut()[j / 8] ^= 1 << (j % 8);
        m.v[j] = !m.v[j];
        check(&b, &m);
    }
    let out = b.build();
    assert!(out.len() == m.n && out.offset() + out.len() <= 8 * out.values().len());
    if m.n > 0 {
        let i: usize = kani::any();
        kani::assume(i < m.n);
        assert!(out.value(i) == m.v[i]);
        kani::cover!(out.value(i) && i >= LEN);
        kani::cover!(!out.value(i) && i < LEN);
    }
    kani::cover!(out.len() == LEN + K);
}
// Contract (C19/C01) BooleanBufferBuilder::{new_from_buffer, as_slice_mut, build}: new_from_buffer(buf,
// len) with len <= 8*bytes is the sequence of the first len bits of buf (symbolic bytes; bits at
// positions >= len are not read as data: advance(k) afterwards yields k false values); a bit flipped
// through as_slice_mut is the bit read by get_bit / as_slice; build returns the sequence as a
// BooleanBuffer inside its byte buffer.
//@@ new_from_buffer

// Contract (C19/C01) BooleanBufferBuilder::new_from_buffer rejection direction (may-reject): for a 3-byte
// buffer and any usize len, whenever the call returns, len <= 24 and the builder has that length.
// @unit name=bbb_new_from_buffer_rejects props=C19,C01 kind=bounded bound=buffer_bytes=3_len_full_usize fns=BooleanBufferBuilder::new_from_buffer tier=thorough timeout=200 mayreject=1 note=not_confirmed_under_load
#[kani::proof]
#[kani::unwind(6)]
#[kani::stub(alloc::fmt::format, stub_format)]
fn bbb_new_from_buffer_rejects() {
    let bytes: [u8; 3] = any_bytes();
    let mut mb = MutableBuffer::new(0);
    mb.extend_from_slice(&bytes);
    let len: usize = kani::any();
    let b = BooleanBufferBuilder::new_from_buffer(mb, len);
    assert!(len <= 24 && b.len() == len && b.as_slice().len() == (len + 7) / 8);
    kani::cover!(len == 24);
    kani::cover!(len == 0);
    kani::cover!(len == 17);
}

fn seq_convert<const N1: usize, const K: usize, const VARIANT: u8>() {
    let v1: bool = kani::any();
    let s: [bool; K] = kani::any();
    let mut b = BooleanBufferBuilder::new(3);
    let mut m = Model::new();
    b.append_n(N1, v1); m.push_n(N1, v1);
    b.append_slice(&s); m.push_slice(&s);
    let i: usize = kani::any();
    kani::assume(i < m.n);
    set_skews([0; 6]);
    match VARIANT {
        0 => { let o = b.build(); assert!(o.len() == m.n && o.value(i) == m.v[i]); }
        1 => { let o: BooleanBuffer = b.into(); assert!(o.len() == m.n && o.value(i) == m.v[i] && o.offset() + o.len() <= 8 * o.values().len()); }
        2 => { let o: Buffer = b.into(); assert!(o.len() == (m.n + 7) / 8 && bit(o.as_slice(), i) == m.v[i]); }
        _ => {
            let o: NullBuffer = b.into();
            let mut nulls = 0usize;
            let mut k = 0;
            while k < m.n { if !m.v[k] { nulls += 1; } k += 1; }
            assert!(o.len() == m.n && o.is_valid(i) == m.v[i] && o.null_count() == nulls);
        }
    }
    kani::cover!(m.v[i]);
    kani::cover!(!m.v[i]);
}
// Contract (C19/C01) BooleanBufferBuilder::build and the conversions into BooleanBuffer / Buffer /
// NullBuffer (VARIANT 0/1/2/3): the result holds exactly the model sequence (Buffer: exactly
// ceil(len/8) bytes, bit i = value i; NullBuffer: validity = sequence and null_count = number of
// false values exactly).
//@@ convert
'''

out = {}
def add(fam, s): out.setdefault(fam, []).append(s)
P = 'C19,C01'
def uw(*lens): return max(12, max(lens) + 3)

for cap, n1, n2, tier in [(0, 7, 0, 'quick'), (0, 3, 62, 'quick'), (100, 63, 64, 'thorough'), (0, 0, 0, 'thorough'), (8, 64, 1, 'thorough'), (0, 127, 70, 'thorough')]:
    add('append', inst('bbb_append_%d_%d_%d' % (cap, n1, n2), uw(n1, n2), 'seq_append::<%d, %d, %d>()' % (cap, n1, n2), props=P,
        bound='ops=4_shape_(cap,n1,n2)=(%d,%d,%d)_values_symbolic' % (cap, n1, n2), fns='BooleanBufferBuilder::new,BooleanBufferBuilder::append,BooleanBufferBuilder::append_n,BooleanBufferBuilder::finish,BooleanBufferBuilder::len,BooleanBufferBuilder::get_bit', tier=tier, timeout=240))
for n1, t, k, tier in [(13, 5, 6, 'quick'), (70, 63, 3, 'quick'), (20, 16, 9, 'thorough'), (9, 12, 2, 'thorough'), (66, 0, 1, 'thorough'), (130, 65, 64, 'thorough')]:
    add('truncate', inst('bbb_truncate_%d_%d_%d' % (n1, t, k), uw(n1, k), 'seq_truncate::<%d, %d, %d>()' % (n1, t, k), props=P,
        bound='ops=4_shape_(n1,truncate_to,advance)=(%d,%d,%d)_values_symbolic' % (n1, t, k), fns='BooleanBufferBuilder::truncate,BooleanBufferBuilder::advance,BooleanBufferBuilder::append', tier=tier, timeout=240))
for n1, r1, r2, tier in [(13, 5, 11, 'quick'), (10, 70, 64, 'thorough'), (65, 8, 9, 'thorough'), (3, 3, 0, 'thorough')]:
    add('resize', inst('bbb_resize_%d_%d_%d' % (n1, r1, r2), uw(n1, r1, r2), 'seq_resize::<%d, %d, %d>()' % (n1, r1, r2), props=P,
        bound='ops=3_shape_(n1,resize1,resize2)=(%d,%d,%d)_values_symbolic' % (n1, r1, r2), fns='BooleanBufferBuilder::append_slice,BooleanBufferBuilder::resize', tier=tier, timeout=240))
for n1, k, tier in [(5, 6, 'quick'), (60, 10, 'thorough'), (0, 9, 'thorough')]:
    add('set_bit', inst('bbb_set_bit_%d_%d' % (n1, k), uw(n1, k), 'seq_set_bit::<%d, %d>()' % (n1, k), props=P,
        bound='ops=4_shape_(n1,slice_len)=(%d,%d)_values_and_index_symbolic' % (n1, k), fns='BooleanBufferBuilder::set_bit,BooleanBufferBuilder::get_bit,BooleanBufferBuilder::append_slice', tier=tier, timeout=240))
PK = [  # (w, start, len, tier)
 (0, 0, 64, 'thorough'),   # byte aligned write, aligned read
 (0, 3, 12, 'quick'),      # byte aligned write, unaligned read
 (3, 0, 12, 'quick'),      # unaligned write
 (5, 7, 70, 'quick'),      # unaligned write + read, > 64 bits
 (8, 8, 130, 'thorough'),
 (61, 1, 6, 'thorough'),   # write crosses the 64-bit word boundary
 (3, 5, 0, 'thorough'),    # empty range
 (7, 63, 65, 'thorough'),
 (64, 2, 128, 'thorough'),
 (1, 130, 200, 'thorough'),
 (13, 0, 3, 'thorough'),   # stays inside one byte
]
for w, st, ln, tier in PK:
    nb = max(ceil(st + ln, 8), 1) + 1
    add('packed', inst('bbb_packed_%d_%d_%d' % (w, st, ln), uw(w, ln), 'seq_packed::<%d, %d, %d, %d>()' % (w, st, ln, nb), props=P,
        bound='ops=3_grid_(write_offset,read_offset,len,bytes)=(%d,%d,%d,%d)' % (w, st, ln, nb), fns='BooleanBufferBuilder::append_packed_range', tier=tier, timeout=300))
for w, off, ln, tier in [(3, 5, 12, 'quick'), (0, 64, 65, 'thorough'), (9, 0, 0, 'thorough'), (62, 3, 70, 'thorough')]:
    nb = max(ceil(off + ln, 8), 1) + 1
    add('append_buffer', inst('bbb_append_buffer_%d_%d_%d' % (w, off, ln), uw(w, ln), 'seq_append_buffer::<%d, %d, %d, %d>()' % (w, off, ln, nb), props=P,
        bound='ops=3_grid_(write_offset,src_offset,len)=(%d,%d,%d)' % (w, off, ln), fns='BooleanBufferBuilder::append_buffer', tier=tier, timeout=300))
for n1, n2, tier in [(13, 9, 'quick'), (64, 65, 'thorough'), (0, 0, 'thorough')]:
    add('finish_reuse', inst('bbb_finish_reuse_%d_%d' % (n1, n2), uw(n1, n2), 'seq_finish_reuse::<%d, %d>()' % (n1, n2), props=P,
        bound='ops=4_shape_(n1,n2)=(%d,%d)_values_symbolic' % (n1, n2), fns='BooleanBufferBuilder::finish,BooleanBufferBuilder::finish_cloned', tier=tier, timeout=300))
for n1, r, tier in [(13, 600, 'quick'), (0, 1, 'thorough'), (64, 0, 'thorough')]:
    add('reserve', inst('bbb_reserve_%d_%d' % (n1, r), uw(n1), 'seq_reserve::<%d, %d>()' % (n1, r), props=P,
        bound='ops=3_shape_(n1,reserve)=(%d,%d)' % (n1, r), fns='BooleanBufferBuilder::reserve,BooleanBufferBuilder::capacity', tier=tier, timeout=240))

for w, cnt, tier in [(0, 64, 'quick'), (1, 63, 'quick'), (7, 64, 'quick'), (0, 0, 'thorough'), (0, 1, 'thorough'), (0, 63, 'thorough'), (1, 0, 'thorough'), (1, 1, 'thorough'), (1, 64, 'thorough'),
                     (7, 0, 'thorough'), (7, 1, 'thorough'), (7, 63, 'thorough'), (61, 64, 'thorough'), (64, 33, 'thorough'), (3, 61, 'thorough'), (5, 58, 'thorough'), (7, 60, 'thorough'), (2, 62, 'thorough'), (6, 59, 'thorough')]:
    add('append_word', inst('bbb_append_word_%d_%d' % (w, cnt), uw(w, cnt), 'seq_append_word::<%d, %d>()' % (w, cnt), props=P,
        bound='ops=3_grid_(bit_offset,count)=(%d,%d)_word_symbolic' % (w, cnt), fns='BooleanBufferBuilder::append_word', tier=tier, timeout=240))
for w, k, tier in [(3, 70, 'quick'), (0, 64, 'thorough'), (3, 5, 'thorough'), (61, 10, 'thorough'), (64, 130, 'thorough'), (5, 0, 'thorough'), (7, 200, 'thorough'), (60, 4, 'thorough'), (8, 56, 'thorough')]:
    add('extend_trusted', inst('bbb_extend_trusted_%d_%d' % (w, k), max(uw(w, k), 67), 'seq_extend_trusted::<%d, %d>()' % (w, k), props=P,
        bound='ops=3_grid_(bit_offset,items)=(%d,%d)_values_symbolic' % (w, k), fns='BooleanBufferBuilder::extend_trusted_len,MutableBuffer::extend_bool_trusted_len', tier=tier, timeout=400))
for nb, ln, k, tier in [(3, 13, 6, 'quick'), (9, 64, 3, 'thorough'), (2, 16, 1, 'thorough'), (1, 0, 9, 'thorough')]:
    add('new_from_buffer', inst('bbb_new_from_buffer_%d_%d_%d' % (nb, ln, k), uw(ln, k), 'seq_new_from_buffer::<%d, %d, %d>()' % (nb, ln, k), props=P,
        bound='grid_(bytes,len,advance)=(%d,%d,%d)' % (nb, ln, k), fns='BooleanBufferBuilder::new_from_buffer,BooleanBufferBuilder::as_slice_mut,BooleanBufferBuilder::as_slice,BooleanBufferBuilder::build', tier=tier, timeout=300))
for n1, k, var, tier in [(5, 6, 3, 'quick'), (5, 6, 0, 'thorough'), (60, 9, 1, 'thorough'), (5, 6, 2, 'thorough')]:
    add('convert', inst('bbb_convert_%d_%d_%d' % (n1, k, var), uw(n1 + k), 'seq_convert::<%d, %d, %d>()' % (n1, k, var), props=P,
        bound='shape_(n1,slice_len,variant)=(%d,%d,%d)_values_symbolic' % (n1, k, var), fns='BooleanBufferBuilder::build,BooleanBufferBuilder::into', tier=tier, timeout=300))

text = HEAD
for fam, items in out.items():
    text = text.replace('//@@ %s\n' % fam, ''.join(items))
assert '//@@' not in text
write('builder/boolean.rs', text)
