#!/usr/bin/env python3
# generates kani/arrow-buffer/buffer/null.rs
from common import *

HEAD = '// Kani contract harnesses for /repo/arrow-buffer/src/buffer/null.rs (child module: sees private items via super::)\n' + PRELUDE + r'''
fn mk(a: &[u8], sk: usize) -> Buffer { Buffer::from_slice_ref(a).slice(sk) }

/// number of true values among model bits [off, off+len) of `a` (naive loop)
fn popcount(a: &[u8], off: usize, len: usize) -> usize {
    let mut c = 0usize;
    let mut i = 0;
    while i < len {
        if bit(a, off + i) { c += 1; }
        i += 1;
    }
    c
}

fn new_grid<const OFF: usize, const LEN: usize, const N: usize, const SK: usize, const VIA_FROM: bool>() {
    let a: [u8; N] = any_bytes();
    let bb = BooleanBuffer::new(mk(&a, SK), OFF, LEN);
    set_skews([(SK + OFF / 8) % 8; 6]);
    let n = if VIA_FROM { NullBuffer::from(bb) } else { NullBuffer::new(bb) };
    let valid = popcount(&a, 8 * SK + OFF, LEN);
    assert!(n.len() == LEN && n.offset() == OFF && n.is_empty() == (LEN == 0));
    assert!(n.null_count() == LEN - valid);
    if LEN > 0 {
        let i: usize = kani::any();
        kani::assume(i < LEN);
        let v = bit(&a, 8 * SK + OFF + i);
        assert!(n.is_valid(i) == v && n.is_null(i) == !v && n.inner().value(i) == v);
        assert!(bit(n.validity(), OFF + i) == v);
        kani::cover!(v);
        kani::cover!(!v);
    }
    kani::cover!(n.null_count() == 0);
    kani::cover!(n.null_count() == LEN);
}
// Contract (C19/C01) NullBuffer::new(b) / NullBuffer::from(b): same length and offset as b, is_valid(i) =
// value i of b, is_null(i) its negation, and null_count() == len - (number of true values) exactly
// (naive popcount of the model); bits outside the addressed range are symbolic and not counted.
//@@ new

fn const_grid<const VALID: bool, const LEN: usize>() {
    let n = if VALID { NullBuffer::new_valid(LEN) } else { NullBuffer::new_null(LEN) };
    assert!(n.len() == LEN);
    assert!(n.null_count() == if VALID { 0 } else { LEN });
    assert!(n.offset() + LEN <= 8 * n.validity().len());
    if LEN > 0 {
        let i: usize = kani::any();
        kani::assume(i < LEN);
        assert!(n.is_valid(i) == VALID && n.is_null(i) == !VALID);
    }
    kani::cover!(n.len() == LEN);
}
// Contract (C19/C01) NullBuffer::new_valid(n) / new_null(n): length n, every slot valid / null,
// null_count 0 / n, bit range inside the byte buffer.
//@@ const

fn union_grid<const LP: bool, const RP: bool, const OL: usize, const OR: usize, const LEN: usize, const NL: usize, const NR: usize>() {
    let a: [u8; NL] = any_bytes();
    let b: [u8; NR] = any_bytes();
    skews().ubc(0, OL, LEN).ubc(0, OR, LEN).install();
    let l = NullBuffer::new(BooleanBuffer::new(mk(&a, 0), OL, LEN));
    let r = NullBuffer::new(BooleanBuffer::new(mk(&b, 0), OR, LEN));
    // from_bitwise_binary_op (2 align_to calls when ol%64 == or%64) then count_set_bits of the result
    set_skews([0; 6]);
    let u = NullBuffer::union(if LP { Some(&l) } else { None }, if RP { Some(&r) } else { None });
    // model: a slot is valid iff it is valid in every present operand
    let m = |i: usize| (!LP || bit(&a, OL + i)) && (!RP || bit(&b, OR + i));
    let mut valid = 0usize;
    let mut k = 0;
    while k < LEN {
        if m(k) { valid += 1; }
        k += 1;
    }
    match &u {
        None => assert!(valid == LEN),
        Some(n) => {
            assert!(valid < LEN);
            assert!(n.len() == LEN && n.null_count() == LEN - valid);
            assert!(n.offset() + LEN <= 8 * n.validity().len());
            let i: usize = kani::any();
            kani::assume(i < LEN);
            assert!(n.is_valid(i) == m(i));
            kani::cover!(n.is_valid(i));
            kani::cover!(!n.is_valid(i) && (!LP || bit(&a, OL + i)));
        }
    }
    kani::cover!(u.is_none());
    kani::cover!(u.is_some());
}
// Contract (C19) NullBuffer::union(lhs, rhs) on optional buffers of equal length (absent = all valid):
// with m(i) = valid in every present operand: the result is None exactly when every m(i) holds;
// otherwise Some(n) with n.len() = len, n.is_valid(i) = m(i) for all i, and n.null_count() = number of
// i with !m(i), exactly. LP/RP = operand present.
//@@ union

fn union_many_grid<const P0: bool, const P1: bool, const P2: bool, const O0: usize, const O1: usize, const O2: usize, const LEN: usize, const N: usize>() {
    let a: [u8; N] = any_bytes();
    let b: [u8; N] = any_bytes();
    let c: [u8; N] = any_bytes();
    skews().ubc(0, O0, LEN).ubc(0, O1, LEN).ubc(0, O2, LEN).install();
    let n0 = NullBuffer::new(BooleanBuffer::new(mk(&a, 0), O0, LEN));
    let n1 = NullBuffer::new(BooleanBuffer::new(mk(&b, 0), O1, LEN));
    let n2 = NullBuffer::new(BooleanBuffer::new(mk(&c, 0), O2, LEN));
    set_skews([0; 6]);
    let u = NullBuffer::union_many([if P0 { Some(&n0) } else { None }, if P1 { Some(&n1) } else { None }, if P2 { Some(&n2) } else { None }]);
    let m = |i: usize| (!P0 || bit(&a, O0 + i)) && (!P1 || bit(&b, O1 + i)) && (!P2 || bit(&c, O2 + i));
    let mut valid = 0usize;
    let mut k = 0;
    while k < LEN {
        if m(k) { valid += 1; }
        k += 1;
    }
    match &u {
        None => assert!(valid == LEN),
        Some(n) => {
            assert!(valid < LEN);
            assert!(n.len() == LEN && n.null_count() == LEN - valid);
            let i: usize = kani::any();
            kani::assume(i < LEN);
            assert!(n.is_valid(i) == m(i));
            kani::cover!(n.is_valid(i));
            kani::cover!(!n.is_valid(i));
        }
    }
    // inputs unchanged (the in-place `&=` must never write into a shared operand)
    let j: usize = kani::any();
    kani::assume(j < LEN);
    assert!(n0.is_valid(j) == bit(&a, O0 + j) && n1.is_valid(j) == bit(&b, O1 + j) && n2.is_valid(j) == bit(&c, O2 + j));
    kani::cover!(u.is_none());
    kani::cover!(u.is_some());
}
// Contract (C19) NullBuffer::union_many of up to three optional buffers of equal length: same statement
// as `union` with m(i) = valid in every present operand (None exactly when there is no null at all,
// otherwise exact validity and exact null count), and every operand still reads its old values
// afterwards (the second `&=` runs in place on the accumulator, never on an operand).
//@@ union_many

fn contains_grid<const OL: usize, const OR: usize, const LEN: usize, const NL: usize, const NR: usize>() {
    let a: [u8; NL] = any_bytes();
    let b: [u8; NR] = any_bytes();
    skews().ubc(0, OL, LEN).ubc(0, OR, LEN).install();
    let l = NullBuffer::new(BooleanBuffer::new(mk(&a, 0), OL, LEN));
    let r = NullBuffer::new(BooleanBuffer::new(mk(&b, 0), OR, LEN));
    let got = l.contains(&r);
    // spec: every null of r is also a null of l
    let mut all = true;
    let mut k = 0;
    while k < LEN {
        if !bit(&b, OR + k) && bit(&a, OL + k) { all = false; }
        k += 1;
    }
    assert!(got == all);
    kani::cover!(got && r.null_count() > 0);
    kani::cover!(!got);
    kani::cover!(got && r.null_count() == 0);
}
// Contract (C19) NullBuffer::contains(&self, other) ("true if all nulls in other also exist in self"),
// equal lengths: true exactly when for every i, other.is_null(i) implies self.is_null(i).
//@@ contains

fn expand_grid<const OFF: usize, const LEN: usize, const COUNT: usize, const N: usize>() {
    let a: [u8; N] = any_bytes();
    set_skews([(OFF / 8) % 8; 6]);
    let n = NullBuffer::new(BooleanBuffer::new(mk(&a, 0), OFF, LEN));
    let e = n.expand(COUNT);
    assert!(e.len() == LEN * COUNT);
    assert!(e.null_count() == (LEN - popcount(&a, OFF, LEN)) * COUNT);
    assert!(e.offset() + e.len() <= 8 * e.validity().len());
    if LEN * COUNT > 0 {
        let i: usize = kani::any();
        kani::assume(i < LEN * COUNT);
        assert!(e.is_valid(i) == bit(&a, OFF + i / COUNT));
        kani::cover!(e.is_valid(i) && i % COUNT == COUNT - 1);
        kani::cover!(!e.is_valid(i));
    }
    kani::cover!(e.len() == LEN * COUNT);
}
// Contract (C19/C01) NullBuffer::expand(count): length len*count, slot i of the result is valid exactly
// when slot i / count of self is valid, null_count is the exact number of null slots of the result.
//@@ expand

fn slice_grid<const OFF: usize, const LEN: usize, const O: usize, const L: usize, const N: usize>() {
    let a: [u8; N] = any_bytes();
    skews().ubc(0, OFF, LEN).ubc(0, OFF + O, L).install();
    let n = NullBuffer::new(BooleanBuffer::new(mk(&a, 0), OFF, LEN));
    let s = n.slice(O, L);
    assert!(s.len() == L);
    assert!(s.null_count() == L - popcount(&a, OFF + O, L));
    if L > 0 {
        let i: usize = kani::any();
        kani::assume(i < L);
        assert!(s.is_valid(i) == bit(&a, OFF + O + i) && s.is_valid(i) == n.is_valid(O + i));
        kani::cover!(s.is_valid(i));
        kani::cover!(s.is_null(i));
    }
    kani::cover!(s.null_count() == 0 && n.null_count() > 0);
}
// Contract (C19/C01) NullBuffer::slice(o, l): length l, slot i = slot o+i of self, and the null count is
// recomputed exactly for the sub-range (nulls outside [o, o+l) are not counted).
//@@ slice

fn iter_grid<const OFF: usize, const LEN: usize, const N: usize>() {
    let a: [u8; N] = any_bytes();
    set_skews([(OFF / 8) % 8; 6]);
    let n = NullBuffer::new(BooleanBuffer::new(mk(&a, 0), OFF, LEN));
    let mut it = n.iter();
    let mut i = 0;
    while i < LEN {
        assert!(it.next() == Some(bit(&a, OFF + i)));
        i += 1;
    }
    assert!(it.next().is_none());
    let mut next_expected = 0usize;
    let mut vi = n.valid_indices();
    let mut k = 0;
    while k <= LEN {
        match vi.next() {
            Some(idx) => {
                assert!(idx >= next_expected && idx < LEN && bit(&a, OFF + idx));
                let mut j = next_expected;
                while j < idx { assert!(!bit(&a, OFF + j)); j += 1; }
                next_expected = idx + 1;
            }
            None => {
                let mut j = next_expected;
                while j < LEN { assert!(!bit(&a, OFF + j)); j += 1; }
                next_expected = LEN + 1;
                break;
            }
        }
        k += 1;
    }
    assert!(next_expected == LEN + 1);
    kani::cover!(n.null_count() == 0);
    kani::cover!(n.null_count() == LEN);
}
// Contract (C19) NullBuffer::iter yields exactly len items, the i-th being is_valid(i); valid_indices
// yields exactly the positions of the valid slots in increasing order.
//@@ iter

fn valid_slices_grid<const OFF: usize, const LEN: usize, const N: usize>() {
    let a: [u8; N] = any_bytes();
    set_skews([(OFF / 8) % 8; 6]);
    let n = NullBuffer::new(BooleanBuffer::new(mk(&a, 0), OFF, LEN));
    let mut pos = 0usize;
    let mut ss = n.valid_slices();
    let mut k = 0;
    let mut finished = false;
    while k <= LEN {
        match ss.next() {
            Some((s, e)) => {
                assert!(s >= pos && s < e && e <= LEN);
                assert!(k == 0 || s > pos);
                let mut j = pos;
                while j < s { assert!(!bit(&a, OFF + j)); j += 1; }
                while j < e { assert!(bit(&a, OFF + j)); j += 1; }
                pos = e;
            }
            None => {
                let mut j = pos;
                while j < LEN { assert!(!bit(&a, OFF + j)); j += 1; }
                finished = true;
                break;
            }
        }
        k += 1;
    }
    assert!(finished);
    kani::cover!(n.null_count() == 0);
    kani::cover!(n.null_count() == LEN);
    kani::cover!(LEN < 3 || (n.is_valid(0) && n.is_null(1) && n.is_valid(2)));
}
// Contract (C19) NullBuffer::valid_slices yields, in order, the maximal runs [start, end) of valid slots.
//@@ valid_slices

fn try_for_each_grid<const OFF: usize, const LEN: usize, const N: usize>() {
    let a: [u8; N] = any_bytes();
    set_skews([(OFF / 8) % 8; 6]);
    let n = NullBuffer::new(BooleanBuffer::new(mk(&a, 0), OFF, LEN));
    let valid = popcount(&a, OFF, LEN);
    let fail_at: usize = kani::any(); // the fail_at-th call (1-based) returns Err; 0 = never
    let mut calls = 0usize;
    let mut next_expected = 0usize;
    let r = n.try_for_each_valid_idx(|idx| {
        // called on valid slots only, in increasing order, skipping none
        assert!(idx >= next_expected && idx < LEN && bit(&a, OFF + idx));
        let mut j = next_expected;
        while j < idx { assert!(!bit(&a, OFF + j)); j += 1; }
        next_expected = idx + 1;
        calls += 1;
        if calls == fail_at { Err(idx) } else { Ok(()) }
    });
    if fail_at >= 1 && fail_at <= valid {
        assert!(r.is_err() && calls == fail_at); // stops at the first error and reports it
        assert!(r == Err(next_expected - 1));
    } else {
        assert!(r.is_ok() && calls == valid); // every valid slot visited exactly once
    }
    kani::cover!(r.is_err() && calls > 1);
    kani::cover!(r.is_ok() && calls == 0 && LEN > 0);
    kani::cover!(r.is_ok() && calls == LEN);
}
// Contract (C19) NullBuffer::try_for_each_valid_idx(f): f is called exactly on the valid slots, in
// increasing order, none skipped; if the k-th call returns Err(e) the iteration stops there and
// Err(e) is returned after exactly k calls; otherwise Ok(()) after exactly (number of valid slots) calls.
//@@ try_for_each

fn unsliced_grid<const LEN: usize, const N: usize>() {
    let a: [u8; N] = any_bytes();
    set_skews([0; 6]);
    let r = NullBuffer::from_unsliced_buffer(Buffer::from_slice_ref(&a), LEN);
    let valid = popcount(&a, 0, LEN);
    match &r {
        None => assert!(valid == LEN),
        Some(n) => {
            assert!(valid < LEN && n.len() == LEN && n.offset() == 0 && n.null_count() == LEN - valid);
            let i: usize = kani::any();
            kani::assume(i < LEN);
            assert!(n.is_valid(i) == bit(&a, i));
            assert!(n.validity().len() == N && bit(n.validity(), i) == bit(&a, i) && n.buffer().len() == N);
        }
    }
    kani::cover!(r.is_none());
    kani::cover!(r.is_some());
}
// Contract (C19/C01) NullBuffer::from_unsliced_buffer(buf, len): None exactly when the first len bits are
// all set; otherwise Some(n) with offset 0, length len, validity == those bits, exact null count
// (bits >= len of the buffer are symbolic and not counted); validity()/buffer() expose the bytes.
//@@ unsliced

fn nb_from_bools_grid<const LEN: usize, const VARIANT: u8>() {
    let m: [bool; LEN] = kani::any();
    set_skews([0; 6]);
    let n: NullBuffer = match VARIANT {
        0 => NullBuffer::from(&m[..]),
        1 => NullBuffer::from(&m),
        2 => NullBuffer::from(m.to_vec()),
        _ => m.iter().copied().collect(),
    };
    let mut nulls = 0usize;
    let mut k = 0;
    while k < LEN { if !m[k] { nulls += 1; } k += 1; }
    assert!(n.len() == LEN && n.null_count() == nulls);
    if LEN > 0 {
        let i: usize = kani::any();
        kani::assume(i < LEN);
        assert!(n.is_valid(i) == m[i]);
    }
    kani::cover!(nulls == 0);
    kani::cover!(nulls == LEN);
}
// Contract (C19/C01) NullBuffer::from(&[bool]) / from(&[bool; N]) / from(Vec<bool>) / FromIterator<bool>
// (VARIANT 0/1/2/3): length = number of items, slot i valid exactly when item i is true, exact null count.
//@@ nb_from_bools
'''

def n_tight(off, ln, sk=0): return sk + max(ceil(off + ln, 8), 1)
out = {}
def add(fam, s): out.setdefault(fam, []).append(s)
tf = lambda b: 'true' if b else 'false'

for off, ln, n, sk, via, tier in [(0, 0, 1, 0, False, 'thorough'), (3, 12, 2, 0, False, 'quick'), (5, 65, 9, 0, True, 'quick'), (0, 64, 8, 0, False, 'thorough'),
                                  (1, 130, 17, 0, False, 'quick'), (13, 140, 22, 2, True, 'thorough'), (130, 200, 42, 0, False, 'thorough'), (63, 129, 24, 0, True, 'thorough'), (7, 1, 1, 0, False, 'thorough')]:
    assert 8 * (n - sk) >= off + ln
    add('new', inst('nb_%s_%d_%d_%d_%d' % ('from' if via else 'new', off, ln, n, sk), max(ln + 3, 10), 'new_grid::<%d, %d, %d, %d, %s>()' % (off, ln, n, sk, tf(via)), props='C19,C01',
        bound='grid_(offset,len,bytes,ptr_skew)=(%d,%d,%d,%d)' % (off, ln, n, sk),
        fns=('NullBuffer::from' if via else 'NullBuffer::new') + ',NullBuffer::null_count,NullBuffer::is_valid,NullBuffer::is_null,NullBuffer::len,NullBuffer::validity,NullBuffer::inner', tier=tier, timeout=300))
for ln, tier in [(0, 'thorough'), (1, 'thorough'), (9, 'quick'), (64, 'thorough'), (65, 'thorough'), (130, 'thorough')]:
    for v in (True, False):
        add('const', inst('nb_new_%s_%d' % ('valid' if v else 'null', ln), 8, 'const_grid::<%s, %d>()' % (tf(v), ln), props='C19,C01',
            bound='grid_len=%d' % ln, fns='NullBuffer::new_valid' if v else 'NullBuffer::new_null', tier=tier, timeout=120))
for lp, rp, ol, orr, ln, tier in [(True, True, 3, 5, 12, 'quick'), (True, True, 3, 3, 70, 'quick'), (True, False, 3, 0, 12, 'quick'), (False, True, 0, 5, 65, 'thorough'), (False, False, 0, 0, 9, 'thorough'),
                                  (True, True, 0, 9, 65, 'thorough'), (True, True, 0, 64, 128, 'thorough'), (True, True, 130, 1, 130, 'thorough')]:
    nl, nr = n_tight(ol, ln), n_tight(orr, ln)
    add('union', inst('nb_union_%s%s_%d_%d_%d' % ('s' if lp else 'n', 's' if rp else 'n', ol, orr, ln), max(ln + 3, 12), 'union_grid::<%s, %s, %d, %d, %d, %d, %d>()' % (tf(lp), tf(rp), ol, orr, ln, nl, nr), props='C19',
        bound='grid_(lhs_present,rhs_present,ol,or,len)=(%s,%s,%d,%d,%d)' % (tf(lp), tf(rp), ol, orr, ln), fns='NullBuffer::union', tier=tier, timeout=400))
for p, o, ln, tier in [((True, True, True), (3, 5, 0), 12, 'quick'), ((True, False, True), (0, 0, 7), 20, 'thorough'), ((False, False, False), (0, 0, 0), 9, 'thorough'), ((True, True, True), (1, 65, 2), 66, 'thorough')]:
    n = n_tight(max(o), ln)
    add('union_many', inst('nb_union_many_%s_%d_%d_%d_%d' % (''.join('s' if x else 'n' for x in p), o[0], o[1], o[2], ln), max(ln + 3, 12),
        'union_many_grid::<%s, %s, %s, %d, %d, %d, %d, %d>()' % (tf(p[0]), tf(p[1]), tf(p[2]), o[0], o[1], o[2], ln, n), props='C19',
        bound='grid_(present,o0,o1,o2,len)=(%s,%d,%d,%d,%d)' % (''.join('1' if x else '0' for x in p), o[0], o[1], o[2], ln), fns='NullBuffer::union_many', tier=tier, timeout=600))
for ol, orr, ln, tier in [(3, 5, 12, 'quick'), (0, 9, 65, 'quick'), (0, 0, 64, 'thorough'), (63, 1, 130, 'thorough'), (0, 0, 0, 'thorough')]:
    nl, nr = n_tight(ol, ln), n_tight(orr, ln)
    add('contains', inst('nb_contains_%d_%d_%d' % (ol, orr, ln), max(ln + 3, 12), 'contains_grid::<%d, %d, %d, %d, %d>()' % (ol, orr, ln, nl, nr), props='C19',
        bound='grid_(ol,or,len)=(%d,%d,%d)' % (ol, orr, ln), fns='NullBuffer::contains', tier=tier, timeout=300))
for off, ln, cnt, tier in [(3, 5, 3, 'quick'), (0, 9, 1, 'thorough'), (5, 4, 0, 'thorough'), (61, 6, 2, 'thorough'), (0, 0, 3, 'thorough'), (2, 22, 3, 'thorough')]:
    add('expand', inst('nb_expand_%d_%d_%d' % (off, ln, cnt), max(ln * max(cnt, 1) + 3, 12), 'expand_grid::<%d, %d, %d, %d>()' % (off, ln, cnt, n_tight(off, ln)), props='C19,C01',
        bound='grid_(offset,len,count)=(%d,%d,%d)' % (off, ln, cnt), fns='NullBuffer::expand', tier=tier, timeout=400))
for off, ln, o, l, tier in [(3, 20, 5, 9, 'quick'), (0, 130, 63, 66, 'quick'), (5, 70, 70, 0, 'thorough'), (1, 64, 0, 64, 'thorough'), (130, 200, 1, 130, 'thorough')]:
    add('slice', inst('nb_slice_%d_%d_%d_%d' % (off, ln, o, l), max(ln + 3, 12), 'slice_grid::<%d, %d, %d, %d, %d>()' % (off, ln, o, l, n_tight(off, ln)), props='C19,C01',
        bound='grid_(offset,len,slice_offset,slice_len)=(%d,%d,%d,%d)' % (off, ln, o, l), fns='NullBuffer::slice', tier=tier, timeout=300))
for off, ln, tier in [(5, 6, 'quick'), (61, 6, 'thorough'), (0, 0, 'thorough')]:
    add('iter', inst('nb_iter_%d_%d' % (off, ln), 12, 'iter_grid::<%d, %d, %d>()' % (off, ln, n_tight(off, ln) + 1), props='C19',
        bound='grid_(offset,len)=(%d,%d)' % (off, ln), fns='NullBuffer::iter,NullBuffer::valid_indices', tier=tier, timeout=600))

for off, ln, tier in [(5, 6, 'thorough'), (61, 5, 'thorough')]:
    add('valid_slices', inst('nb_valid_slices_%d_%d' % (off, ln), 12, 'valid_slices_grid::<%d, %d, %d>()' % (off, ln, n_tight(off, ln) + 1), props='C19',
        bound='grid_(offset,len)=(%d,%d)' % (off, ln), fns='NullBuffer::valid_slices', tier=tier, timeout=900))
for off, ln, tier in [(5, 5, 'thorough'), (62, 4, 'thorough')]:
    add('try_for_each', inst('nb_try_for_each_valid_idx_%d_%d' % (off, ln), 12, 'try_for_each_grid::<%d, %d, %d>()' % (off, ln, n_tight(off, ln) + 1), props='C19',
        bound='grid_(offset,len)=(%d,%d)_failing_call_symbolic' % (off, ln), fns='NullBuffer::try_for_each_valid_idx', tier=tier, timeout=900))
for ln, n, tier in [(12, 2, 'quick'), (65, 9, 'thorough'), (0, 1, 'thorough'), (130, 17, 'thorough')]:
    add('unsliced', inst('nb_from_unsliced_buffer_%d_%d' % (ln, n), max(ln + 3, 12), 'unsliced_grid::<%d, %d>()' % (ln, n), props='C19,C01',
        bound='grid_(len,bytes)=(%d,%d)' % (ln, n), fns='NullBuffer::from_unsliced_buffer,NullBuffer::validity,NullBuffer::buffer', tier=tier, timeout=300))
for ln, var, tier in [(9, 3, 'quick'), (9, 0, 'thorough'), (9, 1, 'thorough'), (9, 2, 'thorough'), (65, 3, 'thorough'), (0, 0, 'thorough')]:
    add('nb_from_bools', inst('nb_from_bools_%d_%d' % (ln, var), max(ln + 3, 12), 'nb_from_bools_grid::<%d, %d>()' % (ln, var), props='C19,C01',
        bound='grid_(len,variant)=(%d,%d)' % (ln, var), fns='NullBuffer::from,NullBuffer::from_iter', tier=tier, timeout=300))
text = HEAD
for fam, items in out.items():
    text = text.replace('//@@ %s\n' % fam, ''.join(items))
assert '//@@' not in text
write('buffer/null.rs', text)
