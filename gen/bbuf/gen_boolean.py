#!/usr/bin/env python3
# generates kani/arrow-buffer/buffer/boolean.rs
from common import *

HEAD = '// Kani contract harnesses for /repo/arrow-buffer/src/buffer/boolean.rs (child module: sees private items via super::)\n' + PRELUDE + r'''
/// symbolic bytes `a` as an arrow Buffer whose data pointer is `sk` bytes past a 64-byte aligned
/// allocation start (sk % 8 != 0 makes `align_to::<u64>` return a non-empty prefix)
fn mk(a: &[u8], sk: usize) -> Buffer { Buffer::from_slice_ref(a).slice(sk) }

// =============================================================================================
// BooleanBuffer::new
// =============================================================================================

// Contract (C19/C01) BooleanBuffer::new, acceptance direction: for every buffer of n <= 8 bytes and
// every (offset, len) over the full usize range with offset + len <= 8n (computed in u128, i.e. no
// overflow), `new` returns (does not panic) a buffer with exactly that offset and length whose
// bit i is bit offset+i of the bytes.
// @unit name=bb_new_accepts props=C19,C01 kind=bounded bound=buffer_bytes<=8_(offset,len_full_usize_range) fns=BooleanBuffer::new,BooleanBuffer::value,BooleanBuffer::len,BooleanBuffer::offset timeout=120
inst!(bb_new_accepts, 4, {
    let a: [u8; 8] = any_bytes();
    let n: usize = kani::any();
    kani::assume(n <= 8);
    let buf = Buffer::from_slice_ref(&a).slice_with_length(0, n);
    let (off, len): (usize, usize) = (kani::any(), kani::any());
    kani::assume(off as u128 + len as u128 <= 8 * n as u128);
    let b = BooleanBuffer::new(buf, off, len);
    assert!(b.offset() == off && b.len() == len && b.is_empty() == (len == 0));
    let i: usize = kani::any();
    if i < len {
        assert!(b.value(i) == bit(&a, off + i));
        kani::cover!(b.value(i) && off > 0 && i > 0);
    }
    kani::cover!(len == 0 && off == 8 * n);
    kani::cover!(len == 64);
});

// Contract (C19/C01) BooleanBuffer::new, rejection direction (may-reject reading): whenever `new`
// returns, offset + len <= 8 * bytes holds mathematically (so a wrapped sum is never accepted);
// panicking is the only other outcome.
// @unit name=bb_new_rejects props=C19,C01 kind=bounded bound=buffer_bytes<=8_(offset,len_full_usize_range) fns=BooleanBuffer::new timeout=120 mayreject=1
#[kani::proof]
#[kani::unwind(4)]
#[kani::stub(alloc::fmt::format, stub_format)]
fn bb_new_rejects() {
    let a: [u8; 8] = any_bytes();
    let n: usize = kani::any();
    kani::assume(n <= 8);
    let buf = Buffer::from_slice_ref(&a).slice_with_length(0, n);
    let (off, len): (usize, usize) = (kani::any(), kani::any());
    let b = BooleanBuffer::new(buf, off, len);
    assert!(off as u128 + len as u128 <= 8 * n as u128);
    kani::cover!(b.len() == 64);
    kani::cover!(b.len() == 0 && b.offset() == 64);
}

// =============================================================================================
// new_set / new_unset
// =============================================================================================

fn new_const_grid<const SET: bool, const LEN: usize>() {
    let b = if SET { BooleanBuffer::new_set(LEN) } else { BooleanBuffer::new_unset(LEN) };
    assert!(b.len() == LEN);
    assert!(b.offset() + LEN <= 8 * b.values().len());
    set_skews([b.offset() / 8 % 8; 6]);
    assert!(b.count_set_bits() == if SET { LEN } else { 0 });
    if LEN > 0 {
        let i: usize = kani::any();
        kani::assume(i < LEN);
        assert!(b.value(i) == SET);
    }
    kani::cover!(b.len() == LEN);
}
// Contract (C19) BooleanBuffer::new_set(n) / new_unset(n): length n, every bit i < n is true / false,
// count_set_bits is n / 0, and the bit range lies inside the byte buffer.
//@@ new_const

// =============================================================================================
// slice / value
// =============================================================================================

// Contract (C19) BooleanBuffer::slice + value: on a 12-byte buffer with arbitrary (offset, len)
// accepted by `new`, for every (o, l) with o + l <= len, slice(o, l) has length l and its bit i is bit
// offset+o+i of the bytes (the slice addresses exactly the requested sub-range; all other bits are
// symbolic and do not influence it); offset and length are fully symbolic (nothing is allocated).
// @unit name=bb_slice_value props=C19,C01 kind=bounded bound=buffer_bytes=12_(offset,len,slice_offset,slice_len_symbolic) fns=BooleanBuffer::slice,BooleanBuffer::value,BooleanBuffer::len timeout=200
inst!(bb_slice_value, 4, {
    let a: [u8; 12] = any_bytes();
    let (off, len): (usize, usize) = (kani::any(), kani::any());
    kani::assume(off <= 96 && len <= 96 - off);
    let b = BooleanBuffer::new(Buffer::from_slice_ref(&a), off, len);
    let (o, l): (usize, usize) = (kani::any(), kani::any());
    kani::assume(o <= len && l <= len - o);
    let s = b.slice(o, l);
    assert!(s.len() == l && s.offset() == off + o);
    let i: usize = kani::any();
    if i < l {
        assert!(s.value(i) == bit(&a, off + o + i));
        assert!(s.value(i) == b.value(o + i));
        kani::cover!(s.value(i) && o % 8 == 3 && i == 64);
    }
    kani::cover!(l == 0 && o == len);
});

// Contract (C19) BooleanBuffer::slice rejection direction (may-reject): if slice(o, l) returns then
// o + l <= len mathematically, for all usize o, l (a wrapped o + l is never accepted).
// @unit name=bb_slice_rejects props=C19,C01 kind=bounded bound=buffer_bytes=12 fns=BooleanBuffer::slice timeout=200 mayreject=1
#[kani::proof]
#[kani::unwind(4)]
#[kani::stub(alloc::fmt::format, stub_format)]
fn bb_slice_rejects() {
    let a: [u8; 12] = any_bytes();
    let (off, len): (usize, usize) = (kani::any(), kani::any());
    kani::assume(off <= 96 && len <= 96 - off);
    let b = BooleanBuffer::new(Buffer::from_slice_ref(&a), off, len);
    let (o, l): (usize, usize) = (kani::any(), kani::any());
    let s = b.slice(o, l);
    assert!(o as u128 + l as u128 <= len as u128);
    kani::cover!(s.len() == 0);
    kani::cover!(s.len() == 96);
}

// =============================================================================================
// count_set_bits / has_true / has_false
// =============================================================================================

fn readers_grid<const OFF: usize, const LEN: usize, const N: usize, const SK: usize>() {
    let a: [u8; N] = any_bytes();
    let x = BooleanBuffer::new(mk(&a, SK), OFF, LEN);
    set_skews([(SK + OFF / 8) % 8; 6]);
    let mut cnt = 0usize;
    let mut i = 0;
    while i < LEN {
        if bit(&a, 8 * SK + OFF + i) { cnt += 1; }
        i += 1;
    }
    assert!(x.count_set_bits() == cnt);
    assert!(x.has_true() == (cnt > 0));
    assert!(x.has_false() == (cnt < LEN));
    kani::cover!(cnt == LEN);
    kani::cover!(cnt == 0);
    kani::cover!(LEN < 2 || (cnt > 0 && cnt < LEN));
}
// Contract (C19) count_set_bits / has_true / has_false: equal to the number of true values / "some value
// is true" / "some value is false" of the addressed bit sequence (naive loop over the model); all
// bytes, including the bits before `offset`, after `offset+len` and the skipped bytes, are symbolic,
// so the results provably do not depend on bits outside the addressed range.
//@@ readers

fn readers_big<const OFF: usize, const LEN: usize, const N: usize>() {
    let a: [u8; N] = kani::any();
    let x = BooleanBuffer::new(mk(&a, 0), OFF, LEN);
    set_skews([(OFF / 8) % 8; 6]);
    let (mut any_true, mut any_false) = (false, false);
    let mut i = 0;
    while i < LEN {
        if bit(&a, OFF + i) { any_true = true; } else { any_false = true; }
        i += 1;
    }
    assert!(x.has_true() == any_true);
    assert!(x.has_false() == any_false);
    kani::cover!(!any_false);
    kani::cover!(!any_true);
    kani::cover!(any_true && any_false);
}
// Contract (C19) has_true / has_false on long buffers (more than 16 whole 64-bit chunks after the prefix,
// so the 16-chunk block folds (CHUNK_FOLD_BLOCK_SIZE) and their remainders are executed): true exactly
// when some addressed value is true / false; every byte symbolic, including bits outside the range.
//@@ readers_big

// =============================================================================================
// find_nth_set_bit_position
// =============================================================================================

fn find_nth_grid<const OFF: usize, const LEN: usize, const N: usize, const START: usize, const NTH: usize>() {
    let a: [u8; N] = any_bytes();
    let x = BooleanBuffer::new(mk(&a, 0), OFF, LEN);
    set_skews([((OFF + START) / 8) % 8; 6]);
    let r = x.find_nth_set_bit_position(START, NTH);
    // spec: scan the model from START; the answer is one past the NTH-th true value, or LEN
    let mut seen = 0usize;
    let mut expect = if NTH == 0 { START } else { LEN };
    let mut done = NTH == 0;
    let mut i = START;
    while i < LEN {
        if !done && bit(&a, OFF + i) {
            seen += 1;
            if seen == NTH { expect = i + 1; done = true; }
        }
        i += 1;
    }
    assert!(r == expect);
    kani::cover!(NTH == 0 || START == LEN || (r == LEN && !done));
    kani::cover!(NTH == 0 || NTH >= LEN - START || (done && r < LEN));
    kani::cover!(NTH == 0 || NTH > LEN - START || (done && r == LEN));
}
// Contract (C19) find_nth_set_bit_position(start, n): n == 0 gives start; otherwise one past the position
// of the n-th true value at or after `start`, or len() when fewer than n true values remain
// (contents symbolic; start <= len and n concrete per instance).
//@@ find_nth

// =============================================================================================
// from_bitwise_unary_op / from_bits / Not
// =============================================================================================

fn unary_grid<const OFF: usize, const LEN: usize, const N: usize, const SK: usize>() {
    let a: [u8; N] = any_bytes();
    let t: [bool; 2] = [kani::any(), kani::any()];
    let buf = mk(&a, SK);
    set_skews([SK % 8; 6]);
    let (m0, m1) = (mask(t[0]), mask(t[1]));
    let z = BooleanBuffer::from_bitwise_unary_op(&buf, OFF, LEN, |x| (m0 & !x) | (m1 & x));
    assert!(z.len() == LEN);
    assert!(z.offset() + LEN <= 8 * z.values().len());
    let (mut c1, mut c2) = (LEN == 0, LEN == 0);
    if LEN > 0 {
        let i: usize = kani::any();
        kani::assume(i < LEN);
        assert!(z.value(i) == t[bit(&a, 8 * SK + OFF + i) as usize]);
        c1 = z.value(i) && !t[0];
        c2 = !z.value(i) && t[0];
    }
    kani::cover!(c1);
    kani::cover!(c2);
}
// Contract (C19) from_bitwise_unary_op(src, offset, len, op) for each of the 4 uniform bitwise unary
// operations op (truth table t symbolic: identity, not, const-0, const-1): the result has length len,
// lies inside its byte buffer, and bit i equals t[bit offset+i of src] for every i < len. All src
// bytes (also outside the addressed range, which the code does feed to `op`) are symbolic.
//@@ unary

fn not_grid<const OFF: usize, const LEN: usize, const N: usize, const SK: usize>() {
    let a: [u8; N] = any_bytes();
    let x = BooleanBuffer::new(mk(&a, SK), OFF, LEN);
    set_skews([SK % 8; 6]);
    let z = !&x;
    let c = BooleanBuffer::from_bits(x.values(), OFF, LEN);
    assert!(z.len() == LEN && c.len() == LEN);
    assert!(z.offset() + LEN <= 8 * z.values().len() && c.offset() + LEN <= 8 * c.values().len());
    let i: usize = kani::any();
    kani::assume(i < LEN);
    assert!(z.value(i) == !bit(&a, 8 * SK + OFF + i));
    assert!(c.value(i) == bit(&a, 8 * SK + OFF + i));
    assert!(x.value(i) == bit(&a, 8 * SK + OFF + i));
    kani::cover!(z.value(i));
    kani::cover!(!z.value(i));
}
// Contract (C19) `!&BooleanBuffer` and BooleanBuffer::from_bits: value i of the result is the negation /
// a copy of value i of the operand, same length; the operand is unchanged.
//@@ not

// =============================================================================================
// from_bitwise_binary_op, & | ^
// =============================================================================================

/// one of the 16 uniform bitwise binary operations, selected by its truth table t[2a+b]
fn tt2(t: [bool; 4]) -> impl Fn(u64, u64) -> u64 {
    let (t0, t1, t2, t3) = (mask(t[0]), mask(t[1]), mask(t[2]), mask(t[3]));
    move |a, b| (t0 & !a & !b) | (t1 & !a & b) | (t2 & a & !b) | (t3 & a & b)
}

fn bin_grid<const OL: usize, const OR: usize, const LEN: usize, const NL: usize, const NR: usize, const SKL: usize, const SKR: usize>() {
    let a: [u8; NL] = any_bytes();
    let b: [u8; NR] = any_bytes();
    let t: [bool; 4] = [kani::any(), kani::any(), kani::any(), kani::any()];
    let (ba, bb) = (mk(&a, SKL), mk(&b, SKR));
    set_skews([SKL % 8, SKR % 8, SKL % 8, SKR % 8, 0, 0]);
    let z = BooleanBuffer::from_bitwise_binary_op(&ba, OL, &bb, OR, LEN, tt2(t));
    assert!(z.len() == LEN);
    assert!(z.offset() + LEN <= 8 * z.values().len());
    let (mut c1, mut c2) = (LEN == 0, LEN == 0);
    if LEN > 0 {
        let i: usize = kani::any();
        kani::assume(i < LEN);
        let (x, y) = (bit(&a, 8 * SKL + OL + i), bit(&b, 8 * SKR + OR + i));
        assert!(z.value(i) == t[2 * (x as usize) + (y as usize)]);
        c1 = z.value(i) && x && !y;
        c2 = !z.value(i) && y;
    }
    kani::cover!(c1);
    kani::cover!(c2);
}
// Contract (C19) from_bitwise_binary_op(l, ol, r, or, len, op) for each of the 16 uniform bitwise binary
// operations (truth table t symbolic): result length len, inside its byte buffer, and bit i equals
// t[l-bit ol+i][r-bit or+i] for every i < len. All bytes of both inputs are symbolic, including the
// bits outside the addressed ranges (which the 64-bit fast paths do pass to `op`): the result does
// not depend on them. Paths (label in the bound): aligned_exact / aligned_suffix (ol%64 == or%64,
// 8-byte aligned data pointers, without / with a byte suffix), unaligned_chunks (ol%64 == or%64,
// misaligned data pointer: chunks_exact fallback), bitchunks (ol%64 != or%64).
//@@ bin

fn bitop_grid<const OP: u8, const OL: usize, const OR: usize, const LEN: usize, const NL: usize, const NR: usize, const SKL: usize, const SKR: usize>() {
    let a: [u8; NL] = any_bytes();
    let b: [u8; NR] = any_bytes();
    let x = BooleanBuffer::new(mk(&a, SKL), OL, LEN);
    let y = BooleanBuffer::new(mk(&b, SKR), OR, LEN);
    set_skews([SKL % 8, SKR % 8, SKL % 8, SKR % 8, 0, 0]);
    let z = match OP { 0 => &x & &y, 1 => &x | &y, _ => &x ^ &y };
    assert!(z.len() == LEN);
    assert!(z.offset() + LEN <= 8 * z.values().len());
    let i: usize = kani::any();
    kani::assume(i < LEN);
    let (p, q) = (bit(&a, 8 * SKL + OL + i), bit(&b, 8 * SKR + OR + i));
    assert!(z.value(i) == match OP { 0 => p & q, 1 => p | q, _ => p ^ q });
    assert!(x.value(i) == p && y.value(i) == q);
    kani::cover!(z.value(i));
    kani::cover!(!z.value(i));
}
// Contract (C19) `&a & &b`, `&a | &b`, `&a ^ &b` on BooleanBuffers of equal length: value i of the
// result is the and / or / xor of the operands' values i; same length; result inside its byte buffer;
// operands unchanged. (OP 0/1/2 = and/or/xor; goes through buffer_bin_and/or/xor including the
// re-slicing to offset 0 when the fast path returns a non-zero offset.)
//@@ bitop

// =============================================================================================
// &= |= ^=  (bitwise_bin_op_assign)
// =============================================================================================

fn assign_grid<const OP: u8, const SHARED: bool, const OL: usize, const OR: usize, const LEN: usize, const NL: usize, const NR: usize>() {
    let a: [u8; NL] = any_bytes();
    let b: [u8; NR] = any_bytes();
    let ba = Buffer::from_slice_ref(&a);
    let orig_ptr = ba.as_ptr();
    let keep = if SHARED { Some(ba.clone()) } else { None };
    let mut x = BooleanBuffer::new(ba, OL, LEN);
    let y = BooleanBuffer::new(mk(&b, 0), OR, LEN);
    set_skews([0; 6]);
    match OP { 0 => x &= &y, 1 => x |= &y, _ => x ^= &y }
    assert!(x.len() == LEN);
    assert!(x.offset() + LEN <= 8 * x.values().len());
    let i: usize = kani::any();
    kani::assume(i < LEN);
    let (p, q) = (bit(&a, OL + i), bit(&b, OR + i));
    assert!(x.value(i) == match OP { 0 => p & q, 1 => p | q, _ => p ^ q });
    assert!(y.value(i) == q);
    // frame
    let j: usize = kani::any();
    kani::assume(j < 8 * NL);
    if let Some(k) = &keep {
        // the other owner of the (formerly shared) bytes sees no change at all
        assert!(k.len() == NL && bit(k.as_slice(), j) == bit(&a, j));
    }
    if x.values().as_ptr() == orig_ptr {
        // updated in place: every bit outside [OL, OL+LEN) of the byte buffer is unchanged
        assert!(!SHARED);
        assert!(x.offset() == OL && x.values().len() == NL);
        if j < OL || j >= OL + LEN { assert!(bit(x.values(), j) == bit(&a, j)); }
    }
    let in_place = x.values().as_ptr() == orig_ptr;
    kani::cover!(SHARED || OL == 0 || (in_place && j < OL));
    kani::cover!(SHARED || OL + LEN == 8 * NL || (in_place && j >= OL + LEN));
    kani::cover!(SHARED || in_place);
    kani::cover!(x.value(i));
    kani::cover!(!x.value(i));
}
// Contract (C19) `a &= &b`, `a |= &b`, `a ^= &b`: afterwards value i of `a` is the and / or / xor of the
// old value i of `a` and value i of `b`, same length, `b` unchanged. Frame: when `a` is the unique
// owner of its bytes and is updated in place, every bit of its byte buffer outside
// [offset, offset+len) is unchanged; when the bytes are shared with another Buffer, that other Buffer
// still reads exactly the old bytes.
//@@ assign

// =============================================================================================
// PartialEq
// =============================================================================================

fn eq_grid<const OL: usize, const OR: usize, const LEN: usize, const NL: usize, const NR: usize>() {
    let a: [u8; NL] = any_bytes();
    let b: [u8; NR] = any_bytes();
    let x = BooleanBuffer::new(mk(&a, 0), OL, LEN);
    let y = BooleanBuffer::new(mk(&b, 0), OR, LEN);
    let r = x == y;
    let mut same = true;
    let mut i = 0;
    while i < LEN {
        if bit(&a, OL + i) != bit(&b, OR + i) { same = false; }
        i += 1;
    }
    assert!(r == same);
    assert!((y == x) == same);
    kani::cover!(r);
    kani::cover!(LEN == 0 || !r);
}
// Contract (C19) BooleanBuffer == BooleanBuffer (equal lengths): true exactly when every value i agrees
// (both directions, both argument orders); bits outside the two addressed ranges are symbolic and
// never influence the answer.
//@@ eq

fn eq_len_grid<const OL: usize, const LEN1: usize, const LEN2: usize, const N: usize>() {
    let a: [u8; N] = any_bytes();
    let buf = mk(&a, 0);
    let x = BooleanBuffer::new(buf.clone(), OL, LEN1);
    let y = BooleanBuffer::new(buf, OL, LEN2);
    assert!(!(x == y) && !(y == x));
    kani::cover!(x.len() != y.len());
}
// Contract (C19) BooleanBuffer == BooleanBuffer with different lengths is false, even when one is a
// prefix of the other over the same bytes.
//@@ eq_len

// =============================================================================================
// collect_bool, From<&[bool]>, FromIterator<bool>
// =============================================================================================

fn collect_grid<const LEN: usize>() {
    let m: [bool; LEN] = kani::any();
    let mut calls = 0usize;
    let z = BooleanBuffer::collect_bool(LEN, |i| { calls += 1; m[i] });
    assert!(z.len() == LEN && calls == LEN);
    assert!(z.offset() + LEN <= 8 * z.values().len());
    let (mut c1, mut c2) = (LEN == 0, LEN == 0);
    if LEN > 0 {
        let i: usize = kani::any();
        kani::assume(i < LEN);
        assert!(z.value(i) == m[i]);
        c1 = z.value(i);
        c2 = !z.value(i);
    }
    kani::cover!(c1);
    kani::cover!(c2);
}
// Contract (C19) BooleanBuffer::collect_bool(len, f): length len, value i == f(i) for every i < len, f is
// called exactly len times (each index in 0..len, never outside: the model array would panic).
//@@ collect

fn from_bools_grid<const LEN: usize, const ITER: bool>() {
    let m: [bool; LEN] = kani::any();
    let z: BooleanBuffer = if ITER { m.iter().copied().collect() } else { BooleanBuffer::from(&m[..]) };
    assert!(z.len() == LEN);
    assert!(z.offset() + LEN <= 8 * z.values().len());
    let (mut c1, mut c2) = (LEN == 0, LEN == 0);
    if LEN > 0 {
        let i: usize = kani::any();
        kani::assume(i < LEN);
        assert!(z.value(i) == m[i]);
        c1 = z.value(i);
        c2 = !z.value(i);
    }
    kani::cover!(c1);
    kani::cover!(c2);
}
// Contract (C19/C01) BooleanBuffer::from(&[bool]) and FromIterator<bool>: length = number of items,
// value i = i-th item.
//@@ from_bools

// =============================================================================================
// iter / set_indices / set_slices
// =============================================================================================

fn iter_grid<const OFF: usize, const LEN: usize, const N: usize>() {
    let a: [u8; N] = any_bytes();
    let x = BooleanBuffer::new(mk(&a, 0), OFF, LEN);
    set_skews([(OFF / 8) % 8; 6]);
    // iter: exactly LEN items, the i-th is value i
    let mut it = x.iter();
    let mut i = 0;
    while i < LEN {
        assert!(it.next() == Some(bit(&a, OFF + i)));
        i += 1;
    }
    assert!(it.next().is_none());
    // set_indices: strictly increasing, exactly the positions of true values
    let mut next_expected = 0usize; // every position < next_expected has been accounted for
    let mut si = x.set_indices();
    let mut k = 0;
    while k <= LEN {
        match si.next() {
            Some(idx) => {
                assert!(idx >= next_expected && idx < LEN && bit(&a, OFF + idx));
                let mut j = next_expected;
                while j < idx { assert!(!bit(&a, OFF + j)); j += 1; }
                next_expected = idx + 1;
            }
            None => {
                let mut j = next_expected;
                while j < LEN { assert!(!bit(&a, OFF + j)); j += 1; }
                next_expected = LEN + 1;
                break;
            }
        }
        k += 1;
    }
    assert!(next_expected == LEN + 1);
    kani::cover!(x.count_set_bits() == LEN);
    kani::cover!(x.count_set_bits() == 0);
}
// Contract (C19) BooleanBuffer::iter yields exactly len items, the i-th being value i, then None;
// set_indices yields strictly increasing positions, each a true value, with no true value skipped
// before, between or after them (i.e. exactly the positions of the true values).
//@@ iter

fn slices_grid<const OFF: usize, const LEN: usize, const N: usize>() {
    let a: [u8; N] = any_bytes();
    let x = BooleanBuffer::new(mk(&a, 0), OFF, LEN);
    set_skews([(OFF / 8) % 8; 6]);
    // set_slices: maximal runs [s, e) of true values, in order, covering every true value
    let mut pos = 0usize; // every position < pos has been accounted for
    let mut ss = x.set_slices();
    let mut k = 0;
    let mut finished = false;
    while k <= LEN {
        match ss.next() {
            Some((s, e)) => {
                assert!(s >= pos && s < e && e <= LEN);
                assert!(k == 0 || s > pos); // runs are maximal: a gap of >= 1 false value between runs
                let mut j = pos;
                while j < s { assert!(!bit(&a, OFF + j)); j += 1; }
                while j < e { assert!(bit(&a, OFF + j)); j += 1; }
                pos = e;
            }
            None => {
                let mut j = pos;
                while j < LEN { assert!(!bit(&a, OFF + j)); j += 1; }
                finished = true;
                break;
            }
        }
        k += 1;
    }
    assert!(finished);
    kani::cover!(x.count_set_bits() == LEN);
    kani::cover!(x.count_set_bits() == 0);
    kani::cover!(LEN < 3 || (x.value(0) && !x.value(1) && x.value(2)));
}
// Contract (C19) BooleanBuffer::set_slices yields, in order, the maximal runs [start, end) of true values:
// every position inside a run is true, every position between runs (at least one), before the first
// and after the last run is false.
//@@ slices

fn chunks_grid<const OFF: usize, const LEN: usize, const N: usize>() {
    let a: [u8; N] = any_bytes();
    let x = BooleanBuffer::new(mk(&a, 0), OFF, LEN);
    let bc = x.bit_chunks();
    assert!(bc.chunk_len() == LEN / 64 && bc.remainder_len() == LEN % 64);
    let j: usize = kani::any();
    kani::assume(j < 64);
    let mut it = bc.iter();
    let mut k = 0;
    while k < LEN / 64 {
        let w = it.next().unwrap();
        assert!(((w >> j) & 1 == 1) == bit(&a, OFF + 64 * k + j));
        k += 1;
    }
    assert!(it.next().is_none());
    // the remainder holds the last len % 64 values in its low bits and is zero above them
    let r = bc.remainder_bits();
    assert!(((r >> j) & 1 == 1) == (j < LEN % 64 && bit(&a, OFF + 64 * (LEN / 64) + j)));
    kani::cover!(LEN % 64 == 0 || (r >> j) & 1 == 1);
    kani::cover!(LEN % 64 == 0 || ((r >> j) & 1 == 0 && j < LEN % 64));
    kani::cover!(j >= LEN % 64);
}
// Contract (C19) BooleanBuffer::bit_chunks(): a view of exactly the addressed bits: len/64 chunks, chunk k
// bit j == value 64k+j; remainder_len == len % 64; remainder_bits bit j == value 64*(len/64)+j for
// j < len % 64 and 0 above (bits after the range are symbolic and must not leak into the padding).
//@@ chunks

fn ubc_grid<const OFF: usize, const LEN: usize, const N: usize, const SK: usize>() {
    let a: [u8; N] = any_bytes();
    let x = BooleanBuffer::new(mk(&a, SK), OFF, LEN);
    skews().ubc(SK, OFF, LEN).install();
    let u = x.unaligned_bit_chunks();
    let (lead, trail) = (u.lead_padding(), u.trailing_padding());
    let mut words = [0u64; 8];
    let mut n = 0usize;
    for w in u.iter() { words[n] = w; n += 1; }
    assert!(lead < 64 && trail < 64 && lead + LEN + trail == 64 * n);
    let (mut c1, mut c2) = (LEN == 0, LEN == 0);
    if n > 0 {
        let p: usize = kani::any();
        kani::assume(p < 64 * n);
        let b = (words[p / 64] >> (p % 64)) & 1 == 1;
        if p < lead || p >= lead + LEN { assert!(!b); } else { assert!(b == bit(&a, 8 * SK + OFF + p - lead)); }
        c1 = b;
        c2 = !b && p >= lead && p < lead + LEN;
    }
    kani::cover!(c1);
    kani::cover!(c2);
    kani::cover!(n == (lead + LEN + trail) / 64);
}
// Contract (C19) BooleanBuffer::unaligned_bit_chunks(): the words prefix, chunks.., suffix concatenated
// are lead_padding zero bits, then exactly the len addressed values in order, then trailing_padding
// zero bits (both paddings < 64, total a whole number of words); bits outside the range are symbolic
// and appear nowhere.
//@@ ubc

fn sliced_grid<const OFF: usize, const LEN: usize, const N: usize>() {
    let a: [u8; N] = any_bytes();
    let x = BooleanBuffer::new(mk(&a, 0), OFF, LEN);
    let s = x.sliced();
    assert!(8 * s.len() >= LEN);
    let i: usize = kani::any();
    kani::assume(i < LEN);
    assert!(bit(s.as_slice(), i) == bit(&a, OFF + i));
    assert!(unsafe { x.value_unchecked(i) } == bit(&a, OFF + i));
    // inner()/into_inner() expose the unsliced bytes
    assert!(x.inner().len() == N && bit(x.inner().as_slice(), OFF + i) == bit(&a, OFF + i));
    kani::cover!(bit(s.as_slice(), i));
    kani::cover!(!bit(s.as_slice(), i));
}
// Contract (C19) BooleanBuffer::sliced(): a zero-offset bitmap of at least ceil(len/8) bytes whose bit i
// is value i (copying when offset % 8 != 0, byte-slicing otherwise); value_unchecked(i) == value i
// for i < len; inner() is the unsliced byte buffer.
//@@ sliced

fn u32_grid<const OFF: usize, const LEN: usize, const N: usize>() {
    let a: [u8; N] = any_bytes();
    let x = BooleanBuffer::new(mk(&a, 0), OFF, LEN);
    set_skews([(OFF / 8) % 8; 6]);
    let mut next_expected = 0usize;
    let mut si = x.set_indices_u32();
    let mut k = 0;
    while k <= LEN {
        match si.next() {
            Some(idx) => {
                let idx = idx as usize;
                assert!(idx >= next_expected && idx < LEN && bit(&a, OFF + idx));
                let mut j = next_expected;
                while j < idx { assert!(!bit(&a, OFF + j)); j += 1; }
                next_expected = idx + 1;
            }
            None => {
                let mut j = next_expected;
                while j < LEN { assert!(!bit(&a, OFF + j)); j += 1; }
                next_expected = LEN + 1;
                break;
            }
        }
        k += 1;
    }
    assert!(next_expected == LEN + 1);
    kani::cover!(x.count_set_bits() == LEN);
    kani::cover!(x.count_set_bits() == 0);
}
// Contract (C19) BooleanBuffer::set_indices_u32 yields exactly the positions of the true values, in
// increasing order, as u32.
//@@ u32
'''

def n_tight(off, ln, sk=0): return sk + max(ceil(off + ln, 8), 1)

def upath(off, ln, n, sk):
    eff = n - sk
    al = (off // 64) * 8
    end = min(ceil(off + ln, 64) * 8, eff)
    sl = end - al
    pre = min((8 - sk % 8) % 8, sl)
    suf = (sl - pre) % 8
    if pre == 0 and suf == 0: return 'aligned_exact'
    if pre == 0: return 'aligned_suffix'
    return 'unaligned_chunks' + ('_rem' if sl % 8 else '')

def bpath(ol, orr, ln, nl, nr, skl, skr):
    if ol % 64 != orr % 64: return 'bitchunks'
    def parts(off, n, sk):
        eff = n - sk
        al = (off // 64) * 8
        end = min(ceil(off + ln, 64) * 8, eff)
        sl = end - al
        pre = min((8 - sk % 8) % 8, sl)
        return pre, (sl - pre) % 8, sl
    lp, ls, lsl = parts(ol, nl, skl); rp, rs, rsl = parts(orr, nr, skr)
    if lp == 0 and rp == 0:
        return 'aligned_exact' if ls == 0 and rs == 0 else 'aligned_suffix'
    return 'unaligned_chunks' + ('_rem' if (lsl % 8 or rsl % 8) else '')

out = {}
def add(fam, s): out.setdefault(fam, []).append(s)

# ---- new_set/new_unset
for ln, tier in [(0, 'quick'), (1, 'thorough'), (7, 'thorough'), (8, 'thorough'), (9, 'thorough'), (63, 'thorough'), (64, 'thorough'), (65, 'quick'), (127, 'thorough'), (128, 'thorough'), (129, 'thorough'), (200, 'thorough')]:
    for st in (True, False):
        nm = 'bb_new_%s_%d' % ('set' if st else 'unset', ln)
        add('new_const', inst(nm, 6, 'new_const_grid::<%s, %d>()' % ('true' if st else 'false', ln), props='C19,C01',
            bound='grid_len=%d' % ln, fns='BooleanBuffer::new_set' if st else 'BooleanBuffer::new_unset', tier=tier, timeout=120))

# ---- readers: (off, len, n, sk, tier)
R = [
 (0, 0, 1, 0, 'quick'),        # len 0
 (3, 2, 1, 0, 'thorough'),     # <= 8 bytes, prefix only
 (5, 59, 8, 0, 'quick'),       # exactly 8 bytes -> prefix only, ends at bit 64
 (0, 64, 8, 0, 'thorough'),
 (1, 64, 9, 0, 'quick'),       # 9 bytes -> prefix + suffix
 (7, 121, 16, 0, 'thorough'),  # exactly 16 bytes
 (0, 129, 17, 0, 'quick'),     # > 16 bytes, aligned, no offset padding: (0,true) arm; suffix from align_to suffix bytes
 (3, 130, 24, 0, 'quick'),     # > 16 bytes aligned, prefix taken from chunks[0], suffix from last chunk
 (8, 136, 19, 0, 'thorough'),  # byte offset 1 -> misaligned start: prefix bytes non-empty
 (13, 140, 22, 2, 'quick'),    # skewed pointer + bit padding: alignment_padding path
 (64, 128, 24, 0, 'thorough'), # trailing_padding == 0 with aligned chunks
 (65, 200, 34, 0, 'thorough'),
 (130, 200, 42, 0, 'thorough'),
 (63, 65, 17, 1, 'thorough'),
]
for off, ln, n, sk, tier in R:
    assert 8 * (n - sk) >= off + ln
    nm = 'bb_readers_%d_%d_%d_%d' % (off, ln, n, sk)
    add('readers', inst(nm, ln + 3 if ln + 3 > 8 else 8, 'readers_grid::<%d, %d, %d, %d>()' % (off, ln, n, sk), props='C19',
        bound='grid_(offset,len,bytes,ptr_skew)=(%d,%d,%d,%d)' % (off, ln, n, sk),
        fns='BooleanBuffer::count_set_bits,BooleanBuffer::has_true,BooleanBuffer::has_false', tier=tier, timeout=1500))
for off, ln, n in [(0, 1100, 138), (5, 1090, 140)]:
    nm = 'bb_readers_big_%d_%d' % (off, ln)
    add('readers_big', inst(nm, ln + 3, 'readers_big::<%d, %d, %d>()' % (off, ln, n), props='C19',
        bound='grid_(offset,len,bytes)=(%d,%d,%d)' % (off, ln, n),
        fns='BooleanBuffer::has_true,BooleanBuffer::has_false', tier='thorough', timeout=1500, mem=6))

# ---- find_nth: (off, len, n, start, tier)
for off, ln, start, nth, tier in [(3, 9, 2, 1, 'quick'), (60, 8, 1, 2, 'thorough'), (0, 8, 0, 3, 'thorough'), (5, 12, 12, 1, 'thorough'), (3, 9, 4, 0, 'thorough'), (61, 6, 0, 6, 'thorough')]:
    n = n_tight(off, ln)
    nm = 'bb_find_nth_%d_%d_%d_%d' % (off, ln, start, nth)
    add('find_nth', inst(nm, ln + 3, 'find_nth_grid::<%d, %d, %d, %d, %d>()' % (off, ln, n, start, nth), props='C19',
        bound='grid_(offset,len,start,n)=(%d,%d,%d,%d)' % (off, ln, start, nth), fns='BooleanBuffer::find_nth_set_bit_position', tier=tier, timeout=1500))

# ---- unary: (off, len, n, sk, tier)
U = [
 (0, 64, 8, 0, 'quick'),      # aligned_exact, one word
 (3, 70, 16, 0, 'quick'),     # aligned_exact, two words, offset kept
 (3, 70, 10, 0, 'quick'),     # aligned_suffix
 (65, 63, 16, 0, 'thorough'), # aligned start at word 1, exact
 (64, 65, 17, 0, 'quick'),    # aligned_suffix after skipping a word
 (3, 70, 11, 1, 'quick'),     # unaligned_chunks with remainder
 (5, 120, 19, 3, 'thorough'), # unaligned_chunks exact (16 bytes from skewed start)
 (0, 0, 1, 0, 'thorough'),
 (7, 1, 1, 0, 'thorough'),
 (63, 2, 9, 0, 'thorough'),
 (127, 130, 33, 0, 'thorough'),
 (130, 200, 42, 0, 'thorough'),
 (129, 127, 40, 0, 'thorough'),
 (9, 200, 28, 1, 'thorough'),
]
for off, ln, n, sk, tier in U:
    assert 8 * (n - sk) >= off + ln
    nm = 'bb_unary_%d_%d_%d_%d' % (off, ln, n, sk)
    add('unary', inst(nm, 10, 'unary_grid::<%d, %d, %d, %d>()' % (off, ln, n, sk), props='C19',
        bound='grid_(offset,len,bytes,ptr_skew)=(%d,%d,%d,%d)_path=%s' % (off, ln, n, sk, upath(off, ln, n, sk)),
        fns='BooleanBuffer::from_bitwise_unary_op', tier=tier, timeout=240))
for off, ln, n, sk, tier in [(3, 70, 10, 0, 'quick'), (0, 64, 8, 0, 'thorough'), (9, 65, 11, 1, 'thorough')]:
    nm = 'bb_not_%d_%d_%d_%d' % (off, ln, n, sk)
    add('not', inst(nm, 10, 'not_grid::<%d, %d, %d, %d>()' % (off, ln, n, sk), props='C19',
        bound='grid_(offset,len,bytes,ptr_skew)=(%d,%d,%d,%d)_path=%s' % (off, ln, n, sk, upath(off, ln, n, sk)),
        fns='BooleanBuffer::not,BooleanBuffer::from_bits', tier=tier, timeout=300))

# ---- binary: (ol, or, len, nl, nr, skl, skr, tier)
B = [
 (0, 0, 64, 8, 8, 0, 0, 'quick'),       # aligned_exact one word
 (3, 3, 70, 16, 16, 0, 0, 'quick'),     # aligned_exact two words, non-zero bit offset
 (3, 67, 70, 10, 18, 0, 0, 'quick'),    # aligned_suffix both, right starts at word 1
 (0, 64, 65, 9, 24, 0, 0, 'quick'),     # aligned: left suffix, right exact
 (3, 3, 70, 11, 17, 1, 1, 'quick'),     # unaligned_chunks with remainders
 (3, 3, 70, 10, 19, 0, 3, 'thorough'),   # left aligned, right misaligned -> fallback
 (5, 69, 59, 9, 25, 1, 1, 'thorough'),  # unaligned_chunks, no remainder (8 and 16 bytes from skewed start)
 (3, 5, 12, 2, 3, 0, 0, 'quick'),       # bitchunks, remainder only
 (0, 9, 65, 9, 10, 0, 0, 'quick'),      # bitchunks, one chunk + 1 bit
 (63, 0, 64, 16, 8, 0, 0, 'quick'),     # bitchunks, exactly one chunk, no remainder
 (1, 65+1, 128, 17, 25, 0, 0, 'thorough'),
 (63, 127, 2, 9, 17, 0, 0, 'thorough'), # aligned path, range straddles the word boundary
 (64, 0, 63, 16, 8, 0, 0, 'thorough'),
 (0, 0, 0, 1, 1, 0, 0, 'thorough'),
 (7, 7, 1, 1, 1, 0, 0, 'thorough'),
 (130, 2, 200, 42, 26, 0, 0, 'thorough'),
 (129, 65, 127, 32, 24, 0, 0, 'thorough'),
 (127, 128, 129, 32, 33, 0, 0, 'thorough'),
 (8, 9, 200, 26, 27, 0, 0, 'thorough'),
 (65, 1, 130, 25, 17, 0, 0, 'thorough'),
]
for ol, orr, ln, nl, nr, skl, skr, tier in B:
    assert 8 * (nl - skl) >= ol + ln and 8 * (nr - skr) >= orr + ln, (ol, orr, ln)
    nm = 'bb_bin_%d_%d_%d_%d_%d_%d_%d' % (ol, orr, ln, nl, nr, skl, skr)
    add('bin', inst(nm, 10, 'bin_grid::<%d, %d, %d, %d, %d, %d, %d>()' % (ol, orr, ln, nl, nr, skl, skr), props='C19',
        bound='grid_(ol,or,len,bytes_l,bytes_r,skew_l,skew_r)=(%d,%d,%d,%d,%d,%d,%d)_path=%s' % (ol, orr, ln, nl, nr, skl, skr, bpath(ol, orr, ln, nl, nr, skl, skr)),
        fns='BooleanBuffer::from_bitwise_binary_op', tier=tier, timeout=240))
OPN = ['and', 'or', 'xor']
BO = [
 (0, 3, 67, 70, 10, 18, 0, 0, 'quick'),    # aligned path, result offset 3 -> re-sliced
 (1, 3, 5, 12, 2, 3, 0, 0, 'quick'),       # bitchunks
 (2, 0, 64, 65, 9, 24, 0, 0, 'quick'),     # aligned path, offset 0 -> into_inner
 (0, 0, 9, 65, 9, 10, 0, 0, 'thorough'),
 (1, 3, 3, 70, 11, 17, 1, 1, 'thorough'),
 (2, 3, 3, 70, 16, 16, 0, 0, 'thorough'),
 (0, 8, 72, 20, 4, 12, 0, 0, 'thorough'),  # byte-aligned non-zero offset: sliced() takes the byte-slice branch
]
for op, ol, orr, ln, nl, nr, skl, skr, tier in BO:
    assert 8 * (nl - skl) >= ol + ln and 8 * (nr - skr) >= orr + ln
    nm = 'bb_%s_%d_%d_%d_%d_%d_%d_%d' % (OPN[op], ol, orr, ln, nl, nr, skl, skr)
    add('bitop', inst(nm, 10, 'bitop_grid::<%d, %d, %d, %d, %d, %d, %d, %d>()' % (op, ol, orr, ln, nl, nr, skl, skr), props='C19',
        bound='grid_(ol,or,len,bytes_l,bytes_r,skew_l,skew_r)=(%d,%d,%d,%d,%d,%d,%d)_path=%s' % (ol, orr, ln, nl, nr, skl, skr, bpath(ol, orr, ln, nl, nr, skl, skr)),
        fns='BooleanBuffer::bit%s,buffer_bin_%s' % (OPN[op], OPN[op]), tier=tier, timeout=300))

# ---- assign: (op, shared, ol, or, len, nl, nr, tier)
A = [
 (0, False, 3, 5, 12, 3, 3, 'quick'),     # in place, unaligned start
 (1, False, 8, 3, 70, 10, 10, 'quick'),   # in place, byte aligned left
 (2, True, 3, 3, 70, 16, 16, 'quick'),    # shared: from_bitwise_binary_op fallback (aligned path)
 (0, True, 3, 5, 12, 3, 3, 'thorough'),   # shared: bitchunks
 (2, False, 5, 64, 130, 17, 25, 'thorough'),
 (1, False, 0, 0, 64, 8, 8, 'thorough'),
 (0, False, 63, 1, 2, 9, 1, 'thorough'),
 (1, True, 0, 9, 65, 9, 10, 'thorough'),
 (2, False, 1, 0, 7, 1, 1, 'thorough'),   # stays inside one byte
]
for op, sh, ol, orr, ln, nl, nr, tier in A:
    assert 8 * nl >= ol + ln and 8 * nr >= orr + ln
    nm = 'bb_%s_assign_%s_%d_%d_%d_%d_%d' % (OPN[op], 'shared' if sh else 'unique', ol, orr, ln, nl, nr)
    add('assign', inst(nm, 12, 'assign_grid::<%d, %s, %d, %d, %d, %d, %d>()' % (op, 'true' if sh else 'false', ol, orr, ln, nl, nr), props='C19',
        bound='grid_(ol,or,len,bytes_l,bytes_r)=(%d,%d,%d,%d,%d)_%s' % (ol, orr, ln, nl, nr, 'shared_bytes' if sh else 'unique_owner'),
        fns='BooleanBuffer::bitwise_bin_op_assign,BooleanBuffer::bit%s_assign' % OPN[op], tier=tier, timeout=400))

# ---- eq
for ol, orr, ln, tier in [(0, 0, 64, 'thorough'), (3, 5, 12, 'quick'), (0, 9, 65, 'quick'), (7, 7, 130, 'thorough'), (63, 1, 129, 'thorough'), (0, 0, 0, 'thorough'), (130, 65, 200, 'thorough'), (5, 0, 1, 'thorough'), (1, 2, 63, 'thorough'), (3, 3, 128, 'quick')]:
    nl, nr = n_tight(ol, ln) + 1, n_tight(orr, ln) + 1
    nm = 'bb_eq_%d_%d_%d' % (ol, orr, ln)
    add('eq', inst(nm, max(ln + 3, 12), 'eq_grid::<%d, %d, %d, %d, %d>()' % (ol, orr, ln, nl, nr), props='C19',
        bound='grid_(ol,or,len)=(%d,%d,%d)' % (ol, orr, ln), fns='BooleanBuffer::eq', tier=tier, timeout=300))
for ol, l1, l2, tier in [(3, 64, 65, 'quick'), (0, 0, 1, 'thorough'), (5, 128, 127, 'thorough')]:
    nm = 'bb_eq_len_%d_%d_%d' % (ol, l1, l2)
    add('eq_len', inst(nm, 12, 'eq_len_grid::<%d, %d, %d, %d>()' % (ol, l1, l2, n_tight(ol, max(l1, l2))), props='C19',
        bound='grid_(offset,len1,len2)=(%d,%d,%d)' % (ol, l1, l2), fns='BooleanBuffer::eq', tier=tier, timeout=200))

# ---- collect_bool / from bools
for ln, tier in [(0, 'thorough'), (1, 'thorough'), (63, 'thorough'), (64, 'quick'), (65, 'quick'), (128, 'thorough'), (130, 'thorough'), (200, 'thorough')]:
    nm = 'bb_collect_bool_%d' % ln
    add('collect', inst(nm, max(ln + 2, 66), 'collect_grid::<%d>()' % ln, props='C19,C01', bound='grid_len=%d' % ln,
        fns='BooleanBuffer::collect_bool,MutableBuffer::collect_bool', tier=tier, timeout=300))
for ln, it, tier in [(0, False, 'thorough'), (9, False, 'quick'), (65, False, 'thorough'), (9, True, 'quick'), (65, True, 'thorough'), (130, False, 'thorough')]:
    nm = 'bb_from_%s_%d' % ('iter' if it else 'slice', ln)
    add('from_bools', inst(nm, ln + 3, 'from_bools_grid::<%d, %s>()' % (ln, 'true' if it else 'false'), props='C19,C01', bound='grid_len=%d' % ln,
        fns='BooleanBuffer::from_iter' if it else 'BooleanBuffer::from', tier=tier, timeout=300))

# ---- iterators
for off, ln, tier in [(0, 8, 'thorough'), (61, 6, 'quick'), (0, 0, 'thorough')]:
    nm = 'bb_iter_%d_%d' % (off, ln)
    add('iter', inst(nm, ln + 3 if ln > 7 else 10, 'iter_grid::<%d, %d, %d>()' % (off, ln, n_tight(off, ln) + 1), props='C19',
        bound='grid_(offset,len)=(%d,%d)' % (off, ln), fns='BooleanBuffer::iter,BooleanBuffer::set_indices', tier=tier, timeout=1500))
for off, ln, tier in [(0, 5, 'thorough'), (61, 5, 'thorough'), (0, 0, 'thorough')]:
    nm = 'bb_slices_%d_%d' % (off, ln)
    add('slices', inst(nm, ln + 3 if ln > 7 else 10, 'slices_grid::<%d, %d, %d>()' % (off, ln, n_tight(off, ln) + 1), props='C19',
        bound='grid_(offset,len)=(%d,%d)' % (off, ln), fns='BooleanBuffer::set_slices', tier=tier, timeout=1500))

for off, ln, tier in [(3, 70, 'quick'), (0, 64, 'thorough'), (0, 0, 'thorough'), (5, 12, 'thorough'), (63, 129, 'thorough'), (130, 200, 'thorough'), (1, 128, 'thorough')]:
    n = n_tight(off, ln) + 2
    add('chunks', inst('bb_bit_chunks_%d_%d' % (off, ln), 12, 'chunks_grid::<%d, %d, %d>()' % (off, ln, n), props='C19',
        bound='grid_(offset,len,bytes)=(%d,%d,%d)' % (off, ln, n), fns='BooleanBuffer::bit_chunks', tier=tier, timeout=300))
for off, ln, n, sk, tier in [(3, 12, 2, 0, 'thorough'), (5, 59, 8, 0, 'thorough'), (1, 64, 9, 0, 'quick'), (3, 130, 24, 0, 'quick'), (13, 140, 22, 2, 'thorough'), (0, 129, 17, 0, 'thorough'), (0, 0, 1, 0, 'thorough'), (64, 128, 24, 0, 'thorough')]:
    assert 8 * (n - sk) >= off + ln
    add('ubc', inst('bb_unaligned_bit_chunks_%d_%d_%d_%d' % (off, ln, n, sk), 12, 'ubc_grid::<%d, %d, %d, %d>()' % (off, ln, n, sk), props='C19',
        bound='grid_(offset,len,bytes,ptr_skew)=(%d,%d,%d,%d)' % (off, ln, n, sk), fns='BooleanBuffer::unaligned_bit_chunks', tier=tier, timeout=300))
for off, ln, tier in [(3, 70, 'quick'), (8, 20, 'thorough'), (0, 64, 'thorough'), (65, 130, 'thorough')]:
    n = n_tight(off, ln) + 1
    add('sliced', inst('bb_sliced_%d_%d' % (off, ln), 12, 'sliced_grid::<%d, %d, %d>()' % (off, ln, n), props='C19',
        bound='grid_(offset,len,bytes)=(%d,%d,%d)' % (off, ln, n), fns='BooleanBuffer::sliced,BooleanBuffer::value_unchecked,BooleanBuffer::inner', tier=tier, timeout=300))
for off, ln, tier in [(61, 5, 'thorough'), (0, 6, 'thorough')]:
    add('u32', inst('bb_set_indices_u32_%d_%d' % (off, ln), 10, 'u32_grid::<%d, %d, %d>()' % (off, ln, n_tight(off, ln) + 1), props='C19',
        bound='grid_(offset,len)=(%d,%d)' % (off, ln), fns='BooleanBuffer::set_indices_u32', tier=tier, timeout=900))
text = HEAD
for fam, items in out.items():
    text = text.replace('//@@ %s\n' % fam, ''.join(items))
assert '//@@' not in text, [l for l in text.split('\n') if '//@@' in l]
write('buffer/boolean.rs', text)
