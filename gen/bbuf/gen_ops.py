#!/usr/bin/env python3
# generates kani/arrow-buffer/buffer/ops.rs
from common import *

HEAD = '// Kani contract harnesses for /repo/arrow-buffer/src/buffer/ops.rs (child module: sees private items via super::)\n' + PRELUDE + r'''
fn mk(a: &[u8], sk: usize) -> Buffer { Buffer::from_slice_ref(a).slice(sk) }

/// one of the 16 uniform bitwise binary operations, selected by its truth table t[2a+b]
fn tt2(t: [bool; 4]) -> impl Fn(u64, u64) -> u64 {
    let (t0, t1, t2, t3) = (mask(t[0]), mask(t[1]), mask(t[2]), mask(t[3]));
    move |a, b| (t0 & !a & !b) | (t1 & !a & b) | (t2 & a & !b) | (t3 & a & b)
}

fn bin_helper_grid<const OL: usize, const OR: usize, const LEN: usize, const NL: usize, const NR: usize>() {
    let a: [u8; NL] = any_bytes();
    let b: [u8; NR] = any_bytes();
    let t: [bool; 4] = [kani::any(), kani::any(), kani::any(), kani::any()];
    let (ba, bb) = (mk(&a, 0), mk(&b, 0));
    let z = bitwise_bin_op_helper(&ba, OL, &bb, OR, LEN, tt2(t));
    assert!(z.len() == (LEN + 7) / 8);
    let (mut c1, mut c2) = (LEN == 0, LEN == 0);
    if LEN > 0 {
        let i: usize = kani::any();
        kani::assume(i < LEN);
        let (x, y) = (bit(&a, OL + i), bit(&b, OR + i));
        assert!(bit(z.as_slice(), i) == t[2 * (x as usize) + (y as usize)]);
        c1 = bit(z.as_slice(), i) && x && !y;
        c2 = !bit(z.as_slice(), i) && y;
    }
    kani::cover!(c1);
    kani::cover!(c2);
}
// Contract (C19) bitwise_bin_op_helper(l, ol, r, or, len, op) for each of the 16 uniform bitwise binary
// operations (symbolic truth table t): returns a zero-offset bitmap of exactly ceil(len/8) bytes
// whose bit i is t[l-bit ol+i][r-bit or+i] for every i < len; inputs fully symbolic (bits outside the
// addressed ranges included, so they are not read as data).
//@@ bin_helper

fn unary_helper_grid<const OFF: usize, const LEN: usize, const N: usize>() {
    let a: [u8; N] = any_bytes();
    let t: [bool; 2] = [kani::any(), kani::any()];
    let ba = mk(&a, 0);
    set_skews([0; 6]);
    let (m0, m1) = (mask(t[0]), mask(t[1]));
    let z = bitwise_unary_op_helper(&ba, OFF, LEN, |x| (m0 & !x) | (m1 & x));
    assert!(z.len() == (LEN + 7) / 8);
    let (mut c1, mut c2) = (LEN == 0, LEN == 0);
    if LEN > 0 {
        let i: usize = kani::any();
        kani::assume(i < LEN);
        assert!(bit(z.as_slice(), i) == t[bit(&a, OFF + i) as usize]);
        c1 = bit(z.as_slice(), i) && !t[0];
        c2 = !bit(z.as_slice(), i) && t[0];
    }
    kani::cover!(c1);
    kani::cover!(c2);
}
// Contract (C19) bitwise_unary_op_helper(src, offset, len, op) for each of the 4 uniform bitwise unary
// operations: zero-offset bitmap of exactly ceil(len/8) bytes, bit i = t[src-bit offset+i], i < len.
//@@ unary_helper

fn quat_helper_grid<const O0: usize, const O1: usize, const O2: usize, const O3: usize, const LEN: usize, const N: usize>() {
    let a: [u8; N] = any_bytes();
    let b: [u8; N] = any_bytes();
    let c: [u8; N] = any_bytes();
    let d: [u8; N] = any_bytes();
    // truth table of a uniform 4-input bitwise operation, as 16 masks
    let tb: u16 = kani::any();
    let m = |k: u32| mask((tb >> k) & 1 == 1);
    let ms: [u64; 16] = [m(0), m(1), m(2), m(3), m(4), m(5), m(6), m(7), m(8), m(9), m(10), m(11), m(12), m(13), m(14), m(15)];
    let op = |w: u64, x: u64, y: u64, z: u64| -> u64 {
        let mut r = 0u64;
        let mut k = 0;
        while k < 16 {
            let sel = (if k & 8 != 0 { w } else { !w }) & (if k & 4 != 0 { x } else { !x })
                & (if k & 2 != 0 { y } else { !y }) & (if k & 1 != 0 { z } else { !z });
            r |= sel & ms[k];
            k += 1;
        }
        r
    };
    let (ba, bb, bc, bd) = (mk(&a, 0), mk(&b, 0), mk(&c, 0), mk(&d, 0));
    let z = bitwise_quaternary_op_helper([&ba, &bb, &bc, &bd], [O0, O1, O2, O3], LEN, op);
    assert!(z.len() == (LEN + 7) / 8);
    let (mut c1, mut c2) = (LEN == 0, LEN == 0);
    if LEN > 0 {
        let i: usize = kani::any();
        kani::assume(i < LEN);
        let k = 8 * (bit(&a, O0 + i) as u32) + 4 * (bit(&b, O1 + i) as u32) + 2 * (bit(&c, O2 + i) as u32) + (bit(&d, O3 + i) as u32);
        assert!(bit(z.as_slice(), i) == ((tb >> k) & 1 == 1));
        c1 = bit(z.as_slice(), i) && k == 5;
        c2 = !bit(z.as_slice(), i) && k == 10;
    }
    kani::cover!(c1);
    kani::cover!(c2);
}
// Contract (C19) bitwise_quaternary_op_helper(bufs, offsets, len, op) for each of the 65536 uniform
// bitwise 4-input operations (symbolic 16-entry truth table): zero-offset bitmap of exactly
// ceil(len/8) bytes, bit i = table[b0-bit o0+i, b1-bit o1+i, b2-bit o2+i, b3-bit o3+i], i < len.
//@@ quat_helper

fn buffer_bin_grid<const OP: u8, const OL: usize, const OR: usize, const LEN: usize, const NL: usize, const NR: usize, const SKL: usize, const SKR: usize>() {
    let a: [u8; NL] = any_bytes();
    let b: [u8; NR] = any_bytes();
    let (ba, bb) = (mk(&a, SKL), mk(&b, SKR));
    set_skews([SKL % 8, SKR % 8, SKL % 8, SKR % 8, 0, 0]);
    let z = match OP {
        0 => buffer_bin_and(&ba, OL, &bb, OR, LEN),
        1 => buffer_bin_or(&ba, OL, &bb, OR, LEN),
        2 => buffer_bin_xor(&ba, OL, &bb, OR, LEN),
        _ => buffer_bin_and_not(&ba, OL, &bb, OR, LEN),
    };
    assert!(8 * z.len() >= LEN);
    let i: usize = kani::any();
    kani::assume(i < LEN);
    let (p, q) = (bit(&a, 8 * SKL + OL + i), bit(&b, 8 * SKR + OR + i));
    assert!(bit(z.as_slice(), i) == match OP { 0 => p & q, 1 => p | q, 2 => p ^ q, _ => p & !q });
    kani::cover!(bit(z.as_slice(), i));
    kani::cover!(!bit(z.as_slice(), i));
}
// Contract (C19) buffer_bin_and / buffer_bin_or / buffer_bin_xor / buffer_bin_and_not
// (l, ol, r, or, len): the returned Buffer is a zero-offset bitmap of at least ceil(len/8) bytes whose
// bit i is l-bit(ol+i) op r-bit(or+i) for every i < len (OP 0/1/2/3 = and/or/xor/and_not); inputs
// fully symbolic. Path labels as for BooleanBuffer::from_bitwise_binary_op.
//@@ buffer_bin

fn buffer_not_grid<const OFF: usize, const LEN: usize, const N: usize, const SK: usize>() {
    let a: [u8; N] = any_bytes();
    let ba = mk(&a, SK);
    set_skews([SK % 8; 6]);
    let z = buffer_unary_not(&ba, OFF, LEN);
    assert!(8 * z.len() >= LEN);
    let i: usize = kani::any();
    kani::assume(i < LEN);
    assert!(bit(z.as_slice(), i) == !bit(&a, 8 * SK + OFF + i));
    kani::cover!(bit(z.as_slice(), i));
    kani::cover!(!bit(z.as_slice(), i));
}
// Contract (C19) buffer_unary_not(src, offset, len): "Apply a bitwise not to one input and return the
// result as a Buffer. The input is treated as a bitmap [...] offset and length are specified in
// number of bits": the returned Buffer is a zero-offset bitmap (like the result of every other
// function of this module) of at least ceil(len/8) bytes whose bit i is the negation of src-bit
// offset+i, for every i < len.
//@@ buffer_not
'''

def n_tight(off, ln, sk=0): return sk + max(ceil(off + ln, 8), 1)
def bpath(ol, orr, ln, nl, nr, skl, skr):
    if ol % 64 != orr % 64: return 'bitchunks'
    def parts(off, n, sk):
        eff = n - sk
        al = (off // 64) * 8
        end = min(ceil(off + ln, 64) * 8, eff)
        sl = end - al
        pre = min((8 - sk % 8) % 8, sl)
        return pre, (sl - pre) % 8, sl
    lp, ls, lsl = parts(ol, nl, skl); rp, rs, rsl = parts(orr, nr, skr)
    if lp == 0 and rp == 0:
        return 'aligned_exact' if ls == 0 and rs == 0 else 'aligned_suffix'
    return 'unaligned_chunks' + ('_rem' if (lsl % 8 or rsl % 8) else '')

out = {}
def add(fam, s): out.setdefault(fam, []).append(s)

for ol, orr, ln, tier in [(3, 5, 12, 'quick'), (0, 0, 64, 'quick'), (0, 9, 65, 'quick'), (3, 3, 70, 'thorough'), (0, 0, 0, 'thorough'), (7, 1, 1, 'thorough'),
                          (63, 64, 65, 'thorough'), (1, 65, 127, 'thorough'), (130, 2, 200, 'thorough'), (8, 16, 128, 'thorough'), (129, 127, 129, 'thorough'), (5, 5, 63, 'thorough')]:
    nl, nr = n_tight(ol, ln) + 1, n_tight(orr, ln)
    add('bin_helper', inst('ops_bin_helper_%d_%d_%d' % (ol, orr, ln), 12, 'bin_helper_grid::<%d, %d, %d, %d, %d>()' % (ol, orr, ln, nl, nr), props='C19',
        bound='grid_(ol,or,len,bytes_l,bytes_r)=(%d,%d,%d,%d,%d)' % (ol, orr, ln, nl, nr), fns='bitwise_bin_op_helper', tier=tier, timeout=240))
for off, ln, tier in [(3, 12, 'quick'), (0, 64, 'quick'), (5, 65, 'quick'), (0, 0, 'thorough'), (63, 2, 'thorough'), (64, 128, 'thorough'), (1, 127, 'thorough'), (130, 200, 'thorough'), (9, 129, 'thorough'), (7, 63, 'thorough')]:
    n = n_tight(off, ln) + (1 if off % 2 else 0)
    add('unary_helper', inst('ops_unary_helper_%d_%d' % (off, ln), 12, 'unary_helper_grid::<%d, %d, %d>()' % (off, ln, n), props='C19',
        bound='grid_(offset,len,bytes)=(%d,%d,%d)' % (off, ln, n), fns='bitwise_unary_op_helper', tier=tier, timeout=240))
for o, ln, tier in [((0, 3, 5, 9), 12, 'quick'), ((0, 0, 0, 0), 64, 'thorough'), ((1, 0, 63, 64), 65, 'quick'), ((7, 8, 9, 130), 130, 'thorough'), ((0, 1, 2, 3), 0, 'thorough'), ((64, 65, 1, 2), 127, 'thorough')]:
    n = n_tight(max(o), ln)
    add('quat_helper', inst('ops_quat_helper_%d_%d_%d_%d_%d' % (o + (ln,)), 20, 'quat_helper_grid::<%d, %d, %d, %d, %d, %d>()' % (o + (ln, n)), props='C19',
        bound='grid_(o0,o1,o2,o3,len,bytes)=(%d,%d,%d,%d,%d,%d)' % (o + (ln, n)), fns='bitwise_quaternary_op_helper', tier=tier, timeout=400))
OPN = ['and', 'or', 'xor', 'and_not']
BB = [
 (0, 1, 65, 7, 9, 17, 0, 0, 'quick'),      # the shape of the repo's own test: equal alignment, offset 1 -> sliced
 (1, 3, 5, 12, 2, 3, 0, 0, 'quick'),       # bitchunks
 (2, 0, 64, 65, 9, 24, 0, 0, 'thorough'),  # aligned, offset 0 -> into_inner (longer than ceil(len/8))
 (3, 3, 67, 70, 10, 18, 0, 0, 'quick'),    # and_not, aligned suffix
 (0, 3, 3, 70, 11, 17, 1, 1, 'thorough'),  # unaligned chunks
 (1, 8, 72, 20, 4, 12, 0, 0, 'thorough'),  # byte aligned non-zero offset
 (2, 0, 9, 65, 9, 10, 0, 0, 'thorough'),
 (3, 63, 0, 64, 16, 8, 0, 0, 'thorough'),
 (0, 130, 2, 200, 42, 26, 0, 0, 'thorough'),
 (1, 65, 1, 130, 25, 17, 0, 0, 'thorough'),
]
for op, ol, orr, ln, nl, nr, skl, skr, tier in BB:
    assert 8 * (nl - skl) >= ol + ln and 8 * (nr - skr) >= orr + ln, (ol, orr, ln)
    add('buffer_bin', inst('ops_buffer_bin_%s_%d_%d_%d_%d_%d_%d_%d' % (OPN[op], ol, orr, ln, nl, nr, skl, skr), 12,
        'buffer_bin_grid::<%d, %d, %d, %d, %d, %d, %d, %d>()' % (op, ol, orr, ln, nl, nr, skl, skr), props='C19',
        bound='grid_(ol,or,len,bytes_l,bytes_r,skew_l,skew_r)=(%d,%d,%d,%d,%d,%d,%d)_path=%s' % (ol, orr, ln, nl, nr, skl, skr, bpath(ol, orr, ln, nl, nr, skl, skr)),
        fns='buffer_bin_%s' % OPN[op], tier=tier, timeout=300))
for off, ln, n, sk, tier in [(0, 64, 8, 0, 'quick'), (0, 70, 9, 0, 'thorough'), (64, 65, 17, 0, 'thorough'), (128, 10, 19, 1, 'thorough'), (3, 12, 2, 0, 'quick'), (65, 63, 16, 0, 'thorough')]:
    assert 8 * (n - sk) >= off + ln
    add('buffer_not', inst('ops_buffer_not_%d_%d_%d_%d' % (off, ln, n, sk), 12, 'buffer_not_grid::<%d, %d, %d, %d>()' % (off, ln, n, sk), props='C19',
        bound='grid_(offset,len,bytes,ptr_skew)=(%d,%d,%d,%d)' % (off, ln, n, sk), fns='buffer_unary_not', tier=tier, timeout=240))

text = HEAD
for fam, items in out.items():
    text = text.replace('//@@ %s\n' % fam, ''.join(items))
assert '//@@' not in text
write('buffer/ops.rs', text)
