#!/usr/bin/env python3
# generates kani/arrow-buffer/builder/null.rs, builder/offset.rs, builder/mod.rs
from common import *

HEAD = '// Kani contract harnesses for /repo/arrow-buffer/src/builder/null.rs (child module: sees private items via super::)\n' + PRELUDE + r'''
use crate::{BooleanBuffer, Buffer};

// Model: the Vec<bool> of validity values appended so far, plus `mat` = "the operation sequence
// contained an operation that appends at least one null (false)" -- the condition under which the
// builder may no longer answer None.
const MAXM: usize = 300;
struct Model { v: [bool; MAXM], n: usize, mat: bool }
impl Model {
    fn new() -> Self { Model { v: [true; MAXM], n: 0, mat: false } }
    fn push(&mut self, b: bool) { self.v[self.n] = b; self.n += 1; if !b { self.mat = true; } }
    fn push_n(&mut self, k: usize, b: bool) { let mut i = 0; while i < k { self.push(b); i += 1; } }
    fn push_slice(&mut self, s: &[bool]) { let mut i = 0; while i < s.len() { self.push(s[i]); i += 1; } }
    fn push_bits(&mut self, bytes: &[u8], start: usize, len: usize) { let mut i = 0; while i < len { self.push(bit(bytes, start + i)); i += 1; } }
    fn truncate(&mut self, k: usize) { if k <= self.n { self.n = k; } }
    fn nulls(&self) -> usize { let mut c = 0; let mut i = 0; while i < self.n { if !self.v[i] { c += 1; } i += 1; } c }
}
fn check(b: &NullBufferBuilder, m: &Model) {
    assert!(b.len() == m.n && b.is_empty() == (m.n == 0));
    match b.as_slice() {
        None => assert!(!m.mat),
        Some(s) => { assert!(m.mat); assert!(s.len() == (m.n + 7) / 8); }
    }
    if m.n > 0 {
        let j: usize = kani::any();
        kani::assume(j < m.n);
        assert!(b.is_valid(j) == m.v[j]);
        if let Some(s) = b.as_slice() { assert!(bit(s, j) == m.v[j]); }
    }
}
fn check_result(r: &Option<NullBuffer>, m: &Model) {
    match r {
        // None iff no null was ever appended (both directions)
        None => assert!(!m.mat && m.nulls() == 0),
        Some(n) => {
            assert!(m.mat);
            assert!(n.len() == m.n);
            assert!(n.null_count() == m.nulls());
            assert!(n.offset() + n.len() <= 8 * n.validity().len());
            if m.n > 0 {
                let i: usize = kani::any();
                kani::assume(i < m.n);
                assert!(n.is_valid(i) == m.v[i]);
            }
        }
    }
}
fn check_finish(b: &mut NullBufferBuilder, m: &Model) {
    let c = b.finish_cloned();
    check_result(&c, m);
    check(b, m); // finish_cloned leaves the builder unchanged
    let r = b.finish();
    check_result(&r, m);
    assert!(b.len() == 0 && b.as_slice().is_none()); // reset
}

fn seq_append<const CAP: usize, const N1: usize, const N2: usize, const WITH_NULLS: bool>() {
    let (v1, v2): (bool, bool) = (kani::any(), kani::any());
    let mut b = NullBufferBuilder::new(CAP);
    let mut m = Model::new();
    b.append_n_non_nulls(N1); m.push_n(N1, true);
    b.append(v1); m.push(v1);
    if WITH_NULLS { b.append_n_nulls(N2); m.push_n(N2, false); } else { b.append_n_non_nulls(N2); m.push_n(N2, true); }
    b.append(v2); m.push(v2);
    check(&b, &m);
    set_skews([0; 6]);
    check_finish(&mut b, &m);
    kani::cover!(!m.mat);
    kani::cover!(m.mat && v2);
    kani::cover!(m.mat && !v1 && v2);
}
// Contract (C19/C01) NullBufferBuilder::{new, append, append_n_non_nulls, append_n_nulls, len, is_valid,
// as_slice, finish_cloned, finish}: after append_n_non_nulls(n1); append(v1); append_n_nulls(n2) or
// append_n_non_nulls(n2) (n2 >= 1); append(v2) with symbolic v1, v2: length and every validity bit
// equal the model Vec<bool>; finish_cloned / finish return None exactly when no null was appended,
// otherwise a NullBuffer with validity == model and null_count == number of false values exactly;
// finish_cloned leaves the builder unchanged, finish resets it.
//@@ append

fn seq_slice_truncate<const N1: usize, const K: usize, const T: usize>() {
    let s: [bool; K] = kani::any();
    let v: bool = kani::any();
    let mut b = NullBufferBuilder::new(0);
    let mut m = Model::new();
    b.append_n_non_nulls(N1); m.push_n(N1, true);
    b.append_slice(&s); m.push_slice(&s);
    check(&b, &m);
    b.truncate(T); m.truncate(T);
    check(&b, &m);
    b.append(v); m.push(v);
    check(&b, &m);
    set_skews([0; 6]);
    // after a truncate the "None iff no null appended" reading refers to the operations performed
    // (m.mat), the exact null count refers to the values still present
    let c = b.finish_cloned();
    match &c {
        None => assert!(!m.mat),
        Some(n) => {
            assert!(m.mat && n.len() == m.n && n.null_count() == m.nulls());
            let i: usize = kani::any();
            kani::assume(i < m.n);
            assert!(n.is_valid(i) == m.v[i]);
        }
    }
    let r = b.finish();
    assert!(r.is_some() == c.is_some());
    assert!(b.len() == 0);
    kani::cover!(c.is_none());
    kani::cover!(c.is_some() && m.nulls() == 0);
    kani::cover!(c.is_some() && m.nulls() > 1);
}
// Contract (C19/C01) NullBufferBuilder::{append_slice, truncate}: after append_n_non_nulls(n1);
// append_slice(s); truncate(t); append(v) (s, v symbolic): length / validity == model Vec<bool> with
// Vec::truncate semantics (no effect when t > len); the result of finish is None only if no null was
// appended by any operation, and when it is Some its validity == model and its null_count is the
// exact number of false values still present (possibly 0 after truncating the nulls away).
//@@ slice_truncate

fn seq_append_buffer<const W: usize, const OFF: usize, const LEN: usize, const NB: usize>() {
    let bytes: [u8; NB] = any_bytes();
    skews().ubc(0, OFF, LEN).install();
    let src = NullBuffer::new(BooleanBuffer::new(Buffer::from_slice_ref(&bytes), OFF, LEN));
    let v: bool = kani::any();
    let mut b = NullBufferBuilder::new(0);
    let mut m = Model::new();
    b.append_n_non_nulls(W); m.push_n(W, true);
    b.append_buffer(&src); m.push_bits(&bytes, OFF, LEN);
    check(&b, &m);
    b.append(v); m.push(v);
    check(&b, &m);
    set_skews([0; 6]);
    check_finish(&mut b, &m);
    kani::cover!(!m.mat);
    kani::cover!(m.mat && src.null_count() == 0);
    kani::cover!(src.null_count() > 1);
}
// Contract (C19/C01) NullBufferBuilder::append_buffer(&NullBuffer): appends exactly the validity values of
// the (offset, len) view (all source bytes symbolic), earlier values unchanged; finish is None exactly
// when neither the appended buffer nor any other operation contributed a null; exact null count.
//@@ append_buffer

fn seq_with_len<const N1: usize, const N2: usize>() {
    let c: bool = kani::any();
    let mut b = NullBufferBuilder::new_with_len(N1);
    let mut m = Model::new();
    m.push_n(N1, true);
    check(&b, &m); // N1 valid slots, nothing materialized
    b.append_non_null(); m.push(true);
    if c { b.append_null(); m.push(false); } else { b.append_non_null(); m.push(true); }
    b.append_n_non_nulls(N2); m.push_n(N2, true);
    check(&b, &m);
    set_skews([0; 6]);
    check_finish(&mut b, &m);
    kani::cover!(c);
    kani::cover!(!c);
}
// Contract (C19/C01) NullBufferBuilder::{new_with_len, append_non_null, append_null, is_valid}: the lazy
// all-valid representation is equivalent to the materialised one: new_with_len(n1) is n1 valid slots;
// after append_non_null(); (append_null() | append_non_null()); append_n_non_nulls(n2) the length and
// every validity bit equal the model Vec<bool>, and finish / finish_cloned are None exactly when no
// null was appended, else validity == model with the exact null count.
//@@ with_len

fn seq_nb_set_bit<const N1: usize>() {
    let (j, w): (usize, bool) = (kani::any(), kani::any());
    kani::assume(j < N1);
    let mut b = NullBufferBuilder::new(0);
    let mut m = Model::new();
    b.append_n_non_nulls(N1); m.push_n(N1, true);
    b.set_bit(j, w); m.v[j] = w;
    assert!(b.is_valid(j) == w && b.len() == N1);
    let i: usize = kani::any();
    kani::assume(i < N1);
    assert!(b.is_valid(i) == m.v[i]); // frame: the other N1-1 lazily valid slots are still valid
    b.append_null(); m.push(false);
    assert!(b.len() == N1 + 1 && !b.is_valid(N1) && b.is_valid(i) == m.v[i]);
    set_skews([0; 6]);
    let r = b.finish();
    match &r {
        None => assert!(false), // a null was appended
        Some(n) => {
            assert!(n.len() == N1 + 1 && n.null_count() == 1 + (!w) as usize);
            assert!(n.is_valid(i) == m.v[i] && n.is_null(N1));
        }
    }
    kani::cover!(w);
    kani::cover!(!w && i != j);
}
// Contract (C19/C01) NullBufferBuilder::{set_bit, is_valid} on a lazily all-valid builder: after
// append_n_non_nulls(n1); set_bit(j, w) (j < n1, w symbolic), slot j reads w and every other slot is
// still valid (materialisation preserves the n1 implicit trues); after append_null the result of
// finish has n1+1 slots, validity == model and null_count == 1 + [w == false] exactly.
//@@ nb_set_bit

fn seq_nb_from_buffer<const NB: usize, const LEN: usize>() {
    let bytes: [u8; NB] = any_bytes();
    let mut mb = MutableBuffer::new(0);
    mb.extend_from_slice(&bytes);
    let v: bool = kani::any();
    let mut b = NullBufferBuilder::new_from_buffer(mb, LEN);
    let mut m = Model::new();
    m.push_bits(&bytes, 0, LEN);
    m.mat = true; // a builder created from a bitmap always answers Some
    check(&b, &m);
    b.append(v); m.push(v);
    check(&b, &m);
    set_skews([0; 6]);
    check_finish(&mut b, &m);
    kani::cover!(m.nulls() == 0);
    kani::cover!(m.nulls() > 1);
}
// Contract (C19/C01) NullBufferBuilder::new_from_buffer(buf, len), len <= 8*bytes: validity = the first len
// bits of buf (symbolic bytes; bits >= len are not read as data), further appends land after them,
// finish returns Some with validity == model and the exact null count.
//@@ nb_from_buffer
'''

out = {}
def add(fam, s): out.setdefault(fam, []).append(s)
P = 'C19,C01'
tf = lambda b: 'true' if b else 'false'
def uw(*lens): return max(12, max(lens) + 3)
F1 = 'NullBufferBuilder::new,NullBufferBuilder::append,NullBufferBuilder::append_n_non_nulls,NullBufferBuilder::append_n_nulls,NullBufferBuilder::finish,NullBufferBuilder::finish_cloned,NullBufferBuilder::len,NullBufferBuilder::as_slice'
for cap, n1, n2, wn, tier in [(0, 3, 2, False, 'quick'), (0, 5, 4, True, 'quick'), (16, 63, 2, True, 'thorough'), (0, 0, 1, False, 'thorough'), (0, 64, 65, True, 'thorough'), (200, 130, 1, False, 'thorough')]:
    n = n1 + n2 + 2
    add('append', inst('nbb_append_%d_%d_%d_%s' % (cap, n1, n2, 'nulls' if wn else 'nonnull'), uw(n), 'seq_append::<%d, %d, %d, %s>()' % (cap, n1, n2, tf(wn)), props=P,
        bound='ops=4_shape_(cap,n1,n2,third_op_appends_nulls)=(%d,%d,%d,%s)_values_symbolic' % (cap, n1, n2, tf(wn)), fns=F1, tier=tier, timeout=400))
for n1, k, t, tier in [(3, 6, 5, 'quick'), (60, 8, 63, 'thorough'), (0, 9, 0, 'thorough'), (2, 3, 9, 'thorough')]:
    add('slice_truncate', inst('nbb_slice_truncate_%d_%d_%d' % (n1, k, t), uw(n1 + k + 1), 'seq_slice_truncate::<%d, %d, %d>()' % (n1, k, t), props=P,
        bound='ops=4_shape_(n1,slice_len,truncate_to)=(%d,%d,%d)_values_symbolic' % (n1, k, t), fns='NullBufferBuilder::append_slice,NullBufferBuilder::truncate,NullBufferBuilder::finish,NullBufferBuilder::finish_cloned', tier=tier, timeout=400))
for w, off, ln, tier in [(3, 5, 12, 'quick'), (0, 0, 9, 'thorough'), (62, 3, 70, 'thorough'), (7, 64, 0, 'thorough')]:
    nb = max(ceil(off + ln, 8), 1) + 1
    add('append_buffer', inst('nbb_append_buffer_%d_%d_%d' % (w, off, ln), uw(w + ln + 1), 'seq_append_buffer::<%d, %d, %d, %d>()' % (w, off, ln, nb), props=P,
        bound='ops=3_grid_(non_nulls_before,src_offset,len)=(%d,%d,%d)' % (w, off, ln), fns='NullBufferBuilder::append_buffer,NullBufferBuilder::finish', tier=tier, timeout=400))
for n1, n2, tier in [(5, 3, 'quick'), (0, 0, 'thorough'), (63, 2, 'thorough'), (64, 64, 'thorough')]:
    add('with_len', inst('nbb_with_len_%d_%d' % (n1, n2), uw(n1 + n2 + 3), 'seq_with_len::<%d, %d>()' % (n1, n2), props=P,
        bound='ops=4_shape_(len,n2)=(%d,%d)_null_choice_symbolic' % (n1, n2), fns='NullBufferBuilder::new_with_len,NullBufferBuilder::append_non_null,NullBufferBuilder::append_null,NullBufferBuilder::is_valid,NullBufferBuilder::materialize_if_needed,NullBufferBuilder::materialize', tier=tier, timeout=400))
for n1, tier in [(9, 'quick'), (1, 'thorough'), (65, 'thorough')]:
    add('nb_set_bit', inst('nbb_set_bit_%d' % n1, uw(n1 + 2), 'seq_nb_set_bit::<%d>()' % n1, props=P,
        bound='ops=3_shape_n1=%d_index_and_value_symbolic' % n1, fns='NullBufferBuilder::set_bit,NullBufferBuilder::is_valid,NullBufferBuilder::materialize_if_needed', tier=tier, timeout=400))
for nb, ln, tier in [(2, 13, 'quick'), (9, 64, 'thorough'), (1, 0, 'thorough')]:
    add('nb_from_buffer', inst('nbb_new_from_buffer_%d_%d' % (nb, ln), uw(ln + 2), 'seq_nb_from_buffer::<%d, %d>()' % (nb, ln), props=P,
        bound='grid_(bytes,len)=(%d,%d)' % (nb, ln), fns='NullBufferBuilder::new_from_buffer', tier=tier, timeout=400))
text = HEAD
for fam, items in out.items():
    text = text.replace('//@@ %s\n' % fam, ''.join(items))
assert '//@@' not in text
write('builder/null.rs', text)

# ------------------------------------------------------------------------------------------------
HEAD2 = '// Kani contract harnesses for /repo/arrow-buffer/src/builder/offset.rs (child module: sees private items via super::)\n' + PRELUDE + r'''
fn seq_offsets<const CAP: usize, const K: usize>() {
    let lens: [u16; K] = kani::any();
    let mut b = OffsetBufferBuilder::<i32>::new(CAP);
    assert!(b.len() == 1 && b[0] == 0);
    let mut sum = 0usize;
    let mut i = 0;
    while i < K {
        b.push_length(lens[i] as usize);
        sum += lens[i] as usize;
        assert!(b.len() == i + 2 && b[i + 1] as usize == sum);
        i += 1;
    }
    b.reserve(3);
    let c = b.finish_cloned();
    let o = b.finish();
    // model: prefix sums of the pushed lengths, starting at 0
    assert!(o.len() == K + 1 && c.len() == K + 1 && o[0] == 0);
    if K > 0 {
        let j: usize = kani::any();
        kani::assume(j < K);
        assert!(o[j] >= 0 && o[j + 1] - o[j] == lens[j] as i32 && c[j + 1] == o[j + 1]);
    }
    kani::cover!(K > 1 && lens[0] == 0 && lens[1] == 65535);
    kani::cover!(o[K] as usize == sum);
}
// Contract (C01) OffsetBufferBuilder::<i32>::{new, push_length, reserve, finish_cloned, finish, deref}:
// after K pushes of symbolic lengths (each < 2^16) the offsets are exactly the prefix sums starting
// at 0: K+1 entries, first 0, entry j+1 - entry j == j-th length (hence monotone, non-negative);
// finish_cloned returns the same offsets.
//@@ offsets

fn seq_overflow<const K: usize>() {
    let lens: [usize; K] = kani::any();
    let mut b = OffsetBufferBuilder::<i32>::new(0);
    let mut sum: u128 = 0;
    let mut i = 0;
    while i < K {
        b.push_length(lens[i]);
        sum += lens[i] as u128;
        i += 1;
    }
    let o = b.finish();
    // may-reject reading: if finish returns, no offset wrapped: the total fits i32 and the offsets
    // are non-decreasing and non-negative
    assert!(sum <= i32::MAX as u128);
    let j: usize = kani::any();
    kani::assume(j < K);
    assert!(o[j] >= 0 && o[j] <= o[j + 1] && (o[j + 1] - o[j]) as u128 == lens[j] as u128);
    kani::cover!(o[K] == i32::MAX);
    kani::cover!(o[K] == 0);
}
// Contract (C01) OffsetBufferBuilder::<i32>::{push_length, finish}, overflow direction (may-reject): for
// arbitrary usize lengths, whenever finish returns the total is <= i32::MAX and every offset
// difference is the pushed length exactly (no wrapped i32 offset is ever returned); the only other
// outcome is a panic ("overflow").
//@@ overflow
'''
out = {}
for cap, k, tier in [(0, 3, 'quick'), (10, 4, 'thorough'), (0, 0, 'thorough')]:
    add('offsets', inst('obb_offsets_%d_%d' % (cap, k), 8, 'seq_offsets::<%d, %d>()' % (cap, k), props='C01',
        bound='pushes=%d_lengths<2^16_symbolic' % k, fns='OffsetBufferBuilder::new,OffsetBufferBuilder::push_length,OffsetBufferBuilder::finish,OffsetBufferBuilder::finish_cloned', tier=tier, timeout=300))
for k, tier in [(2, 'quick'), (3, 'thorough')]:
    s = unit_line('obb_overflow_%d' % k, props='C01', bound='pushes=%d_lengths_full_usize' % k, fns='OffsetBufferBuilder::push_length,OffsetBufferBuilder::finish', tier=tier, timeout=300, mayreject=True)
    s += '\n#[kani::proof]\n#[kani::unwind(8)]\n#[kani::stub(alloc::fmt::format, stub_format)]\nfn obb_overflow_%d() { seq_overflow::<%d>() }\n' % (k, k)
    add('overflow', s)
text = HEAD2
for fam, items in out.items():
    text = text.replace('//@@ %s\n' % fam, ''.join(items))
assert '//@@' not in text
write('builder/offset.rs', text)

# ------------------------------------------------------------------------------------------------
HEAD3 = '// Kani contract harnesses for /repo/arrow-buffer/src/builder/mod.rs (child module: sees private items via super::)\n' + PRELUDE + r'''
const MAXM: usize = 96;
struct Model { v: [i32; MAXM], n: usize }
impl Model {
    fn new() -> Self { Model { v: [0; MAXM], n: 0 } }
    fn push(&mut self, x: i32) { self.v[self.n] = x; self.n += 1; }
    fn push_n(&mut self, k: usize, x: i32) { let mut i = 0; while i < k { self.push(x); i += 1; } }
    fn push_slice(&mut self, s: &[i32]) { let mut i = 0; while i < s.len() { self.push(s[i]); i += 1; } }
    fn truncate(&mut self, k: usize) { if k <= self.n { self.n = k; } }
}
fn check(b: &BufferBuilder<i32>, m: &Model) {
    assert!(b.len() == m.n && b.is_empty() == (m.n == 0) && b.capacity() >= m.n);
    assert!(b.as_slice().len() == m.n);
    if m.n > 0 {
        let i: usize = kani::any();
        kani::assume(i < m.n);
        assert!(b.as_slice()[i] == m.v[i]);
    }
}
fn check_finish(b: &mut BufferBuilder<i32>, m: &Model) {
    let out: Buffer = b.finish();
    assert!(out.len() == 4 * m.n);
    if m.n > 0 {
        let i: usize = kani::any();
        kani::assume(i < m.n);
        let s = out.as_slice();
        assert!(i32::from_le_bytes([s[4 * i], s[4 * i + 1], s[4 * i + 2], s[4 * i + 3]]) == m.v[i]);
    }
    assert!(b.len() == 0 && b.is_empty());
}

fn seq_bb<const CAP: usize, const N1: usize, const K: usize, const T: usize, const ADV: usize>() {
    let (x, y, z): (i32, i32, i32) = (kani::any(), kani::any(), kani::any());
    let s: [i32; K] = kani::any();
    set_skews([0; 6]);
    let mut b = BufferBuilder::<i32>::new(CAP);
    assert!(b.len() == 0 && b.capacity() >= CAP);
    let mut m = Model::new();
    b.append(x); m.push(x);
    b.append_n(N1, y); m.push_n(N1, y);
    b.append_slice(&s); m.push_slice(&s);
    check(&b, &m);
    b.truncate(T); m.truncate(T);
    check(&b, &m);
    b.advance(ADV); m.push_n(ADV, 0);
    b.append(z); m.push(z);
    check(&b, &m);
    check_finish(&mut b, &m);
    kani::cover!(x == -1 && y == i32::MIN && z == 7);
}
// Contract (C01) BufferBuilder::<i32>::{new, append, append_n, append_slice, truncate, advance, len,
// as_slice, capacity, finish}: after new(cap); append(x); append_n(n1, y); append_slice(s); truncate(t);
// advance(a); append(z) (all values symbolic) the builder is observably the Vec<i32> built by the
// same pushes, Vec::truncate (no effect when t > len), `a` pushes of 0, one push; finish returns
// exactly 4*len bytes holding those values in little-endian order (across the 64-byte reallocation
// boundary) and leaves an empty builder.
//@@ bb

fn seq_bb2<const K1: usize, const Z: usize, const K2: usize, const K3: usize, const R: usize>() {
    let s1: [i32; K1] = kani::any();
    let s2: [i32; K2] = kani::any();
    let s3: [i32; K3] = kani::any();
    let mut m = Model::new();
    let mut b: BufferBuilder<i32> = s1.iter().copied().collect(); m.push_slice(&s1);
    check(&b, &m);
    b.append_n_zeroed(Z); m.push_n(Z, 0);
    unsafe { b.append_trusted_len_iter(s2.iter().copied()) }; m.push_slice(&s2);
    check(&b, &m);
    b.extend(s3.iter().copied()); m.push_slice(&s3);
    b.reserve(R);
    assert!(b.capacity() >= m.n + R);
    check(&b, &m); // reserve does not change the contents
    let out: Buffer = b.build();
    assert!(out.len() == 4 * m.n);
    if m.n > 0 {
        let i: usize = kani::any();
        kani::assume(i < m.n);
        let s = out.as_slice();
        assert!(i32::from_le_bytes([s[4 * i], s[4 * i + 1], s[4 * i + 2], s[4 * i + 3]]) == m.v[i]);
        kani::cover!(m.v[i] == -1 && i >= K1 + Z);
    }
    kani::cover!(out.len() == 4 * (K1 + Z + K2 + K3));
}
// Contract (C01) BufferBuilder::<i32>::{from_iter, append_n_zeroed, append_trusted_len_iter, extend,
// reserve, capacity, len, as_slice, build}: collecting s1, then append_n_zeroed(z),
// append_trusted_len_iter(s2), extend(s3), reserve(r) gives observably the Vec<i32>
// s1 ++ [0; z] ++ s2 ++ s3 (all values symbolic), capacity() >= len + r, and build returns exactly
// 4*len bytes holding those values in little-endian order.
//@@ bb2

fn seq_bb_from_vec<const K: usize>() {
    let s: [i32; K] = kani::any();
    let x: i32 = kani::any();
    let mut m = Model::new();
    let mut b = BufferBuilder::<i32>::from(s.to_vec()); m.push_slice(&s);
    check(&b, &m);
    b.append(x); m.push(x);
    check(&b, &m);
    let mut d = BufferBuilder::<i32>::default();
    assert!(d.len() == 0 && d.is_empty());
    d.append(x);
    assert!(d.len() == 1 && d.as_slice()[0] == x);
    if K > 0 {
        let j: usize = kani::any();
        kani::assume(j < K);
        b.as_slice_mut()[j] = x; m.v[j] = x;
        check(&b, &m);
    }
    check_finish(&mut b, &m);
}
// Contract (C01) BufferBuilder::<i32>::{from(Vec), default, as_slice_mut}: from(vec) holds exactly the
// vector's values and keeps accepting appends; default() is empty; a value written through
// as_slice_mut is the value read back (all others unchanged); finish returns the model bytes.
//@@ bb_from_vec
'''
out = {}
for cap, n1, k, t, adv, tier in [(0, 3, 4, 5, 2, 'quick'), (2, 14, 3, 17, 1, 'quick'), (0, 0, 0, 0, 0, 'thorough'), (4, 20, 9, 40, 3, 'thorough'), (0, 17, 2, 16, 20, 'thorough')]:
    add('bb', inst('bufb_i32_%d_%d_%d_%d_%d' % (cap, n1, k, t, adv), max(12, n1 + k + adv + 4), 'seq_bb::<%d, %d, %d, %d, %d>()' % (cap, n1, k, t, adv), props='C01',
        bound='ops=6_shape_(cap,n1,slice_len,truncate_to,advance)=(%d,%d,%d,%d,%d)_values_symbolic' % (cap, n1, k, t, adv),
        fns='BufferBuilder::append,BufferBuilder::append_n,BufferBuilder::append_slice,BufferBuilder::truncate,BufferBuilder::advance,BufferBuilder::finish', tier=tier, timeout=400))
for k1, z, k2, k3, r, tier in [(3, 2, 4, 1, 50, 'quick'), (0, 0, 0, 0, 0, 'thorough'), (17, 1, 2, 16, 3, 'thorough')]:
    add('bb2', inst('bufb_i32_iter_%d_%d_%d_%d_%d' % (k1, z, k2, k3, r), max(12, k1 + z + k2 + k3 + 4), 'seq_bb2::<%d, %d, %d, %d, %d>()' % (k1, z, k2, k3, r), props='C01',
        bound='ops=5_shape_(k1,zeroed,k2,k3,reserve)=(%d,%d,%d,%d,%d)_values_symbolic' % (k1, z, k2, k3, r),
        fns='BufferBuilder::from_iter,BufferBuilder::append_n_zeroed,BufferBuilder::append_trusted_len_iter,BufferBuilder::extend,BufferBuilder::reserve,BufferBuilder::capacity,BufferBuilder::len,BufferBuilder::build', tier=tier, timeout=400))
for k, tier in [(5, 'quick'), (0, 'thorough'), (17, 'thorough')]:
    add('bb_from_vec', inst('bufb_i32_from_vec_%d' % k, max(12, k + 4), 'seq_bb_from_vec::<%d>()' % k, props='C01',
        bound='shape_vec_len=%d_values_symbolic' % k, fns='BufferBuilder::from,BufferBuilder::default,BufferBuilder::as_slice_mut,BufferBuilder::as_slice', tier=tier, timeout=400))
text = HEAD3
for fam, items in out.items():
    text = text.replace('//@@ %s\n' % fam, ''.join(items))
assert '//@@' not in text
write('builder/mod.rs', text)
