# Generator helpers for the C19/C01 harness files (keeps one `// @unit` line per generated harness).
import os
OUT = '/tmp/dev/bbuf/kani/arrow-buffer'
def ceil(a, b): return (a + b - 1) // b

PRELUDE = r'''use super::*;
#[path = "/verif/kani/support/spec.rs"]
mod spec;
#[allow(unused_imports)]
use spec::*;

// ---------------------------------------------------------------------------------------------
// Shared harness helpers (spec side). Nothing here calls the code under test.
// ---------------------------------------------------------------------------------------------

/// N <= 64 fully symbolic bytes built without a loop (lets a harness use a small unwind bound).
#[allow(dead_code)]
fn any_bytes<const N: usize>() -> [u8; N] {
    let w: (u128, u128, u128, u128) = (kani::any(), kani::any(), kani::any(), kani::any());
    let full: [u8; 64] = unsafe { std::mem::transmute(w) };
    let mut out = [0u8; N];
    out.copy_from_slice(&full[..N]);
    out
}
#[allow(dead_code)]
fn mask(b: bool) -> u64 { if b { u64::MAX } else { 0 } }

// STUB (listed): `core::ptr::align_offset`, the single address-dependent step of
// `<[u8]>::align_to::<u64>()`. CBMC cannot constant-fold an address during symbolic execution, so
// without it every slice length after `align_to` is symbolic (measured: out of memory / > 5 min).
// The stub returns the exact value of the real function for a pointer whose address is congruent
// to the harness-supplied skew modulo 8, and it *asserts* that congruence on the real address, so
// nothing is assumed about the allocator; the rest of the real `align_to` runs unchanged.
// The k-th call uses ALIGN_SKEWS[k] (control flow is concrete, so k is concrete).
#[allow(dead_code)]
static mut ALIGN_SKEWS: [usize; 6] = [0; 6];
#[allow(dead_code)]
static mut ALIGN_CALLS: usize = 0;
#[allow(dead_code)]
fn set_skews(s: [usize; 6]) { unsafe { ALIGN_SKEWS = s; ALIGN_CALLS = 0; } }
/// builder for the list of expected `align_to` calls of one harness (bookkeeping only: a wrong
/// prediction makes the stub's address assertion fail, it can never hide a violation)
#[derive(Clone, Copy)]
#[allow(dead_code)]
struct Skews { s: [usize; 6], n: usize }
#[allow(dead_code)]
fn skews() -> Skews { Skews { s: [0; 6], n: 0 } }
#[allow(dead_code)]
impl Skews {
    /// one `align_to` call on a slice that starts `sk` bytes past an 8-byte aligned address
    fn raw(mut self, sk: usize) -> Self { self.s[self.n] = sk % 8; self.n += 1; self }
    /// the `align_to` call of `UnalignedBitChunk::new(bytes, off, len)` (made only when the addressed
    /// byte range is longer than 16 bytes), `bytes` starting `sk` bytes past an 8-byte aligned address
    fn ubc(self, sk: usize, off: usize, len: usize) -> Self {
        if len > 0 && (len + off % 8 + 7) / 8 > 16 { self.raw(sk + off / 8) } else { self }
    }
    fn install(self) { unsafe { ALIGN_SKEWS = self.s; ALIGN_CALLS = 0; } }
}
#[allow(dead_code)]
unsafe fn stub_align_offset<T>(p: *const T, a: usize) -> usize {
    assert!(std::mem::size_of::<T>() == 1 && a == 8);
    let k = unsafe { ALIGN_CALLS };
    assert!(k < 6);
    unsafe { ALIGN_CALLS = k + 1 };
    let skew = unsafe { ALIGN_SKEWS[k] } % a;
    assert!((p as usize) % a == skew);
    (a - skew) % a
}
macro_rules! inst {
    ($name:ident, $unwind:expr, $call:expr) => {
        #[kani::proof]
        #[kani::unwind($unwind)]
        #[kani::stub(core::ptr::align_offset, stub_align_offset)]
        fn $name() { $call }
    };
}
'''

import glob, re
CONFIRMED = {}
# units that FAIL on the unchanged tree because of a suspected genuine defect (kept, tier=thorough)
DEFECT = {}
# F5 (buffer_unary_not) is fixed in /repo (efa269e): these two fail only on the pre-fix worktree
CONFIRMED_ON_FIXED_REPO = {'ops_buffer_not_3_12_2_0', 'ops_buffer_not_65_63_16_0'}
for f in glob.glob('/tmp/dev/bbuf/run_*.txt') + glob.glob('/tmp/dev/bbuf/results/*.txt'):
    for l in open(f):
        m = re.match(r'OK\s+\S+\s+(\S+)\s+obligations=\d+\s+([\d.]+)s', l)
        if m: CONFIRMED[m.group(1).split('.')[-1]] = float(m.group(2))
def unit_line(name, props, bound, fns, tier='quick', timeout=120, mem=None, mayreject=False, kind='bounded'):
    note = None
    if name in DEFECT:
        tier = 'thorough'; note = DEFECT[name]
    elif name in CONFIRMED_ON_FIXED_REPO:
        note = 'passes_only_with_fix_efa269e_of_F5'
    elif name not in CONFIRMED:
        tier = 'thorough'; note = 'not_confirmed_under_load'
    s = '// @unit name=%s props=%s kind=%s' % (name, props, kind)
    if kind == 'bounded': s += ' bound=%s' % bound
    s += ' fns=%s' % fns
    if tier != 'quick': s += ' tier=%s' % tier
    s += ' timeout=%d' % timeout
    if mem: s += ' mem=%d' % mem
    if mayreject: s += ' mayreject=1'
    if note: s += ' note=' + note
    return s

def inst(name, unwind, call, **kw):
    return unit_line(name, **kw) + '\ninst!(%s, %d, %s);\n' % (name, unwind, call)

def write(rel, text):
    p = os.path.join(OUT, rel)
    open(p, 'w').write(text)
    print('wrote', p, text.count('@unit'), 'units')
