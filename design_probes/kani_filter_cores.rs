use super::*;
use arrow_array::{Array, BooleanArray, Int32Array};
use arrow_buffer::{BooleanBuffer, NullBuffer, ScalarBuffer, Buffer};

const N: usize = 6;
fn stub_format(_args: std::fmt::Arguments<'_>) -> String { String::new() }

#[kani::proof]
#[kani::unwind(9)]
#[kani::stub(alloc::fmt::format, stub_format)]
fn p3_filter_native() {
    let vals: [i32; N] = kani::any();
    let pred: u8 = kani::any();
    let optimize: bool = kani::any();
    let p = BooleanArray::new(BooleanBuffer::new(Buffer::from_slice_ref(&[pred]), 0, N), None);
    let mut b = FilterBuilder::new(&p);
    if optimize { b = b.optimize(); }
    let fp = b.build();
    kani::assume(fp.count() != 0 && fp.count() != N);
    let out = filter_native::<i32>(&vals, &fp);
    {
        let out: &[i32] = out.typed_data();
        let mut k = 0usize;
        for i in 0..N {
            if (pred >> i) & 1 == 1 {
                assert!(k < out.len());
                assert!(out[k] == vals[i]);
                k += 1;
            }
        }
        assert!(out.len() == k);
    }
    std::mem::forget(fp); std::mem::forget(p);
}

#[kani::proof]
#[kani::unwind(9)]
#[kani::stub(alloc::fmt::format, stub_format)]
fn p4_filter_nulls() {
    let valid: u8 = kani::any();
    let pred: u8 = kani::any();
    let p = BooleanArray::new(BooleanBuffer::new(Buffer::from_slice_ref(&[pred]), 0, N), None);
    let fp = FilterBuilder::new(&p).build();
    kani::assume(fp.count() != 0 && fp.count() != N);
    let nulls = NullBuffer::new(BooleanBuffer::new(Buffer::from_slice_ref(&[valid]), 0, N));
    let out = fp.filter_nulls(Some(&nulls));
    let mut k = 0usize;
    for i in 0..N {
        if (pred >> i) & 1 == 1 {
            let v = (valid >> i) & 1 == 1;
            match &out { Some(o) => assert!(o.is_valid(k) == v), None => assert!(v) }
            k += 1;
        }
    }
    std::mem::forget(fp); std::mem::forget(p);
}
