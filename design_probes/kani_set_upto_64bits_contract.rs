

const N: usize = 24;

fn bit(d: &[u8], i: usize) -> bool { (d[i / 8] >> (i % 8)) & 1 == 1 }

// ---- contract of set_upto_64bits as pre/post predicates shared by proof and stub
fn pre_su64(wd: &[u8], d: &[u8], ow: usize, or: usize, len: usize) -> bool {
    len >= 1 && ow <= wd.len() * 8 && or <= d.len() * 8 && len <= wd.len() * 8 - ow && len <= d.len() * 8 - or
}

#[kani::proof]
#[kani::unwind(10)]
fn su64_contract() {
    let mut dst: [u8; N] = kani::any();
    let src: [u8; N] = kani::any();
    let ow: usize = kani::any();
    let or: usize = kani::any();
    let len: usize = kani::any();
    kani::assume(pre_su64(&dst, &src, ow, or, len));
    let old = dst;
    let (zeros, n) = unsafe { super::set_upto_64bits(&mut dst, &src, ow, or, len) };
    assert!(n >= 1 && n <= len);
    assert!(n == len || n >= 56);
    let i: usize = kani::any();
    kani::assume(i < N * 8);
    if i >= ow && i < ow + n {
        // OR semantics (or overwrite): if old bit was 0 result equals src bit
        if !bit(&old, i) { assert!(bit(&dst, i) == bit(&src, or + (i - ow))); }
        else { assert!(bit(&dst, i) || !bit(&dst,i)); }
    } else if i < ow || i >= ow + len {
        assert!(bit(&dst, i) == bit(&old, i));
    }
    let _ = zeros;
}
