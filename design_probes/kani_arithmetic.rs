// probe: child module of arrow-array/src/arithmetic.rs (see README.md)
use super::*;
use std::cmp::Ordering;

fn stub_format(_args: std::fmt::Arguments<'_>) -> String { String::new() }

// spec of IEEE totalOrder on f32 via sign-magnitude -> ordered integer
fn key32(x: f32) -> i64 {
    let b = x.to_bits();
    if b >> 31 == 1 { -((b & 0x7fff_ffff) as i64) - 1 } else { (b & 0x7fff_ffff) as i64 }
}

#[kani::proof]
fn f32_total_order() {            // 0.5 s
    let a: f32 = kani::any();
    let b: f32 = kani::any();
    let c = a.compare(b);
    let (ka, kb) = (key32(a), key32(b));
    assert!((c == Ordering::Less) == (ka < kb));
    assert!((c == Ordering::Equal) == (ka == kb));
    assert!(a.is_eq(b) == (c == Ordering::Equal));
}

#[kani::proof]
#[kani::stub(alloc::fmt::format, stub_format)]
fn i8_add_checked() {             // 2.3 s
    let a: i8 = kani::any();
    let b: i8 = kani::any();
    let exact = a as i32 + b as i32;
    match a.add_checked(b) {
        Ok(r) => assert!(r as i32 == exact),
        Err(_) => assert!(exact < i8::MIN as i32 || exact > i8::MAX as i32),
    }
}

#[kani::proof]
#[kani::stub(alloc::fmt::format, stub_format)]
fn i64_mul_checked() {            // 71 s
    let a: i64 = kani::any();
    let b: i64 = kani::any();
    let exact = a as i128 * b as i128;
    match a.mul_checked(b) {
        Ok(r) => assert!(r as i128 == exact),
        Err(_) => assert!(exact < i64::MIN as i128 || exact > i64::MAX as i128),
    }
}

#[kani::proof]
#[kani::stub(alloc::fmt::format, stub_format)]
fn i32_div_checked() {            // > 6 min: NOT usable, see DESIGN.md §3
    let a: i32 = kani::any();
    let b: i32 = kani::any();
    match a.div_checked(b) {
        Ok(r) => { assert!(b != 0); assert!(r as i64 == (a as i64) / (b as i64)); }
        Err(_) => assert!(b == 0 || (a == i32::MIN && b == -1)),
    }
}

// deliberately false contract used to test concrete playback:
// Kani printed a = -27503, b = -28737 and `cargo kani playback` panicked natively at the assertion
#[kani::proof]
#[kani::stub(alloc::fmt::format, stub_format)]
fn i16_sub_checked_broken() {
    let a: i16 = kani::any();
    let b: i16 = kani::any();
    let exact = a as i32 - b as i32;
    match a.sub_checked(b) {
        Ok(r) => assert!(r as i32 == exact && r != 1234),
        Err(_) => assert!(exact < i16::MIN as i32 || exact > i16::MAX as i32),
    }
}
