use vstd::prelude::*;
verus! {
global size_of usize == 8;
const SALT: [u32; 8] = [
    0x47b6137b_u32, 0x44974d91_u32, 0x8824ad5b_u32, 0xa2b7289d_u32,
    0x705495c7_u32, 0x2df1424b_u32, 0x9efc4947_u32, 0x5c6bfb31_u32,
];

#[derive(Debug, Copy, Clone)]
struct Block([u32; 8]);

spec fn pow2word(w: u32) -> bool { exists|k: u32| k < 32 && w == 1u32 << k }

proof fn shr27(v: u32) ensures (v >> 27u32) < 32u32 { assert((v >> 27u32) < 32u32) by (bit_vector); }

impl Block {
    fn mask(x: u32) -> (r: Self)
        ensures forall|i: int| 0 <= i < 8 ==> pow2word(#[trigger] r.0[i])
    {
        let mut result = [0_u32; 8];
        for i in 0..8
            invariant forall|j: int| 0 <= j < i ==> pow2word(#[trigger] result[j])
        {
            proof { assert forall|v: u32| (#[trigger] (v >> 27u32)) < 32u32 by { shr27(v); } }
            let y = x.wrapping_mul(SALT[i]); // spread bits via multiply
            let y = y >> 27; // keep top 5 bits → 0..31
            result[i] = 1 << y; // set exactly that one bit
        }
        Self(result)
    }
}
}
fn main() {}
