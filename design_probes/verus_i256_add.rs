use vstd::prelude::*;
verus! {

#[allow(non_camel_case_types)]
#[derive(Copy, Clone)]
struct i256 {
    low: u128,
    high: i128,
}

pub open spec fn P128() -> int { 0x1_0000_0000_0000_0000_0000_0000_0000_0000int }
pub open spec fn P256() -> int { P128() * P128() }
pub open spec fn wrap256(x: int) -> int {
    let m = x % P256();
    if m >= P256() / 2 { m - P256() } else { m }
}
pub assume_specification [u128::overflowing_add] (a: u128, b: u128) -> (r: (u128, bool))
  ensures r.0 as int == (a as int + b as int) % P128(), r.1 == (a as int + b as int >= P128());

proof fn cast_i_u(h: i128)
    ensures (h as u128) as int == (if h < 0 { h as int + P128() } else { h as int })
{
    assert((h as u128) as int == (if h < 0 { h as int + P128() } else { h as int })) by (bit_vector);
}
proof fn cast_u_i(h: u128)
    ensures (h as i128) as int == (if h >= 0x8000_0000_0000_0000_0000_0000_0000_0000u128 { h as int - P128() } else { h as int })
{
    assert((h as i128) as int == (if h >= 0x8000_0000_0000_0000_0000_0000_0000_0000u128 { h as int - P128() } else { h as int })) by (bit_vector);
}

proof fn lemma_wrap_unique(s: int, y: int)
    requires
        y == s || y == s + P256() || y == s - P256(),
        -(P256() / 2) <= y < P256() / 2,
    ensures
        y == wrap256(s),
        (s != y) == !(-(P256() / 2) <= s < P256() / 2),
{
    assert(P256() == 0x1_0000_0000_0000_0000_0000_0000_0000_0000_0000_0000_0000_0000_0000_0000_0000_0000int) by (compute);
}

proof fn lemma_wrap_range(s: int)
    ensures
        (wrap256(s) == s) == (-(P256() / 2) <= s < P256() / 2),
        -(P256() / 2) <= wrap256(s) < P256() / 2,
{
    assert(P256() == 0x1_0000_0000_0000_0000_0000_0000_0000_0000_0000_0000_0000_0000_0000_0000_0000_0000int) by (compute);
}

impl i256 {
    spec fn v(self) -> int { self.high as int * P128() + self.low as int }

    #[inline]
    const fn overflowing_add(self, rhs: Self) -> (r: (Self, bool))
        ensures
            r.0.v() == wrap256(self.v() + rhs.v()),
            r.1 == (self.v() + rhs.v() != r.0.v()),
    {
        // Add the low limbs and capture the carry into the high limb.
        let (low, carry) = self.low.overflowing_add(rhs.low);

        // Treat the high limbs as raw two's-complement bit patterns.
        let high = (self.high as u128)
            .wrapping_add(rhs.high as u128)
            .wrapping_add(carry as u128) as i128;

        let result = Self { low, high };
        proof {
            cast_i_u(self.high); cast_i_u(rhs.high);
            let h1 = (self.high as u128).wrapping_add(rhs.high as u128);
            let hs = h1.wrapping_add(carry as u128);
            cast_u_i(hs);
            let t = self.high as int + rhs.high as int + (if carry { 1int } else { 0int });
            // hs is t modulo 2^128, as an unsigned residue
            assert(hs as int == t || hs as int == t + P128() || hs as int == t - P128() || hs as int == t + 2 * P128());
            assert(high as int == t || high as int == t + P128() || high as int == t - P128());
            let s = self.v() + rhs.v();
            assert(s == t * P128() + low as int) by (nonlinear_arith)
                requires
                    s == self.high as int * P128() + self.low as int + rhs.high as int * P128() + rhs.low as int,
                    low as int == self.low as int + rhs.low as int - (if carry { P128() } else { 0int }),
                    t == self.high as int + rhs.high as int + (if carry { 1int } else { 0int });
            assert(result.v() == high as int * P128() + low as int);
            assert(result.v() == s || result.v() == s + P256() || result.v() == s - P256()) by (nonlinear_arith)
                requires
                    result.v() == high as int * P128() + low as int,
                    s == t * P128() + low as int,
                    high as int == t || high as int == t + P128() || high as int == t - P128(),
                    P256() == P128() * P128();
            assert(-(P256() / 2) <= result.v() < P256() / 2) by (nonlinear_arith)
                requires
                    result.v() == high as int * P128() + low as int,
                    -(P128() / 2) <= (high as int) < P128() / 2,
                    0 <= (low as int) < P128(),
                    P256() == P128() * P128(),
                    P128() == 0x1_0000_0000_0000_0000_0000_0000_0000_0000int;
            lemma_wrap_unique(s, result.v());
        }
        // Signed overflow occurs when:
        // - both operands have the same sign, and
        // - the result has the opposite sign.
        let overflow = (self.high < 0) == (rhs.high < 0) && (high < 0) != (self.high < 0);

        (result, overflow)
    }

    #[inline]
    const fn checked_add(self, other: Self) -> (r: Option<Self>)
        ensures
            r.is_some() <==> -(P256()/2) <= self.v() + other.v() < P256()/2,
            r.is_some() ==> r.unwrap().v() == self.v() + other.v(),
    {
        let (r, overflow) = self.overflowing_add(other);
        proof { lemma_wrap_range(self.v() + other.v()); }

        if overflow { None } else { Some(r) }
    }
}

}
fn main() {}
