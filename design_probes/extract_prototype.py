#!/usr/bin/env python3
"""Prototype of the mechanical extractor (design probe, not the framework).
Copies named functions verbatim from a Rust source file, splices ghost text
(requires/ensures/invariants/proof blocks) at anchors, wraps in verus!{}."""
import re, sys, hashlib, tomllib, json

def strip_tokens(src):
    """Return a same-length string where comments, string and char literals are blanked,
    so that brace matching and keyword search cannot be fooled."""
    out = list(src); i = 0; n = len(src)
    def blank(a, b):
        for k in range(a, b):
            if out[k] != '\n': out[k] = ' '
    while i < n:
        c = src[i]
        if src.startswith('//', i):
            j = src.find('\n', i); j = n if j < 0 else j; blank(i, j); i = j
        elif src.startswith('/*', i):
            depth = 1; j = i + 2
            while j < n and depth:
                if src.startswith('/*', j): depth += 1; j += 2
                elif src.startswith('*/', j): depth -= 1; j += 2
                else: j += 1
            blank(i, j); i = j
        elif c == '"':
            j = i + 1
            while j < n and src[j] != '"':
                j += 2 if src[j] == '\\' else 1
            blank(i + 1, j); i = j + 1
        elif c == 'r' and re.match(r'r#*"', src[i:]):
            m = re.match(r'r(#*)"', src[i:]); close = '"' + m.group(1)
            j = src.find(close, i + len(m.group(0))); blank(i, j + len(close)); i = j + len(close)
        elif c == "'":
            m = re.match(r"'(\\.[^']*|[^\\'])'", src[i:])
            if m: blank(i + 1, i + len(m.group(0)) - 1); i += len(m.group(0))
            else: i += 1          # lifetime
        else:
            i += 1
    return ''.join(out)

def match_brace(clean, open_idx):
    depth = 0
    for k in range(open_idx, len(clean)):
        if clean[k] == '{': depth += 1
        elif clean[k] == '}':
            depth -= 1
            if depth == 0: return k
    raise ValueError('unbalanced')

def find_fn(src, clean, name, scope=(0, None)):
    lo, hi = scope; hi = len(src) if hi is None else hi
    for m in re.finditer(r'\bfn\s+' + re.escape(name) + r'\b', clean[lo:hi]):
        start_kw = lo + m.start()
        # walk back over qualifiers / attributes / doc comments to the start of the item
        line_start = src.rfind('\n', 0, start_kw) + 1
        open_idx = clean.index('{', start_kw)
        semi = clean.find(';', start_kw)
        if 0 <= semi < open_idx: continue            # a declaration, not a definition
        close_idx = match_brace(clean, open_idx)
        return line_start, start_kw, open_idx, close_idx
    raise KeyError(name)

def find_impl(clean, name):
    """span of the FIRST inherent `impl <name> {` block that contains the wanted fn is chosen by caller"""
    spans = []
    for m in re.finditer(r'\bimpl\s+' + re.escape(name) + r'\s*\{', clean):
        bo = clean.index('{', m.start()); spans.append((bo, match_brace(clean, bo)))
    return spans

def find_struct(src, clean, name):
    m = re.search(r'\bstruct\s+' + re.escape(name) + r'\b', clean)
    bo = clean.index('{', m.start()); bc = match_brace(clean, bo)
    return 'struct ' + name + ' ' + src[bo:bc + 1]

def find_assoc_const(src, clean, span, name):
    m = re.search(r'\bconst\s+' + re.escape(name) + r'\s*:', clean[span[0]:span[1]])
    a = span[0] + m.start(); e = clean.index(';', a)
    # a const initialiser may contain braces; take up to the ';' at depth 0
    depth = 0; k = a
    while True:
        c = clean[k]
        if c == '{': depth += 1
        elif c == '}': depth -= 1
        elif c == ';' and depth == 0: break
        k += 1
    return src[a:k + 1]

def loops(clean, open_idx, close_idx):
    """ordinals of while/for/loop headers inside a body, in textual order -> (kw_idx, body_open, body_close)"""
    res = []
    for m in re.finditer(r'\b(while|for|loop)\b', clean[open_idx:close_idx]):
        kw = open_idx + m.start()
        bo = clean.index('{', kw); bc = match_brace(clean, bo)
        res.append((kw, bo, bc))
    return res

def extract(path, spec):
    src = open(path).read(); clean = strip_tokens(src)
    scope = (0, None)
    if spec.get('impl'):
        for sp in find_impl(clean, spec['impl']):
            try:
                find_fn(src, clean, spec['fn'], sp); scope = sp; break
            except KeyError: pass
    line_start, kw, bo, bc = find_fn(src, clean, spec['fn'], scope)
    header = src[kw:bo].rstrip()            # from `fn` (drops pub/const?/attrs/docs — recorded as drops)
    quals = src[line_start:kw]
    keep_quals = ' '.join(q for q in re.findall(r'\b(const|unsafe)\b', quals))
    body = src[bo:bc + 1]
    sha = hashlib.sha256((header + body).encode()).hexdigest()
    # result binder
    if 'result' in spec:
        header = re.sub(r'->\s*(.+)$', lambda m: '-> (%s: %s)' % (spec['result'], m.group(1).strip()), header, flags=re.S)
    contract = ''
    if spec.get('requires'): contract += '\n    requires\n' + spec['requires'].rstrip() + '\n'
    if spec.get('ensures'): contract += '\n    ensures\n' + spec['ensures'].rstrip() + '\n'
    # splice inside the body, working from the end so indices stay valid
    cbody = clean[bo:bc + 1]
    inserts = []                                # (offset in body, text)
    lps = loops(clean, bo, bc)
    for lp in spec.get('loop', []):
        kwi, lbo, lbc = lps[lp['ordinal']]
        inserts.append((lbo - bo, '\n        invariant\n' + lp['invariant'].rstrip() + '\n        decreases ' + lp['decreases'] + '\n    '))
        if lp.get('body_end'): inserts.append((lbc - bo, '    proof {\n' + lp['body_end'].rstrip() + '\n        }\n    '))
        if lp.get('body_start'): inserts.append((lbo - bo + 1, '\n        proof {\n' + lp['body_start'].rstrip() + '\n        }'))
    if spec.get('entry'): inserts.append((1, '\n    proof {\n' + spec['entry'].rstrip() + '\n    }'))
    if spec.get('before_tail'):
        depth = 0; last = None
        for k, ch in enumerate(cbody):
            if ch == '{': depth += 1
            elif ch == '}': depth -= 1
            elif ch == ';' and depth == 1: last = k
        inserts.append(((last + 1) if last is not None else 1, '\n        proof {\n' + spec['before_tail'].rstrip() + '\n        }'))
    for off, text in sorted(inserts, reverse=True):
        body = body[:off] + text + body[off:]
    item = (keep_quals + ' ' if keep_quals else '') + header + contract + body
    meta = {'fn': spec['fn'], 'file': path, 'lines': [src.count('\n', 0, kw) + 1, src.count('\n', 0, bc) + 1], 'sha256': sha}
    return item, meta

if __name__ == '__main__':
    spec = tomllib.load(open(sys.argv[1], 'rb'))
    items, metas = [], []
    src0 = open(spec['file']).read(); clean0 = strip_tokens(src0)
    for st in spec.get('struct', []):
        items.append('#[allow(non_camel_case_types)]\n#[derive(Copy, Clone)]\n' + find_struct(src0, clean0, st['name']))
    impl_items = {}
    for c in spec.get('const', []):
        for sp in find_impl(clean0, c['impl']):
            try:
                impl_items.setdefault(c['impl'], []).append('    ' + find_assoc_const(src0, clean0, sp, c['name'])); break
            except AttributeError: pass
    for f in spec['extract']:
        if f.get('mode') == 'assume':
            src = open(spec['file']).read(); clean = strip_tokens(src)
            ls, kw, bo, bc = find_fn(src, clean, f['fn'])
            header = src[kw:bo].rstrip()
            quals = ' '.join(re.findall(r'\b(const|unsafe)\b', src[ls:kw]))
            header = re.sub(r'->\s*(.+)$', lambda m: '-> (%s: %s)' % (f['result'], m.group(1).strip()), header, flags=re.S)
            items.append('#[verifier::external_body]\n' + (quals + ' ' if quals else '') + header + '\n    requires\n' + f['requires'] + '\n    ensures\n' + f['ensures'] + '\n{ unimplemented!() }')
            metas.append({'fn': f['fn'], 'mode': 'assume', 'discharged_by': f.get('discharged_by')})
        else:
            it, me = extract(spec['file'], f)
            if f.get('impl'): impl_items.setdefault(f['impl'], []).append(it)
            else: items.append(it)
            metas.append(me)
    for name, its in impl_items.items():
        extra = spec.get('impl_prelude', {}).get(name, '')
        items.append('impl ' + name + ' {\n' + extra + '\n' + '\n\n'.join(its) + '\n}')
    out = 'use vstd::prelude::*;\nverus! {\n' + spec.get('prelude', '') + '\n' + '\n\n'.join(items) + '\n}\nfn main() {}\n'
    open(sys.argv[2], 'w').write(out)
    print(json.dumps(metas, indent=1))
