use super::*;

#[kani::proof]
fn footer_tail_contract() {
    let b: [u8; 8] = kani::any();
    match FooterTail::try_new(&b) {
        Ok(t) => {
            assert!(&b[4..] == b"PAR1" || &b[4..] == b"PARE");
            assert!(t.is_encrypted_footer() == (&b[4..] == b"PARE"));
            assert!(t.metadata_length() == u32::from_le_bytes([b[0], b[1], b[2], b[3]]) as usize);
        }
        Err(_) => {
            assert!(!(&b[4..] == b"PAR1" || &b[4..] == b"PARE"));
        }
    }
}
