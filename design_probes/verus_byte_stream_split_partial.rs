use vstd::prelude::*;
verus! {
global size_of usize == 8;

fn split_streams_const<const TYPE_SIZE: usize>(src: &[u8], dst: &mut [u8])
    requires
        TYPE_SIZE > 0,
        old(dst).len() == src.len(),
        src.len() % TYPE_SIZE == 0,
    ensures
        final(dst).len() == old(dst).len(),
        forall|i: int, j: int| 0 <= i < src.len() / TYPE_SIZE && 0 <= j < TYPE_SIZE
            ==> #[trigger] final(dst)@[i + j * (src.len() / TYPE_SIZE) as int] == src@[i * TYPE_SIZE + j],
{
    let stride = src.len() / TYPE_SIZE;
    for i in 0..stride
        invariant
            stride == src.len() / TYPE_SIZE, TYPE_SIZE > 0, dst.len() == src.len(), src.len() % TYPE_SIZE == 0,
            forall|a: int, b: int| 0 <= a < i && 0 <= b < TYPE_SIZE ==> #[trigger] dst@[a + b * stride as int] == src@[a * TYPE_SIZE + b],
    {
        for j in 0..TYPE_SIZE
            invariant
                i < stride, stride == src.len() / TYPE_SIZE, TYPE_SIZE > 0, dst.len() == src.len(), src.len() % TYPE_SIZE == 0,
                forall|a: int, b: int| 0 <= a < i && 0 <= b < TYPE_SIZE ==> #[trigger] dst@[a + b * stride as int] == src@[a * TYPE_SIZE + b],
                forall|b: int| 0 <= b < j ==> #[trigger] dst@[i as int + b * stride as int] == src@[i * TYPE_SIZE + b],
        {
            proof {
                assert(stride * TYPE_SIZE == src.len()) by (nonlinear_arith) requires stride == src.len() / TYPE_SIZE, src.len() % TYPE_SIZE == 0, TYPE_SIZE > 0;
                assert(i + j * stride < stride * TYPE_SIZE) by (nonlinear_arith) requires i < stride, j < TYPE_SIZE;
                assert(i * TYPE_SIZE + j < stride * TYPE_SIZE) by (nonlinear_arith) requires i < stride, j < TYPE_SIZE;
            }
            dst[i + j * stride] = src[i * TYPE_SIZE + j];
        }
    }
}
}
fn main() {}
