use vstd::prelude::*;
verus! {
pub open spec fn P128() -> int { 0x1_0000_0000_0000_0000_0000_0000_0000_0000int }

proof fn cast_i_u(h: i128)
    ensures (h as u128) as int == (if h < 0 { h as int + P128() } else { h as int })
{
    assert((h as u128) as int == (if h < 0 { h as int + P128() } else { h as int })) by (bit_vector);
}
proof fn cast_u_i(h: u128)
    ensures (h as i128) as int == (if h >= 0x8000_0000_0000_0000_0000_0000_0000_0000u128 { h as int - P128() } else { h as int })
{
    assert((h as i128) as int == (if h >= 0x8000_0000_0000_0000_0000_0000_0000_0000u128 { h as int - P128() } else { h as int })) by (bit_vector);
}
}
fn main() {}
