use vstd::prelude::*;
verus! {
global size_of usize == 8;

pub assume_specification [usize::div_ceil] (a: usize, b: usize) -> (r: usize)
  requires b > 0 ensures r as int == (a as int + b as int - 1) / (b as int);

proof fn lemma_align(l: usize, a: usize)
    requires a == 7 || a == 15 || a == 31 || a == 63, l <= 0xffff_ffff_ffff_ff00usize,
    ensures
        (add(l, a) & !a) >= l,
        sub((add(l, a) & !a), l) <= a,
        (add(l, a) & !a) % add(a, 1) == 0,
        add(l, a) == l + a,
{
    assert((add(l, a) & !a) >= l && sub((add(l, a) & !a), l) <= a && (add(l, a) & !a) % add(a, 1) == 0) by (bit_vector)
        requires a == 7 || a == 15 || a == 31 || a == 63, l <= 0xffff_ffff_ffff_ff00usize;
}

// ---- arrow-ipc/src/writer.rs
fn pad_to_alignment(alignment: u8, len: usize) -> (r: usize)
    requires
        alignment == 8 || alignment == 16 || alignment == 32 || alignment == 64,
        len <= 0xffff_ffff_ffff_ff00usize,
    ensures
        r < alignment,
        (len + r) % (alignment as int) == 0,
{
    let a = usize::from(alignment - 1);
    proof { lemma_align(len, a); }
    ((len + a) & !a) - len
}

// ---- arrow-buffer bit_util::ceil + arrow-row/src/variable.rs
pub const BLOCK_SIZE: usize = 32;
pub const MINI_BLOCK_COUNT: usize = 4;
pub const MINI_BLOCK_SIZE: usize = BLOCK_SIZE / MINI_BLOCK_COUNT;

fn ceil(value: usize, divisor: usize) -> (r: usize)
    requires divisor > 0
    ensures r as int == (value as int + divisor as int - 1) / (divisor as int)
{
    value.div_ceil(divisor)
}

fn non_null_padded_length(len: usize) -> (r: usize)
    requires len as int * 2 + 64 <= usize::MAX as int
    ensures
        len <= 32 ==> r as int == 1 + ((len as int + 7) / 8) * 9,
        len > 32 ==> r as int == 4 + ((len as int + 31) / 32) * 33,
        r > len,
{
    proof { assert(MINI_BLOCK_SIZE == 8 && BLOCK_SIZE == 32 && MINI_BLOCK_COUNT == 4); }
    if len <= BLOCK_SIZE {
        1 + ceil(len, MINI_BLOCK_SIZE) * (MINI_BLOCK_SIZE + 1)
    } else {
        // Each miniblock ends with a 1 byte continuation, therefore add
        // `(MINI_BLOCK_COUNT - 1)` additional bytes over non-miniblock size
        MINI_BLOCK_COUNT + ceil(len, BLOCK_SIZE) * (BLOCK_SIZE + 1)
    }
}

}
fn main() {}
