use vstd::prelude::*;
verus! {

pub open spec fn bit_at(s: Seq<u8>, i: int) -> bool {
    (s[i / 8] >> ((i % 8) as u8)) & 1u8 == 1u8
}

pub open spec fn zeros_in(s: Seq<u8>, from: int, n: int) -> int
    decreases n
{
    if n <= 0 { 0 } else { zeros_in(s, from, n - 1) + if bit_at(s, from + n - 1) { 0int } else { 1int } }
}

proof fn lemma_zeros_split(s: Seq<u8>, from: int, a: int, b: int)
    requires a >= 0, b >= 0
    ensures zeros_in(s, from, a + b) == zeros_in(s, from, a) + zeros_in(s, from + a, b)
    decreases b
{
    if b > 0 { lemma_zeros_split(s, from, a, b - 1); }
}

proof fn lemma_zeros_bound(s: Seq<u8>, from: int, n: int)
    requires n >= 0
    ensures 0 <= zeros_in(s, from, n) <= n
    decreases n
{
    if n > 0 { lemma_zeros_bound(s, from, n - 1); }
}

#[verifier::external_body]
unsafe fn set_upto_64bits(
    write_data: &mut [u8],
    data: &[u8],
    offset_write: usize,
    offset_read: usize,
    len: usize,
) -> (r: (usize, usize))
    requires
        len >= 1,
        offset_write + len <= old(write_data).len() * 8,
        offset_read + len <= data.len() * 8,
        forall|i: int| offset_write <= i < offset_write + len ==> !bit_at(old(write_data)@, i),
    ensures
        final(write_data).len() == old(write_data).len(),
        1 <= r.1 <= len,
        r.1 == len || r.1 >= 56,
        r.0 as int == zeros_in(data@, offset_read as int, r.1 as int),
        forall|i: int| offset_write <= i < offset_write + r.1 ==> bit_at(final(write_data)@, i) == bit_at(data@, offset_read + (i - offset_write)),
        forall|i: int| offset_write + r.1 <= i < offset_write + len ==> !bit_at(final(write_data)@, i),
        forall|i: int| 0 <= i < old(write_data).len() * 8 && !(offset_write <= i < offset_write + len) ==> bit_at(final(write_data)@, i) == bit_at(old(write_data)@, i),
{
    unimplemented!()
}

pub fn set_bits(
    write_data: &mut [u8],
    data: &[u8],
    offset_write: usize,
    offset_read: usize,
    len: usize,
) -> (r: usize) 
    requires
        old(write_data).len() * 8 <= usize::MAX,
        data.len() * 8 <= usize::MAX,
        offset_write + len <= old(write_data).len() * 8,
        offset_read + len <= data.len() * 8,
        forall|i: int| offset_write <= i < offset_write + len ==> !bit_at(old(write_data)@, i),
    ensures
        final(write_data).len() == old(write_data).len(),
        r as int == zeros_in(data@, offset_read as int, len as int),
        forall|i: int| offset_write <= i < offset_write + len ==> bit_at(final(write_data)@, i) == bit_at(data@, offset_read + (i - offset_write)),
        forall|i: int| 0 <= i < old(write_data).len() * 8 && !(offset_write <= i < offset_write + len) ==> bit_at(final(write_data)@, i) == bit_at(old(write_data)@, i),
{
    assert!(
        offset_write
            .checked_add(len)
            .expect("operation will overflow write buffer")
            <= write_data.len() * 8
    );
    assert!(
        offset_read
            .checked_add(len)
            .expect("operation will overflow read buffer")
            <= data.len() * 8
    );
    let mut null_count = 0;
    let mut acc = 0;
    while len > acc 
        invariant
            acc <= len,
            write_data.len() * 8 <= usize::MAX,
            data.len() * 8 <= usize::MAX,
            write_data.len() == old(write_data).len(),
            offset_write + len <= write_data.len() * 8,
            offset_read + len <= data.len() * 8,
            null_count as int == zeros_in(data@, offset_read as int, acc as int),
            forall|i: int| offset_write <= i < offset_write + acc ==> bit_at(write_data@, i) == bit_at(data@, offset_read + (i - offset_write)),
            forall|i: int| offset_write + acc <= i < offset_write + len ==> !bit_at(write_data@, i),
            forall|i: int| 0 <= i < old(write_data).len() * 8 && !(offset_write <= i < offset_write + len) ==> bit_at(write_data@, i) == bit_at(old(write_data)@, i),
        decreases len - acc
    {
        // SAFETY: the arguments to `set_upto_64bits` are within the valid range because
        let (n, len_set) = unsafe {
            set_upto_64bits(
                write_data,
                data,
                offset_write + acc,
                offset_read + acc,
                len - acc,
            )
        };
        proof {
            lemma_zeros_split(data@, offset_read as int, acc as int, len_set as int);
            lemma_zeros_bound(data@, offset_read as int, acc as int);
            lemma_zeros_bound(data@, offset_read as int + acc as int, len_set as int);
        }
        null_count += n;
        acc += len_set;
    }

    null_count
}

}
fn main() {}
