use vstd::prelude::*;
verus! {

pub fn round_upto_power_of_2(num: usize, factor: usize) -> (r: usize)
    requires factor > 0, num + factor - 1 <= usize::MAX,
{
    let x = num.checked_add(factor - 1);
    x.expect("failed to round to next highest power of 2") & !(factor - 1)
}

pub fn get_bit(data: &[u8], i: usize) -> (r: bool)
    requires i / 8 < data.len(),
    ensures r == ((data@[(i / 8) as int] >> ((i % 8) as u8)) & 1u8 == 1u8),
{
    let r = data[i / 8] & (1 << (i % 8)) != 0;
    proof {
        let b = data@[(i / 8) as int];
        let s = (i % 8) as u8;
        assert(s < 8);
        assert((b & (1u8 << s) != 0) == ((b >> s) & 1u8 == 1u8)) by (bit_vector) requires s < 8;
    }
    r
}

pub fn set_bit(data: &mut [u8], i: usize)
    requires i / 8 < old(data).len(),
{
    data[i / 8] |= 1 << (i % 8);
}

pub assume_specification [u128::overflowing_add] (a: u128, b: u128) -> (r: (u128, bool))
  ensures r.0 as int == (a as int + b as int) % 0x1_0000_0000_0000_0000_0000_0000_0000_0000int, r.1 == (a as int + b as int > u128::MAX as int);
fn ov(a: u128, b: u128) -> (r: (u128, bool)) ensures r.1 == (a+b > u128::MAX) {
    a.overflowing_add(b)
}
fn wr(a: u128, b: u128) -> u128 {
    a.wrapping_add(b)
}
pub assume_specification [usize::div_ceil] (a: usize, b: usize) -> (r: usize)
  requires b > 0 ensures r as int == (a as int + b as int - 1) / (b as int);
fn dc(a: usize, b: usize) -> usize requires b > 0 {
    a.div_ceil(b)
}
fn lz(a: u64) -> u32 { a.leading_zeros() }
fn mn(a: usize, b: usize) -> usize { a.min(b) }

}
fn main() {}
