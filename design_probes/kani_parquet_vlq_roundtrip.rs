use super::*;

#[kani::proof]
#[kani::unwind(12)]
fn vlq_roundtrip() {
    let v: u64 = kani::any();
    let mut w = BitWriter::new(16);
    w.put_vlq_int(v);
    let bytes = w.consume();
    assert!(bytes.len() >= 1 && bytes.len() <= 10);
    let mut r = BitReader::from(bytes);
    let got = r.get_vlq_int();
    assert!(got == Some(v as i64));
    std::mem::forget(r);
}
