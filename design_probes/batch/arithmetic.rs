use super::*;
use std::cmp::Ordering;

fn stub_format(_args: std::fmt::Arguments<'_>) -> String { String::new() }

#[kani::proof]
#[kani::stub(alloc::fmt::format, stub_format)]
fn i16_sub_checked_broken() {
    let a: i16 = kani::any();
    let b: i16 = kani::any();
    let exact = a as i32 - b as i32;
    match a.sub_checked(b) {
        // deliberately wrong spec to force a counterexample
        Ok(r) => assert!(r as i32 == exact && r != 1234),
        Err(_) => assert!(exact < i16::MIN as i32 || exact > i16::MAX as i32),
    }
}

#[test]
fn kani_concrete_playback_i16_sub_checked_broken_1() {
    let concrete_vals: Vec<Vec<u8>> = vec![
        vec![145, 148],
        vec![191, 143],
    ];
    kani::concrete_playback_run(concrete_vals, i16_sub_checked_broken);
}
