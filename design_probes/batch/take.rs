use super::*;
use arrow_array::{Int8Array, Array};
use arrow_buffer::{ScalarBuffer, NullBuffer, BooleanBuffer, Buffer};
fn stub_format(_args: std::fmt::Arguments<'_>) -> String { String::new() }
#[kani::proof]
#[kani::unwind(6)]
#[kani::stub(alloc::fmt::format, stub_format)]
fn take_native_3x3() {
    let vals: [i32; 3] = kani::any();
    let idx: [i8; 3] = kani::any();
    let iv: u8 = kani::any();
    let with_nulls: bool = kani::any();
    let nulls = if with_nulls { Some(NullBuffer::new(BooleanBuffer::new(Buffer::from_slice_ref(&[iv]), 0, 3))) } else { None };
    let indices = Int8Array::new(ScalarBuffer::from(idx.to_vec()), nulls);
    let out = take_native::<i32, arrow_array::types::Int8Type>(&vals, &indices);   // may panic on OOB non-null index
    assert!(out.len() == 3);
    let k: usize = kani::any(); kani::assume(k < 3);
    let valid = !with_nulls || (iv >> k) & 1 == 1 || (iv & 7) == 7;
    if valid { assert!(idx[k] >= 0 && (idx[k] as usize) < 3); assert!(out[k] == vals[idx[k] as usize]); }
    std::mem::forget(indices);
}
