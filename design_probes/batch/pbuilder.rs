use super::*;
use crate::types::Int32Type;
use crate::Array;
#[kani::proof]
#[kani::unwind(6)]
fn primitive_builder_model() {
    let v: [i32; 2] = kani::any();
    let mut b = PrimitiveBuilder::<Int32Type>::with_capacity(4);
    b.append_value(v[0]); b.append_null(); b.append_value(v[1]);
    let a = b.finish();
    assert!(a.len() == 3 && a.null_count() == 1);
    assert!(a.is_valid(0) && a.is_null(1) && a.is_valid(2));
    assert!(a.value(0) == v[0] && a.value(2) == v[1]);
    std::mem::forget(a); std::mem::forget(b);
}
