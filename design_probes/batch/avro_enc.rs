use super::*;
fn stub_format(_args: std::fmt::Arguments<'_>) -> String { String::new() }
#[kani::proof]
#[kani::unwind(12)]
#[kani::stub(alloc::fmt::format, stub_format)]
fn write_long_then_read() {
    let v: i64 = kani::any();
    let mut buf = [0u8; 10];
    let mut w: &mut [u8] = &mut buf[..];
    let r = write_long(&mut w, v);
    assert!(r.is_ok());
    let used = 10 - w.len();
    assert!(used >= 1 && used <= 10);
    let mut d = crate::reader::vlq::VLQDecoder::default();
    let mut s: &[u8] = &buf[..used];
    let got = d.long(&mut s);
    assert!(matches!(got, Ok(Some(x)) if x == v));
    assert!(s.is_empty());
    std::mem::forget(r); std::mem::forget(got);
}
fn sext(b: &[u8]) -> i64 { let mut v: i64 = if !b.is_empty() && b[0] & 0x80 != 0 { -1 } else { 0 }; for &x in b { v = (v << 8) | x as i64; } v }
#[kani::proof]
#[kani::unwind(8)]
fn minimal_twos_complement_contract() {
    let b: [u8; 5] = kani::any(); let n: usize = kani::any(); kani::assume(n <= 5);
    let r = minimal_twos_complement(&b[..n]);
    assert!(r.len() <= n);
    if n > 0 { assert!(r.len() >= 1); assert!(sext(r) == sext(&b[..n])); 
        if r.len() >= 2 { let sb = if r[0] & 0x80 != 0 { 0xFF } else { 0 }; assert!(!(r[0] == sb && ((r[1] ^ sb) & 0x80) == 0)); } }
}
