use super::*;
const NB: usize = 24;
fn bit(d: &[u8], i: usize) -> bool { (d[i / 8] >> (i % 8)) & 1 == 1 }

#[kani::proof]
#[kani::unwind(10)]
fn remainder_bits_roundtrip() {
    let mut d: [u8; 8] = kani::any();
    let rl: usize = kani::any(); kani::assume(rl >= 1 && rl < 64);
    let nbytes = (rl + 7) / 8;
    let old = d;
    let got = get_remainder_bits(&d[..nbytes], rl);
    let i: usize = kani::any(); kani::assume(i < 64);
    assert!(((got >> i) & 1 == 1) == (i < rl && bit(&old, i)));
    let newv: u64 = kani::any();
    set_remainder_bits(&mut d[..nbytes], newv, rl);
    let j: usize = kani::any(); kani::assume(j < nbytes * 8);
    if j < rl { assert!(bit(&d, j) == ((newv >> j) & 1 == 1)); } else { assert!(bit(&d, j) == bit(&old, j)); }
}

#[kani::proof]
#[kani::unwind(6)]
fn apply_unary_not_raw() {
    let mut d: [u8; NB] = kani::any();
    let off: usize = kani::any(); let len: usize = kani::any();
    kani::assume(off <= 70 && len <= 100 && (off + len + 7) / 8 <= NB);
    let old = d;
    apply_bitwise_unary_op(&mut d, off, len, |a| !a);
    let i: usize = kani::any(); kani::assume(i < NB * 8);
    if i >= off && i < off + len { assert!(bit(&d, i) == !bit(&old, i)); } else { assert!(bit(&d, i) == bit(&old, i)); }
}

#[kani::proof]
#[kani::unwind(6)]
fn apply_binary_and_raw() {
    let mut d: [u8; NB] = kani::any(); let r: [u8; NB] = kani::any();
    let off: usize = kani::any(); let roff: usize = kani::any(); let len: usize = kani::any();
    kani::assume(off <= 70 && roff <= 70 && len <= 100 && (off + len + 7) / 8 <= NB && (roff + len + 7) / 8 <= NB);
    let old = d;
    apply_bitwise_binary_op(&mut d, off, &r, roff, len, |a, b| a & b);
    let i: usize = kani::any(); kani::assume(i < NB * 8);
    if i >= off && i < off + len { assert!(bit(&d, i) == (bit(&old, i) && bit(&r, roff + (i - off)))); } else { assert!(bit(&d, i) == bit(&old, i)); }
}
