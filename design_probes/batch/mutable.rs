use super::*;
#[kani::proof]
#[kani::unwind(6)]
fn extend_preserves() {
    let a: [u8; 3] = kani::any(); let b: [u8; 70] = kani::any();
    let mut m = MutableBuffer::new(0);
    m.extend_from_slice(&a);
    m.extend_from_slice(&b);           // forces a reallocation past 64
    assert!(m.len() == 73 && m.capacity() >= 73 && m.capacity() % 64 == 0);
    let i: usize = kani::any(); kani::assume(i < 73);
    assert!(m.as_slice()[i] == if i < 3 { a[i] } else { b[i - 3] });
    let buf: Buffer = m.into();
    assert!(buf.len() == 73);
}
