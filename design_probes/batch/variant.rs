use super::*;
fn stub_format(_args: std::fmt::Arguments<'_>) -> String { String::new() }
#[kani::proof]
#[kani::unwind(6)]
#[kani::stub(alloc::fmt::format, stub_format)]
fn unpack_u32_total() {
    let b: [u8; 8] = kani::any(); let n: usize = kani::any(); kani::assume(n <= 8);
    let w: u8 = kani::any();
    if let Ok(sz) = OffsetSizeBytes::try_new(w) {
        assert!(w <= 3);
        let (off, idx): (usize, usize) = (kani::any(), kani::any());
        let r = sz.unpack_u32_at_offset(&b[..n], off, idx);
        if let Ok(v) = &r {
            let width = w as usize + 1;
            let start = off + idx * width;
            assert!(start + width <= n);
            let mut want = 0u32; for k in 0..4 { if k < width { want |= (b[start + k] as u32) << (8 * k); } }
            assert!(*v == want);
        }
        std::mem::forget(r);
    } else { assert!(w > 3); }
}
#[kani::proof]
#[kani::unwind(6)]
#[kani::stub(alloc::fmt::format, stub_format)]
fn decode_uuid_total() {
    let b: [u8; 18] = kani::any(); let n: usize = kani::any(); kani::assume(n <= 18);
    let r = decode_uuid(&b[..n]);
    std::mem::forget(r);
}
