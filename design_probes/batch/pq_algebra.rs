use super::*;
const K: usize = 3;
fn total(v: &[RowSelector]) -> usize { let mut t = 0usize; for s in v { t += s.row_count; } t }
fn selected_at(v: &[RowSelector], p: usize) -> Option<bool> {
    let mut start = 0usize;
    for s in v { if p < start + s.row_count { return Some(!s.skip); } start += s.row_count; }
    None
}
fn any_selectors() -> Vec<RowSelector> {
    let n: usize = kani::any(); kani::assume(n <= K);
    let mut v = Vec::with_capacity(K);
    for _ in 0..n { let c: usize = kani::any(); kani::assume(c <= (usize::MAX >> 4)); v.push(RowSelector { row_count: c, skip: kani::any() }); }
    v
}
#[kani::proof]
#[kani::unwind(9)]
fn intersect_views() {
    let a = any_selectors(); let b = any_selectors();
    let r = intersect_row_selections(&a, &b);
    let rv: Vec<RowSelector> = r.iter().copied().collect();
    let p: usize = kani::any();
    match (selected_at(&a, p), selected_at(&b, p)) {
        (Some(x), Some(y)) => assert!(selected_at(&rv, p) == Some(x && y)),
        (Some(x), None) => assert!(selected_at(&rv, p) == Some(x)),
        (None, Some(y)) => assert!(selected_at(&rv, p) == Some(y)),
        (None, None) => assert!(selected_at(&rv, p) == None),
    }
    std::mem::forget(r);
}
