use super::*;
use arrow_buffer::{Buffer, OffsetBuffer, ScalarBuffer};
use crate::types::Utf8Type;
fn stub_format(_args: std::fmt::Arguments<'_>) -> String { String::new() }
#[kani::proof]
#[kani::unwind(8)]
#[kani::stub(alloc::fmt::format, stub_format)]
fn utf8_try_new_sound() {
    let offs: [i32; 3] = kani::any();
    let bytes: [u8; 4] = kani::any();
    kani::assume(offs[0] >= 0 && offs[0] <= offs[1] && offs[1] <= offs[2]);
    let ob = unsafe { OffsetBuffer::new_unchecked(ScalarBuffer::from(offs.to_vec())) };
    let r = GenericByteArray::<Utf8Type>::try_new(ob, Buffer::from_slice_ref(&bytes), None);
    if let Ok(a) = &r {
        assert!(offs[2] as usize <= 4);
        let s0 = &bytes[offs[0] as usize..offs[1] as usize];
        assert!(std::str::from_utf8(s0).is_ok());
        assert!(a.len() == 2);
    }
    std::mem::forget(r);
}
