use super::*;
#[kani::proof]
#[kani::unwind(10)]
fn block_insert_then_check_and_monotone() {
    let old = Block(kani::any());
    let mut blk = old;
    let h: u32 = kani::any();
    blk.insert(h);
    assert!(blk.check(h));
    let i: usize = kani::any(); kani::assume(i < 8);
    assert!(blk[i] & old[i] == old[i]);
}
#[kani::proof]
#[kani::unwind(10)]
fn block_check_monotone_lemma() {
    let a = Block(kani::any()); let b = Block(kani::any());
    for i in 0..8 { kani::assume(b[i] & a[i] == a[i]); }
    let g: u32 = kani::any();
    if a.check(g) { assert!(b.check(g)); }
}
#[kani::proof]
fn block_index_in_range() {
    let n: usize = kani::any(); kani::assume(n >= 1 && n <= (1 << 20));
    let h: u64 = kani::any();
    let idx = (((h >> 32).saturating_mul(n as u64)) >> 32) as usize;
    assert!(idx < n);
}
