use super::*;
fn selected_at(v: &[RowSelector], p: usize) -> Option<bool> {
    let mut start = 0usize;
    for s in v { if p < start + s.row_count { return Some(!s.skip); } start += s.row_count; }
    None
}
fn sel2() -> [RowSelector; 2] {
    let mut v = [RowSelector::skip(0); 2];
    for k in 0..2 { let c: usize = kani::any(); kani::assume(c <= (usize::MAX >> 4)); v[k] = RowSelector { row_count: c, skip: kani::any() }; }
    v
}
#[kani::proof]
#[kani::unwind(7)]
fn union_2x2() {
    let a = sel2(); let b = sel2();
    let r = union_row_selections(&a, &b);
    let rv: Vec<RowSelector> = r.iter().copied().collect();
    let p: usize = kani::any();
    match (selected_at(&a, p), selected_at(&b, p)) {
        (Some(x), Some(y)) => assert!(selected_at(&rv, p) == Some(x || y)),
        (Some(x), None) => assert!(selected_at(&rv, p) == Some(x)),
        (None, Some(y)) => assert!(selected_at(&rv, p) == Some(y)),
        (None, None) => assert!(selected_at(&rv, p) == None),
    }
    std::mem::forget(r);
}
