use super::*;
use crate::ScalarBuffer;
#[kani::proof]
#[kani::unwind(7)]
fn run_end_buffer_new_sound() {
    let v: [i16; 3] = kani::any();
    let n: usize = kani::any(); kani::assume(n <= 3);
    let off: usize = kani::any(); let len: usize = kani::any();
    kani::assume(off <= 40 && len <= 40);
    let r = RunEndBuffer::new(ScalarBuffer::<i16>::from(v[..n].to_vec()), off, len);
    // accepted => strictly increasing positive run ends covering off+len
    let i: usize = kani::any(); kani::assume(i < n);
    assert!(v[i] > 0);
    if i + 1 < n { assert!(v[i] < v[i + 1]); }
    if len > 0 { assert!(n > 0 && (v[n - 1] as usize) >= off + len); }
    assert!(r.len() == len);
}
