use super::*;

const L: usize = 11;

#[kani::proof]
#[kani::unwind(13)]
fn vlq_chunk_independent() {
    let bytes: [u8; L] = kani::any();
    let n: usize = kani::any();
    kani::assume(n <= L);
    let cut: usize = kani::any();
    kani::assume(cut <= n);
    // one shot
    let mut d1 = VLQDecoder::default();
    let mut s1: &[u8] = &bytes[..n];
    let r1 = d1.long(&mut s1);
    // two chunks
    let mut d2 = VLQDecoder::default();
    let mut c1: &[u8] = &bytes[..cut];
    let r2a = d2.long(&mut c1);
    let (r2, rest2) = match r2a {
        Ok(None) => { let mut c2: &[u8] = &bytes[cut..n]; let r = d2.long(&mut c2); (r, c2.len()) }
        other => (other, c1.len() + (n - cut)),
    };
    match (&r1, &r2) {
        (Ok(x), Ok(y)) => { assert!(x == y); assert!(s1.len() == rest2); }
        (Err(_), Err(_)) => {}
        _ => assert!(false),
    }
}

#[kani::proof]
#[kani::unwind(13)]
fn varint_fast_slow_agree() {
    let bytes: [u8; 10] = kani::any();
    let fast = read_varint_array(bytes);
    let slow = read_varint_slow(&bytes);
    assert!(fast == slow);
}
