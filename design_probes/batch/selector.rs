use super::*;
fn total(v: &[RowSelector]) -> usize { let mut t = 0usize; for s in v { t += s.row_count; } t }
fn selected_at(v: &[RowSelector], p: usize) -> Option<bool> {
    let mut start = 0usize;
    for s in v { if p < start + s.row_count { return Some(!s.skip); } start += s.row_count; }
    None
}
fn sel2() -> Vec<RowSelector> {
    let mut v = Vec::with_capacity(4);
    for _ in 0..2 { let c: usize = kani::any(); kani::assume(c <= (usize::MAX >> 4)); v.push(RowSelector { row_count: c, skip: kani::any() }); }
    v
}
#[kani::proof]
#[kani::unwind(5)]
fn split_off_2() {
    let v = sel2(); let n: usize = kani::any();
    let orig = [v[0], v[1]];
    let (head, tail) = split_off_selectors(v, n);
    let th = total(&head);
    assert!(th == n.min(total(&orig)));
    assert!(th + total(&tail) == total(&orig));
    let p: usize = kani::any(); kani::assume(p < total(&orig));
    if p < th { assert!(selected_at(&head, p) == selected_at(&orig, p)); } else { assert!(selected_at(&tail, p - th) == selected_at(&orig, p)); }
}
#[kani::proof]
#[kani::unwind(5)]
fn offset_2() {
    let v = sel2(); let k: usize = kani::any();
    let orig = [v[0], v[1]];
    let out = offset_selectors(v, k);
    // rank of position p among selected positions of orig
    let p: usize = kani::any(); kani::assume(p < total(&orig));
    let mut rank = 0usize; let mut start = 0usize;
    for s in &orig { let end = start + s.row_count; if !s.skip { if p >= end { rank += s.row_count; } else if p >= start { rank += p - start; } } start = end; }
    let want = selected_at(&orig, p) == Some(true) && rank >= k;
    match selected_at(&out, p) { Some(b) => assert!(b == want), None => assert!(!want) }
}
