use super::*;

fn sext(b: &[u8]) -> i64 {
    // big-endian two's complement, len 1..=4
    let mut v: i64 = if b[0] & 0x80 != 0 { -1 } else { 0 };
    for &x in b { v = (v << 8) | x as i64; }
    v
}

#[kani::proof]
#[kani::unwind(6)]
fn decimals_compare() {
    let a: [u8; 4] = kani::any(); let b: [u8; 4] = kani::any();
    let la: usize = kani::any(); let lb: usize = kani::any();
    kani::assume(la >= 1 && la <= 4 && lb >= 1 && lb <= 4);
    let r = compare_greater_byte_array_decimals(&a[..la], &b[..lb]);
    assert!(r == (sext(&a[..la]) > sext(&b[..lb])));
}

#[kani::proof]
#[kani::unwind(8)]
fn increment_contract() {
    let d: [u8; 5] = kani::any();
    let n: usize = kani::any(); kani::assume(n <= 5);
    let orig = d[..n].to_vec();
    match increment(orig.clone()) {
        Some(r) => {
            assert!(r.len() == n);
            assert!(r.as_slice() > &d[..n]);
        }
        None => { let i: usize = kani::any(); kani::assume(i < n); assert!(d[i] == 0xFF); }
    }
}

#[kani::proof]
#[kani::unwind(8)]
fn increment_utf8_contract() {
    let d: [u8; 4] = kani::any();
    let n: usize = kani::any(); kani::assume(n >= 1 && n <= 4);
    if let Ok(s) = std::str::from_utf8(&d[..n]) {
        if let Some(r) = increment_utf8(s) {
            assert!(std::str::from_utf8(&r).is_ok());
            assert!(r.as_slice() > s.as_bytes());
            assert!(r.len() <= n);
        }
    }
}

#[kani::proof]
fn f16_compare() {
    let a: [u8; 2] = kani::any(); let b: [u8; 2] = kani::any();
    let key = |x: [u8; 2]| { let bits = u16::from_le_bytes(x); if bits >> 15 == 1 { -((bits & 0x7fff) as i32) - 1 } else { (bits & 0x7fff) as i32 } };
    assert!(compare_greater_f16(&a, &b) == (key(a) > key(b)));
}
