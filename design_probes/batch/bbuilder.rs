use super::*;
#[kani::proof]
#[kani::unwind(12)]
fn builder_append_model() {
    let mut b = BooleanBufferBuilder::new(0);
    let v: [bool; 3] = kani::any();
    b.append(v[0]); b.append_n(7, v[1]); b.append(v[2]);
    let out = b.finish();
    assert!(out.len() == 9);
    assert!(out.value(0) == v[0]);
    let i: usize = kani::any(); kani::assume(i >= 1 && i < 8);
    assert!(out.value(i) == v[1]);
    assert!(out.value(8) == v[2]);
}
