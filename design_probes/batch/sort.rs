use super::*;
use arrow_array::ArrowNativeTypeOp;
#[kani::proof]
#[kani::unwind(8)]
fn sort_impl_i32_3_nolimit() {
    let vals: [i32; 3] = kani::any();
    let mut valids = [(0u32, vals[0]), (1u32, vals[1]), (2u32, vals[2])];
    let nulls_arr = [100u32, 101u32];
    let nn: usize = kani::any(); kani::assume(nn <= 2);
    let options = SortOptions { descending: kani::any(), nulls_first: kani::any() };
    let out = sort_impl(options, &mut valids[..], &nulls_arr[..nn], None, i32::compare);
    assert!(out.len() == 3 + nn);
    let j: usize = kani::any(); kani::assume(j + 1 < out.len());
    let (a, b) = (out[j], out[j + 1]);
    if a < 100 && b < 100 {
        let c = vals[a as usize].compare(vals[b as usize]);
        if options.descending { assert!(c != std::cmp::Ordering::Less); } else { assert!(c != std::cmp::Ordering::Greater); }
    }
    if options.nulls_first { assert!(!(a < 100 && b >= 100)); } else { assert!(!(a >= 100 && b < 100)); }
    // permutation: every valid index appears
    let k: u32 = kani::any(); kani::assume(k < 3);
    assert!(out.iter().any(|&x| x == k));
}
