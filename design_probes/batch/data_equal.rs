use super::*;
use arrow_buffer::{Buffer, NullBuffer, BooleanBuffer};
fn stub_format(_args: std::fmt::Arguments<'_>) -> String { String::new() }
#[kani::proof]
#[kani::unwind(8)]
#[kani::stub(alloc::fmt::format, stub_format)]
fn equal_int32_logical() {
    let a: [i32; 4] = kani::any(); let b: [i32; 4] = kani::any();
    let av: u8 = kani::any(); let bv: u8 = kani::any();
    let (ao, bo): (usize, usize) = (kani::any(), kani::any());
    let len: usize = kani::any();
    kani::assume(len <= 2 && ao <= 2 && bo <= 2);
    let mk = |v: &[i32; 4], valid: u8, off: usize| unsafe {
        ArrayData::builder(DataType::Int32).len(len).offset(off)
            .add_buffer(Buffer::from_slice_ref(v))
            .nulls(Some(NullBuffer::new(BooleanBuffer::new(Buffer::from_slice_ref(&[valid]), 0, 8)).slice(0, off + len)))
            .build_unchecked()
    };
    let (l, r) = (mk(&a, av, ao), mk(&b, bv, bo));
    let got = equal(&l, &r);
    let mut want = true;
    for i in 0..2 { if i < len {
        let lv = (av >> (ao + i)) & 1 == 1; let rv = (bv >> (bo + i)) & 1 == 1;
        if lv != rv || (lv && a[ao + i] != b[bo + i]) { want = false; }
    } }
    assert!(got == want);
    std::mem::forget(l); std::mem::forget(r);
}
