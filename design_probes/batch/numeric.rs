use super::*;
use arrow_buffer::IntervalMonthDayNano;
fn stub_format(_args: std::fmt::Arguments<'_>) -> String { String::new() }
#[kani::proof]
#[kani::stub(alloc::fmt::format, stub_format)]
fn interval_mdn_add() {
    let a = IntervalMonthDayNano::new(kani::any(), kani::any(), kani::any());
    let b = IntervalMonthDayNano::new(kani::any(), kani::any(), kani::any());
    let r = <IntervalMonthDayNanoType as IntervalOp>::add(a, b);
    let (m, d, n) = (a.months as i64 + b.months as i64, a.days as i64 + b.days as i64, a.nanoseconds as i128 + b.nanoseconds as i128);
    let fits = m >= i32::MIN as i64 && m <= i32::MAX as i64 && d >= i32::MIN as i64 && d <= i32::MAX as i64 && n >= i64::MIN as i128 && n <= i64::MAX as i128;
    match &r { Ok(v) => { assert!(fits && v.months as i64 == m && v.days as i64 == d && v.nanoseconds as i128 == n); } Err(_) => assert!(!fits) }
    std::mem::forget(r);
}
#[kani::proof]
#[kani::stub(alloc::fmt::format, stub_format)]
fn mul_i32_i64_contract() {
    let a: i32 = kani::any(); let b: i64 = kani::any();
    let exact = a as i128 * b as i128;
    let r = mul_i32_i64(a, b);
    match &r { Ok(v) => assert!(*v as i128 == exact), Err(_) => assert!(exact < i32::MIN as i128 || exact > i32::MAX as i128) }
    std::mem::forget(r);
}
