use super::*;
fn stub_format(_args: std::fmt::Arguments<'_>) -> String { String::new() }
#[kani::proof]
#[kani::unwind(22)]
#[kani::stub(alloc::fmt::format, stub_format)]
fn binary_view_accept_implies_wf() {
    let v: u128 = kani::any();
    let data: [u8; 16] = kani::any();
    let bufs = [Buffer::from_slice_ref(&data)];
    let r = validate_binary_view(&[v], &bufs);
    if r.is_ok() {
        let len = v as u32;
        if len <= 12 {
            if len < 12 { assert!(v >> (32 + len * 8) == 0); }
        } else {
            let bv = ByteView::from(v);
            assert!(bv.buffer_index == 0);
            assert!(bv.offset as usize + len as usize <= 16);
            let o = bv.offset as usize;
            assert!(data[o] == (bv.prefix & 0xff) as u8);
        }
    }
    std::mem::forget(r);
}
