use super::*;
use arrow_array::types::Decimal32Type;
fn stub_format(_args: std::fmt::Arguments<'_>) -> String { String::new() }
const P10: [i64; 10] = [1, 10, 100, 1000, 10000, 100000, 1000000, 10000000, 100000000, 1000000000];
#[kani::proof]
#[kani::unwind(12)]
#[kani::stub(alloc::fmt::format, stub_format)]
fn rescale32() {
    let x: i32 = kani::any();
    let ip: u8 = kani::any(); let is: i8 = kani::any(); let op: u8 = kani::any(); let os: i8 = kani::any();
    kani::assume(ip >= 1 && ip <= 9 && op >= 1 && op <= 9 && is >= 0 && is <= ip as i8 && os >= 0 && os <= op as i8);
    kani::assume((x as i64).abs() < P10[ip as usize]);
    let r = rescale_decimal::<Decimal32Type, Decimal32Type>(x, ip, is, op, os);
    let exact: i64 = if os >= is { (x as i64) * P10[(os - is) as usize] } else {
        let d = P10[(is - os) as usize]; let q = (x as i64) / d; let rem = (x as i64) % d;
        if rem.abs() * 2 >= d { if x >= 0 { q + 1 } else { q - 1 } } else { q }
    };
    match r { Some(v) => assert!(v as i64 == exact && exact.abs() < P10[op as usize]), None => assert!(exact.abs() >= P10[op as usize]) }
}
