use super::*;
#[kani::proof]
#[kani::unwind(6)]
fn split_streams_layout() {
    let src: [u8; 12] = kani::any();      // 3 values of 4 bytes
    let mut dst = [0u8; 12];
    split_streams_const::<4>(&src, &mut dst);
    let (i, j): (usize, usize) = (kani::any(), kani::any());
    kani::assume(i < 3 && j < 4);
    assert!(dst[i + j * 3] == src[i * 4 + j]);
    let mut dst2 = [0u8; 12];
    split_streams_variable(&src, &mut dst2, 4);
    assert!(dst2 == dst);
}
