use super::*;

const K: usize = 3;
fn total(v: &[RowSelector]) -> usize { let mut t = 0usize; for s in v { t += s.row_count; } t }
fn selected_at(v: &[RowSelector], p: usize) -> Option<bool> {
    let mut start = 0usize;
    for s in v { if p < start + s.row_count { return Some(!s.skip); } start += s.row_count; }
    None
}
fn any_selectors() -> Vec<RowSelector> {
    let n: usize = kani::any(); kani::assume(n <= K);
    let mut v = Vec::with_capacity(K);
    for _ in 0..n { let c: usize = kani::any(); kani::assume(c <= (usize::MAX >> 4)); v.push(RowSelector { row_count: c, skip: kani::any() }); }
    v
}

#[kani::proof]
#[kani::unwind(6)]
fn split_off_views() {
    let v = any_selectors();
    let n: usize = kani::any();
    let orig = v.clone();
    let (head, tail) = split_off_selectors(v, n);
    let th = total(&head);
    assert!(th == n.min(total(&orig)));
    assert!(th + total(&tail) == total(&orig));
    let p: usize = kani::any(); kani::assume(p < total(&orig));
    if p < th { assert!(selected_at(&head, p) == selected_at(&orig, p)); }
    else { assert!(selected_at(&tail, p - th) == selected_at(&orig, p)); }
}

#[kani::proof]
#[kani::unwind(6)]
fn limit_views() {
    let v = any_selectors();
    let k: usize = kani::any();
    let orig = v.clone();
    let out = limit_selectors(v, k);
    // number of selected rows in out == min(k, selected in orig); out is a prefix view
    let mut sel_out = 0usize; for s in &out { if !s.skip { sel_out += s.row_count; } }
    let mut sel_in = 0usize; for s in &orig { if !s.skip { sel_in += s.row_count; } }
    assert!(sel_out == k.min(sel_in));
    let p: usize = kani::any(); kani::assume(p < total(&out));
    assert!(selected_at(&out, p) == selected_at(&orig, p));
}
