use super::*;
use arrow_schema::SortOptions;
use std::cmp::Ordering;

const MAXV: usize = 18;          // quick-tier sized probe
const OUT: usize = 1 + 3 * 9 + 2; // padded length for <= 18 bytes is 1 + ceil(18/8)*9 = 28

#[kani::proof]
#[kani::unwind(40)]
fn var_order_and_roundtrip() {
    let a: [u8; MAXV] = kani::any();
    let b: [u8; MAXV] = kani::any();
    let la: usize = kani::any();
    let lb: usize = kani::any();
    kani::assume(la <= MAXV && lb <= MAXV);
    let desc: bool = kani::any();
    let opts = SortOptions { descending: desc, nulls_first: kani::any() };
    let mut oa = [0u8; OUT];
    let mut ob = [0u8; OUT];
    let na = encode_one(&mut oa, Some(&a[..la]), opts);
    let nb = encode_one(&mut ob, Some(&b[..lb]), opts);
    assert!(na == padded_length(Some(la)));
    assert!(nb == padded_length(Some(lb)));
    let want = a[..la].cmp(&b[..lb]);
    let want = if desc { want.reverse() } else { want };
    assert!(oa[..na].cmp(&ob[..nb]) == want);
    // decode length
    assert!(decoded_len(&oa[..na], opts) == la);
}
