use super::*;
#[kani::proof]
#[kani::unwind(12)]
fn rle_roundtrip_small() {
    let vals: [u8; 4] = kani::any();
    for k in 0..4 { kani::assume(vals[k] < 4); }
    let mut enc = RleEncoder::new(2, 64);
    for k in 0..4 { enc.put(vals[k] as u64); }
    let bytes = enc.consume();
    let mut dec = RleDecoder::new(2);
    dec.set_data(bytes.into()).unwrap();
    let mut out = [0u8; 4];
    let n = dec.get_batch::<u8>(&mut out).unwrap();
    assert!(n == 4);
    let i: usize = kani::any(); kani::assume(i < 4);
    assert!(out[i] == vals[i]);
    std::mem::forget(dec);
}
