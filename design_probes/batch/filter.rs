use super::*;
use arrow_array::BooleanArray;
use arrow_buffer::{BooleanBuffer, Buffer};
fn stub_format(_args: std::fmt::Arguments<'_>) -> String { String::new() }
#[kani::proof]
#[kani::unwind(6)]
#[kani::stub(alloc::fmt::format, stub_format)]
fn filter_native_3_lazy_index() {
    let vals: [i32; 3] = kani::any();
    let pred: u8 = kani::any();
    kani::assume((pred & 7).count_ones() == 1);         // sparse: index iterator strategy, count fixed
    let p = BooleanArray::new(BooleanBuffer::new(Buffer::from_slice_ref(&[pred]), 0, 3), None);
    let fp = FilterBuilder::new(&p).build();
    let out = filter_native::<i32>(&vals, &fp);
    { let o: &[i32] = out.typed_data(); assert!(o.len() == 1);
      let idx = (pred & 7).trailing_zeros() as usize; assert!(o[0] == vals[idx]); }
    std::mem::forget(fp); std::mem::forget(p);
}
