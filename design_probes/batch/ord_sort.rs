use super::*;
use arrow_array::ArrowNativeTypeOp;

const NV: usize = 4;
#[kani::proof]
#[kani::unwind(8)]
fn sort_impl_i32() {
    let vals: [i32; NV] = kani::any();
    let nv: usize = kani::any(); kani::assume(nv <= NV);
    let mut valids: Vec<(u32, i32)> = Vec::with_capacity(NV);
    for k in 0..NV { if k < nv { valids.push((k as u32, vals[k])); } }
    let nn: usize = kani::any(); kani::assume(nn <= 2);
    let nulls_arr = [100u32, 101u32];
    let options = SortOptions { descending: kani::any(), nulls_first: kani::any() };
    let limit: Option<usize> = if kani::any() { let l: usize = kani::any(); kani::assume(l <= NV + 3); Some(l) } else { None };
    let out = sort_impl(options, &mut valids[..], &nulls_arr[..nn], limit, i32::compare);
    let total = nv + nn;
    let want_len = limit.unwrap_or(total).min(total);
    assert!(out.len() == want_len);
    // adjacent valid outputs are ordered
    let j: usize = kani::any(); kani::assume(j + 1 < out.len());
    let (a, b) = (out[j], out[j + 1]);
    if a < 100 && b < 100 {
        let c = vals[a as usize].compare(vals[b as usize]);
        if options.descending { assert!(c != std::cmp::Ordering::Less); } else { assert!(c != std::cmp::Ordering::Greater); }
    }
    if options.nulls_first { assert!(!(a < 100 && b >= 100)); } else { assert!(!(a >= 100 && b < 100)); }
}
