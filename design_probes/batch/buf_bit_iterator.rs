use super::*;
fn bit_index_iter_grid<const OFF: usize, const LEN: usize>() {
    let d: [u8; 4] = kani::any();
    let mut it = BitIndexIterator::new(&d, OFF, LEN);
    let mut expect = 0usize;
    for _ in 0..(LEN + 1) {
        while expect < LEN && (d[(OFF + expect) / 8] >> ((OFF + expect) % 8)) & 1 == 0 { expect += 1; }
        match it.next() {
            Some(i) => { assert!(expect < LEN && i == expect); expect += 1; }
            None => { assert!(expect >= LEN); break; }
        }
    }
}
#[kani::proof] #[kani::unwind(22)] fn bit_index_iter_5_20() { bit_index_iter_grid::<5, 20>() }
