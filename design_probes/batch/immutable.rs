use super::*;
use std::sync::Arc;
use std::sync::atomic::{AtomicUsize, Ordering};
static DROPS: AtomicUsize = AtomicUsize::new(0);
struct Owner { data: [u8; 4] }
impl Drop for Owner { fn drop(&mut self) { DROPS.fetch_add(1, Ordering::SeqCst); } }

#[kani::proof]
#[kani::unwind(6)]
fn custom_owner_released_once() {
    let owner = Arc::new(Owner { data: kani::any() });
    let snapshot = owner.data;
    let ptr = std::ptr::NonNull::new(owner.data.as_ptr() as *mut u8).unwrap();
    let b = unsafe { Buffer::from_custom_allocation(ptr, 4, owner) };
    let c = if kani::any() { Some(b.clone()) } else { None };
    let s = if kani::any() { Some(b.slice(1)) } else { None };
    assert!(DROPS.load(Ordering::SeqCst) == 0);
    if kani::any() { drop(b); if let Some(c) = &c { assert!(c.as_slice() == &snapshot[..]); } drop(c); drop(s); }
    else { drop(s); drop(c); assert!(DROPS.load(Ordering::SeqCst) == 0); assert!(b.as_slice() == &snapshot[..]); drop(b); }
    assert!(DROPS.load(Ordering::SeqCst) == 1);
}
