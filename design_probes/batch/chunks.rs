use super::*;
const NB: usize = 24;
fn bit(d: &[u8], i: usize) -> bool { (d[i / 8] >> (i % 8)) & 1 == 1 }

#[kani::proof]
fn prefix_suffix_masks() {
    let lead: usize = kani::any(); kani::assume(lead < 64);
    let m = compute_prefix_mask(lead);
    let k: usize = kani::any(); kani::assume(k < 64);
    assert!(((m >> k) & 1 == 1) == (k >= lead));
    let len: usize = kani::any(); kani::assume(len <= 1 << 40);
    let (sm, tp) = compute_suffix_mask(len, lead);
    let tb = (len + lead) % 64;
    if tb == 0 { assert!(sm == u64::MAX && tp == 0); } else { assert!(tp == 64 - tb); assert!(((sm >> k) & 1 == 1) == (k < tb)); }
}

#[kani::proof]
#[kani::unwind(5)]
fn bitchunks_raw() {
    let d: [u8; NB] = kani::any();
    let off: usize = kani::any(); let len: usize = kani::any();
    kani::assume(off <= 70 && len <= 100 && (off + len + 7) / 8 <= NB);
    let c = BitChunks::new(&d, off, len);
    assert!(c.chunk_len() == len / 64 && c.remainder_len() == len % 64);
    let i: usize = kani::any(); kani::assume(i < len);
    let got = if i / 64 < c.chunk_len() {
        let mut it = c.iter(); let mut w = 0u64;
        for k in 0..2 { if let Some(x) = it.next() { if k == i / 64 { w = x; } } }
        (w >> (i % 64)) & 1 == 1
    } else { (c.remainder_bits() >> (i % 64)) & 1 == 1 };
    assert!(got == bit(&d, off + i));
    // padding of the remainder is zero
    let j: usize = kani::any(); kani::assume(j < 64 && j >= len % 64);
    assert!((c.remainder_bits() >> j) & 1 == 0);
}

#[kani::proof]
#[kani::unwind(6)]
fn unaligned_chunk_raw() {
    let d: [u8; NB] = kani::any();
    let off: usize = kani::any(); let len: usize = kani::any();
    kani::assume(off <= 70 && len <= 100 && (off + len + 7) / 8 <= NB);
    let u = UnalignedBitChunk::new(&d, off, len);
    let mut ones = 0usize;
    // count via model over a symbolic single index is not possible; check count_ones against iter sum
    let mut s = 0usize; for w in u.iter() { s += w.count_ones() as usize; }
    assert!(u.count_ones() == s);
    let _ = ones;
    // total bits covered
    let words = u.iter().count();
    assert!(words * 64 == u.lead_padding() + len + u.trailing_padding() || (len == 0 && words == 0));
}
