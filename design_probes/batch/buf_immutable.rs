use super::*;

#[kani::proof]
#[kani::unwind(10)]
fn into_mutable_unique_only() {
    let data: [u8; 4] = kani::any();
    let b = Buffer::from_vec(data.to_vec());
    let share: bool = kani::any();
    let slice_off: usize = kani::any();
    kani::assume(slice_off <= 2);
    let keep = if share { Some(b.clone()) } else { None };
    let b2 = if slice_off > 0 { b.slice(slice_off) } else { b };
    match b2.into_mutable() {
        Ok(mut m) => {
            assert!(!share && slice_off == 0);
            m.as_slice_mut()[0] = !data[0];
        }
        Err(orig) => {
            assert!(share || slice_off > 0);
            assert!(orig.as_slice() == &data[slice_off..]);
        }
    }
    if let Some(k) = keep { assert!(k.as_slice() == &data[..]); }
}
