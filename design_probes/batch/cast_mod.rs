use super::*;
macro_rules! nc { ($name:ident, $i:ty, $o:ty) => {
    #[kani::proof]
    fn $name() {
        let x: $i = kani::any();
        let r: Option<$o> = num_cast::<$i, $o>(x);
        let lo = <$o>::MIN as i128; let hi = <$o>::MAX as i128;
        let xi = x as i128;
        match r { Some(v) => assert!(v as i128 == xi), None => assert!(xi < lo || xi > hi) }
    } } }
nc!(nc_i64_i8, i64, i8);
nc!(nc_u64_i64, u64, i64);
nc!(nc_i32_u16, i32, u16);
#[kani::proof]
fn nc_f64_i32() {
    let x: f64 = kani::any();
    let r: Option<i32> = num_cast::<f64, i32>(x);
    match r {
        Some(v) => { assert!(x.is_finite()); assert!((v as f64) == x.trunc()); }
        None => assert!(!(x > -2147483649.0 && x < 2147483648.0)),
    }
}
