use super::*;
use arrow_array::{Int32Array, Array};
use arrow_array::types::Int32Type;
use arrow_buffer::{ScalarBuffer, NullBuffer, BooleanBuffer, Buffer};
fn stub_format(_args: std::fmt::Arguments<'_>) -> String { String::new() }
#[kani::proof]
#[kani::unwind(6)]
#[kani::stub(alloc::fmt::format, stub_format)]
fn try_unary_skips_nulls() {
    let vals: [i32; 3] = kani::any();
    let valid: u8 = kani::any();
    let arr = Int32Array::new(ScalarBuffer::from(vals.to_vec()), Some(NullBuffer::new(BooleanBuffer::new(Buffer::from_slice_ref(&[valid]), 0, 3))));
    let bad: i32 = kani::any();
    let r = try_unary::<Int32Type, _, Int32Type>(&arr, |x| if x == bad { Err(ArrowError::DivideByZero) } else { Ok(x.wrapping_add(1)) });
    let mut hit = false;
    for k in 0..3 { if (valid >> k) & 1 == 1 && vals[k] == bad { hit = true; } }
    match &r {
        Ok(o) => { assert!(!hit); let k: usize = kani::any(); kani::assume(k < 3);
                   assert!(o.is_valid(k) == ((valid >> k) & 1 == 1)); if o.is_valid(k) { assert!(o.value(k) == vals[k].wrapping_add(1)); } }
        Err(_) => assert!(hit),
    }
    std::mem::forget(r); std::mem::forget(arr);
}
