use super::*;
#[kani::proof]
#[kani::unwind(12)]
fn put_get_value_2() {
    let nb: [usize; 2] = kani::any(); let vs: [u64; 2] = kani::any();
    let mut w = BitWriter::new(32);
    for k in 0..2 { kani::assume(nb[k] >= 1 && nb[k] <= 64); kani::assume(nb[k] == 64 || vs[k] >> nb[k] == 0); w.put_value(vs[k], nb[k]); }
    let bytes = w.consume();
    let mut r = BitReader::from(bytes);
    for k in 0..2 { let g: Option<u64> = r.get_value(nb[k]); assert!(g == Some(vs[k])); }
    std::mem::forget(r);
}
#[kani::proof]
#[kani::unwind(14)]
fn get_vlq_total() {
    let b: [u8; 12] = kani::any(); let n: usize = kani::any(); kani::assume(n <= 12);
    let mut r = BitReader::from(b[..n].to_vec());
    let _ = r.get_vlq_int();
    std::mem::forget(r);
}
