use super::*;
use crate::ScalarBuffer;

#[kani::proof]
#[kani::unwind(8)]
fn offset_buffer_new_sound() {
    let v: [i32; 4] = kani::any();
    let n: usize = kani::any();
    kani::assume(n <= 4);
    let sb = ScalarBuffer::<i32>::from(v[..n].to_vec());
    let ob = OffsetBuffer::new(sb);      // may panic: expected rejections
    // reached only if accepted
    assert!(n >= 1);
    assert!(v[0] >= 0);
    let i: usize = kani::any();
    kani::assume(i + 1 < n);
    assert!(v[i] <= v[i + 1]);
    assert!(ob.len() == n);
}
