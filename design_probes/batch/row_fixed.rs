use super::*;
use arrow_array::ArrowNativeTypeOp;
use std::cmp::Ordering;

fn lex<const N: usize>(a: &[u8; N], b: &[u8; N]) -> Ordering { a.as_slice().cmp(b.as_slice()) }

macro_rules! enc_order {
    ($name:ident, $t:ty) => {
        #[kani::proof]
        fn $name() {
            let a: $t = kani::any();
            let b: $t = kani::any();
            let (ea, eb) = (a.encode(), b.encode());
            assert!(lex(&ea, &eb) == a.compare(b));
            assert!(<$t as FixedLengthEncoding>::decode(ea).is_eq(a));
        }
    };
}
enc_order!(enc_i32, i32);
enc_order!(enc_i64, i64);
enc_order!(enc_u16, u16);
enc_order!(enc_f64, f64);
enc_order!(enc_i128, i128);

#[kani::proof]
fn enc_i256() {
    let a = i256::from_parts(kani::any(), kani::any());
    let b = i256::from_parts(kani::any(), kani::any());
    let (ea, eb) = (a.encode(), b.encode());
    assert!(lex(&ea, &eb) == a.compare(b));
    assert!(<i256 as FixedLengthEncoding>::decode(ea) == a);
}
