use super::*;
const NB: usize = 12;
#[kani::proof]
#[kani::unwind(12)]
fn equal_bits_raw() {
    let a: [u8; NB] = kani::any(); let b: [u8; NB] = kani::any();
    let (ls, rs, len): (usize, usize, usize) = (kani::any(), kani::any(), kani::any());
    kani::assume(ls <= 20 && rs <= 20 && len <= 70 && (ls + len + 7) / 8 <= NB && (rs + len + 7) / 8 <= NB);
    let got = equal_bits(&a, &b, ls, rs, len);
    let bit = |d: &[u8; NB], k: usize| (d[k / 8] >> (k % 8)) & 1 == 1;
    let i: usize = kani::any(); kani::assume(i < len);
    if got { assert!(bit(&a, ls + i) == bit(&b, rs + i)); }
}
