use super::*;
#[kani::proof]
#[kani::unwind(6)]
fn starts_ends_kernels() {
    let hb: [u8; 4] = kani::any(); let nb: [u8; 3] = kani::any();
    let (hn, nn): (usize, usize) = (kani::any(), kani::any());
    kani::assume(hn <= 4 && nn <= 3);
    for k in 0..4 { kani::assume(hb[k] < 0x80); } for k in 0..3 { kani::assume(nb[k] < 0x80); }
    let h = unsafe { std::str::from_utf8_unchecked(&hb[..hn]) };
    let n = unsafe { std::str::from_utf8_unchecked(&nb[..nn]) };
    let want_s = hn >= nn && &hb[..nn] == &nb[..nn];
    let want_e = hn >= nn && &hb[hn - nn..hn] == &nb[..nn];
    assert!(starts_with(h, n, equals_kernel) == want_s);
    assert!(ends_with(h, n, equals_kernel) == want_e);
}
