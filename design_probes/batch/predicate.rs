use super::*;
fn naive_memchr3(a: u8, b: u8, c: u8, h: &[u8]) -> Option<usize> { let mut i = 0; while i < h.len() { if h[i] == a || h[i] == b || h[i] == c { return Some(i); } i += 1; } None }
fn like_naive(p: &[u8], s: &[u8]) -> bool {
    if p.is_empty() { return s.is_empty(); }
    match p[0] {
        b'%' => { let mut k = 0; loop { if like_naive(&p[1..], &s[k..]) { return true; } if k == s.len() { return false; } k += 1; } }
        b'_' => !s.is_empty() && like_naive(&p[1..], &s[1..]),
        b'\\' if p.len() >= 2 => !s.is_empty() && s[0] == p[1] && like_naive(&p[2..], &s[1..]),
        c => !s.is_empty() && s[0] == c && like_naive(&p[1..], &s[1..]),
    }
}
#[kani::proof]
#[kani::unwind(6)]
#[kani::stub(memchr::memchr3, naive_memchr3)]
fn like_nonregex_ascii() {
    let pb: [u8; 3] = kani::any(); let pn: usize = kani::any(); kani::assume(pn <= 3);
    let sb: [u8; 3] = kani::any(); let sn: usize = kani::any(); kani::assume(sn <= 3);
    for k in 0..3 { kani::assume(pb[k] < 0x80 && sb[k] < 0x80); }
    let pat = unsafe { std::str::from_utf8_unchecked(&pb[..pn]) };
    let s = unsafe { std::str::from_utf8_unchecked(&sb[..sn]) };
    // classification only through strategies that need neither regex nor memmem
    if !contains_like_pattern(pat) {
        assert!((pat == s) == like_naive(&pb[..pn], &sb[..sn]));
    } else if pat.ends_with('%') && !contains_like_pattern(&pat[..pat.len() - 1]) {
        assert!(starts_with(s, &pat[..pat.len() - 1], equals_kernel) == like_naive(&pb[..pn], &sb[..sn]));
    } else if pat.starts_with('%') && !contains_like_pattern(&pat[1..]) {
        assert!(ends_with(s, &pat[1..], equals_kernel) == like_naive(&pb[..pn], &sb[..sn]));
    }
}
