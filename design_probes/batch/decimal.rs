use super::*;
use arrow_array::types::Decimal32Type;
fn stub_format(_args: std::fmt::Arguments<'_>) -> String { String::new() }
const P10: [i64; 10] = [1, 10, 100, 1000, 10000, 100000, 1000000, 10000000, 100000000, 1000000000];
fn rescale_delta<const IS: i8, const OS: i8>() {
    let x: i32 = kani::any();
    let ip: u8 = kani::any(); let op: u8 = kani::any();
    kani::assume(ip >= 1 && ip <= 9 && op >= 1 && op <= 9 && IS <= ip as i8 && OS <= op as i8);
    kani::assume((x as i64).abs() < P10[ip as usize]);
    let r = rescale_decimal::<Decimal32Type, Decimal32Type>(x, ip, IS, op, OS);
    let exact: i64 = if OS >= IS { (x as i64) * P10[(OS - IS) as usize] } else {
        let d = P10[(IS - OS) as usize]; let q = (x as i64) / d; let rem = (x as i64) % d;
        if rem.abs() * 2 >= d { if x >= 0 { q + 1 } else { q - 1 } } else { q } };
    match r { Some(v) => assert!(v as i64 == exact && exact.abs() < P10[op as usize]), None => assert!(exact.abs() >= P10[op as usize]) }
}
#[kani::proof] #[kani::unwind(12)] #[kani::stub(alloc::fmt::format, stub_format)] fn rescale_up_2() { rescale_delta::<1, 3>() }
#[kani::proof] #[kani::unwind(12)] #[kani::stub(alloc::fmt::format, stub_format)] fn rescale_down_2() { rescale_delta::<3, 1>() }
