use super::*;
use crate::Buffer;

fn bool_and_grid<const AO: usize, const BO: usize, const LEN: usize>() {
    let a: [u8; 12] = kani::any(); let b: [u8; 12] = kani::any();
    let x = BooleanBuffer::new(Buffer::from_slice_ref(&a), AO, LEN);
    let y = BooleanBuffer::new(Buffer::from_slice_ref(&b), BO, LEN);
    let z = &x & &y;
    assert!(z.len() == LEN);
    let i: usize = kani::any(); kani::assume(i < LEN);
    let bit = |d: &[u8; 12], k: usize| (d[k / 8] >> (k % 8)) & 1 == 1;
    assert!(z.value(i) == (bit(&a, AO + i) && bit(&b, BO + i)));
    assert!(z.count_set_bits() <= LEN);
}
#[kani::proof] #[kani::unwind(12)] fn bool_and_3_5_12() { bool_and_grid::<3, 5, 12>() }
#[kani::proof] #[kani::unwind(12)] fn bool_and_3_3_70() { bool_and_grid::<3, 3, 70>() }
#[kani::proof] #[kani::unwind(12)] fn bool_and_0_9_65() { bool_and_grid::<0, 9, 65>() }
