use super::*;
use arrow_buffer::Buffer;
fn stub_format(_args: std::fmt::Arguments<'_>) -> String { String::new() }
#[kani::proof]
#[kani::unwind(8)]
#[kani::stub(alloc::fmt::format, stub_format)]
fn binary_try_new_sound() {
    let offs: [i32; 4] = kani::any();
    let vals: [u8; 6] = kani::any();
    let vlen: usize = kani::any(); kani::assume(vlen <= 6);
    let len: usize = kani::any(); let off: usize = kani::any();
    kani::assume(len <= 3 && off <= 3);
    let nbytes: usize = kani::any(); kani::assume(nbytes <= 16 && nbytes % 4 == 0);
    let ob = Buffer::from_slice_ref(&offs).slice_with_length(0, nbytes);
    let vb = Buffer::from_slice_ref(&vals).slice_with_length(0, vlen);
    let r = ArrayData::try_new(DataType::Binary, len, None, off, vec![ob, vb], vec![]);
    if let Ok(d) = &r {
        // spec: enough offsets, monotone, in range
        if len > 0 {
            assert!((off + len + 1) * 4 <= nbytes);
            let i: usize = kani::any(); kani::assume(i < len);
            assert!(offs[off + i] >= 0 && offs[off + i] <= offs[off + i + 1] && (offs[off + i + 1] as usize) <= vlen);
        }
        assert!(d.len() == len);
    }
    std::mem::forget(r);
}
