use super::*;
fn stub_format(_args: std::fmt::Arguments<'_>) -> String { String::new() }
#[kani::proof]
#[kani::unwind(5)]
#[kani::stub(alloc::fmt::format, stub_format)]
fn has_range_after_push() {
    let mut pb = PushBuffers::new(8);
    let (s1, e1, s2, e2): (u64, u64, u64, u64) = (kani::any(), kani::any(), kani::any(), kani::any());
    kani::assume(s1 <= e1 && e1 <= 8 && s2 <= e2 && e2 <= 8);
    let file: [u8; 8] = kani::any();
    let b1 = Bytes::copy_from_slice(&file[s1 as usize..e1 as usize]);
    let b2 = Bytes::copy_from_slice(&file[s2 as usize..e2 as usize]);
    let swap: bool = kani::any();
    if swap { pb.push_range(s2..e2, b2).unwrap(); pb.push_range(s1..e1, b1).unwrap(); }
    else { pb.push_range(s1..e1, b1).unwrap(); pb.push_range(s2..e2, b2).unwrap(); }
    let (qs, qe): (u64, u64) = (kani::any(), kani::any());
    kani::assume(qs <= qe && qe <= 8);
    let inside = (s1 <= qs && qe <= e1) || (s2 <= qs && qe <= e2);
    assert!(pb.has_range(&(qs..qe)) == inside);
    std::mem::forget(pb);
}
