use super::*;
#[kani::proof]
#[kani::unwind(10)]
fn block_insert_check() {
    let mut blk = Block(kani::any());
    let h: u32 = kani::any(); let g: u32 = kani::any();
    let before_g = blk.check(g);
    blk.insert(h);
    assert!(blk.check(h));
    if before_g { assert!(blk.check(g)); }
}
#[kani::proof]
#[kani::unwind(10)]
fn sbbf_insert_step() {
    let nb: usize = kani::any(); kani::assume(nb >= 1 && nb <= 3);
    let mut blocks = Vec::with_capacity(3);
    for _ in 0..nb { blocks.push(Block(kani::any())); }
    let mut f = Sbbf(blocks);
    let h: u64 = kani::any(); let g: u64 = kani::any();
    let before_g = f.check_hash(g);
    f.insert_hash(h);
    assert!(f.check_hash(h));
    if before_g { assert!(f.check_hash(g)); }
}
