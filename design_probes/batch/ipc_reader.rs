use super::*;
fn stub_format(_args: std::fmt::Arguments<'_>) -> String { String::new() }
#[kani::proof]
#[kani::stub(alloc::fmt::format, stub_format)]
fn footer_length_contract() {
    let b: [u8; 10] = kani::any();
    let r = read_footer_length(b);
    let magic_ok = &b[4..] == b"ARROW1";
    let n = i32::from_le_bytes([b[0], b[1], b[2], b[3]]);
    match &r { Ok(v) => { assert!(magic_ok && n >= 0 && *v == n as usize); } Err(_) => assert!(!magic_ok || n < 0) }
    std::mem::forget(r);
}
