use super::*;
#[kani::proof]
#[kani::unwind(14)]
fn read_vlq_total() {
    let b: [u8; 12] = kani::any();
    let n: usize = kani::any(); kani::assume(n <= 12);
    let mut p = ThriftSliceInputProtocol::new(&b[..n]);
    let r = p.read_vlq();
    assert!(p.as_slice().len() <= n);
    if r.is_ok() { assert!(p.as_slice().len() < n); }
}
#[kani::proof]
#[kani::unwind(14)]
fn read_bytes_in_bounds() {
    let b: [u8; 12] = kani::any();
    let n: usize = kani::any(); kani::assume(n <= 12);
    let mut p = ThriftSliceInputProtocol::new(&b[..n]);
    if let Ok(s) = p.read_bytes() {
        assert!(s.len() + p.as_slice().len() < n + 1);
    }
}
