use super::*;
#[kani::proof]
#[kani::unwind(12)]
fn collect_bool_packs() {
    let bits: u16 = kani::any();
    let neg: bool = kani::any();
    let b = collect_bool(10, neg, |i| (bits >> i) & 1 == 1);
    assert!(b.len() == 10);
    let i: usize = kani::any(); kani::assume(i < 10);
    assert!(b.value(i) == (((bits >> i) & 1 == 1) != neg));
}
