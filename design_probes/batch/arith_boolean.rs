use super::*;
use arrow_array::Array;
use arrow_buffer::{BooleanBuffer, Buffer, NullBuffer};

const NB: usize = 2; // bytes
#[kani::proof]
#[kani::unwind(6)]
fn and_kleene_table() {
    let lv: [u8; NB] = kani::any(); let ln: [u8; NB] = kani::any();
    let rv: [u8; NB] = kani::any(); let rn: [u8; NB] = kani::any();
    let off: usize = kani::any(); let len: usize = kani::any();
    kani::assume(off <= 5 && len <= 10 && off + len <= NB * 8);
    let l_has: bool = kani::any(); let r_has: bool = kani::any();
    let mk = |v: &[u8; NB], n: &[u8; NB], has: bool| {
        let vals = BooleanBuffer::new(Buffer::from_slice_ref(v), off, len);
        let nulls = if has { Some(NullBuffer::new(BooleanBuffer::new(Buffer::from_slice_ref(n), off, len))) } else { None };
        BooleanArray::new(vals, nulls)
    };
    let l = mk(&lv, &ln, l_has); let r = mk(&rv, &rn, r_has);
    let out = and_kleene(&l, &r).unwrap();
    let i: usize = kani::any(); kani::assume(i < len);
    let bit = |d: &[u8; NB], k: usize| (d[k / 8] >> (k % 8)) & 1 == 1;
    let lval = if !l_has || bit(&ln, off + i) { Some(bit(&lv, off + i)) } else { None };
    let rval = if !r_has || bit(&rn, off + i) { Some(bit(&rv, off + i)) } else { None };
    let want = match (lval, rval) {
        (Some(false), _) | (_, Some(false)) => Some(false),
        (Some(true), Some(true)) => Some(true),
        _ => None,
    };
    let got = if out.is_null(i) { None } else { Some(out.value(i)) };
    assert!(got == want);
    std::mem::forget(out); std::mem::forget(l); std::mem::forget(r);
}
