use super::*;
struct Sink { accepted: usize, fail_at: usize, calls: usize }
impl Write for Sink {
    fn write(&mut self, buf: &[u8]) -> std::io::Result<usize> {
        self.calls += 1;
        if self.calls == self.fail_at { return Err(std::io::Error::from(std::io::ErrorKind::Other)); }
        let k: usize = kani::any(); kani::assume(k >= 1 && k <= buf.len());
        self.accepted += k; Ok(k)
    }
    fn flush(&mut self) -> std::io::Result<()> { Ok(()) }
}
#[kani::proof]
#[kani::unwind(8)]
fn tracked_write_counts() {
    let fail_at: usize = kani::any();
    let mut tw = TrackedWrite::new(Sink { accepted: 0, fail_at, calls: 0 });
    let data: [u8; 4] = kani::any();
    let r1 = tw.write_all(&data);
    assert!(r1.is_ok() == (tw.bytes_written() == 4) || r1.is_err());
    let r2 = tw.flush();
    if r1.is_ok() && r2.is_ok() { assert!(tw.inner().accepted == tw.bytes_written()); }
    std::mem::forget(tw); std::mem::forget(r1); std::mem::forget(r2);
}
