// Kani contract harnesses for /repo/arrow-arith/src/boolean.rs (child module: sees private items via super::)
//
// Boolean kernels on BooleanArray: per row = the (three-valued) truth table of the operation.
// Shape (DESIGN C12): every operand is ONE 64-bit-aligned word - 64 rows, bit offset 0 - so the kernels'
// word closures (`|a, b| a | !b`, `(a | (c & !d)) & (c | (a & !b))`, ...) are exercised through the
// REAL kernel on all 2^64 contents per buffer (values and validity words fully symbolic, up to 2^256
// joint contents), and the row index is symbolic: the unit is complete in contents at this shape; a
// changed closure formula fails it.  Arbitrary offsets / lengths are the business of the C19 units on
// from_bitwise_binary_op / bitwise_quaternary_op_helper.
// MEASURED (under load ~40-75): the 64-row aligned units below mostly hit the 1500 s timeout or CBMC ran out of
// memory (not_n, not__), while the 12-row SLICED units at the end of this file (concrete, mutually different bit
// offsets for the four bitmaps, all contents symbolic) pass in 120-680 s each; the sliced units exercise the same
// kernels and word closures on all contents, so the aligned ones are kept only as tier=thorough, not confirmed.
// Presence of a validity buffer is a const parameter (one harness per combination).
// Forget rule: every BooleanArray / Result is mem::forget-ed.  Stubs: alloc::fmt::format.
use super::*;
use arrow_buffer::Buffer;
#[path = "/verif/kani/support/spec.rs"]
mod spec;
use spec::*;

const ROWS: usize = 64;

fn mk(values: u64, has_nulls: bool, valid: u64) -> BooleanArray {
    let v = BooleanBuffer::new(Buffer::from_slice_ref(&values.to_le_bytes()), 0, ROWS);
    let n = if has_nulls { Some(NullBuffer::new(BooleanBuffer::new(Buffer::from_slice_ref(&valid.to_le_bytes()), 0, ROWS))) } else { None };
    BooleanArray::new(v, n)
}
/// logical value of row i: None = null
fn row(values: u64, has_nulls: bool, valid: u64, i: usize) -> Option<bool> {
    if has_nulls && (valid >> i) & 1 == 0 { None } else { Some((values >> i) & 1 == 1) }
}
fn out_row(o: &BooleanArray, i: usize) -> Option<bool> { if o.is_null(i) { None } else { Some(o.value(i)) } }

#[derive(Clone, Copy)]
enum Op { AndKleene, OrKleene, And, Or, AndNot }

/// truth tables, written from the Kleene / SQL three-valued logic definitions
fn table(op: Op, l: Option<bool>, r: Option<bool>) -> Option<bool> {
    match op {
        Op::AndKleene => match (l, r) {
            (Some(false), _) | (_, Some(false)) => Some(false),
            (Some(true), Some(true)) => Some(true),
            _ => None,
        },
        Op::OrKleene => match (l, r) {
            (Some(true), _) | (_, Some(true)) => Some(true),
            (Some(false), Some(false)) => Some(false),
            _ => None,
        },
        Op::And => match (l, r) { (Some(a), Some(b)) => Some(a && b), _ => None },
        Op::Or => match (l, r) { (Some(a), Some(b)) => Some(a || b), _ => None },
        Op::AndNot => match (l, r) { (Some(a), Some(b)) => Some(a && !b), _ => None },
    }
}

// Contract (C12, C02): for two 64-row BooleanArrays (one aligned word each; all values bits, all
// validity bits and the bits under null slots symbolic) and every row i: the output row of
// and_kleene / or_kleene / and / or / and_not equals the three-valued truth table of the operation
// applied to the logical input rows (null = unknown for the Kleene forms; null-propagating for and / or
// / and_not), the output has 64 rows and the call succeeds.  The value bit of a null output row is
// not constrained (not observable).  Bits hidden under input nulls never influence the result.
fn binary_case<const LH: bool, const RH: bool>(op: Op) {
    let (lv, ln, rv, rn): (u64, u64, u64, u64) = (kani::any(), kani::any(), kani::any(), kani::any());
    let (l, r) = (mk(lv, LH, ln), mk(rv, RH, rn));
    let res = match op {
        Op::AndKleene => and_kleene(&l, &r),
        Op::OrKleene => or_kleene(&l, &r),
        Op::And => and(&l, &r),
        Op::Or => or(&l, &r),
        Op::AndNot => and_not(&l, &r),
    };
    let i: usize = kani::any();
    kani::assume(i < ROWS);
    let (a, b) = (row(lv, LH, ln, i), row(rv, RH, rn, i));
    let want = table(op, a, b);
    match &res {
        Ok(o) => {
            assert!(o.len() == ROWS);
            assert!(out_row(o, i) == want);
        }
        Err(_) => assert!(false),
    }
    kani::cover!(want == Some(true));
    kani::cover!(want == Some(false) && i == 63);
    kani::cover!(!(LH || RH) || want.is_none());
    kani::cover!(!(LH || RH) || (want.is_some() && (a.is_none() || b.is_none())) || matches!(op, Op::And | Op::Or | Op::AndNot));
    std::mem::forget(res);
    std::mem::forget(l);
    std::mem::forget(r);
}
macro_rules! bin_unit {
    ($name:ident, $lh:expr, $rh:expr, $op:expr) => {
        #[kani::proof]
        #[kani::unwind(10)]
        #[kani::stub(alloc::fmt::format, stub_format)]
        fn $name() { binary_case::<$lh, $rh>($op) }
    };
}
// @unit name=and_kleene_nn props=C12,C02 kind=bounded bound=64_rows_one_aligned_word_both_validity_buffers_(all_contents) fns=and_kleene mem=4 tier=thorough was_quick=1 confirmed=0
bin_unit!(and_kleene_nn, true, true, Op::AndKleene);
// @unit name=and_kleene_n_ props=C12,C02 kind=bounded bound=64_rows_one_aligned_word_left_validity_buffer_(all_contents) fns=and_kleene mem=4 tier=thorough was_quick=1 confirmed=0
bin_unit!(and_kleene_n_, true, false, Op::AndKleene);
// @unit name=and_kleene__n props=C12,C02 kind=bounded bound=64_rows_one_aligned_word_right_validity_buffer_(all_contents) fns=and_kleene mem=4 tier=thorough was_quick=1 confirmed=0
bin_unit!(and_kleene__n, false, true, Op::AndKleene);
// @unit name=and_kleene___ props=C12,C02 kind=bounded bound=64_rows_one_aligned_word_no_validity_buffer_(all_contents) fns=and_kleene mem=4 tier=thorough was_quick=1 confirmed=0
bin_unit!(and_kleene___, false, false, Op::AndKleene);
// @unit name=or_kleene_nn props=C12,C02 kind=bounded bound=64_rows_one_aligned_word_both_validity_buffers_(all_contents) fns=or_kleene mem=4 tier=thorough was_quick=1 confirmed=0
bin_unit!(or_kleene_nn, true, true, Op::OrKleene);
// @unit name=or_kleene_n_ props=C12,C02 kind=bounded bound=64_rows_one_aligned_word_left_validity_buffer_(all_contents) fns=or_kleene mem=4 tier=thorough was_quick=1 confirmed=0
bin_unit!(or_kleene_n_, true, false, Op::OrKleene);
// @unit name=or_kleene__n props=C12,C02 kind=bounded bound=64_rows_one_aligned_word_right_validity_buffer_(all_contents) fns=or_kleene mem=4 tier=thorough was_quick=1 confirmed=0
bin_unit!(or_kleene__n, false, true, Op::OrKleene);
// @unit name=or_kleene___ props=C12,C02 kind=bounded bound=64_rows_one_aligned_word_no_validity_buffer_(all_contents) fns=or_kleene mem=4 tier=thorough was_quick=1 confirmed=0
bin_unit!(or_kleene___, false, false, Op::OrKleene);
// @unit name=and_nn props=C12,C02 kind=bounded bound=64_rows_one_aligned_word_both_validity_buffers_(all_contents) fns=and,binary_boolean_kernel mem=4 tier=thorough was_quick=1 confirmed=0
bin_unit!(and_nn, true, true, Op::And);
// @unit name=and_n_ props=C12,C02 kind=bounded bound=64_rows_one_aligned_word_left_validity_buffer_(all_contents) fns=and,binary_boolean_kernel mem=4 tier=thorough was_quick=1 confirmed=0
bin_unit!(and_n_, true, false, Op::And);
// @unit name=and___ props=C12,C02 kind=bounded bound=64_rows_one_aligned_word_no_validity_buffer_(all_contents) fns=and,binary_boolean_kernel mem=4 tier=thorough was_quick=1 confirmed=0
bin_unit!(and___, false, false, Op::And);
// @unit name=or_nn props=C12,C02 kind=bounded bound=64_rows_one_aligned_word_both_validity_buffers_(all_contents) fns=or,binary_boolean_kernel mem=4 tier=thorough was_quick=1 confirmed=0
bin_unit!(or_nn, true, true, Op::Or);
// @unit name=or__n props=C12,C02 kind=bounded bound=64_rows_one_aligned_word_right_validity_buffer_(all_contents) fns=or,binary_boolean_kernel mem=4 tier=thorough was_quick=1 confirmed=0
bin_unit!(or__n, false, true, Op::Or);
// @unit name=and_not_nn props=C12,C02 kind=bounded bound=64_rows_one_aligned_word_both_validity_buffers_(all_contents) fns=and_not,binary_boolean_kernel mem=4 tier=thorough was_quick=1 confirmed=0
bin_unit!(and_not_nn, true, true, Op::AndNot);
// @unit name=and_not___ props=C12,C02 kind=bounded bound=64_rows_one_aligned_word_no_validity_buffer_(all_contents) fns=and_not,binary_boolean_kernel mem=4 tier=thorough was_quick=1 confirmed=0
bin_unit!(and_not___, false, false, Op::AndNot);

// Contract (C12, C02): not(a) on a 64-row BooleanArray (one aligned word, all contents): row i of the
// output is null <=> row i of the input is null, and otherwise the negation of the input value; 64 rows; Ok.
fn not_case<const H: bool>() {
    let (v, n): (u64, u64) = (kani::any(), kani::any());
    let a = mk(v, H, n);
    let res = not(&a);
    let i: usize = kani::any();
    kani::assume(i < ROWS);
    let want = row(v, H, n, i).map(|x| !x);
    match &res {
        Ok(o) => assert!(o.len() == ROWS && out_row(o, i) == want),
        Err(_) => assert!(false),
    }
    kani::cover!(want == Some(true));
    kani::cover!(!H || want.is_none());
    std::mem::forget(res);
    std::mem::forget(a);
}
// @unit name=not_n props=C12,C02 kind=bounded bound=64_rows_one_aligned_word_validity_buffer_(all_contents) fns=not mem=4 tier=thorough was_quick=1 confirmed=0
#[kani::proof]
#[kani::unwind(10)]
#[kani::stub(alloc::fmt::format, stub_format)]
fn not_n() { not_case::<true>() }
// @unit name=not__ props=C12,C02 kind=bounded bound=64_rows_one_aligned_word_no_validity_buffer_(all_contents) fns=not mem=4 tier=thorough was_quick=1 confirmed=0
#[kani::proof]
#[kani::unwind(10)]
#[kani::stub(alloc::fmt::format, stub_format)]
fn not__() { not_case::<false>() }

// Contract (C12): the binary boolean kernels reject operands of different lengths (64 vs 8 rows) with
// Err, for all contents.
// @unit name=bool_len_mismatch props=C12 kind=bounded bound=64_rows_vs_8_rows fns=and_kleene,or_kleene,and,or,and_not,binary_boolean_kernel mem=4
#[kani::proof]
#[kani::unwind(10)]
#[kani::stub(alloc::fmt::format, stub_format)]
fn bool_len_mismatch() {
    let (lv, rv): (u64, u8) = (kani::any(), kani::any());
    let l = mk(lv, false, 0);
    let r = BooleanArray::new(BooleanBuffer::new(Buffer::from_slice_ref(&[rv]), 0, 8), None);
    let rs = (and_kleene(&l, &r), or_kleene(&l, &r), and(&l, &r), or(&l, &r), and_not(&l, &r));
    assert!(rs.0.is_err() && rs.1.is_err() && rs.2.is_err() && rs.3.is_err() && rs.4.is_err());
    kani::cover!(rs.0.is_err());
    std::mem::forget((rs, l, r));
}

// ------------------------------------------------------------------------------------------------
// Sliced operands at CONCRETE, mutually different bit offsets (grid rule): the left values, left
// validity, right values and right validity bitmaps each start at their own bit offset inside a
// 3-byte buffer, 12 rows.  Catches an offset taken from the wrong operand / wrong bitmap, which the
// aligned one-word units above cannot see.  Contents, validity and bits under nulls are symbolic.
// ------------------------------------------------------------------------------------------------
const SL: usize = 12;
const SB: usize = 3;

fn mk_sliced(values: &[u8; SB], voff: usize, has_nulls: bool, valid: &[u8; SB], noff: usize) -> BooleanArray {
    let v = BooleanBuffer::new(Buffer::from_slice_ref(values), voff, SL);
    let n = if has_nulls { Some(NullBuffer::new(BooleanBuffer::new(Buffer::from_slice_ref(valid), noff, SL))) } else { None };
    BooleanArray::new(v, n)
}
fn row_sliced(values: &[u8; SB], voff: usize, has_nulls: bool, valid: &[u8; SB], noff: usize, i: usize) -> Option<bool> {
    if has_nulls && !bit(valid, noff + i) { None } else { Some(bit(values, voff + i)) }
}

// Contract (C12, C02): as binary_case, on 12-row operands sliced at the concrete bit offsets
// (left values LV, left validity LN, right values RV, right validity RN): for every row i the output
// row equals the three-valued truth table applied to the logical input rows; 12 rows; Ok.  Checked
// for every operation of the group on the same symbolic inputs.
fn sliced_case<const LV: usize, const LN: usize, const RV: usize, const RN: usize, const LH: bool, const RH: bool>(kleene: bool) {
    let (lv, ln, rv, rn): ([u8; SB], [u8; SB], [u8; SB], [u8; SB]) = (kani::any(), kani::any(), kani::any(), kani::any());
    let (l, r) = (mk_sliced(&lv, LV, LH, &ln, LN), mk_sliced(&rv, RV, RH, &rn, RN));
    let i: usize = kani::any();
    kani::assume(i < SL);
    let (a, b) = (row_sliced(&lv, LV, LH, &ln, LN, i), row_sliced(&rv, RV, RH, &rn, RN, i));
    macro_rules! run {
        ($f:ident, $op:expr) => {{
            let res = $f(&l, &r);
            match &res {
                Ok(o) => assert!(o.len() == SL && out_row(o, i) == table($op, a, b)),
                Err(_) => assert!(false),
            }
            std::mem::forget(res);
        }};
    }
    if kleene {
        run!(and_kleene, Op::AndKleene);
        run!(or_kleene, Op::OrKleene);
    } else {
        run!(and, Op::And);
        run!(or, Op::Or);
        run!(and_not, Op::AndNot);
    }
    kani::cover!(a == Some(true) && b == Some(false) && i == SL - 1);
    kani::cover!(!(LH || RH) || a.is_none() || b.is_none());
    kani::cover!(!(LH && RH) || (a.is_none() && b == Some(false)));
    kani::cover!(i == 0 && a == Some(false) && b == Some(true));
    std::mem::forget(l);
    std::mem::forget(r);
}
macro_rules! sliced_unit {
    ($name:ident, $lv:expr, $ln:expr, $rv:expr, $rn:expr, $lh:expr, $rh:expr, $k:expr) => {
        #[kani::proof]
        #[kani::unwind(14)]
        #[kani::stub(alloc::fmt::format, stub_format)]
        fn $name() { sliced_case::<$lv, $ln, $rv, $rn, $lh, $rh>($k) }
    };
}
// offsets A: left values 3, left validity 1, right values 0, right validity 2
// @unit name=kleene_sliced_a_nn props=C12,C02 kind=bounded bound=12_rows_offsets_lv3_ln1_rv0_rn2_both_validity_buffers fns=and_kleene,or_kleene mem=4 timeout=1500
sliced_unit!(kleene_sliced_a_nn, 3, 1, 0, 2, true, true, true);
// @unit name=kleene_sliced_a_n_ props=C12,C02 kind=bounded bound=12_rows_offsets_lv3_ln1_rv0_left_validity_buffer fns=and_kleene,or_kleene mem=4 timeout=1500 tier=thorough was_quick=1 confirmed=0
sliced_unit!(kleene_sliced_a_n_, 3, 1, 0, 2, true, false, true);
// @unit name=kleene_sliced_a__n props=C12,C02 kind=bounded bound=12_rows_offsets_lv3_rv0_rn2_right_validity_buffer fns=and_kleene,or_kleene mem=4 timeout=1500 tier=thorough was_quick=1 confirmed=0
sliced_unit!(kleene_sliced_a__n, 3, 1, 0, 2, false, true, true);
// @unit name=kleene_sliced_a___ props=C12,C02 kind=bounded bound=12_rows_offsets_lv3_rv0_no_validity_buffer fns=and_kleene,or_kleene mem=4 timeout=1500
sliced_unit!(kleene_sliced_a___, 3, 1, 0, 2, false, false, true);
// offsets B: left values 0, left validity 2, right values 5, right validity 1
// @unit name=kleene_sliced_b_nn props=C12,C02 kind=bounded bound=12_rows_offsets_lv0_ln2_rv5_rn1_both_validity_buffers fns=and_kleene,or_kleene mem=4 timeout=1500
sliced_unit!(kleene_sliced_b_nn, 0, 2, 5, 1, true, true, true);
// @unit name=kleene_sliced_b_n_ props=C12,C02 kind=bounded bound=12_rows_offsets_lv0_ln2_rv5_left_validity_buffer fns=and_kleene,or_kleene mem=4 timeout=1500
sliced_unit!(kleene_sliced_b_n_, 0, 2, 5, 1, true, false, true);
// @unit name=kleene_sliced_b__n props=C12,C02 kind=bounded bound=12_rows_offsets_lv0_rv5_rn1_right_validity_buffer fns=and_kleene,or_kleene mem=4 timeout=1500
sliced_unit!(kleene_sliced_b__n, 0, 2, 5, 1, false, true, true);
// @unit name=kleene_sliced_b___ props=C12,C02 kind=bounded bound=12_rows_offsets_lv0_rv5_no_validity_buffer fns=and_kleene,or_kleene mem=4 timeout=1500
sliced_unit!(kleene_sliced_b___, 0, 2, 5, 1, false, false, true);
// @unit name=andor_sliced_a_nn props=C12,C02 kind=bounded bound=12_rows_offsets_lv3_ln1_rv0_rn2_both_validity_buffers fns=and,or,and_not,binary_boolean_kernel mem=4 timeout=1500
sliced_unit!(andor_sliced_a_nn, 3, 1, 0, 2, true, true, false);
// @unit name=andor_sliced_a_n_ props=C12,C02 kind=bounded bound=12_rows_offsets_lv3_ln1_rv0_left_validity_buffer fns=and,or,and_not,binary_boolean_kernel mem=4 timeout=1500
sliced_unit!(andor_sliced_a_n_, 3, 1, 0, 2, true, false, false);
// @unit name=andor_sliced_a__n props=C12,C02 kind=bounded bound=12_rows_offsets_lv3_rv0_rn2_right_validity_buffer fns=and,or,and_not,binary_boolean_kernel mem=4 timeout=1500 tier=thorough was_quick=1 confirmed=0
sliced_unit!(andor_sliced_a__n, 3, 1, 0, 2, false, true, false);
// @unit name=andor_sliced_a___ props=C12,C02 kind=bounded bound=12_rows_offsets_lv3_rv0_no_validity_buffer fns=and,or,and_not,binary_boolean_kernel mem=4 timeout=1500
sliced_unit!(andor_sliced_a___, 3, 1, 0, 2, false, false, false);
// @unit name=andor_sliced_b_nn props=C12,C02 kind=bounded bound=12_rows_offsets_lv0_ln2_rv5_rn1_both_validity_buffers fns=and,or,and_not,binary_boolean_kernel mem=4 timeout=1500
sliced_unit!(andor_sliced_b_nn, 0, 2, 5, 1, true, true, false);
// @unit name=andor_sliced_b_n_ props=C12,C02 kind=bounded bound=12_rows_offsets_lv0_ln2_rv5_left_validity_buffer fns=and,or,and_not,binary_boolean_kernel mem=4 timeout=1500
sliced_unit!(andor_sliced_b_n_, 0, 2, 5, 1, true, false, false);
// @unit name=andor_sliced_b__n props=C12,C02 kind=bounded bound=12_rows_offsets_lv0_rv5_rn1_right_validity_buffer fns=and,or,and_not,binary_boolean_kernel mem=4 timeout=1500
sliced_unit!(andor_sliced_b__n, 0, 2, 5, 1, false, true, false);
// @unit name=andor_sliced_b___ props=C12,C02 kind=bounded bound=12_rows_offsets_lv0_rv5_no_validity_buffer fns=and,or,and_not,binary_boolean_kernel mem=4 timeout=1500 tier=thorough was_quick=1 confirmed=0
sliced_unit!(andor_sliced_b___, 0, 2, 5, 1, false, false, false);

// Contract (C12, C02): not(a) on a 12-row BooleanArray sliced at values offset 3 / validity offset 1:
// row i null <=> input row null, else the negated value.
// @unit name=not_sliced props=C12,C02 kind=bounded bound=12_rows_offsets_v3_n1_validity_buffer fns=not mem=4 timeout=1500 tier=thorough was_quick=1 confirmed=0
#[kani::proof]
#[kani::unwind(14)]
#[kani::stub(alloc::fmt::format, stub_format)]
fn not_sliced() {
    let (v, n): ([u8; SB], [u8; SB]) = (kani::any(), kani::any());
    let a = mk_sliced(&v, 3, true, &n, 1);
    let res = not(&a);
    let i: usize = kani::any();
    kani::assume(i < SL);
    let want = row_sliced(&v, 3, true, &n, 1, i).map(|x| !x);
    match &res {
        Ok(o) => assert!(o.len() == SL && out_row(o, i) == want),
        Err(_) => assert!(false),
    }
    kani::cover!(want == Some(true) && i == SL - 1);
    kani::cover!(want.is_none());
    std::mem::forget(res);
    std::mem::forget(a);
}
