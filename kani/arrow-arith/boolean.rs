// Kani contract harnesses for /repo/arrow-arith/src/boolean.rs (child module: sees private items via super::)
