// Kani contract harnesses for /repo/arrow-arith/src/bitwise.rs (child module: sees private items via super::)
