// Kani contract harnesses for /repo/arrow-arith/src/bitwise.rs (child module: sees private items via super::)
//
// Bitwise kernels on Int32Array: per row the bit operation on the two valid values; a row is null
// exactly where an input row is null; bytes under null slots are irrelevant (C02, C12).
// Grid rule: 2 rows (concrete), validity buffers present on both sides; values / validity / payloads /
// scalars symbolic.  Forget rule applied.  Stubs: alloc::fmt::format.
use super::*;
use arrow_array::types::Int32Type;
use arrow_buffer::{BooleanBuffer, Buffer, NullBuffer, ScalarBuffer};
#[path = "/verif/kani/support/spec.rs"]
mod spec;
use spec::*;

const N: usize = 2;
fn mk(vals: [i32; N], valid: u8) -> Int32Array {
    Int32Array::new(ScalarBuffer::from(vals.to_vec()), Some(NullBuffer::new(BooleanBuffer::new(Buffer::from_slice_ref(&[valid]), 0, N))))
}
fn check(r: &Result<Int32Array, ArrowError>, valid: u8, want: [i32; N]) {
    match r {
        Ok(o) => {
            assert!(o.len() == N);
            for k in 0..N {
                assert!(o.is_valid(k) == ((valid >> k) & 1 == 1));
                if o.is_valid(k) { assert!(o.value(k) == want[k]); }
            }
        }
        Err(_) => assert!(false),
    }
}

// Contract (C02, C12): bitwise_and / or / xor / and_not / shift_left / shift_right on two 2-row
// Int32Arrays: Ok; row k null <=> a[k] or b[k] null; otherwise a[k] OP b[k] with OP = & | ^, a & !b, and
// for the shifts a << (b mod 32) resp. arithmetic a >> (b mod 32) (the count is the low 5 bits of b:
// wrapping shift).
// @unit name=bitwise_binary_len2 props=C02,C12 kind=bounded bound=len=2_Int32_both_validity_buffers fns=bitwise_and,bitwise_or,bitwise_xor,bitwise_and_not,bitwise_shift_left,bitwise_shift_right,bitwise_op mem=4 timeout=900 tier=thorough was_quick=1 confirmed=0
#[kani::proof]
#[kani::unwind(4)]
#[kani::stub(alloc::fmt::format, stub_format)]
fn bitwise_binary_len2() {
    let (av, bv): ([i32; N], [i32; N]) = (kani::any(), kani::any());
    let (am, bm): (u8, u8) = (kani::any(), kani::any());
    let (a, b) = (mk(av, am), mk(bv, bm));
    let both = am & bm;
    let f = |g: fn(i32, i32) -> i32| [g(av[0], bv[0]), g(av[1], bv[1])];
    let r = bitwise_and(&a, &b); check(&r, both, f(|x, y| x & y)); std::mem::forget(r);
    let r = bitwise_or(&a, &b); check(&r, both, f(|x, y| x | y)); std::mem::forget(r);
    let r = bitwise_xor(&a, &b); check(&r, both, f(|x, y| x ^ y)); std::mem::forget(r);
    let r = bitwise_and_not(&a, &b); check(&r, both, f(|x, y| x & !y)); std::mem::forget(r);
    let r = bitwise_shift_left(&a, &b); check(&r, both, f(|x, y| ((x as u32) << ((y as u32) % 32)) as i32)); std::mem::forget(r);
    let r = bitwise_shift_right(&a, &b); check(&r, both, f(|x, y| x >> ((y as u32) % 32))); std::mem::forget(r);
    kani::cover!(both & 3 == 0b01 && am & 3 == 0b11);
    kani::cover!(both & 3 == 3 && bv[0] < 0 && bv[1] > 40);
    std::mem::forget((a, b));
}

// Contract (C02, C12): bitwise_not and the *_scalar kernels on a 2-row Int32Array with scalar s: Ok;
// row k null <=> a[k] null; otherwise !a[k], a[k] & s, a[k] | s, a[k] ^ s, a[k] << (s mod 32),
// a[k] >> (s mod 32) (arithmetic).
// @unit name=bitwise_unary_len2 props=C02,C12 kind=bounded bound=len=2_Int32_validity_buffer fns=bitwise_not,bitwise_and_scalar,bitwise_or_scalar,bitwise_xor_scalar,bitwise_shift_left_scalar,bitwise_shift_right_scalar mem=4 timeout=900 tier=thorough was_quick=1 confirmed=0
#[kani::proof]
#[kani::unwind(4)]
#[kani::stub(alloc::fmt::format, stub_format)]
fn bitwise_unary_len2() {
    let av: [i32; N] = kani::any();
    let am: u8 = kani::any();
    let s: i32 = kani::any();
    let a = mk(av, am);
    let sh = (s as u32) % 32;
    let r = bitwise_not(&a); check(&r, am, [!av[0], !av[1]]); std::mem::forget(r);
    let r = bitwise_and_scalar(&a, s); check(&r, am, [av[0] & s, av[1] & s]); std::mem::forget(r);
    let r = bitwise_or_scalar(&a, s); check(&r, am, [av[0] | s, av[1] | s]); std::mem::forget(r);
    let r = bitwise_xor_scalar(&a, s); check(&r, am, [av[0] ^ s, av[1] ^ s]); std::mem::forget(r);
    let r = bitwise_shift_left_scalar(&a, s); check(&r, am, [((av[0] as u32) << sh) as i32, ((av[1] as u32) << sh) as i32]); std::mem::forget(r);
    let r = bitwise_shift_right_scalar(&a, s); check(&r, am, [av[0] >> sh, av[1] >> sh]); std::mem::forget(r);
    kani::cover!(am & 3 == 0b10 && s < 0);
    kani::cover!(am & 3 == 3 && sh > 0);
    std::mem::forget(a);
}
