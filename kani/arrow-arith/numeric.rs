// Kani contract harnesses for /repo/arrow-arith/src/numeric.rs (child module: sees private items via super::)
