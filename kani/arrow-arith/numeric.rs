// Kani contract harnesses for /repo/arrow-arith/src/numeric.rs (child module: sees private items via super::)
//
// Scalar cores of interval arithmetic: the private trait IntervalOp (add, sub, mul_i64) for the three
// interval types and the helper mul_i32_i64.  Spec side: exact field-wise arithmetic in i64 / i128.
// Not decided here (n/d): interval_mul_f64 (float rounding cascade), TimestampOp / DateOp (chrono),
// decimal_op and every `&dyn Datum` dispatcher (DataType / ArrayRef heavy).
// Stubs: alloc::fmt::format -> spec::stub_format (error messages are not part of any contract).
use super::*;
#[path = "/verif/kani/support/spec.rs"]
mod spec;
use spec::*;

fn is_ovf<T>(r: &Result<T, ArrowError>) -> bool { matches!(r, Err(ArrowError::ArithmeticOverflow(_))) }
fn fits32(x: i128) -> bool { x >= i32::MIN as i128 && x <= i32::MAX as i128 }
fn fits64(x: i128) -> bool { x >= i64::MIN as i128 && x <= i64::MAX as i128 }

// Contract (C12): for all left: i32, right: i64, with exact = left * right computed in i128:
//   mul_i32_i64(left, right) = Ok(r) <=> i32::MIN <= exact <= i32::MAX, and then r = exact;
//   otherwise Err(ArithmeticOverflow) - both when the i64 product overflows and when it only fails to
//   fit i32; never a truncated value.
// @unit name=mul_i32_i64_exact props=C12 kind=complete fns=mul_i32_i64 timeout=600 tier=thorough was_quick=1 confirmed=0
#[kani::proof]
#[kani::stub(alloc::fmt::format, stub_format)]
fn mul_i32_i64_exact() {
    let a: i32 = kani::any();
    let b: i64 = kani::any();
    let exact = a as i128 * b as i128;
    let r = mul_i32_i64(a, b);
    match &r {
        Ok(v) => assert!(fits32(exact) && *v as i128 == exact),
        Err(_) => assert!(!fits32(exact) && is_ovf(&r)),
    }
    kani::cover!(r.is_ok() && a > 1 && b > 1);
    kani::cover!(!fits64(exact));
    kani::cover!(fits64(exact) && !fits32(exact));
    kani::cover!(r.is_ok() && exact < -1);
    std::mem::forget(r);
}

// Contract (C12): IntervalYearMonthType (native i32 = months): add / sub = exact sum / difference in
// i64 if it fits i32, else Err(ArithmeticOverflow); mul_i64 = exact product in i128 if it fits i32,
// else Err(ArithmeticOverflow).  No result is ever a wrapped value.
// @unit name=interval_ym_ops props=C12 kind=complete fns=IntervalOp<IntervalYearMonthType>::add,IntervalOp<IntervalYearMonthType>::sub,IntervalOp<IntervalYearMonthType>::mul_i64 timeout=600 tier=thorough was_quick=1 confirmed=0
#[kani::proof]
#[kani::stub(alloc::fmt::format, stub_format)]
fn interval_ym_ops() {
    let a: i32 = kani::any();
    let b: i32 = kani::any();
    let k: i64 = kani::any();
    let (s, d, p) = (a as i128 + b as i128, a as i128 - b as i128, a as i128 * k as i128);
    let rs = <IntervalYearMonthType as IntervalOp>::add(a, b);
    let rd = <IntervalYearMonthType as IntervalOp>::sub(a, b);
    let rp = <IntervalYearMonthType as IntervalOp>::mul_i64(a, k);
    match &rs { Ok(v) => assert!(fits32(s) && *v as i128 == s), Err(_) => assert!(!fits32(s) && is_ovf(&rs)) }
    match &rd { Ok(v) => assert!(fits32(d) && *v as i128 == d), Err(_) => assert!(!fits32(d) && is_ovf(&rd)) }
    match &rp { Ok(v) => assert!(fits32(p) && *v as i128 == p), Err(_) => assert!(!fits32(p) && is_ovf(&rp)) }
    kani::cover!(!fits32(s));
    kani::cover!(!fits32(d) && fits32(s));
    kani::cover!(fits32(p) && k < -1 && a > 1);
    kani::cover!(!fits32(p));
    std::mem::forget((rs, rd, rp));
}

// Contract (C12): IntervalDayTimeType (days: i32, milliseconds: i32): add / sub are field-wise exact
// (each field's exact sum / difference in i64) - Ok <=> BOTH fields fit i32, and then each output field
// is the exact value; otherwise Err(ArithmeticOverflow); no field silently wraps and no field leaks
// into the other.  mul_i64(v, k): each field times k exactly (i128), Ok <=> both products fit i32.
// @unit name=interval_dt_ops props=C12 kind=complete fns=IntervalOp<IntervalDayTimeType>::add,IntervalOp<IntervalDayTimeType>::sub,IntervalOp<IntervalDayTimeType>::mul_i64 timeout=900 tier=thorough was_quick=1 confirmed=0
#[kani::proof]
#[kani::stub(alloc::fmt::format, stub_format)]
fn interval_dt_ops() {
    let a = IntervalDayTime::new(kani::any(), kani::any());
    let b = IntervalDayTime::new(kani::any(), kani::any());
    let k: i64 = kani::any();
    let wide = |x: IntervalDayTime| (x.days as i128, x.milliseconds as i128);
    let ((ad, am), (bd, bm)) = (wide(a), wide(b));
    macro_rules! check {
        ($r:expr, $d:expr, $m:expr) => {{
            let (r, d, m) = (&$r, $d, $m);
            let ok = fits32(d) && fits32(m);
            match r {
                Ok(v) => assert!(ok && v.days as i128 == d && v.milliseconds as i128 == m),
                Err(_) => assert!(!ok && is_ovf(r)),
            }
            ok
        }};
    }
    let rs = <IntervalDayTimeType as IntervalOp>::add(a, b);
    let rd = <IntervalDayTimeType as IntervalOp>::sub(a, b);
    let rp = <IntervalDayTimeType as IntervalOp>::mul_i64(a, k);
    let ok_s = check!(rs, ad + bd, am + bm);
    let ok_d = check!(rd, ad - bd, am - bm);
    let ok_p = check!(rp, ad * k as i128, am * k as i128);
    kani::cover!(ok_s && ad + bd < 0 && am + bm > 0);
    kani::cover!(!ok_s && fits32(ad + bd));   // only the milliseconds field overflows
    kani::cover!(!ok_s && fits32(am + bm));   // only the days field overflows
    kani::cover!(!ok_d);
    kani::cover!(ok_p && k > 1 && ad > 1 && am < -1);
    kani::cover!(!ok_p && fits32(ad * k as i128));
    std::mem::forget((rs, rd, rp));
}

// Contract (C12): IntervalMonthDayNanoType (months: i32, days: i32, nanoseconds: i64): add / sub are
// field-wise exact: Ok <=> the exact months and days results fit i32 and the exact nanoseconds result
// fits i64, and then every output field is the exact value; otherwise Err(ArithmeticOverflow).
// @unit name=interval_mdn_addsub props=C12 kind=complete fns=IntervalOp<IntervalMonthDayNanoType>::add,IntervalOp<IntervalMonthDayNanoType>::sub tier=thorough was_quick=1 confirmed=0
#[kani::proof]
#[kani::stub(alloc::fmt::format, stub_format)]
fn interval_mdn_addsub() {
    let a = IntervalMonthDayNano::new(kani::any(), kani::any(), kani::any());
    let b = IntervalMonthDayNano::new(kani::any(), kani::any(), kani::any());
    let w = |x: IntervalMonthDayNano| (x.months as i128, x.days as i128, x.nanoseconds as i128);
    let ((am, ad, an), (bm, bd, bn)) = (w(a), w(b));
    let rs = <IntervalMonthDayNanoType as IntervalOp>::add(a, b);
    let rd = <IntervalMonthDayNanoType as IntervalOp>::sub(a, b);
    let ok_s = fits32(am + bm) && fits32(ad + bd) && fits64(an + bn);
    match &rs {
        Ok(v) => assert!(ok_s && w(*v) == (am + bm, ad + bd, an + bn)),
        Err(_) => assert!(!ok_s && is_ovf(&rs)),
    }
    let ok_d = fits32(am - bm) && fits32(ad - bd) && fits64(an - bn);
    match &rd {
        Ok(v) => assert!(ok_d && w(*v) == (am - bm, ad - bd, an - bn)),
        Err(_) => assert!(!ok_d && is_ovf(&rd)),
    }
    kani::cover!(ok_s && an + bn < 0 && am + bm > 0);
    kani::cover!(!ok_s && fits32(am + bm) && fits32(ad + bd)); // only nanoseconds overflow
    kani::cover!(!ok_s && fits64(an + bn) && fits32(am + bm)); // only days overflow
    kani::cover!(!ok_d && fits64(an - bn) && fits32(ad - bd)); // only months overflow
    std::mem::forget((rs, rd));
}

// Contract (C12): IntervalMonthDayNanoType::mul_i64(v, k): every field times k exactly (i128 product);
// Ok <=> months*k and days*k fit i32 and nanoseconds*k fits i64, and then each output field is the
// exact product; otherwise Err(ArithmeticOverflow).
// @unit name=interval_mdn_mul props=C12 kind=complete fns=IntervalOp<IntervalMonthDayNanoType>::mul_i64 timeout=900 tier=thorough was_quick=1 confirmed=0
#[kani::proof]
#[kani::stub(alloc::fmt::format, stub_format)]
fn interval_mdn_mul() {
    let a = IntervalMonthDayNano::new(kani::any(), kani::any(), kani::any());
    let k: i64 = kani::any();
    let (pm, pd, pn) = (a.months as i128 * k as i128, a.days as i128 * k as i128, a.nanoseconds as i128 * k as i128);
    let r = <IntervalMonthDayNanoType as IntervalOp>::mul_i64(a, k);
    let ok = fits32(pm) && fits32(pd) && fits64(pn);
    match &r {
        Ok(v) => assert!(ok && v.months as i128 == pm && v.days as i128 == pd && v.nanoseconds as i128 == pn),
        Err(_) => assert!(!ok && is_ovf(&r)),
    }
    kani::cover!(ok && k < -1 && pn > 1 && pm < -1);
    kani::cover!(!ok && fits32(pm) && fits32(pd));
    kani::cover!(!ok && fits64(pn) && fits32(pm));
    std::mem::forget(r);
}
