// Kani contract harnesses for /repo/arrow-arith/src/aggregate.rs (child module: sees private items via super::)
