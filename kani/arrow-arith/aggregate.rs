// Kani contract harnesses for /repo/arrow-arith/src/aggregate.rs (child module: sees private items via super::)
//
// Aggregates on Int32Array / Float32Array / BooleanArray = the reduction over the NON-NULL rows (C12),
// independent of whatever lies under null slots and of the presence of a validity buffer (C02).
// Grid rule: the length is concrete per harness (const generic); values, validity bits and null-slot
// payloads are symbolic; presence of a validity buffer is a const parameter.
// Under Kani (x86-64 without avx) PREFERRED_VECTOR_SIZE = 16: nullable i32/f32 use 4 lanes, non-null f32
// 8 lanes, non-null i32 the simple fold; so len 5 (nullable) and len 9 (non-null f32) reach the
// lane-chunk + remainder split of aggregate_nullable_lanes / aggregate_nonnull_lanes.
// Spec side: naive loops over the logical model Vec<Option<T>> with exact i64 sums; floats are ordered
// by the IEEE-754 totalOrder key of support/spec.rs.
// Not covered (cut): float `sum` (lane-wise association order is not a fold; IEEE addition is not
// associative), product / product_checked, the ArrayAccessor / dictionary / run-end forms (sum_array...),
// byte / string min / max.
// Forget rule: every array / Result is mem::forget-ed.  Stubs: alloc::fmt::format.
use super::*;
use arrow_array::types::{Float32Type, Int32Type};
use arrow_buffer::{BooleanBuffer, Buffer, ScalarBuffer};
#[path = "/verif/kani/support/spec.rs"]
mod spec;
use spec::*;

fn nulls_of(has: bool, valid: u16, len: usize) -> Option<NullBuffer> {
    if has { Some(NullBuffer::new(BooleanBuffer::new(Buffer::from_slice_ref(&valid.to_le_bytes()), 0, len))) } else { None }
}
fn row_valid(has: bool, valid: u16, k: usize) -> bool { !has || (valid >> k) & 1 == 1 }

// Contract (C12, C02): on an L-row Int32Array (all values, validity bits and null payloads symbolic):
//   sum = Some(S mod 2^32), S = exact sum of the non-null values (i64); None <=> no non-null row;
//   sum_checked = Ok(None) <=> no non-null row; Err <=> the exact running sum of the non-null values,
//     taken in row order, leaves [i32::MIN, i32::MAX] at some prefix (in particular whenever S itself is
//     not representable); otherwise Ok(Some(S)) - never a wrapped value;
//   min / max = least / greatest non-null value; bit_and / bit_or / bit_xor = fold of & | ^ over the
//     non-null values; all None <=> no non-null row.
fn agg_i32_case<const L: usize, const HAS: bool>() {
    let vals: [i32; L] = kani::any();
    let valid: u16 = kani::any();
    let arr = Int32Array::new(ScalarBuffer::from(vals.to_vec()), nulls_of(HAS, valid, L));
    let (mut n, mut s, mut prefix_ovf) = (0usize, 0i64, false);
    let (mut mn, mut mx) = (i64::MAX, i64::MIN);
    let (mut band, mut bor, mut bxor) = (-1i32, 0i32, 0i32);
    for k in 0..L {
        if row_valid(HAS, valid, k) {
            n += 1;
            s += vals[k] as i64;
            if s < i32::MIN as i64 || s > i32::MAX as i64 { prefix_ovf = true; }
            if (vals[k] as i64) < mn { mn = vals[k] as i64; }
            if (vals[k] as i64) > mx { mx = vals[k] as i64; }
            band &= vals[k];
            bor |= vals[k];
            bxor ^= vals[k];
        }
    }
    let some = n > 0;
    assert!(sum(&arr) == if some { Some(s as i32) } else { None });
    let sc = sum_checked(&arr);
    match &sc {
        Ok(None) => assert!(!some),
        Ok(Some(v)) => assert!(some && !prefix_ovf && *v as i64 == s),
        Err(_) => assert!(some && prefix_ovf),
    }
    assert!(min(&arr) == if some { Some(mn as i32) } else { None });
    assert!(max(&arr) == if some { Some(mx as i32) } else { None });
    assert!(bit_and(&arr) == if some { Some(band) } else { None });
    assert!(bit_or(&arr) == if some { Some(bor) } else { None });
    assert!(bit_xor(&arr) == if some { Some(bxor) } else { None });
    kani::cover!(L == 0 || some);
    kani::cover!(L == 0 || !HAS || !some);
    kani::cover!(L < 2 || (prefix_ovf && s >= i32::MIN as i64 && s <= i32::MAX as i64) || L < 3); // prefix overflows, total fits
    kani::cover!(L < 2 || prefix_ovf);
    kani::cover!(L < 2 || !HAS || (some && n < L && !prefix_ovf));
    std::mem::forget(sc);
    std::mem::forget(arr);
}
macro_rules! agg_i32 {
    ($name:ident, $l:expr, $has:expr) => {
        #[kani::proof]
        #[kani::unwind(12)]
        #[kani::stub(alloc::fmt::format, stub_format)]
        fn $name() { agg_i32_case::<$l, $has>() }
    };
}
// @unit name=agg_i32_len0 props=C12,C02 kind=bounded bound=len=0_Int32 fns=sum,sum_checked,min,max,bit_and,bit_or,bit_xor,aggregate mem=4 timeout=900
agg_i32!(agg_i32_len0, 0, false);
// @unit name=agg_i32_len1_n props=C12,C02 kind=bounded bound=len=1_Int32_validity_buffer fns=sum,sum_checked,min,max,bit_and,bit_or,bit_xor,aggregate mem=4 timeout=900 tier=thorough was_quick=1 confirmed=0
agg_i32!(agg_i32_len1_n, 1, true);
// @unit name=agg_i32_len3_n props=C12,C02 kind=bounded bound=len=3_Int32_validity_buffer fns=sum,sum_checked,min,max,bit_and,bit_or,bit_xor,aggregate,aggregate_nullable_lanes mem=4 timeout=900 tier=thorough was_quick=1 confirmed=0
agg_i32!(agg_i32_len3_n, 3, true);
// @unit name=agg_i32_len3 props=C12,C02 kind=bounded bound=len=3_Int32_no_validity_buffer fns=sum,sum_checked,min,max,bit_and,bit_or,bit_xor,aggregate,aggregate_nonnull_simple mem=4 timeout=900
agg_i32!(agg_i32_len3, 3, false);
// @unit name=agg_i32_len5_n props=C12,C02 kind=bounded bound=len=5_Int32_validity_buffer_(4_lanes_+_remainder) fns=sum,sum_checked,min,max,bit_and,bit_or,bit_xor,aggregate,aggregate_nullable_lanes,aggregate_nullable_chunk,reduce_accumulators mem=4 timeout=900 tier=thorough was_quick=1 confirmed=0
agg_i32!(agg_i32_len5_n, 5, true);
// @unit name=agg_i32_len5 props=C12,C02 kind=bounded bound=len=5_Int32_no_validity_buffer fns=sum,sum_checked,min,max,bit_and,bit_or,bit_xor,aggregate,aggregate_nonnull_simple mem=4 timeout=900
agg_i32!(agg_i32_len5, 5, false);
// @unit name=agg_i32_len9_n props=C12,C02 kind=bounded bound=len=9_Int32_validity_buffer_(2_lane_chunks_+_remainder) fns=sum,sum_checked,min,max,bit_and,bit_or,bit_xor,aggregate,aggregate_nullable_lanes tier=thorough mem=6 timeout=900 confirmed=0
agg_i32!(agg_i32_len9_n, 9, true);

// Contract (C12, C10, C02): on an L-row Float32Array (every bit pattern: NaNs of both signs and all
// payloads, +-0, infinities; validity and null payloads symbolic): min / max = the non-null element
// with the least / greatest IEEE-754 totalOrder key (so -NaN < -inf < ... < -0 < +0 < ... < +inf < +NaN),
// returned bit-exactly; None <=> no non-null row.
fn agg_f32_case<const L: usize, const HAS: bool>() {
    let bits: [u32; L] = kani::any();
    let valid: u16 = kani::any();
    let mut v = Vec::with_capacity(L);
    for k in 0..L { v.push(f32::from_bits(bits[k])); }
    let arr = Float32Array::new(ScalarBuffer::from(v), nulls_of(HAS, valid, L));
    let (mut n, mut mn, mut mx) = (0usize, 0u32, 0u32);
    for k in 0..L {
        if row_valid(HAS, valid, k) {
            if n == 0 || key32(bits[k]) < key32(mn) { mn = bits[k]; }
            if n == 0 || key32(bits[k]) > key32(mx) { mx = bits[k]; }
            n += 1;
        }
    }
    let (rmin, rmax) = (min(&arr), max(&arr));
    assert!(rmin.map(f32::to_bits) == if n > 0 { Some(mn) } else { None });
    assert!(rmax.map(f32::to_bits) == if n > 0 { Some(mx) } else { None });
    kani::cover!(n > 0 && f32::from_bits(mn).is_nan());          // negative NaN is the minimum
    kani::cover!(n > 1 && f32::from_bits(mx).is_nan() && !f32::from_bits(mn).is_nan());
    kani::cover!(n > 1 && mn == 0x8000_0000 && mx == 0);        // -0 < +0
    kani::cover!(!HAS || (n > 0 && n < L) || L < 2);
    std::mem::forget(arr);
}
macro_rules! agg_f32 {
    ($name:ident, $l:expr, $has:expr) => {
        #[kani::proof]
        #[kani::unwind(12)]
        fn $name() { agg_f32_case::<$l, $has>() }
    };
}
// @unit name=agg_f32_len3_n props=C12,C10,C02 kind=bounded bound=len=3_Float32_validity_buffer fns=min,max,aggregate,aggregate_nullable_lanes mem=4 timeout=900
agg_f32!(agg_f32_len3_n, 3, true);
// @unit name=agg_f32_len5_n props=C12,C10,C02 kind=bounded bound=len=5_Float32_validity_buffer_(4_lanes_+_remainder) fns=min,max,aggregate,aggregate_nullable_lanes mem=4 timeout=900
agg_f32!(agg_f32_len5_n, 5, true);
// @unit name=agg_f32_len3 props=C12,C10,C02 kind=bounded bound=len=3_Float32_no_validity_buffer fns=min,max,aggregate,aggregate_nonnull_lanes mem=4 timeout=900
agg_f32!(agg_f32_len3, 3, false);
// @unit name=agg_f32_len9 props=C12,C10,C02 kind=bounded bound=len=9_Float32_no_validity_buffer_(8_lanes_+_remainder) fns=min,max,aggregate,aggregate_nonnull_lanes,aggregate_nonnull_chunk,reduce_accumulators tier=thorough mem=6 timeout=900
agg_f32!(agg_f32_len9, 9, false);

// Contract (C12, C02): on an L-row BooleanArray (bit offset 0; all value bits, validity bits and null
// payloads symbolic): min_boolean = bool_and = Some(all non-null rows are true), max_boolean = bool_or =
// Some(some non-null row is true); None <=> no non-null row.
fn agg_bool_case<const L: usize, const B: usize, const HAS: bool>() {
    let (vals, valid): ([u8; B], [u8; B]) = (kani::any(), kani::any());
    let nulls = if HAS { Some(NullBuffer::new(BooleanBuffer::new(Buffer::from_slice_ref(&valid), 0, L))) } else { None };
    let arr = BooleanArray::new(BooleanBuffer::new(Buffer::from_slice_ref(&vals), 0, L), nulls);
    let (mut n, mut all, mut any) = (0usize, true, false);
    for k in 0..L {
        if !HAS || bit(&valid, k) {
            n += 1;
            if bit(&vals, k) { any = true; } else { all = false; }
        }
    }
    let want_min = if n > 0 { Some(all) } else { None };
    let want_max = if n > 0 { Some(any) } else { None };
    assert!(min_boolean(&arr) == want_min && bool_and(&arr) == want_min);
    assert!(max_boolean(&arr) == want_max && bool_or(&arr) == want_max);
    kani::cover!(n > 0 && all);
    kani::cover!(n > 1 && any && !all);
    kani::cover!(!HAS || n == 0);
    kani::cover!(!HAS || (n > 0 && n < L && all));   // a false hidden under a null does not count
    std::mem::forget(arr);
}
// @unit name=agg_bool_len5_n props=C12,C02 kind=bounded bound=len=5_Boolean_validity_buffer fns=min_boolean,max_boolean,bool_and,bool_or mem=4 timeout=900
#[kani::proof]
#[kani::unwind(12)]
fn agg_bool_len5_n() { agg_bool_case::<5, 1, true>() }
// @unit name=agg_bool_len5 props=C12,C02 kind=bounded bound=len=5_Boolean_no_validity_buffer fns=min_boolean,max_boolean,bool_and,bool_or mem=4 timeout=900
#[kani::proof]
#[kani::unwind(12)]
fn agg_bool_len5() { agg_bool_case::<5, 1, false>() }
// @unit name=agg_bool_len70_n props=C12,C02 kind=bounded bound=len=70_Boolean_validity_buffer_(one_64-bit_chunk_+_6_remainder_bits) fns=min_boolean,max_boolean,bool_and,bool_or tier=thorough mem=6 timeout=900
#[kani::proof]
#[kani::unwind(72)]
fn agg_bool_len70_n() { agg_bool_case::<70, 9, true>() }
// @unit name=agg_bool_len70 props=C12,C02 kind=bounded bound=len=70_Boolean_no_validity_buffer_(one_64-bit_chunk_+_6_remainder_bits) fns=min_boolean,max_boolean,bool_and,bool_or tier=thorough mem=6 timeout=900
#[kani::proof]
#[kani::unwind(72)]
fn agg_bool_len70() { agg_bool_case::<70, 9, false>() }
