// Kani contract harnesses for /repo/arrow-arith/src/arity.rs (child module: sees private items via super::)
//
// Null handling of the arity kernels on Int32Array (C02: results depend only on logical content; C12:
// null slots never contribute to results or errors, results are null exactly where an input is null).
// Grid rule: the length is concrete per harness (3 rows); values, validity bits, the payload under
// null slots and the parameters of the operation are symbolic; presence of a validity buffer is a
// const parameter (one harness per combination).  The operation is a solver-chosen PARTIAL function
// (fails on one symbolic "bad" input), so a hidden value under a null slot would flip Ok/Err or the
// output if the kernel ever looked at it.
// Forget rule: every PrimitiveArray / Result is mem::forget-ed.  Stubs: alloc::fmt::format.
// Not covered (cut): unary_mut / try_unary_mut / binary_mut / try_binary_mut (go through
// PrimitiveBuilder::finish / ArrayData - measured out of reach in DESIGN section 3), empty inputs
// (ArrayData::new_empty), dictionary / run-end accessors of try_binary.
use super::*;
use arrow_array::types::Int32Type;
use arrow_buffer::{BooleanBuffer, Buffer, ScalarBuffer};
#[path = "/verif/kani/support/spec.rs"]
mod spec;
use spec::*;

const N: usize = 3;

/// Int32Array of N rows; validity buffer present iff `has_nulls`, bit k of `valid` = row k is valid
fn mk(vals: [i32; N], has_nulls: bool, valid: u8) -> Int32Array {
    let nulls = if has_nulls { Some(NullBuffer::new(BooleanBuffer::new(Buffer::from_slice_ref(&[valid]), 0, N))) } else { None };
    Int32Array::new(ScalarBuffer::from(vals.to_vec()), nulls)
}
fn is_valid(has_nulls: bool, valid: u8, k: usize) -> bool { !has_nulls || (valid >> k) & 1 == 1 }

// Contract (C02, C12): try_unary(array, op) on a 3-row Int32Array, op(x) = Err if x = bad else
// Ok(x + delta mod 2^32) with symbolic bad, delta:  Err <=> some VALID row holds `bad` (a `bad` hidden
// under a null slot is never seen);  Ok(out): out has 3 rows, row k is null <=> input row k is null,
// and every valid row holds op(value) - for every content of the null slots.
fn try_unary_case<const HAS: bool>() {
    let vals: [i32; N] = kani::any();
    let valid: u8 = kani::any();
    let (bad, delta): (i32, i32) = (kani::any(), kani::any());
    let arr = mk(vals, HAS, valid);
    let r = try_unary::<Int32Type, _, Int32Type>(&arr, |x| if x == bad { Err(ArrowError::DivideByZero) } else { Ok(x.wrapping_add(delta)) });
    let mut hit = false;
    let mut hidden = false;
    for k in 0..N {
        if vals[k] == bad { if is_valid(HAS, valid, k) { hit = true; } else { hidden = true; } }
    }
    match &r {
        Ok(o) => {
            assert!(!hit && o.len() == N);
            for k in 0..N {
                assert!(o.is_valid(k) == is_valid(HAS, valid, k));
                if o.is_valid(k) { assert!(o.value(k) == vals[k].wrapping_add(delta)); }
            }
        }
        Err(_) => assert!(hit),
    }
    kani::cover!(hit);
    kani::cover!(!hit && (hidden || !HAS)); // a failing input hidden under a null slot: still Ok
    kani::cover!(r.is_ok() && HAS && valid & 7 == 0b101);
    std::mem::forget(r);
    std::mem::forget(arr);
}
// @unit name=try_unary_nulls props=C02,C12 kind=bounded bound=len=3_Int32_validity_buffer_present fns=try_unary,PrimitiveArray::try_unary mem=4 timeout=900 tier=thorough was_quick=1 confirmed=0
#[kani::proof]
#[kani::unwind(5)]
#[kani::stub(alloc::fmt::format, stub_format)]
fn try_unary_nulls() { try_unary_case::<true>() }
// @unit name=try_unary_no_nulls props=C02,C12 kind=bounded bound=len=3_Int32_no_validity_buffer fns=try_unary,PrimitiveArray::try_unary mem=4 timeout=900 tier=thorough was_quick=1 confirmed=0
#[kani::proof]
#[kani::unwind(5)]
#[kani::stub(alloc::fmt::format, stub_format)]
fn try_unary_no_nulls() { try_unary_case::<false>() }

// Contract (C02, C12): unary(array, op) with an infallible op(x) = x * 3 + delta mod 2^32: out has 3
// rows, row k null <=> input row k null, every valid row holds op(value) - whatever lies under nulls.
fn unary_case<const HAS: bool>() {
    let vals: [i32; N] = kani::any();
    let valid: u8 = kani::any();
    let delta: i32 = kani::any();
    let arr = mk(vals, HAS, valid);
    let o = unary::<Int32Type, _, Int32Type>(&arr, |x| x.wrapping_mul(3).wrapping_add(delta));
    assert!(o.len() == N);
    for k in 0..N {
        assert!(o.is_valid(k) == is_valid(HAS, valid, k));
        if o.is_valid(k) { assert!(o.value(k) == vals[k].wrapping_mul(3).wrapping_add(delta)); }
    }
    kani::cover!(HAS && valid & 7 == 0b010);
    kani::cover!(!HAS || valid & 7 == 7);
    std::mem::forget(o);
    std::mem::forget(arr);
}
// @unit name=unary_nulls props=C02,C12 kind=bounded bound=len=3_Int32_validity_buffer_present fns=unary,PrimitiveArray::unary mem=4 timeout=900 tier=thorough was_quick=1 confirmed=0
#[kani::proof]
#[kani::unwind(5)]
fn unary_nulls() { unary_case::<true>() }
// @unit name=unary_no_nulls props=C02,C12 kind=bounded bound=len=3_Int32_no_validity_buffer fns=unary,PrimitiveArray::unary mem=4 timeout=900 tier=thorough was_quick=1 confirmed=0
#[kani::proof]
#[kani::unwind(5)]
fn unary_no_nulls() { unary_case::<false>() }

// Contract (C02, C12): binary(a, b, op) on two 3-row Int32Arrays with op(l, r) = l - 2*r mod 2^32
// (not symmetric: a swapped operand is visible): Ok(out), out has 3 rows, row k null <=> a[k] null or
// b[k] null, every other row holds op(a[k], b[k]); contents under null slots are irrelevant.
// Different lengths => Err (checked in binary_len_mismatch).
fn binary_case<const AH: bool, const BH: bool>() {
    let (av, bv): ([i32; N], [i32; N]) = (kani::any(), kani::any());
    let (am, bm): (u8, u8) = (kani::any(), kani::any());
    let (a, b) = (mk(av, AH, am), mk(bv, BH, bm));
    let r = binary::<Int32Type, Int32Type, _, Int32Type>(&a, &b, |l, r| l.wrapping_sub(r.wrapping_mul(2)));
    match &r {
        Ok(o) => {
            assert!(o.len() == N);
            for k in 0..N {
                let both = is_valid(AH, am, k) && is_valid(BH, bm, k);
                assert!(o.is_valid(k) == both);
                if both { assert!(o.value(k) == av[k].wrapping_sub(bv[k].wrapping_mul(2))); }
            }
        }
        Err(_) => assert!(false),
    }
    kani::cover!(!(AH && BH) || (am & 7 == 0b110 && bm & 7 == 0b011));
    kani::cover!(AH || BH || r.is_ok());
    std::mem::forget(r);
    std::mem::forget(a);
    std::mem::forget(b);
}
// @unit name=binary_nulls_both props=C02,C12 kind=bounded bound=len=3_Int32_both_validity_buffers fns=binary mem=4 timeout=900 tier=thorough was_quick=1 confirmed=0
#[kani::proof]
#[kani::unwind(5)]
#[kani::stub(alloc::fmt::format, stub_format)]
fn binary_nulls_both() { binary_case::<true, true>() }
// @unit name=binary_nulls_right props=C02,C12 kind=bounded bound=len=3_Int32_only_right_validity_buffer fns=binary mem=4 timeout=900 tier=thorough was_quick=1 confirmed=0
#[kani::proof]
#[kani::unwind(5)]
#[kani::stub(alloc::fmt::format, stub_format)]
fn binary_nulls_right() { binary_case::<false, true>() }
// @unit name=binary_no_nulls props=C02,C12 kind=bounded bound=len=3_Int32_no_validity_buffers fns=binary mem=4 timeout=900 tier=thorough was_quick=1 confirmed=0
#[kani::proof]
#[kani::unwind(5)]
#[kani::stub(alloc::fmt::format, stub_format)]
fn binary_no_nulls() { binary_case::<false, false>() }

// Contract (C02, C12): try_binary(&a, &b, op) on two 3-row Int32Arrays, op(l, r) = Err if l + r = bad
// (mod 2^32) else Ok(l - 2*r):  Err <=> op fails on some row where BOTH inputs are valid (pairs with a
// null on either side are never evaluated);  Ok(out): 3 rows, row k null <=> a[k] or b[k] null, other
// rows hold op(a[k], b[k]).  Without any validity buffer this is try_binary_no_nulls.
fn try_binary_case<const AH: bool, const BH: bool>() {
    let (av, bv): ([i32; N], [i32; N]) = (kani::any(), kani::any());
    let (am, bm): (u8, u8) = (kani::any(), kani::any());
    let bad: i32 = kani::any();
    let (a, b) = (mk(av, AH, am), mk(bv, BH, bm));
    let r = try_binary::<_, _, _, Int32Type>(&a, &b, |l: i32, r: i32| {
        if l.wrapping_add(r) == bad { Err(ArrowError::DivideByZero) } else { Ok(l.wrapping_sub(r.wrapping_mul(2))) }
    });
    let (mut hit, mut hidden) = (false, false);
    for k in 0..N {
        if av[k].wrapping_add(bv[k]) == bad {
            if is_valid(AH, am, k) && is_valid(BH, bm, k) { hit = true; } else { hidden = true; }
        }
    }
    match &r {
        Ok(o) => {
            assert!(!hit && o.len() == N);
            for k in 0..N {
                let both = is_valid(AH, am, k) && is_valid(BH, bm, k);
                assert!(o.is_valid(k) == both);
                if both { assert!(o.value(k) == av[k].wrapping_sub(bv[k].wrapping_mul(2))); }
            }
        }
        Err(_) => assert!(hit),
    }
    kani::cover!(hit);
    kani::cover!(!hit && (hidden || !(AH || BH)));
    std::mem::forget(r);
    std::mem::forget(a);
    std::mem::forget(b);
}
// @unit name=try_binary_nulls_both props=C02,C12 kind=bounded bound=len=3_Int32_both_validity_buffers fns=try_binary mem=4 timeout=900 tier=thorough was_quick=1 confirmed=0
#[kani::proof]
#[kani::unwind(5)]
#[kani::stub(alloc::fmt::format, stub_format)]
fn try_binary_nulls_both() { try_binary_case::<true, true>() }
// @unit name=try_binary_nulls_left props=C02,C12 kind=bounded bound=len=3_Int32_only_left_validity_buffer fns=try_binary mem=4 timeout=900 tier=thorough was_quick=1 confirmed=0
#[kani::proof]
#[kani::unwind(5)]
#[kani::stub(alloc::fmt::format, stub_format)]
fn try_binary_nulls_left() { try_binary_case::<true, false>() }
// @unit name=try_binary_no_nulls_path props=C02,C12 kind=bounded bound=len=3_Int32_no_validity_buffers fns=try_binary,try_binary_no_nulls mem=4 timeout=900 tier=thorough was_quick=1 confirmed=0
#[kani::proof]
#[kani::unwind(5)]
#[kani::stub(alloc::fmt::format, stub_format)]
fn try_binary_no_nulls_path() { try_binary_case::<false, false>() }

// Contract (C12): binary and try_binary on arrays of different lengths (3 and 2 rows) return Err and
// never evaluate the operation.
// @unit name=binary_len_mismatch props=C12 kind=bounded bound=len=3_vs_len=2 fns=binary,try_binary mem=4 timeout=900 tier=thorough was_quick=1 confirmed=0
#[kani::proof]
#[kani::unwind(5)]
#[kani::stub(alloc::fmt::format, stub_format)]
fn binary_len_mismatch() {
    let av: [i32; 3] = kani::any();
    let bv: [i32; 2] = kani::any();
    let a = Int32Array::new(ScalarBuffer::from(av.to_vec()), None);
    let b = Int32Array::new(ScalarBuffer::from(bv.to_vec()), None);
    let r1 = binary::<Int32Type, Int32Type, _, Int32Type>(&a, &b, |_, _| -> i32 { panic!("op evaluated") });
    let r2 = try_binary::<_, _, _, Int32Type>(&a, &b, |_: i32, _: i32| -> Result<i32, ArrowError> { panic!("op evaluated") });
    assert!(r1.is_err() && r2.is_err());
    kani::cover!(r1.is_err());
    std::mem::forget((r1, r2, a, b));
}

// ------------------------------------------------------------------------------------------------
// Sliced operands: values start at a concrete ELEMENT offset inside a longer buffer and the validity
// bitmap at its own concrete BIT offset, different on the two sides (grid rule).  Catches an offset
// applied to the wrong operand / wrong buffer.
// ------------------------------------------------------------------------------------------------
const M: usize = 6;
fn mk_sliced(vals: [i32; M], voff: usize, valid: u8, noff: usize) -> Int32Array {
    let values = ScalarBuffer::<i32>::new(Buffer::from_vec(vals.to_vec()), voff, N);
    let nulls = NullBuffer::new(BooleanBuffer::new(Buffer::from_slice_ref(&[valid]), noff, N));
    Int32Array::new(values, Some(nulls))
}
// Contract (C02, C12): binary and try_binary on 3-row Int32Arrays that are windows into 6-element
// buffers: left values at element offset 2 / validity at bit 1, right values at element offset 1 /
// validity at bit 4.  Per row k: null <=> left row or right row null (bits noff + k), otherwise
// op(left[voff_l + k], right[voff_r + k]); try_binary fails <=> op fails on a row valid on both sides.
// Elements and bits outside the windows never matter.
// @unit name=binary_sliced props=C02,C12 kind=bounded bound=len=3_Int32_windows_at_offsets_l(2,1)_r(1,4)_both_validity_buffers fns=binary,try_binary mem=4 timeout=1500 tier=thorough was_quick=1 confirmed=0
#[kani::proof]
#[kani::unwind(8)]
#[kani::stub(alloc::fmt::format, stub_format)]
fn binary_sliced() {
    let (av, bv): ([i32; M], [i32; M]) = (kani::any(), kani::any());
    let (am, bm): (u8, u8) = (kani::any(), kani::any());
    let bad: i32 = kani::any();
    let (a, b) = (mk_sliced(av, 2, am, 1), mk_sliced(bv, 1, bm, 4));
    let lrow = |k: usize| if (am >> (1 + k)) & 1 == 1 { Some(av[2 + k]) } else { None };
    let rrow = |k: usize| if (bm >> (4 + k)) & 1 == 1 { Some(bv[1 + k]) } else { None };
    let r1 = binary::<Int32Type, Int32Type, _, Int32Type>(&a, &b, |l, r| l.wrapping_sub(r.wrapping_mul(2)));
    let r2 = try_binary::<_, _, _, Int32Type>(&a, &b, |l: i32, r: i32| {
        if l.wrapping_add(r) == bad { Err(ArrowError::DivideByZero) } else { Ok(l.wrapping_sub(r.wrapping_mul(2))) }
    });
    let mut hit = false;
    for k in 0..N {
        if let (Some(l), Some(r)) = (lrow(k), rrow(k)) { if l.wrapping_add(r) == bad { hit = true; } }
    }
    match &r1 {
        Ok(o) => {
            assert!(o.len() == N);
            for k in 0..N {
                match (lrow(k), rrow(k)) {
                    (Some(l), Some(r)) => assert!(o.is_valid(k) && o.value(k) == l.wrapping_sub(r.wrapping_mul(2))),
                    _ => assert!(o.is_null(k)),
                }
            }
        }
        Err(_) => assert!(false),
    }
    match &r2 {
        Ok(o) => {
            assert!(!hit && o.len() == N);
            for k in 0..N {
                match (lrow(k), rrow(k)) {
                    (Some(l), Some(r)) => assert!(o.is_valid(k) && o.value(k) == l.wrapping_sub(r.wrapping_mul(2))),
                    _ => assert!(o.is_null(k)),
                }
            }
        }
        Err(_) => assert!(hit),
    }
    kani::cover!(hit);
    kani::cover!(!hit && lrow(0).is_none() && rrow(2).is_none() && lrow(1).is_some() && rrow(1).is_some());
    std::mem::forget((r1, r2, a, b));
}
