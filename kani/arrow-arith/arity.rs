// Kani contract harnesses for /repo/arrow-arith/src/arity.rs (child module: sees private items via super::)
