// Kani contract harnesses for /repo/arrow-row/src/list.rs (child module: sees private items via super::)
