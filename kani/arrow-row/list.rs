// Kani contract harnesses for /repo/arrow-row/src/list.rs (child module: sees private items via super::)
use super::*;
use std::cmp::Ordering;

fn lex_s(a: &[u8], b: &[u8]) -> Ordering {
    let n = if a.len() < b.len() { a.len() } else { b.len() };
    let mut i = 0;
    while i < n {
        if a[i] != b[i] { return if a[i] < b[i] { Ordering::Less } else { Ordering::Greater }; }
        i += 1;
    }
    if a.len() < b.len() { Ordering::Less } else if a.len() > b.len() { Ordering::Greater } else { Ordering::Equal }
}
fn rev_if(o: Ordering, d: bool) -> Ordering {
    if !d { o } else { match o { Ordering::Less => Ordering::Greater, Ordering::Greater => Ordering::Less, Ordering::Equal => Ordering::Equal } }
}

// Contract (C11): list::encode_one on already-encoded child rows (three child rows of 2 symbolic bytes each):
// list A = child rows [0, 2), list B = child rows [2, 3):
//  (a) the number of bytes written equals list_like_element_encoded_len(rows, range) = 1 + sum of
//      padded_length(child row length) (the value RowConverter used to size the buffer) -- 21 and 11 here;
//  (b) byte order of the two encodings == lexicographic order of the two LISTS of child rows (element-wise by
//      the bytes of the child rows, a proper prefix list sorts first), reversed iff descending;
//  (c) the empty list encodes as the 1-byte empty sentinel and sorts before any non-empty list (after, when
//      descending); the null list as the null sentinel, placed per nulls_first; lengths both 1.
// @unit name=list_encode_one_2_1 props=C11 kind=bounded bound=lists_of_2_and_1_child_rows_of_2_bytes fns=list::encode_one,list_like_element_encoded_len,variable::encode_one timeout=900 mem=3
#[kani::proof]
fn list_encode_one_2_1() {
    let b: [u8; 6] = kani::any();
    let rows = Rows {
        buffer: b.to_vec(),
        offsets: vec![0, 2, 4, 6],
        config: crate::RowConfig { fields: std::sync::Arc::from(Vec::<crate::SortField>::new()), validate_utf8: false },
    };
    let opts = SortOptions { descending: kani::any(), nulls_first: kani::any() };
    let mut oa = [0u8; 22];
    let mut ob = [0u8; 12];
    let na = encode_one(&mut oa, &rows, Some(0..2), opts);
    let nb = encode_one(&mut ob, &rows, Some(2..3), opts);
    // (a)
    assert!(na == 21 && nb == 11 && oa[21] == 0 && ob[11] == 0);
    assert!(list_like_element_encoded_len(&rows, Some(0..2)) == na);
    assert!(list_like_element_encoded_len(&rows, Some(2..3)) == nb);
    // (b)
    let first = lex_s(&b[0..2], &b[4..6]);
    let want_lists = if first != Ordering::Equal { first } else { Ordering::Greater }; // A has a second element, B does not
    assert!(lex_s(&oa[..na], &ob[..nb]) == rev_if(want_lists, opts.descending));
    // (c)
    let mut oe = [0u8; 2];
    let mut on = [0u8; 2];
    assert!(encode_one(&mut oe, &rows, Some(1..1), opts) == 1 && encode_one(&mut on, &rows, None, opts) == 1);
    assert!(list_like_element_encoded_len(&rows, Some(1..1)) == 1 && list_like_element_encoded_len(&rows, None) == 1);
    assert!(lex_s(&oe[..1], &ob[..nb]) == rev_if(Ordering::Less, opts.descending));
    assert!(lex_s(&on[..1], &ob[..nb]) == if opts.nulls_first { Ordering::Less } else { Ordering::Greater });
    assert!(lex_s(&on[..1], &oe[..1]) == if opts.nulls_first { Ordering::Less } else { Ordering::Greater });
    kani::cover!(first == Ordering::Equal && opts.descending);
    kani::cover!(first == Ordering::Less && !opts.descending);
    kani::cover!(first == Ordering::Greater && opts.nulls_first);
    std::mem::forget(rows);
}
