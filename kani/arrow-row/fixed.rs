// Kani contract harnesses for /repo/arrow-row/src/fixed.rs (child module: sees private items via super::)
use super::*;
use std::cmp::Ordering;
#[path = "/verif/kani/support/spec.rs"]
mod spec;
use spec::*;

// Contract (C11): for every pair of values, lexicographic byte order of the encodings equals the
// value order (integers: mathematical order; floats: IEEE-754 totalOrder), encodings are equal
// exactly when the values are bit-equal, and decode(encode(x)) == x bit-exactly.
macro_rules! enc_int {
    ($name:ident, $t:ty) => {
        #[kani::proof]
        fn $name() {
            let a: $t = kani::any();
            let b: $t = kani::any();
            let (ea, eb) = (a.encode(), b.encode());
            assert!(lex(&ea, &eb) == a.cmp(&b));
            assert!(<$t as FixedLengthEncoding>::decode(ea) == a);
            kani::cover!(a < b);
            kani::cover!(a > b);
        }
    };
}
// @unit name=enc_i8 props=C11 kind=complete fns=FixedLengthEncoding<i8>::encode,FixedLengthEncoding<i8>::decode
enc_int!(enc_i8, i8);
// @unit name=enc_i16 props=C11 kind=complete fns=FixedLengthEncoding<i16>::encode,FixedLengthEncoding<i16>::decode
enc_int!(enc_i16, i16);
// @unit name=enc_i32 props=C11 kind=complete fns=FixedLengthEncoding<i32>::encode,FixedLengthEncoding<i32>::decode
enc_int!(enc_i32, i32);
// @unit name=enc_i64 props=C11 kind=complete fns=FixedLengthEncoding<i64>::encode,FixedLengthEncoding<i64>::decode
enc_int!(enc_i64, i64);
// @unit name=enc_i128 props=C11 kind=complete fns=FixedLengthEncoding<i128>::encode,FixedLengthEncoding<i128>::decode
enc_int!(enc_i128, i128);
// @unit name=enc_u8 props=C11 kind=complete fns=FixedLengthEncoding<u8>::encode,FixedLengthEncoding<u8>::decode
enc_int!(enc_u8, u8);
// @unit name=enc_u16 props=C11 kind=complete fns=FixedLengthEncoding<u16>::encode,FixedLengthEncoding<u16>::decode
enc_int!(enc_u16, u16);
// @unit name=enc_u32 props=C11 kind=complete fns=FixedLengthEncoding<u32>::encode,FixedLengthEncoding<u32>::decode
enc_int!(enc_u32, u32);
// @unit name=enc_u64 props=C11 kind=complete fns=FixedLengthEncoding<u64>::encode,FixedLengthEncoding<u64>::decode
enc_int!(enc_u64, u64);

// Contract (C11): bool: encode(false) < encode(true) bytewise, equal iff equal, decode inverts encode.
// @unit name=enc_bool props=C11 kind=complete fns=FixedLengthEncoding<bool>::encode,FixedLengthEncoding<bool>::decode
#[kani::proof]
fn enc_bool() {
    let a: bool = kani::any();
    let b: bool = kani::any();
    let (ea, eb) = (a.encode(), b.encode());
    assert!(lex(&ea, &eb) == (a as u8).cmp(&(b as u8)));
    assert!((ea == eb) == (a == b));
    assert!(<bool as FixedLengthEncoding>::decode(ea) == a);
    kani::cover!(!a && b);
    kani::cover!(a && !b);
}

// Contract (C11): floats, for ALL bit patterns (NaN payloads, -0.0, subnormals, infinities):
// lexicographic byte order of the encodings == order of the IEEE-754 totalOrder keys (spec::keyNN,
// sign-magnitude -> two's complement; written independently of arrow's `compare`/`total_cmp`);
// encodings are equal iff the bit patterns are equal; decode(encode(x)) has the same bit pattern as x.
macro_rules! enc_float {
    ($name:ident, $t:ty, $bits:ty, $key:ident) => {
        #[kani::proof]
        fn $name() {
            let ab: $bits = kani::any();
            let bb: $bits = kani::any();
            let (a, b) = (<$t>::from_bits(ab), <$t>::from_bits(bb));
            let (ea, eb) = (a.encode(), b.encode());
            assert!(lex(&ea, &eb) == $key(ab).cmp(&$key(bb)));
            assert!((ea == eb) == (ab == bb));
            assert!(<$t as FixedLengthEncoding>::decode(ea).to_bits() == ab);
            kani::cover!($key(ab) < $key(bb));
            kani::cover!($key(ab) > $key(bb));
            kani::cover!(a.is_nan() && b.is_nan() && ab != bb);          // two different NaN payloads
            kani::cover!(ab == 0 && bb == (1 as $bits).rotate_right(1)); // +0.0 vs -0.0
        }
    };
}
// @unit name=enc_f16 props=C11,C10 kind=complete fns=FixedLengthEncoding<f16>::encode,FixedLengthEncoding<f16>::decode
enc_float!(enc_f16, f16, u16, key16);
// @unit name=enc_f32 props=C11,C10 kind=complete fns=FixedLengthEncoding<f32>::encode,FixedLengthEncoding<f32>::decode
enc_float!(enc_f32, f32, u32, key32);
// @unit name=enc_f64 props=C11,C10 kind=complete fns=FixedLengthEncoding<f64>::encode,FixedLengthEncoding<f64>::decode
enc_float!(enc_f64, f64, u64, key64);

// Contract (C11): i256: byte order of encodings == signed order of (high: i128, low: u128) pairs
// (value = high*2^128 + low); equal iff both limbs equal; decode inverts encode limb-exactly.
// @unit name=enc_i256 props=C11 kind=complete fns=FixedLengthEncoding<i256>::encode,FixedLengthEncoding<i256>::decode
#[kani::proof]
fn enc_i256() {
    let (al, ah): (u128, i128) = (kani::any(), kani::any());
    let (bl, bh): (u128, i128) = (kani::any(), kani::any());
    let a = i256::from_parts(al, ah);
    let b = i256::from_parts(bl, bh);
    let (ea, eb) = (a.encode(), b.encode());
    let want = if ah != bh { ah.cmp(&bh) } else { al.cmp(&bl) };
    assert!(lex(&ea, &eb) == want);
    assert!((ea == eb) == (ah == bh && al == bl));
    assert!(<i256 as FixedLengthEncoding>::decode(ea).to_parts() == (al, ah));
    kani::cover!(ah == bh && al < bl);
    kani::cover!(ah < 0 && bh >= 0);
    kani::cover!(want == Ordering::Greater);
}

// Contract (C11): IntervalDayTime: byte order of encodings == lexicographic order of (days, milliseconds)
// (the derive(Ord) field order of the Arrow type); equal iff both fields equal; decode inverts encode.
// @unit name=enc_interval_day_time props=C11 kind=complete fns=FixedLengthEncoding<IntervalDayTime>::encode,FixedLengthEncoding<IntervalDayTime>::decode
#[kani::proof]
fn enc_interval_day_time() {
    let a = IntervalDayTime { days: kani::any(), milliseconds: kani::any() };
    let b = IntervalDayTime { days: kani::any(), milliseconds: kani::any() };
    let (ea, eb) = (a.encode(), b.encode());
    let want = if a.days != b.days { a.days.cmp(&b.days) } else { a.milliseconds.cmp(&b.milliseconds) };
    assert!(lex(&ea, &eb) == want);
    assert!((ea == eb) == (a.days == b.days && a.milliseconds == b.milliseconds));
    let d = <IntervalDayTime as FixedLengthEncoding>::decode(ea);
    assert!(d.days == a.days && d.milliseconds == a.milliseconds);
    kani::cover!(a.days == b.days && a.milliseconds < b.milliseconds);
    kani::cover!(a.days < b.days && a.milliseconds > b.milliseconds);
    kani::cover!(want == Ordering::Greater);
}

// Contract (C11): IntervalMonthDayNano: byte order of encodings == lexicographic order of
// (months, days, nanoseconds); equal iff all fields equal; decode inverts encode.
// @unit name=enc_interval_month_day_nano props=C11 kind=complete fns=FixedLengthEncoding<IntervalMonthDayNano>::encode,FixedLengthEncoding<IntervalMonthDayNano>::decode
#[kani::proof]
fn enc_interval_month_day_nano() {
    let a = IntervalMonthDayNano { months: kani::any(), days: kani::any(), nanoseconds: kani::any() };
    let b = IntervalMonthDayNano { months: kani::any(), days: kani::any(), nanoseconds: kani::any() };
    let (ea, eb) = (a.encode(), b.encode());
    let want = if a.months != b.months { a.months.cmp(&b.months) }
        else if a.days != b.days { a.days.cmp(&b.days) }
        else { a.nanoseconds.cmp(&b.nanoseconds) };
    assert!(lex(&ea, &eb) == want);
    assert!((ea == eb) == (a.months == b.months && a.days == b.days && a.nanoseconds == b.nanoseconds));
    let d = <IntervalMonthDayNano as FixedLengthEncoding>::decode(ea);
    assert!(d.months == a.months && d.days == a.days && d.nanoseconds == a.nanoseconds);
    kani::cover!(a.months == b.months && a.days == b.days && a.nanoseconds < b.nanoseconds);
    kani::cover!(a.months < b.months && a.days > b.days);
    kani::cover!(want == Ordering::Greater);
}

// ---------------------------------------------------------------------------------------------
// Row level (two rows): validity byte + value bytes under all four SortOptions.
// ---------------------------------------------------------------------------------------------
use arrow_array::types::{Float32Type, Int32Type};
use arrow_array::Array;
use arrow_buffer::Buffer;

/// Specification of the column order on optional values (SQL ORDER BY semantics of SortOptions):
/// null vs null = Equal; null vs value = Less iff nulls_first (independent of `descending`);
/// value vs value = key order, reversed iff descending.
fn spec_cmp_opt<K: Ord>(a: Option<K>, b: Option<K>, o: SortOptions) -> Ordering {
    match (a, b) {
        (None, None) => Ordering::Equal,
        (None, Some(_)) => if o.nulls_first { Ordering::Less } else { Ordering::Greater },
        (Some(_), None) => if o.nulls_first { Ordering::Greater } else { Ordering::Less },
        (Some(x), Some(y)) => if o.descending { y.cmp(&x) } else { x.cmp(&y) },
    }
}
fn any_opts() -> SortOptions { SortOptions { descending: kani::any(), nulls_first: kani::any() } }
/// 2-slot validity buffer from a symbolic byte (bits 2.. are arbitrary garbage beyond the length)
fn nulls2(v: u8) -> NullBuffer { NullBuffer::new(BooleanBuffer::new(Buffer::from(vec![v]), 0, 2)) }

// Contract (C11): fixed::encode (nullable) / encode_not_null on a 2-row column of 4-byte values, rows
// placed at a non-zero start offset in a zero-initialised buffer (precondition from RowConverter::append:
// `buffer.resize(total, 0)`; offsets[i+1] holds the write position of row i):
//  (1) offsets advance by ENCODED_LEN = 5 per row; bytes outside the two rows are unchanged (frame);
//  (2) a valid row is [1, e0..e3] with e = T::encode(v), bytewise complemented iff descending (the validity
//      byte is NOT complemented); a null row is [null_sentinel, 0, 0, 0, 0], null_sentinel = 0 iff nulls_first
//      else 0xFF;
//  (3) lexicographic comparison of the two full rows == spec_cmp_opt of the optional values under the
//      options (values ordered by the integer order / the IEEE totalOrder key): both directions, incl. Equal
//      (rows byte-equal iff both null or both valid with bit-equal values).
// Values, validity bits (incl. garbage bits beyond the length), values under null slots and both option
// flags are symbolic.
macro_rules! row2_enc {
    ($name:ident, $native:ty, $nullable:expr, $key:expr, $bits:expr) => {
        #[kani::proof]
        fn $name() {
            let vals: [$native; 2] = [kani::any(), kani::any()];
            let vbyte: u8 = if $nullable { kani::any() } else { 0xFF };
            let valid = [vbyte & 1 == 1, vbyte & 2 == 2];
            let opts = any_opts();
            let (pre, post): (u8, u8) = (kani::any(), kani::any());
            let mut data = [0u8; 12];
            data[0] = pre; data[11] = post;
            let mut offsets = [1usize, 1, 6];
            if $nullable {
                let nulls = nulls2(vbyte);
                encode(&mut data, &mut offsets, &vals, &nulls, opts);
            } else {
                encode_not_null(&mut data, &mut offsets, &vals, opts);
            }
            // (1)
            assert!(offsets[0] == 1 && offsets[1] == 6 && offsets[2] == 11);
            assert!(data[0] == pre && data[11] == post);
            let r0: [u8; 5] = [data[1], data[2], data[3], data[4], data[5]];
            let r1: [u8; 5] = [data[6], data[7], data[8], data[9], data[10]];
            // (2)
            let rows = [r0, r1];
            let mut i = 0;
            while i < 2 {
                if valid[i] {
                    let e = vals[i].encode();
                    assert!(rows[i][0] == 1);
                    let mut k = 0;
                    while k < 4 { assert!(rows[i][1 + k] == if opts.descending { !e[k] } else { e[k] }); k += 1; }
                } else {
                    assert!(rows[i][0] == if opts.nulls_first { 0 } else { 0xFF });
                    assert!(rows[i][1] == 0 && rows[i][2] == 0 && rows[i][3] == 0 && rows[i][4] == 0);
                }
                i += 1;
            }
            // (3)
            let key = $key;
            let oa = if valid[0] { Some(key(vals[0])) } else { None };
            let ob = if valid[1] { Some(key(vals[1])) } else { None };
            let want = spec_cmp_opt(oa, ob, opts);
            assert!(lex(&r0, &r1) == want);
            let bits = $bits;
            assert!((lex(&r0, &r1) == Ordering::Equal)
                == ((!valid[0] && !valid[1]) || (valid[0] && valid[1] && bits(vals[0]) == bits(vals[1]))));
            // (null covers are only meaningful for the nullable entry point)
            kani::cover!(!$nullable || (!valid[0] && valid[1] && opts.nulls_first && want == Ordering::Less));
            kani::cover!(!$nullable || (!valid[0] && valid[1] && !opts.nulls_first && want == Ordering::Greater));
            kani::cover!(valid[0] && valid[1] && opts.descending && want == Ordering::Less);
            kani::cover!(valid[0] && valid[1] && !opts.descending && want == Ordering::Less);
            kani::cover!(!$nullable || (!valid[0] && !valid[1]));
        }
    };
}
// @unit name=row2_enc_i32 props=C11 kind=bounded bound=2_rows_one_i32_column fns=fixed::encode,null_sentinel timeout=300
row2_enc!(row2_enc_i32, i32, true, |x: i32| x as i64, |x: i32| x as u32);
// @unit name=row2_enc_f32 props=C11,C10 kind=bounded bound=2_rows_one_f32_column fns=fixed::encode,null_sentinel timeout=300
row2_enc!(row2_enc_f32, f32, true, |x: f32| key32(x.to_bits()), |x: f32| x.to_bits());
// @unit name=row2_enc_i32_not_null props=C11 kind=bounded bound=2_rows_one_i32_column fns=fixed::encode_not_null timeout=300
row2_enc!(row2_enc_i32_not_null, i32, false, |x: i32| x as i64, |x: i32| x as u32);

// Contract (C11): fixed::encode_boolean (nullable) / encode_boolean_not_null on 2 rows: same row structure
// as above with a 1-byte value part ([1, v] / [1, !v] descending; null = [sentinel, 0]); offsets advance by 2;
// frame; lexicographic order of the two rows == spec_cmp_opt(false < true) under the options.
macro_rules! row2_enc_bool {
    ($name:ident, $nullable:expr) => {
        #[kani::proof]
        fn $name() {
            let bvals: u8 = kani::any();
            let vals = [bvals & 1 == 1, bvals & 2 == 2];
            let vbyte: u8 = if $nullable { kani::any() } else { 0xFF };
            let valid = [vbyte & 1 == 1, vbyte & 2 == 2];
            let opts = any_opts();
            let (pre, post): (u8, u8) = (kani::any(), kani::any());
            let mut data = [0u8; 6];
            data[0] = pre; data[5] = post;
            let mut offsets = [1usize, 1, 3];
            let values = BooleanBuffer::new(Buffer::from(vec![bvals]), 0, 2);
            if $nullable {
                let nulls = nulls2(vbyte);
                encode_boolean(&mut data, &mut offsets, &values, &nulls, opts);
            } else {
                encode_boolean_not_null(&mut data, &mut offsets, &values, opts);
            }
            assert!(offsets[0] == 1 && offsets[1] == 3 && offsets[2] == 5);
            assert!(data[0] == pre && data[5] == post);
            let rows = [[data[1], data[2]], [data[3], data[4]]];
            let mut i = 0;
            while i < 2 {
                if valid[i] {
                    let e = vals[i] as u8;
                    assert!(rows[i][0] == 1 && rows[i][1] == if opts.descending { !e } else { e });
                } else {
                    assert!(rows[i][0] == if opts.nulls_first { 0 } else { 0xFF } && rows[i][1] == 0);
                }
                i += 1;
            }
            let oa = if valid[0] { Some(vals[0] as u8) } else { None };
            let ob = if valid[1] { Some(vals[1] as u8) } else { None };
            let want = spec_cmp_opt(oa, ob, opts);
            assert!(lex(&rows[0], &rows[1]) == want);
            kani::cover!(!$nullable || (!valid[0] && valid[1] && opts.nulls_first));
            kani::cover!(!$nullable || (valid[0] && !valid[1] && !opts.nulls_first && want == Ordering::Less));
            kani::cover!(valid[0] && valid[1] && opts.descending && want == Ordering::Less);
            kani::cover!(valid[0] && valid[1] && !opts.descending && want == Ordering::Less);
        }
    };
}
// @unit name=row2_enc_bool props=C11 kind=bounded bound=2_rows_one_bool_column fns=fixed::encode_boolean,null_sentinel timeout=300
row2_enc_bool!(row2_enc_bool, true);
// @unit name=row2_enc_bool_not_null props=C11 kind=bounded bound=2_rows_one_bool_column fns=fixed::encode_boolean_not_null timeout=300
row2_enc_bool!(row2_enc_bool_not_null, false);

// Contract (C11): decode_nulls on 2 rows of arbitrary bytes: slot i is valid iff the first byte of row i is
// exactly 1; the result is None iff every slot is valid; the rows are not consumed.
// @unit name=dec_nulls2 props=C11 kind=bounded bound=2_rows fns=fixed::decode_nulls timeout=300
#[kani::proof]
fn dec_nulls2() {
    let b0: [u8; 3] = kani::any();
    let b1: [u8; 3] = kani::any();
    let rs: [&[u8]; 2] = [&b0, &b1];
    let n = decode_nulls(&rs);
    let valid = [b0[0] == 1, b1[0] == 1];
    assert!(n.is_none() == (valid[0] && valid[1]));
    if let Some(n) = &n {
        assert!(n.len() == 2);
        assert!(n.is_valid(0) == valid[0] && n.is_valid(1) == valid[1]);
    }
    assert!(rs[0].len() == 3 && rs[1].len() == 3);
    kani::cover!(n.is_none());
    kani::cover!(b0[0] == 0xFF && b1[0] == 1);
    kani::cover!(b0[0] == 1 && b1[0] == 0);
}

/// Stub for PrimitiveArray::new (arrow-array, outside the units): identical to
/// `Self::try_new(values, nulls).unwrap()` except that the Err value (unreachable here: equal lengths) is
/// leaked instead of being passed to `unwrap_failed` as `&dyn Debug`. Without it the `dyn` drop glue of
/// ArrowError becomes a candidate target of the `Arc<dyn Allocation>` drop inside `Buffer` and CBMC
/// unwinds a recursive drop forever (measured: timeout vs 20 s).
fn stub_prim_new<T: ArrowPrimitiveType>(values: ScalarBuffer<T::Native>, nulls: Option<NullBuffer>) -> PrimitiveArray<T> {
    match PrimitiveArray::<T>::try_new(values, nulls) {
        Ok(a) => a,
        Err(e) => { std::mem::forget(e); panic!("PrimitiveArray::new failed") }
    }
}
use arrow_buffer::ScalarBuffer;

// Contract (C11): decode_primitive inverts the documented row layout. Two rows are built in the harness from
// the format definition: [validity byte, T::encode(v) complemented iff descending] followed by one foreign
// byte; validity bytes are CONCRETE per instance (V0, V1; 1 = valid, anything else = null: measured, symbolic
// validity bytes make the Option<NullBuffer> result symbolic and CBMC does not finish), values, bytes under
// null slots, `descending`, `nulls_first` symbolic. Then: len 2; slot i valid iff Vi == 1; the value of a
// valid slot is bit-identical to v_i (NaN payloads, -0.0 for f32); every row slice is advanced by exactly
// ENCODED_LEN = 5 bytes (the foreign byte is what remains). Together with row2_enc_* (exact row bytes) this
// is the round trip decode(encode(column)) == column.
// Stubs: alloc::fmt::format (error text), PrimitiveArray::new -> stub_prim_new (see above). Array forgotten.
macro_rules! row2_dec {
    ($name:ident, $native:ty, $arrow:ty, $dt:expr, $v0:expr, $v1:expr, $bits:expr) => {
        #[kani::proof]
        #[kani::stub(alloc::fmt::format, stub_format)]
        #[kani::stub(arrow_array::array::PrimitiveArray::new, stub_prim_new)]
        fn $name() {
            let vals: [$native; 2] = [kani::any(), kani::any()];
            let vb: [u8; 2] = [$v0, $v1];
            let opts = any_opts();
            let mut b = [[0u8; 6]; 2];
            let tail: [u8; 2] = [kani::any(), kani::any()];
            let mut i = 0;
            while i < 2 {
                b[i][0] = vb[i];
                if vb[i] == 1 {
                    let e = vals[i].encode();
                    let mut k = 0;
                    while k < 4 { b[i][1 + k] = if opts.descending { !e[k] } else { e[k] }; k += 1; }
                } else {
                    let junk: [u8; 4] = kani::any();
                    let mut k = 0;
                    while k < 4 { b[i][1 + k] = junk[k]; k += 1; }
                }
                b[i][5] = tail[i];
                i += 1;
            }
            let (b0, b1) = (b[0], b[1]);
            let mut rs: [&[u8]; 2] = [&b0, &b1];
            let arr = decode_primitive::<$arrow>(&mut rs, $dt, opts);
            assert!(arr.len() == 2);
            let bits = $bits;
            let mut i = 0;
            while i < 2 {
                assert!(arr.is_valid(i) == (vb[i] == 1));
                if vb[i] == 1 { assert!(bits(arr.value(i)) == bits(vals[i])); }
                assert!(rs[i].len() == 1 && rs[i][0] == tail[i]);
                i += 1;
            }
            kani::cover!(opts.descending);
            kani::cover!(!opts.descending);
            std::mem::forget(arr);
        }
    };
}
// @unit name=row2_dec_i32_vv props=C11 kind=bounded bound=2_rows_validity_bytes_1_1 fns=fixed::decode_primitive,fixed::decode_nulls,fixed::split_off,FromSlice::from_slice mem=3 timeout=600
row2_dec!(row2_dec_i32_vv, i32, Int32Type, DataType::Int32, 1, 1, |x: i32| x as u32);
// @unit name=row2_dec_i32_vn props=C11 kind=bounded bound=2_rows_validity_bytes_1_0 fns=fixed::decode_primitive,fixed::decode_nulls,fixed::split_off,FromSlice::from_slice mem=3 timeout=600
row2_dec!(row2_dec_i32_vn, i32, Int32Type, DataType::Int32, 1, 0, |x: i32| x as u32);
// @unit name=row2_dec_i32_nv props=C11 kind=bounded bound=2_rows_validity_bytes_255_1 fns=fixed::decode_primitive,fixed::decode_nulls,fixed::split_off,FromSlice::from_slice mem=3 timeout=600
row2_dec!(row2_dec_i32_nv, i32, Int32Type, DataType::Int32, 0xFF, 1, |x: i32| x as u32);
// @unit name=row2_dec_i32_nn props=C11 kind=bounded bound=2_rows_validity_bytes_0_255 fns=fixed::decode_primitive,fixed::decode_nulls tier=thorough mem=3 timeout=600
row2_dec!(row2_dec_i32_nn, i32, Int32Type, DataType::Int32, 0, 0xFF, |x: i32| x as u32);
// @unit name=row2_dec_f32_vn props=C11 kind=bounded bound=2_rows_validity_bytes_1_255 fns=fixed::decode_primitive,fixed::decode_nulls tier=thorough mem=3 timeout=600
row2_dec!(row2_dec_f32_vn, f32, Float32Type, DataType::Float32, 1, 0xFF, |x: f32| x.to_bits());

// Contract (C11): decode_bool inverts the documented boolean row layout ([validity, v] / [validity, !v] when
// descending) for 2 rows with concrete validity bytes, symbolic values / options / bytes under null slots /
// trailing byte: len 2, validity = (Vi == 1), values of valid slots returned, each row advanced by 2 bytes.
macro_rules! row2_dec_bool {
    ($name:ident, $v0:expr, $v1:expr) => {
        #[kani::proof]
        #[kani::stub(alloc::fmt::format, stub_format)]
        fn $name() {
            let vals: [bool; 2] = [kani::any(), kani::any()];
            let vb: [u8; 2] = [$v0, $v1];
            let opts = any_opts();
            let tail: [u8; 2] = [kani::any(), kani::any()];
            let mut b = [[0u8; 3]; 2];
            let mut i = 0;
            while i < 2 {
                b[i][0] = vb[i];
                let e = vals[i] as u8;
                b[i][1] = if vb[i] == 1 { if opts.descending { !e } else { e } } else { kani::any() };
                b[i][2] = tail[i];
                i += 1;
            }
            let (b0, b1) = (b[0], b[1]);
            let mut rs: [&[u8]; 2] = [&b0, &b1];
            let arr = decode_bool(&mut rs, opts);
            assert!(arr.len() == 2);
            let mut i = 0;
            while i < 2 {
                assert!(arr.is_valid(i) == (vb[i] == 1));
                if vb[i] == 1 { assert!(arr.value(i) == vals[i]); }
                assert!(rs[i].len() == 1 && rs[i][0] == tail[i]);
                i += 1;
            }
            kani::cover!(opts.descending && vals[0]);
            kani::cover!(!opts.descending && !vals[0]);
            std::mem::forget(arr);
        }
    };
}
// @unit name=row2_dec_bool_vv props=C11 kind=bounded bound=2_rows_validity_bytes_1_1 fns=fixed::decode_bool,fixed::split_off mem=3 timeout=600
row2_dec_bool!(row2_dec_bool_vv, 1, 1);
// @unit name=row2_dec_bool_vn props=C11 kind=bounded bound=2_rows_validity_bytes_1_255 fns=fixed::decode_bool,fixed::split_off mem=3 timeout=600
row2_dec_bool!(row2_dec_bool_vn, 1, 0xFF);
// @unit name=row2_dec_bool_nv props=C11 kind=bounded bound=2_rows_validity_bytes_0_1 fns=fixed::decode_bool,fixed::split_off tier=thorough mem=3 timeout=600
row2_dec_bool!(row2_dec_bool_nv, 0, 1);

// Contract (C11): decode_bool on 65 rows -- reaches the 64-rows-per-word chunk loop AND the remainder block
// (the 2-row units only reach the remainder). Rows are 2-byte slices of one symbolic buffer; validity bytes
// are concrete (all valid except row 3 = null sentinel 0xFF), value bytes and `descending` symbolic. For a
// symbolic row index i: validity == (i != 3), value == (value byte == encode(true) complemented iff
// descending, i.e. 1 / 0xFE), and every row slice is consumed (advanced by 2).
// @unit name=dec_bool_65 props=C11 kind=bounded bound=65_rows_validity_bytes_concrete fns=fixed::decode_bool,fixed::split_off tier=thorough mem=4 timeout=1500
#[kani::proof]
#[kani::stub(alloc::fmt::format, stub_format)]
fn dec_bool_65() {
    let mut b: [u8; 130] = kani::any();
    let mut k = 0;
    while k < 65 { b[2 * k] = if k == 3 { 0xFF } else { 1 }; k += 1; }
    let opts = any_opts();
    let mut rs: [&[u8]; 65] = core::array::from_fn(|i| &b[2 * i..2 * i + 2]);
    let arr = decode_bool(&mut rs, opts);
    assert!(arr.len() == 65);
    let i: usize = kani::any();
    kani::assume(i < 65);
    assert!(arr.is_valid(i) == (i != 3));
    let t: u8 = if opts.descending { 0xFE } else { 1 };
    if i != 3 { assert!(arr.value(i) == (b[2 * i + 1] == t)); }
    assert!(rs[i].len() == 0);
    kani::cover!(i == 63 && arr.value(i));
    kani::cover!(i == 64 && arr.value(i) && opts.descending);
    kani::cover!(i == 0 && !arr.value(i));
    std::mem::forget(arr);
}

// Contract (C11): decode_bool on 129 rows = two full 64-row words + a 1-row remainder: additionally to
// dec_bool_65 this distinguishes per-chunk accumulators that are not reset between chunks (a value / validity
// bit of chunk 0 leaking into chunk 1). Same contract; row 3 and row 70 are null, row 67 (= 64 + 3) is valid.
// @unit name=dec_bool_129 props=C11 kind=bounded bound=129_rows_validity_bytes_concrete fns=fixed::decode_bool,fixed::split_off tier=thorough mem=6 timeout=1500 note=not_confirmed_under_load
#[kani::proof]
#[kani::stub(alloc::fmt::format, stub_format)]
fn dec_bool_129() {
    let mut b: [u8; 258] = kani::any();
    let mut k = 0;
    while k < 129 { b[2 * k] = if k == 3 || k == 70 { 0xFF } else { 1 }; k += 1; }
    let opts = any_opts();
    let mut rs: [&[u8]; 129] = core::array::from_fn(|i| &b[2 * i..2 * i + 2]);
    let arr = decode_bool(&mut rs, opts);
    assert!(arr.len() == 129);
    let i: usize = kani::any();
    kani::assume(i < 129);
    assert!(arr.is_valid(i) == (i != 3 && i != 70));
    let t: u8 = if opts.descending { 0xFE } else { 1 };
    if i != 3 && i != 70 { assert!(arr.value(i) == (b[2 * i + 1] == t)); }
    assert!(rs[i].len() == 0);
    kani::cover!(i == 67 && !arr.value(i) && b[2 * 3 + 1] == t);   // chunk-0 bit 3 set, chunk-1 bit 3 clear
    kani::cover!(i == 128 && arr.value(i));
    kani::cover!(i == 64 && arr.value(i) && b[1] != t);
    std::mem::forget(arr);
}
