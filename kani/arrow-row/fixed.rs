// Kani contract harnesses for /repo/arrow-row/src/fixed.rs (child module: sees private items via super::)
use super::*;
use std::cmp::Ordering;
#[path = "/verif/kani/support/spec.rs"]
mod spec;
use spec::*;

// Contract (C11): for every pair of values, lexicographic byte order of the encodings equals the
// value order (integers: mathematical order; floats: IEEE-754 totalOrder), encodings are equal
// exactly when the values are bit-equal, and decode(encode(x)) == x bit-exactly.
macro_rules! enc_int {
    ($name:ident, $t:ty) => {
        #[kani::proof]
        fn $name() {
            let a: $t = kani::any();
            let b: $t = kani::any();
            let (ea, eb) = (a.encode(), b.encode());
            assert!(lex(&ea, &eb) == a.cmp(&b));
            assert!(<$t as FixedLengthEncoding>::decode(ea) == a);
            kani::cover!(a < b);
            kani::cover!(a > b);
        }
    };
}
// @unit name=enc_i8 props=C11 kind=complete fns=FixedLengthEncoding<i8>::encode,FixedLengthEncoding<i8>::decode
enc_int!(enc_i8, i8);
// @unit name=enc_i16 props=C11 kind=complete fns=FixedLengthEncoding<i16>::encode,FixedLengthEncoding<i16>::decode
enc_int!(enc_i16, i16);
// @unit name=enc_i32 props=C11 kind=complete fns=FixedLengthEncoding<i32>::encode,FixedLengthEncoding<i32>::decode
enc_int!(enc_i32, i32);
// @unit name=enc_i64 props=C11 kind=complete fns=FixedLengthEncoding<i64>::encode,FixedLengthEncoding<i64>::decode
enc_int!(enc_i64, i64);
// @unit name=enc_i128 props=C11 kind=complete fns=FixedLengthEncoding<i128>::encode,FixedLengthEncoding<i128>::decode
enc_int!(enc_i128, i128);
// @unit name=enc_u8 props=C11 kind=complete fns=FixedLengthEncoding<u8>::encode,FixedLengthEncoding<u8>::decode
enc_int!(enc_u8, u8);
// @unit name=enc_u16 props=C11 kind=complete fns=FixedLengthEncoding<u16>::encode,FixedLengthEncoding<u16>::decode
enc_int!(enc_u16, u16);
// @unit name=enc_u32 props=C11 kind=complete fns=FixedLengthEncoding<u32>::encode,FixedLengthEncoding<u32>::decode
enc_int!(enc_u32, u32);
// @unit name=enc_u64 props=C11 kind=complete fns=FixedLengthEncoding<u64>::encode,FixedLengthEncoding<u64>::decode
enc_int!(enc_u64, u64);
