// Kani contract harnesses for /repo/arrow-row/src/lib.rs (child module: sees private items via super::)
use super::*;
#[path = "/verif/kani/support/spec.rs"]
mod spec;
use spec::*;

fn lex_s(a: &[u8], b: &[u8]) -> Ordering {
    let n = if a.len() < b.len() { a.len() } else { b.len() };
    let mut i = 0;
    while i < n {
        if a[i] != b[i] { return if a[i] < b[i] { Ordering::Less } else { Ordering::Greater }; }
        i += 1;
    }
    if a.len() < b.len() { Ordering::Less } else if a.len() > b.len() { Ordering::Greater } else { Ordering::Equal }
}
fn empty_config() -> RowConfig { RowConfig { fields: Arc::from(Vec::<SortField>::new()), validate_utf8: false } }

// Contract (C11): null_sentinel(options) is 0x00 when nulls sort first and 0xFF when they sort last, for both
// directions: strictly below / above the "valid" marker 1 and every variable-length sentinel (1, 2 and their
// complements 0xFE, 0xFD), which is what places null rows before / after all values.
// @unit name=null_sentinel_spec props=C11 kind=complete fns=null_sentinel
#[kani::proof]
fn null_sentinel_spec() {
    let o = SortOptions { descending: kani::any(), nulls_first: kani::any() };
    let s = null_sentinel(o);
    assert!(s == if o.nulls_first { 0 } else { 0xFF });
    let other: u8 = kani::any();
    kani::assume(other == 1 || other == 2 || other == 0xFE || other == 0xFD);
    assert!((s < other) == o.nulls_first && s != other);
    kani::cover!(o.nulls_first && o.descending);
    kani::cover!(!o.nulls_first && !o.descending);
}

// Contract (C11): LengthTracker arithmetic in the all-fixed state (3 rows): after push_fixed(a), push_fixed(b)
// every row has length a + b; extend_offsets(initial, offsets) appends the START offset of each row
// (initial + i*(a+b), i.e. prefix sums "shifted down by one row" as documented) after the existing entries
// and returns initial + total where total = sum of the row lengths; materialized() yields 3 zero variable
// parts. a, b, initial symbolic (< 2^16 so that no overflow precondition is needed).
// @unit name=length_tracker_fixed_3 props=C11 kind=bounded bound=3_rows fns=LengthTracker::new,LengthTracker::push_fixed,LengthTracker::extend_offsets,LengthTracker::materialized timeout=600
#[kani::proof]
#[kani::unwind(6)]
fn length_tracker_fixed_3() {
    let (a, b, initial): (u16, u16, u16) = (kani::any(), kani::any(), kani::any());
    let (a, b, initial) = (a as usize, b as usize, initial as usize);
    let mut t = LengthTracker::new(3);
    t.push_fixed(a);
    t.push_fixed(b);
    let mut offsets = Vec::with_capacity(8);
    offsets.push(initial);
    let end = t.extend_offsets(initial, &mut offsets);
    assert!(end == initial + 3 * (a + b));
    assert!(offsets.len() == 4 && offsets[0] == initial);
    assert!(offsets[1] == initial && offsets[2] == initial + (a + b) && offsets[3] == initial + 2 * (a + b));
    let m = t.materialized();
    assert!(m.len() == 3 && m[0] == 0 && m[1] == 0 && m[2] == 0);
    // after materialisation the tracker still reports the same totals
    let mut o2 = Vec::with_capacity(3);
    assert!(t.extend_offsets(initial, &mut o2) == end);
    assert!(o2.len() == 3 && o2[0] == offsets[1] && o2[1] == offsets[2] && o2[2] == offsets[3]);
    kani::cover!(a > 0 && b > 0 && initial > 0);
}

// Contract (C11): LengthTracker with variable columns (3 rows): push_fixed(f1), push_variable(v), push_fixed(f2),
// push_variable(w) tracks row length_i = f1 + f2 + v_i + w_i; extend_offsets appends the start offset of each
// row = initial + sum of the lengths of the earlier rows and returns initial + sum of all row lengths.
// @unit name=length_tracker_variable_3 props=C11 kind=bounded bound=3_rows_2_fixed_2_variable_columns fns=LengthTracker::push_fixed,LengthTracker::push_variable,LengthTracker::extend_offsets,LengthTracker::materialized tier=thorough mem=8 timeout=1500
#[kani::proof]
#[kani::unwind(6)]
fn length_tracker_variable_3() {
    let f: [u8; 2] = kani::any();
    let v: [u8; 3] = kani::any();
    let w: [u8; 3] = kani::any();
    let initial: u16 = kani::any();
    let initial = initial as usize;
    let mut t = LengthTracker::new(3);
    t.push_fixed(f[0] as usize);
    t.push_variable(v.iter().map(|x| *x as usize));
    t.push_fixed(f[1] as usize);
    t.push_variable(w.iter().map(|x| *x as usize));
    let len = |i: usize| f[0] as usize + f[1] as usize + v[i] as usize + w[i] as usize;
    let mut offsets = Vec::with_capacity(8);
    offsets.push(initial);
    let end = t.extend_offsets(initial, &mut offsets);
    assert!(offsets.len() == 4);
    assert!(offsets[1] == initial && offsets[2] == initial + len(0) && offsets[3] == initial + len(0) + len(1));
    assert!(end == initial + len(0) + len(1) + len(2));
    let m = t.materialized();
    assert!(m.len() == 3 && m[0] == v[0] as usize + w[0] as usize && m[2] == v[2] as usize + w[2] as usize);
    kani::cover!(v[0] != v[1] && w[1] != w[2] && f[0] > 0);
}

// Contract (C11): Rows offset bookkeeping and Row comparison. For a Rows value with buffer of 7 symbolic bytes
// and offsets [0, 3, 7]: num_rows() == 2; row(i).data() is exactly buffer[offsets[i]..offsets[i+1]]; row_len
// and lengths() report 3 and 4; Row's Ord/Eq is the plain lexicographic byte order of the row data ("byte-wise
// comparison of two encoded rows"); push(row) appends a copy as the last row; clear() leaves zero rows.
// (config.fields is an empty Arc<[SortField]>; Rows forgotten.)
// @unit name=rows_offsets_2 props=C11 kind=bounded bound=2_rows_of_3_and_4_bytes fns=Rows::row,Rows::checked_row_end,Rows::row_unchecked,Rows::row_len,Rows::lengths,Rows::num_rows,Rows::push,Rows::clear,Row::cmp,Row::eq timeout=900 mem=3
#[kani::proof]
fn rows_offsets_2() {
    let b: [u8; 7] = kani::any();
    let mut rows = Rows { buffer: b.to_vec(), offsets: vec![0, 3, 7], config: empty_config() };
    assert!(rows.num_rows() == 2);
    {
        let (r0, r1) = (rows.row(0), rows.row(1));
        assert!(r0.data().len() == 3 && r1.data().len() == 4);
        let mut k = 0;
        while k < 3 { assert!(r0.data()[k] == b[k]); k += 1; }
        let mut k = 0;
        while k < 4 { assert!(r1.data()[k] == b[3 + k]); k += 1; }
        assert!(rows.row_len(0) == 3 && rows.row_len(1) == 4);
        let mut it = rows.lengths();
        assert!(it.next() == Some(3) && it.next() == Some(4) && it.next().is_none());
        let want = lex_s(&b[0..3], &b[3..7]);
        assert!(r0.cmp(&r1) == want);
        assert!(r1.cmp(&r0) == lex_s(&b[3..7], &b[0..3]));
        assert!(r0 != r1 && r0 == rows.row(0));
        kani::cover!(want == Ordering::Less && b[0] == b[3] && b[1] == b[4] && b[2] == b[5]); // proper prefix
        kani::cover!(want == Ordering::Greater);
    }
    let cfg = rows.config.clone();
    let extra: [u8; 2] = kani::any();
    rows.push(Row { data: &extra, config: &cfg });
    assert!(rows.num_rows() == 3 && rows.row_len(2) == 2);
    assert!(rows.row(2).data()[0] == extra[0] && rows.row(2).data()[1] == extra[1]);
    assert!(rows.row(1).data()[3] == b[6]);
    rows.clear();
    assert!(rows.num_rows() == 0);
    std::mem::forget(rows);
    std::mem::forget(cfg);
}
