// Kani contract harnesses for /repo/arrow-row/src/lib.rs (child module: sees private items via super::)
