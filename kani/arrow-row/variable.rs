// Kani contract harnesses for /repo/arrow-row/src/variable.rs (child module: sees private items via super::)
