// Kani contract harnesses for /repo/arrow-row/src/variable.rs (child module: sees private items via super::)
use super::*;
use std::cmp::Ordering;
#[path = "/verif/kani/support/spec.rs"]
mod spec;
use spec::*;

/// lexicographic order of two byte strings of arbitrary lengths: first difference decides, otherwise the
/// shorter one (a proper prefix) is smaller. Written as a scan, independent of std's slice Ord.
fn lex_s(a: &[u8], b: &[u8]) -> Ordering {
    let n = if a.len() < b.len() { a.len() } else { b.len() };
    let mut i = 0;
    while i < n {
        if a[i] != b[i] { return if a[i] < b[i] { Ordering::Less } else { Ordering::Greater }; }
        i += 1;
    }
    if a.len() < b.len() { Ordering::Less } else if a.len() > b.len() { Ordering::Greater } else { Ordering::Equal }
}
fn rev_if(o: Ordering, d: bool) -> Ordering {
    if !d { o } else { match o { Ordering::Less => Ordering::Greater, Ordering::Greater => Ordering::Less, Ordering::Equal => Ordering::Equal } }
}
fn any_opts() -> SortOptions { SortOptions { descending: kani::any(), nulls_first: kani::any() } }

/// closed form of the documented layout: 1 sentinel byte + mini-blocks of 8 (+1 marker) up to 32 bytes,
/// beyond that 4 mini-blocks' markers + blocks of 32 (+1 marker)
const fn spec_padded(len: usize) -> usize {
    if len <= 32 { 1 + ((len + 7) / 8) * 9 } else { 4 + ((len + 31) / 32) * 33 }
}

// Output buffers are sized exactly spec_padded(len) + 1 guard byte (const parameter computed by the macros):
// CBMC keeps arrays of <= 64 elements field-sensitive, which lets the block markers constant-fold
// (measured: a fixed 112-byte buffer made the 33-byte round trip 8x slower).

// Contract (C11), variable-length encoding, ORDER part, at a CONCRETE pair of lengths (LA, LB) with symbolic
// contents and symbolic (descending, nulls_first):
//  (a) encode_one returns spec_padded(len) (closed form above) == padded_length(Some(len)), and writes nothing
//      beyond that many bytes (guard byte after the row unchanged);
//  (c) enc(a) <lex enc(b)  <=>  a <lex b  for ascending, reversed for descending, Equal <=> a == b
//      (compared on the exact encoded slices, as Row::cmp does on the concatenated row bytes).
fn var_order<const LA: usize, const LB: usize, const NA: usize, const NB: usize>() {
    let a: [u8; LA] = kani::any();
    let b: [u8; LB] = kani::any();
    let opts = any_opts();
    let g: u8 = kani::any();
    let mut oa = [0u8; NA];
    let mut ob = [0u8; NB];
    oa[spec_padded(LA)] = g;
    let na = encode_one(&mut oa, Some(&a), opts);
    let nb = encode_one(&mut ob, Some(&b), opts);
    // (a)
    assert!(na == spec_padded(LA) && nb == spec_padded(LB));
    assert!(padded_length(Some(LA)) == na && padded_length(Some(LB)) == nb);
    assert!(oa[na] == g);
    // (c)
    let want = rev_if(lex_s(&a, &b), opts.descending);
    assert!(lex_s(&oa[..na], &ob[..nb]) == want);
    // vacuity guards (phrased so that they are satisfiable at every grid point, incl. the empty string)
    let trivial = LA == 0 || LB == 0;
    kani::cover!(opts.descending && (trivial || want == Ordering::Less));
    kani::cover!(!opts.descending && (trivial || want == Ordering::Less));
    kani::cover!(want == Ordering::Greater || (LA == 0 && LB == 0));
    kani::cover!(LA != LB || want == Ordering::Equal);
    // one value is a proper prefix of the other (the case the block markers exist for)
    let m = if LA < LB { LA } else { LB };
    let mut same = true;
    let mut k = 0;
    while k < m { if a[k] != b[k] { same = false; } k += 1; }
    kani::cover!(same);
}
macro_rules! var_order_unit {
    ($name:ident, $la:expr, $lb:expr) => {
        #[kani::proof]
        fn $name() { var_order::<$la, $lb, { spec_padded($la) + 1 }, { spec_padded($lb) + 1 }>() }
    };
}
// quick diagonal: every mini-block edge (8/16/24/32), the first 32-byte block edge (32|33, 64|65), empty
// @unit name=var_order_0_1 props=C11 kind=bounded bound=lengths_0_and_1_contents_symbolic fns=variable::encode_one,variable::encode_blocks,variable::encode_empty,variable::padded_length,variable::non_null_padded_length mem=3 timeout=900
var_order_unit!(var_order_0_1, 0, 1);
// @unit name=var_order_1_1 props=C11 kind=bounded bound=lengths_1_and_1_contents_symbolic fns=variable::encode_one,variable::encode_blocks,variable::encode_empty,variable::padded_length,variable::non_null_padded_length mem=3 timeout=900
var_order_unit!(var_order_1_1, 1, 1);
// @unit name=var_order_7_8 props=C11 kind=bounded bound=lengths_7_and_8_contents_symbolic fns=variable::encode_one,variable::encode_blocks,variable::encode_empty,variable::padded_length,variable::non_null_padded_length mem=3 timeout=900
var_order_unit!(var_order_7_8, 7, 8);
// @unit name=var_order_8_9 props=C11 kind=bounded bound=lengths_8_and_9_contents_symbolic fns=variable::encode_one,variable::encode_blocks,variable::encode_empty,variable::padded_length,variable::non_null_padded_length mem=3 timeout=900
var_order_unit!(var_order_8_9, 8, 9);
// @unit name=var_order_9_16 props=C11 kind=bounded bound=lengths_9_and_16_contents_symbolic fns=variable::encode_one,variable::encode_blocks,variable::encode_empty,variable::padded_length,variable::non_null_padded_length mem=3 timeout=900
var_order_unit!(var_order_9_16, 9, 16);
// @unit name=var_order_16_17 props=C11 kind=bounded bound=lengths_16_and_17_contents_symbolic fns=variable::encode_one,variable::encode_blocks,variable::encode_empty,variable::padded_length,variable::non_null_padded_length mem=3 timeout=900
var_order_unit!(var_order_16_17, 16, 17);
// @unit name=var_order_24_25 props=C11 kind=bounded bound=lengths_24_and_25_contents_symbolic fns=variable::encode_one,variable::encode_blocks,variable::encode_empty,variable::padded_length,variable::non_null_padded_length mem=3 timeout=900
var_order_unit!(var_order_24_25, 24, 25);
// @unit name=var_order_31_32 props=C11 kind=bounded bound=lengths_31_and_32_contents_symbolic fns=variable::encode_one,variable::encode_blocks,variable::encode_empty,variable::padded_length,variable::non_null_padded_length mem=3 timeout=900
var_order_unit!(var_order_31_32, 31, 32);
// @unit name=var_order_32_33 props=C11 kind=bounded bound=lengths_32_and_33_contents_symbolic fns=variable::encode_one,variable::encode_blocks,variable::encode_empty,variable::padded_length,variable::non_null_padded_length mem=3 timeout=900
var_order_unit!(var_order_32_33, 32, 33);
// @unit name=var_order_33_33 props=C11 kind=bounded bound=lengths_33_and_33_contents_symbolic fns=variable::encode_one,variable::encode_blocks,variable::encode_empty,variable::padded_length,variable::non_null_padded_length mem=3 timeout=900
var_order_unit!(var_order_33_33, 33, 33);
// @unit name=var_order_32_64 props=C11 kind=bounded bound=lengths_32_and_64_contents_symbolic fns=variable::encode_one,variable::encode_blocks,variable::encode_empty,variable::padded_length,variable::non_null_padded_length mem=3 timeout=900
var_order_unit!(var_order_32_64, 32, 64);
// @unit name=var_order_64_65 props=C11 kind=bounded bound=lengths_64_and_65_contents_symbolic fns=variable::encode_one,variable::encode_blocks,variable::encode_empty,variable::padded_length,variable::non_null_padded_length mem=3 timeout=900
var_order_unit!(var_order_64_65, 64, 65);
// thorough: equal lengths, prefix pairs across edges, reversed roles
// @unit name=var_order_0_0 props=C11 kind=bounded bound=lengths_0_and_0_contents_symbolic fns=variable::encode_one,variable::encode_blocks,variable::encode_empty,variable::padded_length,variable::non_null_padded_length tier=thorough mem=3 timeout=900
var_order_unit!(var_order_0_0, 0, 0);
// @unit name=var_order_8_8 props=C11 kind=bounded bound=lengths_8_and_8_contents_symbolic fns=variable::encode_one,variable::encode_blocks,variable::encode_empty,variable::padded_length,variable::non_null_padded_length tier=thorough mem=3 timeout=900
var_order_unit!(var_order_8_8, 8, 8);
// @unit name=var_order_9_9 props=C11 kind=bounded bound=lengths_9_and_9_contents_symbolic fns=variable::encode_one,variable::encode_blocks,variable::encode_empty,variable::padded_length,variable::non_null_padded_length tier=thorough mem=3 timeout=900
var_order_unit!(var_order_9_9, 9, 9);
// @unit name=var_order_8_16 props=C11 kind=bounded bound=lengths_8_and_16_contents_symbolic fns=variable::encode_one,variable::encode_blocks,variable::encode_empty,variable::padded_length,variable::non_null_padded_length tier=thorough mem=3 timeout=900
var_order_unit!(var_order_8_16, 8, 16);
// @unit name=var_order_1_9 props=C11 kind=bounded bound=lengths_1_and_9_contents_symbolic fns=variable::encode_one,variable::encode_blocks,variable::encode_empty,variable::padded_length,variable::non_null_padded_length tier=thorough mem=3 timeout=900
var_order_unit!(var_order_1_9, 1, 9);
// @unit name=var_order_17_24 props=C11 kind=bounded bound=lengths_17_and_24_contents_symbolic fns=variable::encode_one,variable::encode_blocks,variable::encode_empty,variable::padded_length,variable::non_null_padded_length tier=thorough mem=3 timeout=900
var_order_unit!(var_order_17_24, 17, 24);
// @unit name=var_order_25_32 props=C11 kind=bounded bound=lengths_25_and_32_contents_symbolic fns=variable::encode_one,variable::encode_blocks,variable::encode_empty,variable::padded_length,variable::non_null_padded_length tier=thorough mem=3 timeout=900
var_order_unit!(var_order_25_32, 25, 32);
// @unit name=var_order_32_32 props=C11 kind=bounded bound=lengths_32_and_32_contents_symbolic fns=variable::encode_one,variable::encode_blocks,variable::encode_empty,variable::padded_length,variable::non_null_padded_length tier=thorough mem=3 timeout=900
var_order_unit!(var_order_32_32, 32, 32);
// @unit name=var_order_33_40 props=C11 kind=bounded bound=lengths_33_and_40_contents_symbolic fns=variable::encode_one,variable::encode_blocks,variable::encode_empty,variable::padded_length,variable::non_null_padded_length tier=thorough mem=3 timeout=900
var_order_unit!(var_order_33_40, 33, 40);
// @unit name=var_order_40_64 props=C11 kind=bounded bound=lengths_40_and_64_contents_symbolic fns=variable::encode_one,variable::encode_blocks,variable::encode_empty,variable::padded_length,variable::non_null_padded_length tier=thorough mem=3 timeout=900
var_order_unit!(var_order_40_64, 40, 64);
// @unit name=var_order_33_65 props=C11 kind=bounded bound=lengths_33_and_65_contents_symbolic fns=variable::encode_one,variable::encode_blocks,variable::encode_empty,variable::padded_length,variable::non_null_padded_length tier=thorough mem=3 timeout=900
var_order_unit!(var_order_33_65, 33, 65);
// @unit name=var_order_65_65 props=C11 kind=bounded bound=lengths_65_and_65_contents_symbolic fns=variable::encode_one,variable::encode_blocks,variable::encode_empty,variable::padded_length,variable::non_null_padded_length tier=thorough mem=3 timeout=900
var_order_unit!(var_order_65_65, 65, 65);
// @unit name=var_order_1_33 props=C11 kind=bounded bound=lengths_1_and_33_contents_symbolic fns=variable::encode_one,variable::encode_blocks,variable::encode_empty,variable::padded_length,variable::non_null_padded_length tier=thorough mem=3 timeout=900
var_order_unit!(var_order_1_33, 1, 33);
// @unit name=var_order_8_33 props=C11 kind=bounded bound=lengths_8_and_33_contents_symbolic fns=variable::encode_one,variable::encode_blocks,variable::encode_empty,variable::padded_length,variable::non_null_padded_length tier=thorough mem=3 timeout=900
var_order_unit!(var_order_8_33, 8, 33);
// @unit name=var_order_9_8 props=C11 kind=bounded bound=lengths_9_and_8_contents_symbolic fns=variable::encode_one,variable::encode_blocks,variable::encode_empty,variable::padded_length,variable::non_null_padded_length tier=thorough mem=3 timeout=900
var_order_unit!(var_order_9_8, 9, 8);
// @unit name=var_order_33_32 props=C11 kind=bounded bound=lengths_33_and_32_contents_symbolic fns=variable::encode_one,variable::encode_blocks,variable::encode_empty,variable::padded_length,variable::non_null_padded_length tier=thorough mem=3 timeout=900
var_order_unit!(var_order_33_32, 33, 32);
// @unit name=var_order_65_64 props=C11 kind=bounded bound=lengths_65_and_64_contents_symbolic fns=variable::encode_one,variable::encode_blocks,variable::encode_empty,variable::padded_length,variable::non_null_padded_length tier=thorough mem=3 timeout=900
var_order_unit!(var_order_65_64, 65, 64);

// Contract (C11), variable-length encoding, INVERSE part, at a concrete length L and concrete `descending`
// (symbolic contents and nulls_first): decoded_len(enc) == L; decode_blocks consumes exactly the encoded
// length, reports blocks of <= 32 bytes whose concatenation, complemented iff descending (as decode_binary
// does afterwards), is the original byte string.
fn var_rt<const L: usize, const DESC: bool, const NA: usize>() {
    let a: [u8; L] = kani::any();
    let opts = SortOptions { descending: DESC, nulls_first: kani::any() };
    let mut oa = [0u8; NA];
    let na = encode_one(&mut oa, Some(&a), opts);
    assert!(na == spec_padded(L));
    assert!(decoded_len(&oa[..na], opts) == L);
    let mut back = [0u8; L];
    let mut n = 0usize;
    let mut bad = false;
    let used = decode_blocks(&oa[..na], opts, |blk| {
        if blk.len() > 32 { bad = true; }
        let mut k = 0;
        while k < 32 {
            if k < blk.len() { if n < L { back[n] = blk[k]; n += 1; } else { bad = true; } }
            k += 1;
        }
    });
    assert!(used == na && n == L && !bad);
    let mut k = 0;
    while k < L { assert!((if DESC { !back[k] } else { back[k] }) == a[k]); k += 1; }
    kani::cover!(L == 0 || a[L - 1] == 0xFF);
    kani::cover!(L == 0 || a[0] == 0);
}
macro_rules! var_rt_unit {
    ($name:ident, $l:expr, $d:expr) => {
        #[kani::proof]
        fn $name() { var_rt::<$l, $d, { spec_padded($l) + 1 }>() }
    };
}
// @unit name=var_rt_0_asc props=C11 kind=bounded bound=length_0_ascending_contents_symbolic fns=variable::encode_one,variable::encode_blocks,variable::decode_blocks,variable::decoded_len mem=3 timeout=900
var_rt_unit!(var_rt_0_asc, 0, false);
// @unit name=var_rt_0_desc props=C11 kind=bounded bound=length_0_descending_contents_symbolic fns=variable::encode_one,variable::encode_blocks,variable::decode_blocks,variable::decoded_len tier=thorough mem=3 timeout=900
var_rt_unit!(var_rt_0_desc, 0, true);
// @unit name=var_rt_1_asc props=C11 kind=bounded bound=length_1_ascending_contents_symbolic fns=variable::encode_one,variable::encode_blocks,variable::decode_blocks,variable::decoded_len tier=thorough mem=3 timeout=900
var_rt_unit!(var_rt_1_asc, 1, false);
// @unit name=var_rt_1_desc props=C11 kind=bounded bound=length_1_descending_contents_symbolic fns=variable::encode_one,variable::encode_blocks,variable::decode_blocks,variable::decoded_len mem=3 timeout=900
var_rt_unit!(var_rt_1_desc, 1, true);
// @unit name=var_rt_7_asc props=C11 kind=bounded bound=length_7_ascending_contents_symbolic fns=variable::encode_one,variable::encode_blocks,variable::decode_blocks,variable::decoded_len mem=3 timeout=900
var_rt_unit!(var_rt_7_asc, 7, false);
// @unit name=var_rt_7_desc props=C11 kind=bounded bound=length_7_descending_contents_symbolic fns=variable::encode_one,variable::encode_blocks,variable::decode_blocks,variable::decoded_len tier=thorough mem=3 timeout=900
var_rt_unit!(var_rt_7_desc, 7, true);
// @unit name=var_rt_8_asc props=C11 kind=bounded bound=length_8_ascending_contents_symbolic fns=variable::encode_one,variable::encode_blocks,variable::decode_blocks,variable::decoded_len tier=thorough mem=3 timeout=900
var_rt_unit!(var_rt_8_asc, 8, false);
// @unit name=var_rt_8_desc props=C11 kind=bounded bound=length_8_descending_contents_symbolic fns=variable::encode_one,variable::encode_blocks,variable::decode_blocks,variable::decoded_len mem=3 timeout=900
var_rt_unit!(var_rt_8_desc, 8, true);
// @unit name=var_rt_9_asc props=C11 kind=bounded bound=length_9_ascending_contents_symbolic fns=variable::encode_one,variable::encode_blocks,variable::decode_blocks,variable::decoded_len mem=3 timeout=900
var_rt_unit!(var_rt_9_asc, 9, false);
// @unit name=var_rt_9_desc props=C11 kind=bounded bound=length_9_descending_contents_symbolic fns=variable::encode_one,variable::encode_blocks,variable::decode_blocks,variable::decoded_len tier=thorough mem=3 timeout=900
var_rt_unit!(var_rt_9_desc, 9, true);
// @unit name=var_rt_16_asc props=C11 kind=bounded bound=length_16_ascending_contents_symbolic fns=variable::encode_one,variable::encode_blocks,variable::decode_blocks,variable::decoded_len tier=thorough mem=3 timeout=900
var_rt_unit!(var_rt_16_asc, 16, false);
// @unit name=var_rt_16_desc props=C11 kind=bounded bound=length_16_descending_contents_symbolic fns=variable::encode_one,variable::encode_blocks,variable::decode_blocks,variable::decoded_len mem=3 timeout=900
var_rt_unit!(var_rt_16_desc, 16, true);
// @unit name=var_rt_17_asc props=C11 kind=bounded bound=length_17_ascending_contents_symbolic fns=variable::encode_one,variable::encode_blocks,variable::decode_blocks,variable::decoded_len mem=3 timeout=900
var_rt_unit!(var_rt_17_asc, 17, false);
// @unit name=var_rt_17_desc props=C11 kind=bounded bound=length_17_descending_contents_symbolic fns=variable::encode_one,variable::encode_blocks,variable::decode_blocks,variable::decoded_len tier=thorough mem=3 timeout=900
var_rt_unit!(var_rt_17_desc, 17, true);
// @unit name=var_rt_24_asc props=C11 kind=bounded bound=length_24_ascending_contents_symbolic fns=variable::encode_one,variable::encode_blocks,variable::decode_blocks,variable::decoded_len tier=thorough mem=3 timeout=900
var_rt_unit!(var_rt_24_asc, 24, false);
// @unit name=var_rt_24_desc props=C11 kind=bounded bound=length_24_descending_contents_symbolic fns=variable::encode_one,variable::encode_blocks,variable::decode_blocks,variable::decoded_len mem=3 timeout=900
var_rt_unit!(var_rt_24_desc, 24, true);
// @unit name=var_rt_25_asc props=C11 kind=bounded bound=length_25_ascending_contents_symbolic fns=variable::encode_one,variable::encode_blocks,variable::decode_blocks,variable::decoded_len mem=3 timeout=900
var_rt_unit!(var_rt_25_asc, 25, false);
// @unit name=var_rt_25_desc props=C11 kind=bounded bound=length_25_descending_contents_symbolic fns=variable::encode_one,variable::encode_blocks,variable::decode_blocks,variable::decoded_len tier=thorough mem=3 timeout=900
var_rt_unit!(var_rt_25_desc, 25, true);
// @unit name=var_rt_31_asc props=C11 kind=bounded bound=length_31_ascending_contents_symbolic fns=variable::encode_one,variable::encode_blocks,variable::decode_blocks,variable::decoded_len tier=thorough mem=3 timeout=900
var_rt_unit!(var_rt_31_asc, 31, false);
// @unit name=var_rt_31_desc props=C11 kind=bounded bound=length_31_descending_contents_symbolic fns=variable::encode_one,variable::encode_blocks,variable::decode_blocks,variable::decoded_len mem=3 timeout=900
var_rt_unit!(var_rt_31_desc, 31, true);
// @unit name=var_rt_32_asc props=C11 kind=bounded bound=length_32_ascending_contents_symbolic fns=variable::encode_one,variable::encode_blocks,variable::decode_blocks,variable::decoded_len mem=3 timeout=900
var_rt_unit!(var_rt_32_asc, 32, false);
// @unit name=var_rt_32_desc props=C11 kind=bounded bound=length_32_descending_contents_symbolic fns=variable::encode_one,variable::encode_blocks,variable::decode_blocks,variable::decoded_len tier=thorough mem=3 timeout=900
var_rt_unit!(var_rt_32_desc, 32, true);
// @unit name=var_rt_33_asc props=C11 kind=bounded bound=length_33_ascending_contents_symbolic fns=variable::encode_one,variable::encode_blocks,variable::decode_blocks,variable::decoded_len tier=thorough mem=3 timeout=900
var_rt_unit!(var_rt_33_asc, 33, false);
// @unit name=var_rt_33_desc props=C11 kind=bounded bound=length_33_descending_contents_symbolic fns=variable::encode_one,variable::encode_blocks,variable::decode_blocks,variable::decoded_len mem=3 timeout=900
var_rt_unit!(var_rt_33_desc, 33, true);
// @unit name=var_rt_40_asc props=C11 kind=bounded bound=length_40_ascending_contents_symbolic fns=variable::encode_one,variable::encode_blocks,variable::decode_blocks,variable::decoded_len mem=3 timeout=900
var_rt_unit!(var_rt_40_asc, 40, false);
// @unit name=var_rt_40_desc props=C11 kind=bounded bound=length_40_descending_contents_symbolic fns=variable::encode_one,variable::encode_blocks,variable::decode_blocks,variable::decoded_len tier=thorough mem=3 timeout=900
var_rt_unit!(var_rt_40_desc, 40, true);
// @unit name=var_rt_64_asc props=C11 kind=bounded bound=length_64_ascending_contents_symbolic fns=variable::encode_one,variable::encode_blocks,variable::decode_blocks,variable::decoded_len tier=thorough mem=3 timeout=900
var_rt_unit!(var_rt_64_asc, 64, false);
// @unit name=var_rt_64_desc props=C11 kind=bounded bound=length_64_descending_contents_symbolic fns=variable::encode_one,variable::encode_blocks,variable::decode_blocks,variable::decoded_len mem=3 timeout=900
var_rt_unit!(var_rt_64_desc, 64, true);
// @unit name=var_rt_65_asc props=C11 kind=bounded bound=length_65_ascending_contents_symbolic fns=variable::encode_one,variable::encode_blocks,variable::decode_blocks,variable::decoded_len mem=3 timeout=900
var_rt_unit!(var_rt_65_asc, 65, false);
// @unit name=var_rt_65_desc props=C11 kind=bounded bound=length_65_descending_contents_symbolic fns=variable::encode_one,variable::encode_blocks,variable::decode_blocks,variable::decoded_len tier=thorough mem=3 timeout=900
var_rt_unit!(var_rt_65_desc, 65, true);

// Contract (C11): null / empty / non-empty sentinels. encode_one(None) writes the single byte null_sentinel
// (0 iff nulls_first else 0xFF, never complemented) and returns 1 == padded_length(None); against any
// non-null value of concrete length L (0 = empty string) the encoded null row compares Less iff nulls_first,
// for both sort directions; decode_blocks / decoded_len on the null row consume 1 byte and report no data.
fn var_null<const L: usize, const NA: usize>() {
    let a: [u8; L] = kani::any();
    let opts = any_opts();
    let mut on = [0x55u8; 2];
    let mut oa = [0u8; NA];
    let nn = encode_one(&mut on, None, opts);
    let na = encode_one(&mut oa, Some(&a), opts);
    assert!(nn == 1 && padded_length(None) == 1 && on[1] == 0x55);
    assert!(on[0] == if opts.nulls_first { 0 } else { 0xFF });
    assert!(na == spec_padded(L));
    let want = if opts.nulls_first { Ordering::Less } else { Ordering::Greater };
    assert!(lex_s(&on[..nn], &oa[..na]) == want);
    assert!(lex_s(&oa[..na], &on[..nn]) == rev_if(want, true));
    let mut calls = 0u32;
    assert!(decode_blocks(&on[..nn], opts, |_| calls += 1) == 1 && calls == 0);
    assert!(decoded_len(&on[..nn], opts) == 0);
    if L == 0 {
        // empty string: one byte, 1 ascending / 0xFE descending; decodes to nothing
        assert!(oa[0] == if opts.descending { 0xFE } else { 1 });
        assert!(decode_blocks(&oa[..na], opts, |_| calls += 1) == 1 && calls == 0);
        let mut oe = [0u8; 1];
        assert!(encode_empty(&mut oe, opts) == 1 && oe[0] == oa[0]);
        let mut o2 = [0u8; 1];
        assert!(encode_null(&mut o2, opts) == 1 && o2[0] == on[0]);
    }
    kani::cover!(opts.nulls_first && opts.descending);
    kani::cover!(!opts.nulls_first && opts.descending);
    kani::cover!(!opts.nulls_first && !opts.descending);
}
macro_rules! var_null_unit {
    ($name:ident, $l:expr) => {
        #[kani::proof]
        fn $name() { var_null::<$l, { spec_padded($l) + 1 }>() }
    };
}
// @unit name=var_null_0 props=C11 kind=bounded bound=null_vs_empty fns=variable::encode_one,variable::encode_null,variable::encode_empty,variable::decode_blocks,variable::decoded_len,variable::padded_length,null_sentinel timeout=600
var_null_unit!(var_null_0, 0);
// @unit name=var_null_1 props=C11 kind=bounded bound=null_vs_length_1 fns=variable::encode_one,variable::encode_null,variable::decode_blocks,null_sentinel timeout=600
var_null_unit!(var_null_1, 1);
// @unit name=var_null_33 props=C11 kind=bounded bound=null_vs_length_33 fns=variable::encode_one,variable::encode_null,variable::decode_blocks,null_sentinel timeout=600
var_null_unit!(var_null_33, 33);

// Contract (C11): padded_length / non_null_padded_length (Kani pair of the Verus proof): for every
// len < 2^40: equals the closed form 1 + ceil(len/8)*9 for len <= 32, 4 + ceil(len/32)*33 above; monotone
// (p(len) <= p(len+1)); strictly larger than len (room for sentinel + markers); padded_length(None) == 1.
// ceil is written as (len + d - 1) / d with a constant divisor on the spec side.
// @unit name=padded_length_pair props=C11 kind=bounded bound=len<2^40 fns=variable::padded_length,variable::non_null_padded_length timeout=300
#[kani::proof]
fn padded_length_pair() {
    let len: usize = kani::any();
    kani::assume(len < (1usize << 40));
    let p = non_null_padded_length(len);
    assert!(p == spec_padded(len));
    assert!(padded_length(Some(len)) == p);
    assert!(padded_length(None) == 1);
    let q = non_null_padded_length(len + 1);
    assert!(p <= q);
    assert!(p > len);
    // strictly positive step exactly at block edges
    assert!((q > p) == (if len < 32 { len % 8 == 0 } else { len % 32 == 0 }));
    kani::cover!(len == 32 && p == 37 && q == 70);
    kani::cover!(len == 200);
    kani::cover!(len == 0 && p == 1);
}

// Contract (C11): variable::encode (column-level wrapper) over two values [Some(a: 3 bytes), x] with
// x = None or Some(empty) (one instance each): offsets[i+1] advances by exactly the encoded length of value i
// (10 and 1), offsets[0] untouched, row i is written at its own start offset, bytes before/after are kept.
fn var_encode_2<const SECOND_NULL: bool>() {
    let a: [u8; 3] = kani::any();
    let opts = any_opts();
    let (pre, post): (u8, u8) = (kani::any(), kani::any());
    let mut data = [0u8; 13];
    data[0] = pre; data[12] = post;
    let mut offsets = [1usize, 1, 11];
    let e: [u8; 0] = [];
    let vals: [Option<&[u8]>; 2] = [Some(&a), if SECOND_NULL { None } else { Some(&e) }];
    encode(&mut data, &mut offsets, vals.iter().copied(), opts);
    assert!(offsets[0] == 1 && offsets[1] == 11 && offsets[2] == 12);
    assert!(data[0] == pre && data[12] == post);
    let mut exp = [0u8; 10];
    assert!(encode_one(&mut exp, Some(&a), opts) == 10);
    let mut k = 0;
    while k < 10 { assert!(data[1 + k] == exp[k]); k += 1; }
    let want11 = if SECOND_NULL { if opts.nulls_first { 0 } else { 0xFF } } else if opts.descending { 0xFE } else { 1 };
    assert!(data[11] == want11);
    kani::cover!(opts.descending && opts.nulls_first);
    kani::cover!(!opts.descending && !opts.nulls_first);
}
// @unit name=var_encode_2_null props=C11 kind=bounded bound=2_values_length_3_then_null fns=variable::encode,variable::encode_one timeout=600
#[kani::proof]
fn var_encode_2_null() { var_encode_2::<true>() }
// @unit name=var_encode_2_empty props=C11 kind=bounded bound=2_values_length_3_then_empty fns=variable::encode,variable::encode_one timeout=600
#[kani::proof]
fn var_encode_2_empty() { var_encode_2::<false>() }

// Contract (C11): decode_nulls_sentinel on 2 rows of arbitrary bytes: slot i is null iff the first byte of
// row i equals null_sentinel(options) (0 iff nulls_first else 0xFF); None iff no slot is null.
// @unit name=dec_nulls_sentinel2 props=C11 kind=bounded bound=2_rows fns=variable::decode_nulls_sentinel,null_sentinel timeout=600
#[kani::proof]
fn dec_nulls_sentinel2() {
    let b0: [u8; 2] = kani::any();
    let b1: [u8; 2] = kani::any();
    let opts = any_opts();
    let rs: [&[u8]; 2] = [&b0, &b1];
    let n = decode_nulls_sentinel(&rs, opts);
    let s = if opts.nulls_first { 0u8 } else { 0xFF };
    let valid = [b0[0] != s, b1[0] != s];
    assert!(n.is_none() == (valid[0] && valid[1]));
    if let Some(n) = &n {
        assert!(n.len() == 2 && n.is_valid(0) == valid[0] && n.is_valid(1) == valid[1]);
    }
    kani::cover!(n.is_none());
    kani::cover!(!valid[0] && valid[1] && opts.nulls_first);
    kani::cover!(valid[0] && !valid[1] && !opts.nulls_first);
}

// Contract (C11): encode_null_value writes the 2-byte marker [2, 3] (complemented iff descending) and
// returns 2; it sorts after the empty string and is distinct from null / empty sentinels; decode_null_value
// advances every row by exactly 2 bytes.
// @unit name=null_value_marker props=C11 kind=complete fns=variable::encode_null_value,variable::decode_null_value timeout=300
#[kani::proof]
fn null_value_marker() {
    let opts = any_opts();
    let mut o = [0x55u8; 3];
    assert!(encode_null_value(&mut o, opts) == 2);
    assert!(o[2] == 0x55);
    assert!(o[0] == if opts.descending { !2u8 } else { 2 } && o[1] == if opts.descending { !3u8 } else { 3 });
    let mut e = [0u8; 1];
    encode_empty(&mut e, opts);
    let mut n = [0u8; 1];
    encode_null(&mut n, opts);
    assert!(o[0] != e[0] && o[0] != n[0]);
    let t: [u8; 2] = kani::any();
    let r0 = [o[0], o[1], t[0]];
    let r1 = [o[0], o[1], t[1]];
    let mut rs: [&[u8]; 2] = [&r0, &r1];
    decode_null_value(&mut rs, opts);
    assert!(rs[0].len() == 1 && rs[0][0] == t[0] && rs[1].len() == 1 && rs[1][0] == t[1]);
    kani::cover!(opts.descending);
    kani::cover!(!opts.descending);
}

// Contract (C11): decode_binary::<i32> inverts the column encoding for 2 rows: row 0 = encode_one(Some(a)) with
// a of concrete length L, row 1 = null (NULL1 = true) or the empty string; `descending` concrete per instance,
// contents / nulls_first symbolic. Result: len 2; value(0) == a byte for byte; slot 1 is null resp. a valid
// empty value; each row slice is advanced past its encoding (one foreign trailing byte remains).
// Arrays forgotten. Stub: alloc::fmt::format.
fn var_decode_binary<const L: usize, const DESC: bool, const NULL1: bool, const NA: usize>() {
    let a: [u8; L] = kani::any();
    let opts = SortOptions { descending: DESC, nulls_first: kani::any() };
    let mut r0 = [0u8; NA];
    let n0 = encode_one(&mut r0, Some(&a), opts);
    assert!(n0 + 1 == NA);
    let t: [u8; 2] = kani::any();
    r0[n0] = t[0];
    let mut r1 = [0u8; 2];
    let e: [u8; 0] = [];
    let n1 = encode_one(&mut r1, if NULL1 { None } else { Some(&e) }, opts);
    assert!(n1 == 1);
    r1[1] = t[1];
    let mut rs: [&[u8]; 2] = [&r0, &r1];
    let arr = decode_binary::<i32>(&mut rs, opts);
    assert!(arr.len() == 2);
    assert!(arr.is_valid(0) && arr.is_null(1) == NULL1);
    let v0 = arr.value(0);
    assert!(v0.len() == L);
    let mut k = 0;
    while k < L { assert!(v0[k] == a[k]); k += 1; }
    assert!(arr.value(1).len() == 0);
    assert!(rs[0].len() == 1 && rs[0][0] == t[0] && rs[1].len() == 1 && rs[1][0] == t[1]);
    kani::cover!(L == 0 || a[0] == 0xFF);
    kani::cover!(opts.nulls_first);
    std::mem::forget(arr);
}
macro_rules! var_decode_binary_unit {
    ($name:ident, $l:expr, $d:expr, $n:expr) => {
        #[kani::proof]
        #[kani::stub(alloc::fmt::format, stub_format)]
        fn $name() { var_decode_binary::<$l, $d, $n, { spec_padded($l) + 1 }>() }
    };
}
// @unit name=var_decode_binary_3_asc_null props=C11 kind=bounded bound=2_rows_length_3_and_null fns=variable::decode_binary,variable::decode_blocks,variable::decoded_len,variable::decode_nulls_sentinel mem=4 timeout=1500
var_decode_binary_unit!(var_decode_binary_3_asc_null, 3, false, true);
// @unit name=var_decode_binary_9_desc_empty props=C11 kind=bounded bound=2_rows_length_9_and_empty fns=variable::decode_binary,variable::decode_blocks,variable::decoded_len,variable::decode_nulls_sentinel tier=thorough mem=4 timeout=1500
var_decode_binary_unit!(var_decode_binary_9_desc_empty, 9, true, false);
