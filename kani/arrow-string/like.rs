// Kani contract harnesses for /repo/arrow-string/src/like.rs (child module: sees private items via super::)
