// Kani contract harnesses for /repo/arrow-string/src/concat_elements.rs (child module: sees private items via super::)
