// Kani contract harnesses for /repo/arrow-string/src/concat_elements.rs (child module: sees private items via super::)
use super::*;
#[path = "/verif/kani/support/spec.rs"]
mod spec;
use spec::*;
use arrow_array::types::Utf8Type;
use arrow_buffer::{BooleanBuffer, OffsetBuffer};

/// a symbolic Unicode scalar value whose UTF-8 encoding has exactly `w` bytes (full range of that class)
fn sym_char_w(w: u8) -> char {
    let u: u32 = kani::any();
    match w {
        1 => kani::assume(u < 0x80),
        2 => kani::assume(u >= 0x80 && u < 0x800),
        3 => kani::assume(u >= 0x800 && u < 0x10000 && !(u >= 0xD800 && u < 0xE000)),
        _ => kani::assume(u >= 0x10000 && u < 0x110000),
    }
    char::from_u32(u).unwrap()
}
/// hand-written UTF-8 encoder (spec side)
fn put(buf: &mut [u8], pos: usize, c: char) -> usize {
    let u = c as u32;
    if u < 0x80 { buf[pos] = u as u8; 1 }
    else if u < 0x800 { buf[pos] = 0xC0 | (u >> 6) as u8; buf[pos + 1] = 0x80 | (u & 0x3F) as u8; 2 }
    else if u < 0x10000 { buf[pos] = 0xE0 | (u >> 12) as u8; buf[pos + 1] = 0x80 | ((u >> 6) & 0x3F) as u8; buf[pos + 2] = 0x80 | (u & 0x3F) as u8; 3 }
    else { buf[pos] = 0xF0 | (u >> 18) as u8; buf[pos + 1] = 0x80 | ((u >> 12) & 0x3F) as u8; buf[pos + 2] = 0x80 | ((u >> 6) & 0x3F) as u8; buf[pos + 3] = 0x80 | (u & 0x3F) as u8; 4 }
}

/// Build a 2-row StringArray. Row r consists of the chars whose widths are W[r][0], W[r][1] (0 = absent).
/// `lead` garbage-free padding bytes (ASCII) precede the first value so that offsets[0] == lead (a sliced
/// array). Returns (array, value bytes, concrete offsets). Widths are concrete (grid rule), scalars symbolic.
fn mk_rows<const LEAD: usize>(w: [[u8; 2]; 2], valid: Option<u8>) -> (GenericByteArray<Utf8Type>, [u8; 24], [usize; 3]) {
    let mut buf = [b'.'; 24];
    let mut pos = LEAD;
    let mut offs = [LEAD; 3];
    let mut r = 0;
    while r < 2 {
        let mut c = 0;
        while c < 2 {
            // advance by the CONCRETE width (put() returns the same number, but only under the assume)
            if w[r][c] != 0 { let n = put(&mut buf, pos, sym_char_w(w[r][c])); assert!(n == w[r][c] as usize); pos += w[r][c] as usize; }
            c += 1;
        }
        offs[r + 1] = pos;
        r += 1;
    }
    let ob = OffsetBuffer::<i32>::new(ScalarBuffer::from(vec![offs[0] as i32, offs[1] as i32, offs[2] as i32]));
    let nulls = valid.map(|b| NullBuffer::new(BooleanBuffer::new(Buffer::from_slice_ref(&[b]), 0, 2)));
    // SAFETY: offsets are monotone and in bounds, every value is the UTF-8 encoding of scalar values
    let a = unsafe { GenericByteArray::<Utf8Type>::new_unchecked(ob, Buffer::from_slice_ref(&buf[..pos]), nulls) };
    (a, buf, offs)
}

// Contract (C20, "element-wise concatenation ... outputs are valid UTF-8"): for two 2-row StringArrays with
// the given CONCRETE per-char byte widths (grid rule: every allocation size concrete), symbolic scalar
// values of those widths, symbolic validity bitmaps (or none), first value starting at byte LEAD (sliced
// input):
//   Ok(out); out has 2 rows; offsets == [0, |l0|+|r0|, |l0|+|r0|+|l1|+|r1|] (prefix sums);
//   row k valid <=> left row k valid && right row k valid;
//   bytes of row k == bytes(left row k) ++ bytes(right row k): the encoding of the concatenated scalar
//   sequences, hence valid UTF-8 by construction.
// Stubs: alloc::fmt::format.
macro_rules! concat_unit {
    ($name:ident, $lw:expr, $rw:expr, $llead:expr, $rlead:expr, $bitmaps:tt) => {
        #[kani::proof]
        #[kani::unwind(26)]
        #[kani::stub(alloc::fmt::format, stub_format)]
        fn $name() {
            let (lbits, rbits): (u8, u8) = (kani::any(), kani::any());
            let (l, lb, lo) = mk_rows::<{ $llead }>($lw, sel!($bitmaps, Some(lbits), None));
            let (r, rb, ro) = mk_rows::<{ $rlead }>($rw, sel!($bitmaps, Some(rbits), Some(rbits)));
            let out = concat_elements_bytes::<Utf8Type>(&l, &r);
            assert!(out.is_ok());
            if let Ok(o) = &out {
                assert!(o.len() == 2);
                let offs = o.value_offsets();
                assert!(offs.len() == 3 && offs[0] == 0);
                let mut acc = 0usize;
                let mut k = 0;
                while k < 2 {
                    let (ll, rl) = (lo[k + 1] - lo[k], ro[k + 1] - ro[k]);
                    assert!(offs[k + 1] as usize == acc + ll + rl);
                    let v: &[u8] = o.value(k).as_bytes();
                    assert!(v.len() == ll + rl);
                    let mut j = 0;
                    while j < ll + rl {
                        let want = if j < ll { lb[lo[k] + j] } else { rb[ro[k] + j - ll] };
                        assert!(v[j] == want);
                        j += 1;
                    }
                    let lv = sel!($bitmaps, (lbits >> k) & 1 == 1, true);
                    let rv = (rbits >> k) & 1 == 1;
                    assert!(o.is_valid(k) == (lv && rv));
                    acc += ll + rl;
                    k += 1;
                }
                kani::cover!(o.is_valid(0) && !o.is_valid(1));
                kani::cover!(o.is_valid(1));
            }
            std::mem::forget(out);
            std::mem::forget(l);
            std::mem::forget(r);
        }
    };
}
macro_rules! sel { (true, $a:expr, $b:expr) => { $a }; (false, $a:expr, $b:expr) => { $b }; }

// rows: left ["A é", ""], right ["€", "b c"]  (widths)
// NOT CONFIRMED under load (never seen to finish on the shared machine, load 40-75): keep tier=thorough until re-measured
// @unit name=concat_utf8_shape_a props=C20 kind=bounded bound=rows=2_widths_l[(1,2),()]_r[(3),(1,1)]_scalars_and_validity_symbolic fns=concat_elements_bytes,concat_elements_utf8 timeout=900 mem=6 tier=thorough
concat_unit!(concat_utf8_shape_a, [[1, 2], [0, 0]], [[3, 0], [1, 1]], 0, 0, true);
// sliced inputs (offsets[0] = 2 / 1), 4-byte scalar, left without validity bitmap
// NOT CONFIRMED under load (never seen to finish on the shared machine, load 40-75): keep tier=thorough until re-measured
// @unit name=concat_utf8_shape_b_sliced props=C20 kind=bounded bound=rows=2_widths_l[(4),(1)]_r[(),(2,1)]_first_offsets_2_and_1_scalars_and_validity_symbolic fns=concat_elements_bytes,concat_elements_utf8 timeout=900 mem=6 tier=thorough
concat_unit!(concat_utf8_shape_b_sliced, [[4, 0], [1, 0]], [[0, 0], [2, 1]], 2, 1, false);

// Contract: arrays of different lengths are rejected with Err (no panic).  Stubs: alloc::fmt::format.
// @unit name=concat_utf8_length_mismatch props=C20 kind=bounded bound=lengths_2_vs_1 fns=concat_elements_bytes timeout=600 mem=4 tier=thorough
#[kani::proof]
#[kani::unwind(26)]
#[kani::stub(alloc::fmt::format, stub_format)]
fn concat_utf8_length_mismatch() {
    let (l, _lb, _lo) = mk_rows::<0>([[1, 0], [1, 0]], None);
    let ob = OffsetBuffer::<i32>::new(ScalarBuffer::from(vec![0i32, 1]));
    let r = unsafe { GenericByteArray::<Utf8Type>::new_unchecked(ob, Buffer::from_slice_ref(&[b'x']), None) };
    let out = concat_elements_bytes::<Utf8Type>(&l, &r);
    assert!(out.is_err());
    kani::cover!(out.is_err());
    std::mem::forget(out);
    std::mem::forget(l);
    std::mem::forget(r);
}
