// Kani contract harnesses for /repo/arrow-string/src/substring.rs (child module: sees private items via super::)
use super::*;
#[path = "/verif/kani/support/spec.rs"]
mod spec;
use spec::*;
use arrow_buffer::{BooleanBuffer, Buffer, ScalarBuffer};

// ---------------------------------------------------------------------------------------------
// model helpers (spec side)
// ---------------------------------------------------------------------------------------------
/// a symbolic scalar value: any ASCII char, or one 2-byte ('é'), 3-byte ('€'), 4-byte ('😀') scalar
fn sym_char() -> char {
    let k: u8 = kani::any();
    kani::assume(k <= 0x82);
    if k < 0x80 { k as char } else if k == 0x80 { 'é' } else if k == 0x81 { '€' } else { '😀' }
}
/// a symbolic Unicode scalar value whose UTF-8 encoding has exactly `w` bytes (full range of that class)
fn sym_char_w(w: u8) -> char {
    let u: u32 = kani::any();
    match w {
        1 => kani::assume(u < 0x80),
        2 => kani::assume(u >= 0x80 && u < 0x800),
        3 => kani::assume(u >= 0x800 && u < 0x10000 && !(u >= 0xD800 && u < 0xE000)),
        _ => kani::assume(u >= 0x10000 && u < 0x110000),
    }
    char::from_u32(u).unwrap()
}
fn width(c: char) -> usize { let u = c as u32; if u < 0x80 { 1 } else if u < 0x800 { 2 } else if u < 0x10000 { 3 } else { 4 } }
/// hand-written UTF-8 encoder
fn put(buf: &mut [u8], pos: usize, c: char) -> usize {
    let u = c as u32;
    if u < 0x80 { buf[pos] = u as u8; 1 }
    else if u < 0x800 { buf[pos] = 0xC0 | (u >> 6) as u8; buf[pos + 1] = 0x80 | (u & 0x3F) as u8; 2 }
    else if u < 0x10000 { buf[pos] = 0xE0 | (u >> 12) as u8; buf[pos + 1] = 0x80 | ((u >> 6) & 0x3F) as u8; buf[pos + 2] = 0x80 | (u & 0x3F) as u8; 3 }
    else { buf[pos] = 0xF0 | (u >> 18) as u8; buf[pos + 1] = 0x80 | ((u >> 12) & 0x3F) as u8; buf[pos + 2] = 0x80 | ((u >> 6) & 0x3F) as u8; buf[pos + 3] = 0x80 | (u & 0x3F) as u8; 4 }
}
fn str_of(buf: &[u8], len: usize) -> &str { unsafe { std::str::from_utf8_unchecked(&buf[..len]) } }

/// char-index window [a, b) of a string of n chars for (start, length): the straightforward definition.
///   start >= 0: a = min(start, n);   start < 0: a = max(n - |start|, 0);   b = min(a + length, n) or n.
/// (mathematical integers: i128)
fn window(n: usize, start: i64, length: Option<usize>) -> (usize, usize) {
    let n = n as i128;
    let s = start as i128;
    let a = if s >= 0 { if s < n { s } else { n } } else { if n + s > 0 { n + s } else { 0 } };
    let b = match length { None => n, Some(l) => { let e = a + l as i128; if e < n { e } else { n } } };
    (a as usize, b as usize)
}

// ---------------------------------------------------------------------------------------------
// index arithmetic of substring_by_char: FULL domain of start and length
// ---------------------------------------------------------------------------------------------

// Contract (C20, character-based substring): for every string of <= 3 scalar values (each any ASCII char or
// a 2-, 3-, 4-byte scalar), EVERY start: i64 and EVERY length: Option<usize>:
//   utf8_bounds(val, start, length) == (byte offset of char index a, byte offset of char index b) where
//   [a, b) = window(n_chars, start, length); in particular both lie on char boundaries, a <= b <= len.
// @unit name=utf8_bounds_def props=C20 kind=bounded bound=value<=3_chars_of_1..4_bytes_start_and_length_full_domain fns=utf8_bounds timeout=900 mem=4 tier=thorough
#[kani::proof]
#[kani::unwind(8)]
fn utf8_bounds_def() {
    let c: [char; 3] = [sym_char(), sym_char(), sym_char()];
    let n: usize = kani::any();
    kani::assume(n <= 3);
    let mut buf = [0u8; 12];
    let mut off = [0usize; 4];           // off[i] = byte offset of char index i (off[n] = len)
    let mut i = 0;
    while i < 3 { off[i + 1] = if i < n { off[i] + put(&mut buf, off[i], c[i]) } else { off[i] }; i += 1; }
    let len = off[n];
    let start: i64 = kani::any();
    let length: Option<usize> = kani::any();
    let (a, b) = window(n, start, length);
    let (s, e) = utf8_bounds(str_of(&buf, len), start, length);
    assert!(s == off[a] && e == off[b]);
    assert!(s <= e && e <= len);
    kani::cover!(start < 0 && a > 0 && b < n);
    kani::cover!(start > 0 && a < n && b < n && off[a] > a);
    kani::cover!(start == i64::MIN);
    kani::cover!(matches!(length, Some(l) if l == usize::MAX));
    kani::cover!(start < -3 && n == 3);
    kani::cover!(start > 3);
}

// Contract (C20): the ASCII fast path: for every ASCII string of <= 4 bytes, every start: i64 and every
// length: Option<usize>: ascii_bounds(val, start, length) == window(len, start, length) (1 char = 1 byte).
// @unit name=ascii_bounds_def props=C20 kind=bounded bound=value<=4_ascii_bytes_start_and_length_full_domain fns=ascii_bounds timeout=300
#[kani::proof]
#[kani::unwind(8)]
fn ascii_bounds_def() {
    let b: [u8; 4] = kani::any();
    let n: usize = kani::any();
    kani::assume(n <= 4 && b[0] < 0x80 && b[1] < 0x80 && b[2] < 0x80 && b[3] < 0x80);
    let start: i64 = kani::any();
    let length: Option<usize> = kani::any();
    let got = ascii_bounds(str_of(&b, n), start, length);
    assert!(got == window(n, start, length));
    kani::cover!(start < 0 && got.0 > 0 && got.1 < n);
    kani::cover!(start == i64::MIN);
    kani::cover!(matches!(length, Some(l) if l == usize::MAX) && start > 0);
}

// ---------------------------------------------------------------------------------------------
// array level
// ---------------------------------------------------------------------------------------------
macro_rules! sel { (true, $a:expr, $b:expr) => { $a }; (false, $a:expr, $b:expr) => { $b }; }

/// Build a 2-row StringArray with concrete per-char widths (0 = absent), symbolic scalars of that width.
/// Returns (array, bytes, byte offsets of the rows [3], char boundary flags per byte position).
fn mk_rows(w: [[u8; 3]; 2], valid: Option<u8>) -> (GenericStringArray<i32>, [u8; 24], [usize; 3], [bool; 25]) {
    let mut buf = [0u8; 24];
    let mut boundary = [false; 25];
    let mut pos = 0usize;
    let mut offs = [0usize; 3];
    let mut r = 0;
    while r < 2 {
        let mut c = 0;
        while c < 3 {
            if w[r][c] != 0 {
                boundary[pos] = true;
                let n = put(&mut buf, pos, sym_char_w(w[r][c]));
                assert!(n == w[r][c] as usize);
                pos += w[r][c] as usize;           // concrete advance (grid rule)
            }
            c += 1;
        }
        boundary[pos] = true;
        offs[r + 1] = pos;
        r += 1;
    }
    let ob = OffsetBuffer::<i32>::new(ScalarBuffer::from(vec![offs[0] as i32, offs[1] as i32, offs[2] as i32]));
    let nulls = valid.map(|b| NullBuffer::new(BooleanBuffer::new(Buffer::from_slice_ref(&[b]), 0, 2)));
    // SAFETY: offsets monotone and in bounds; values are encodings of scalar values
    let a = unsafe { GenericStringArray::<i32>::new_unchecked(ob, Buffer::from_slice_ref(&buf[..pos]), nulls) };
    (a, buf, offs, boundary)
}
fn nchars(w: [u8; 3]) -> usize { (w[0] != 0) as usize + (w[1] != 0) as usize + (w[2] != 0) as usize }
/// byte offset (within the row) of char index i for the concrete width row w (chars are packed from index 0)
fn char_off(w: [u8; 3], i: usize) -> usize {
    let mut o = 0; let mut k = 0; let mut seen = 0;
    while k < 3 { if w[k] != 0 { if seen < i { o += w[k] as usize; } seen += 1; } k += 1; }
    o
}

// Contract (C20, character-based substring on arrays; "outputs are valid UTF-8"): for a 2-row StringArray of
// the given concrete char widths with symbolic scalars and symbolic validity, CONCRETE (start, length)
// (grid rule: the output allocation is sized from them):
//   Ok(out), 2 rows, validity preserved, offsets = prefix sums of the row results (null rows contribute 0),
//   every valid row k == the bytes of chars [a,b) of input row k, [a,b) = window(n_chars(k), start, length);
//   i.e. a char-indexed slice of the model (valid UTF-8 by construction).
// The index arithmetic for ALL start/length is covered by utf8_bounds_def / ascii_bounds_def.
macro_rules! by_char_unit {
    ($name:ident, $w:expr, $start:expr, $length:expr) => {
        #[kani::proof]
        #[kani::unwind(26)]
        #[kani::stub(alloc::fmt::format, stub_format)]
        fn $name() {
            const W: [[u8; 3]; 2] = $w;
            let bits: u8 = kani::any();
            let (arr, buf, offs, _bd) = mk_rows(W, Some(bits));
            let out = substring_by_char::<i32>(&arr, $start, $length);
            assert!(out.is_ok());
            if let Ok(o) = &out {
                assert!(o.len() == 2);
                let oo = o.value_offsets();
                assert!(oo.len() == 3 && oo[0] == 0);
                let mut acc = 0usize;
                let mut k = 0;
                while k < 2 {
                    let valid = (bits >> k) & 1 == 1;
                    assert!(o.is_valid(k) == valid);
                    let lopt: Option<u64> = $length;
                    let (a, b) = window(nchars(W[k]), $start, lopt.map(|l| l as usize));
                    let (ba, bb) = (char_off(W[k], a), char_off(W[k], b));
                    let want_len = if valid { bb - ba } else { 0 };
                    assert!(oo[k + 1] as usize == acc + want_len);
                    if valid {
                        let v = o.value(k).as_bytes();
                        assert!(v.len() == want_len);
                        let mut j = 0;
                        while j < want_len { assert!(v[j] == buf[offs[k] + ba + j]); j += 1; }
                    }
                    acc += want_len;
                    k += 1;
                }
                kani::cover!(o.is_valid(0) && !o.is_valid(1));
                kani::cover!(o.is_valid(1));
            }
            std::mem::forget(out);
            std::mem::forget(arr);
        }
    };
}
// rows ["aé€", "b😀"] (widths), non-ASCII path
// NOT CONFIRMED under load (never seen to finish on the shared machine, load 40-75): keep tier=thorough until re-measured
// @unit name=substring_by_char_utf8_s1_l1 props=C20 kind=bounded bound=rows=2_widths[(1,2,3),(1,4)]_start=1_length=1_scalars_and_validity_symbolic fns=substring_by_char,substring_by_char_impl,utf8_bounds timeout=900 mem=6 tier=thorough
by_char_unit!(substring_by_char_utf8_s1_l1, [[1, 2, 3], [1, 4, 0]], 1, Some(1u64));
// NOT CONFIRMED under load (never seen to finish on the shared machine, load 40-75): keep tier=thorough until re-measured
// @unit name=substring_by_char_utf8_sneg2_none props=C20 kind=bounded bound=rows=2_widths[(1,2,3),(1,4)]_start=-2_length=None_scalars_and_validity_symbolic fns=substring_by_char,substring_by_char_impl,utf8_bounds timeout=900 mem=6 tier=thorough
by_char_unit!(substring_by_char_utf8_sneg2_none, [[1, 2, 3], [1, 4, 0]], -2, None::<u64>);
// rows ["abc", "d"], ASCII fast path
// NOT CONFIRMED under load (never seen to finish on the shared machine, load 40-75): keep tier=thorough until re-measured
// @unit name=substring_by_char_ascii_sneg2_l1 props=C20 kind=bounded bound=rows=2_widths[(1,1,1),(1)]_start=-2_length=1_scalars_and_validity_symbolic fns=substring_by_char,substring_by_char_impl,ascii_bounds timeout=900 mem=6 tier=thorough
by_char_unit!(substring_by_char_ascii_sneg2_l1, [[1, 1, 1], [1, 0, 0]], -2, Some(1u64));

// Contract (C20, byte-based substring on a Utf8 array: "outputs are valid UTF-8 or an error is returned"):
// for a 2-row StringArray of the given concrete widths (symbolic scalars, symbolic validity) and CONCRETE
// (start, length) counted in BYTES: with, per row of byte length L (mathematical integers)
//     a = min(start, L) if start >= 0 else max(L + start, 0);   b = min(a + length, L) or L
//   byte_substring returns Err  <=>  for some row (valid or null) a or b is not a char boundary;
//   otherwise Ok(out): 2 rows, validity preserved, offsets = prefix sums of (b - a), row k == bytes [a,b)
//   of input row k - a byte-indexed slice that starts and ends on char boundaries, hence valid UTF-8.
//   It never panics.
// Stubs: alloc::fmt::format.
macro_rules! byte_sub_unit {
    ($name:ident, $w:expr, $start:expr, $length:expr, $expect_ok:tt) => {
        #[kani::proof]
        #[kani::unwind(26)]
        #[kani::stub(alloc::fmt::format, stub_format)]
        fn $name() {
            const W: [[u8; 3]; 2] = $w;
            const START: i32 = $start;
            const LENGTH: Option<i32> = $length;
            let bits: u8 = kani::any();
            let (arr, buf, offs, bd) = mk_rows(W, Some(bits));
            let out = byte_substring::<GenericStringType<i32>>(&arr, START, LENGTH);
            // model
            let mut ab = [(0usize, 0usize); 2];
            let mut split = false;
            let mut k = 0;
            while k < 2 {
                let l = (offs[k + 1] - offs[k]) as i64;
                let s = START as i64;
                let a = if s >= 0 { if s < l { s } else { l } } else { if l + s > 0 { l + s } else { 0 } };
                let b = match LENGTH { None => l, Some(n) => { let e = a + n as i64; if e < l { e } else { l } } };
                ab[k] = (a as usize, b as usize);
                if !bd[offs[k] + a as usize] || !bd[offs[k] + b as usize] { split = true; }
                k += 1;
            }
            assert!(out.is_err() == split);
            if let Ok(r) = &out {
                let o = r.as_string_opt::<i32>();
                assert!(o.is_some());
                let o = o.unwrap();
                assert!(o.len() == 2);
                let oo = o.value_offsets();
                assert!(oo.len() == 3 && oo[0] == 0);
                let mut acc = 0usize;
                let mut k = 0;
                while k < 2 {
                    let (a, b) = ab[k];
                    assert!(o.is_valid(k) == ((bits >> k) & 1 == 1));
                    assert!(oo[k + 1] as usize == acc + (b - a));
                    let v = o.value(k).as_bytes();
                    assert!(v.len() == b - a);
                    let mut j = 0;
                    while j < b - a { assert!(v[j] == buf[offs[k] + a + j]); j += 1; }
                    acc += b - a;
                    k += 1;
                }
            }
            sel!($expect_ok, kani::cover!(out.is_ok()), kani::cover!(out.is_err()));
            std::mem::forget(out);
            std::mem::forget(arr);
        }
    };
}
// rows ["aé€", "b😀"]: start=1,len=2 -> row0 "é" ok, row1 bytes [1,3) split the 4-byte scalar => Err
// NOT CONFIRMED under load (never seen to finish on the shared machine, load 40-75): keep tier=thorough until re-measured
// @unit name=byte_substring_utf8_split_err props=C20 kind=bounded bound=rows=2_widths[(1,2,3),(1,4)]_start=1_length=2_scalars_and_validity_symbolic fns=byte_substring timeout=900 mem=6 tier=thorough
byte_sub_unit!(byte_substring_utf8_split_err, [[1, 2, 3], [1, 4, 0]], 1, Some(2), false);
// rows ["aé€", "béc"]: start=1,len=2 -> "é", "é" (Ok)
// NOT CONFIRMED under load (never seen to finish on the shared machine, load 40-75): keep tier=thorough until re-measured
// @unit name=byte_substring_utf8_ok props=C20 kind=bounded bound=rows=2_widths[(1,2,3),(1,2,1)]_start=1_length=2_scalars_and_validity_symbolic fns=byte_substring timeout=900 mem=6 tier=thorough
byte_sub_unit!(byte_substring_utf8_ok, [[1, 2, 3], [1, 2, 1]], 1, Some(2), true);
// negative start: rows ["aé€", "b€"]: start=-3 -> "€", "€" (Ok)
// NOT CONFIRMED under load (never seen to finish on the shared machine, load 40-75): keep tier=thorough until re-measured
// @unit name=byte_substring_utf8_neg_start props=C20 kind=bounded bound=rows=2_widths[(1,2,3),(1,3)]_start=-3_length=None_scalars_and_validity_symbolic fns=byte_substring timeout=900 mem=6 tier=thorough
byte_sub_unit!(byte_substring_utf8_neg_start, [[1, 2, 3], [1, 3, 0]], -3, None, true);
