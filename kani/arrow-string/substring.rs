// Kani contract harnesses for /repo/arrow-string/src/substring.rs (child module: sees private items via super::)
