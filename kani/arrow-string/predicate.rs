// Kani contract harnesses for /repo/arrow-string/src/predicate.rs (child module: sees private items via super::)
use super::*;
#[path = "/verif/kani/support/spec.rs"]
mod spec;
use spec::*;
// Stub targets are named through `use` items of THIS crate: an absolute path `memchr::...` in #[kani::stub]
// resolves to the copy of the memchr crate that std itself links, the stub is then reported as applied but
// never takes effect (measured: cpuid inline asm still reached).
use memchr::memchr as dep_memchr;
use memchr::arch::x86_64::avx2::packedpair::Finder as Avx2PackedPair;
use memchr::arch::x86_64::sse2::packedpair::Finder as Sse2PackedPair;

// =============================================================================================
// Stubs (assumed dependency contracts; every harness lists the ones it uses)
//  * memchr3 (as imported by predicate.rs) -> naive_memchr3, memchr::memchr -> naive_memchr: index of the first
//    byte equal to (one of) the needle byte(s), None if there is none (memchr's documented contract; the
//    real ones reach runtime CPU-feature dispatch = cpuid inline asm, which Kani cannot execute).
//  * memchr::arch::x86_64::{avx2,sse2}::packedpair::Finder::is_available -> false: memmem then takes its
//    portable path (Rabin-Karp for haystacks < 16 bytes), which is executed for real.
//    (Stubbing Finder::new / Finder::find directly is rejected by Kani 0.68: methods of a
//    lifetime-generic impl cannot be matched by a free function.)
//  * regex_like (this file) -> stub_regex_like: returns Err(sentinel). Regex strategies are NOT decided
//    by these units; `Err` from like()/ilike() under this stub means "classified as Regex".
// =============================================================================================
fn naive_memchr3(a: u8, b: u8, c: u8, h: &[u8]) -> Option<usize> {
    let mut i = 0;
    while i < h.len() {
        if h[i] == a || h[i] == b || h[i] == c { return Some(i); }
        i += 1;
    }
    None
}
fn naive_memchr(a: u8, h: &[u8]) -> Option<usize> {
    let mut i = 0;
    while i < h.len() {
        if h[i] == a { return Some(i); }
        i += 1;
    }
    None
}
fn not_available() -> bool { false }
// Regex::is_match is never reached with a real Regex (regex_like is stubbed), but `evaluate` matches on the
// variant and CBMC would otherwise symbolically execute the whole regex engine (measured: 3.7 M symex steps,
// out of memory, even for a concrete pattern).
fn stub_is_match(_r: &Regex, _h: &str) -> bool { false }
fn stub_regex_like(_pattern: &str, _ci: bool) -> Result<Regex, ArrowError> { Err(ArrowError::DivideByZero) }

// =============================================================================================
// Model: strings are sequences of Unicode scalar values; LIKE semantics on `char`s.
// =============================================================================================
const MAXP: usize = 4; // pattern chars
const MAXH: usize = 3; // haystack chars

/// a symbolic scalar value: any ASCII char, or one 2-byte ('é'), 3-byte ('€'), 4-byte ('😀') scalar
fn sym_char() -> char {
    let k: u8 = kani::any();
    kani::assume(k <= 0x82);
    if k < 0x80 { k as char } else if k == 0x80 { 'é' } else if k == 0x81 { '€' } else { '😀' }
}
/// a symbolic scalar from the LIKE-relevant alphabet {'%','_','\\','a','b','é','€'}
fn sym_like_char() -> char {
    let k: u8 = kani::any();
    kani::assume(k < 7);
    ['%', '_', '\\', 'a', 'b', 'é', '€'][k as usize]
}
/// hand-written UTF-8 encoder (spec side), returns number of bytes written at buf[pos..]
fn put(buf: &mut [u8], pos: usize, c: char) -> usize {
    let u = c as u32;
    if u < 0x80 { buf[pos] = u as u8; 1 }
    else if u < 0x800 { buf[pos] = 0xC0 | (u >> 6) as u8; buf[pos + 1] = 0x80 | (u & 0x3F) as u8; 2 }
    else if u < 0x10000 { buf[pos] = 0xE0 | (u >> 12) as u8; buf[pos + 1] = 0x80 | ((u >> 6) & 0x3F) as u8; buf[pos + 2] = 0x80 | (u & 0x3F) as u8; 3 }
    else { buf[pos] = 0xF0 | (u >> 18) as u8; buf[pos + 1] = 0x80 | ((u >> 12) & 0x3F) as u8; buf[pos + 2] = 0x80 | ((u >> 6) & 0x3F) as u8; buf[pos + 3] = 0x80 | (u & 0x3F) as u8; 4 }
}
/// encode the first n chars of cs into buf; returns the byte length
fn encode<const N: usize>(cs: &[char; N], n: usize, buf: &mut [u8]) -> usize {
    let mut len = 0;
    let mut i = 0;
    while i < N { if i < n { len += put(buf, len, cs[i]); } i += 1; }
    len
}

#[derive(Clone, Copy, PartialEq)]
enum Tok { AnySeq, AnyOne, Lit(char) }

/// LIKE tokens of a pattern given as chars: `%` any sequence (incl. empty, incl. newlines), `_` exactly
/// one char, `\x` the literal x (also for x in {%,_,\}), a trailing lone `\` a literal backslash.
fn tokens(p: &[char; MAXP], pn: usize) -> ([Tok; MAXP], usize) {
    let mut t = [Tok::AnySeq; MAXP];
    let mut tn = 0;
    let mut i = 0;
    while i < pn {
        let c = p[i];
        if c == '\\' {
            if i + 1 < pn { t[tn] = Tok::Lit(p[i + 1]); i += 2; } else { t[tn] = Tok::Lit('\\'); i += 1; }
        } else if c == '%' { t[tn] = Tok::AnySeq; i += 1; }
        else if c == '_' { t[tn] = Tok::AnyOne; i += 1; }
        else { t[tn] = Tok::Lit(c); i += 1; }
        tn += 1;
    }
    (t, tn)
}
fn fold(c: char, ci: bool) -> char { if ci && c >= 'A' && c <= 'Z' { ((c as u8) + 32) as char } else { c } }

/// Reference LIKE matcher on chars (exhaustive: m[i][j] <=> tokens[i..] matches h[j..]; equivalent to
/// naive backtracking, written as a table so that all loops have constant bounds).
/// `ci`: literals compare under ASCII case folding.
fn like_match(p: &[char; MAXP], pn: usize, h: &[char; MAXH], hn: usize, ci: bool) -> bool {
    let (t, tn) = tokens(p, pn);
    let mut m = [[false; MAXH + 1]; MAXP + 1];
    let mut ii = 0;
    while ii <= MAXP {
        let i = MAXP - ii;               // i from MAXP down to 0
        if i <= tn {
            let mut jj = 0;
            while jj <= MAXH {
                let j = MAXH - jj;       // j from MAXH down to 0
                if j <= hn {
                    m[i][j] = if i == tn { j == hn } else {
                        match t[i] {
                            Tok::AnySeq => m[i + 1][j] || (j < hn && m[i][j + 1]),
                            Tok::AnyOne => j < hn && m[i + 1][j + 1],
                            Tok::Lit(c) => j < hn && fold(h[j], ci) == fold(c, ci) && m[i + 1][j + 1],
                        }
                    };
                }
                jj += 1;
            }
        }
        ii += 1;
    }
    m[0][0]
}

fn str_of(buf: &[u8], len: usize) -> &str { unsafe { std::str::from_utf8_unchecked(&buf[..len]) } }

// ---------------------------------------------------------------------------------------------
// byte kernels
// ---------------------------------------------------------------------------------------------

// Contract (C20): equals_kernel((a,b)) <=> a == b; equals_ignore_ascii_case_kernel((a,b)) <=> a and b are
// equal after mapping b'A'..=b'Z' to b'a'..=b'z' (ASCII case folding; no other byte is folded). All 2^16 pairs.
// @unit name=byte_kernels props=C20 kind=complete fns=equals_kernel,equals_ignore_ascii_case_kernel timeout=60
#[kani::proof]
fn byte_kernels() {
    let (a, b): (u8, u8) = (kani::any(), kani::any());
    let f = |x: u8| if x >= b'A' && x <= b'Z' { x + 32 } else { x };
    assert!(equals_kernel((&a, &b)) == (a == b));
    assert!(equals_ignore_ascii_case_kernel((&a, &b)) == (f(a) == f(b)));
    kani::cover!(a != b && equals_ignore_ascii_case_kernel((&a, &b)));
    kani::cover!(a == b'@' && b == b'`');        // differ by 0x20 but are not letters
}

// Contract (C20): equals_bytes(l, r, k) <=> same length and k holds at every position, for every pair of
// byte slices of <= 6 bytes (symbolic lengths and contents), for both kernels.
// @unit name=equals_bytes_def props=C20 kind=bounded bound=each_slice<=6_bytes fns=equals_bytes,equals_kernel,equals_ignore_ascii_case_kernel timeout=240
#[kani::proof]
#[kani::unwind(8)]
fn equals_bytes_def() {
    let (lb, rb): ([u8; 6], [u8; 6]) = (kani::any(), kani::any());
    let (ln, rn): (usize, usize) = (kani::any(), kani::any());
    kani::assume(ln <= 6 && rn <= 6);
    let f = |x: u8| if x >= b'A' && x <= b'Z' { x + 32 } else { x };
    let (mut same, mut same_ci) = (ln == rn, ln == rn);
    let mut i = 0;
    while i < 6 {
        if i < ln && i < rn { if lb[i] != rb[i] { same = false; } if f(lb[i]) != f(rb[i]) { same_ci = false; } }
        i += 1;
    }
    assert!(equals_bytes(&lb[..ln], &rb[..rn], equals_kernel) == same);
    assert!(equals_bytes(&lb[..ln], &rb[..rn], equals_ignore_ascii_case_kernel) == same_ci);
    kani::cover!(same && ln == 6);
    kani::cover!(!same && same_ci && ln == 3);
    kani::cover!(ln != rn);
}

// Contract (C20, starts_with / ends_with "return the result of the straightforward definition on Unicode
// scalar values"): for every haystack of <= 3 scalars and needle of <= 3 scalars (each scalar any ASCII
// char or a 2-, 3-, 4-byte scalar), both given as valid UTF-8:
//   starts_with(h, n, equals_kernel) <=> the char sequence of n is a prefix of the char sequence of h
//   ends_with  (h, n, equals_kernel) <=> ... a suffix ...
// and with equals_ignore_ascii_case_kernel the same under ASCII case folding of both sides
// (A-Z ~ a-z only; non-ASCII scalars compare exactly).
// @unit name=starts_ends_with_chars props=C20 kind=bounded bound=haystack<=3_chars_needle<=3_chars_of_1..4_bytes fns=starts_with,ends_with,equals_kernel,equals_ignore_ascii_case_kernel timeout=900 mem=4 tier=thorough
#[kani::proof]
#[kani::unwind(14)]
fn starts_ends_with_chars() {
    let h: [char; 3] = [sym_char(), sym_char(), sym_char()];
    let n: [char; 3] = [sym_char(), sym_char(), sym_char()];
    let (hn, nn): (usize, usize) = (kani::any(), kani::any());
    kani::assume(hn <= 3 && nn <= 3);
    let (mut hb, mut nb) = ([0u8; 12], [0u8; 12]);
    let hl = encode(&h, hn, &mut hb);
    let nl = encode(&n, nn, &mut nb);
    let (hs, ns) = (str_of(&hb, hl), str_of(&nb, nl));

    let (mut pre, mut suf, mut pre_ci, mut suf_ci) = (nn <= hn, nn <= hn, nn <= hn, nn <= hn);
    let mut i = 0;
    while i < 3 {
        if i < nn && nn <= hn {
            if h[i] != n[i] { pre = false; }
            if fold(h[i], true) != fold(n[i], true) { pre_ci = false; }
            if h[hn - nn + i] != n[i] { suf = false; }
            if fold(h[hn - nn + i], true) != fold(n[i], true) { suf_ci = false; }
        }
        i += 1;
    }
    assert!(starts_with(hs, ns, equals_kernel) == pre);
    assert!(ends_with(hs, ns, equals_kernel) == suf);
    assert!(starts_with(hs, ns, equals_ignore_ascii_case_kernel) == pre_ci);
    assert!(ends_with(hs, ns, equals_ignore_ascii_case_kernel) == suf_ci);
    kani::cover!(pre && nn == 2 && hl > 4);
    kani::cover!(suf && !pre && nn == 2);
    kani::cover!(pre_ci && !pre);
    kani::cover!(nl > hl);
    kani::cover!(nn == 0);
}

// Contract (C20): contains_like_pattern(p) <=> some byte of p is '%', '_' or '\\' (for valid UTF-8 this is
// the same as "some char of p is one of the three": they are ASCII and never occur inside a multi-byte
// sequence), for every p of <= 3 scalars.  Stubs: memchr3 -> naive_memchr3.
// @unit name=contains_like_pattern_def props=C20 kind=bounded bound=pattern<=3_chars_of_1..4_bytes fns=contains_like_pattern timeout=240
#[kani::proof]
#[kani::unwind(14)]
#[kani::stub(memchr3, naive_memchr3)]
fn contains_like_pattern_def() {
    let p: [char; 3] = [sym_char(), sym_char(), sym_char()];
    let pn: usize = kani::any();
    kani::assume(pn <= 3);
    let mut pb = [0u8; 12];
    let pl = encode(&p, pn, &mut pb);
    let mut want = false;
    let mut i = 0;
    while i < 3 { if i < pn && (p[i] == '%' || p[i] == '_' || p[i] == '\\') { want = true; } i += 1; }
    assert!(contains_like_pattern(str_of(&pb, pl)) == want);
    kani::cover!(want && pl > 3);
    kani::cover!(!want && pl > 3);
}

// ---------------------------------------------------------------------------------------------
// LIKE / ILIKE classification + evaluation of the non-regex strategies
// ---------------------------------------------------------------------------------------------

/// structural soundness of a non-regex classification w.r.t. the pattern chars: returns the literal part
/// (start, len in chars) the strategy must carry, or None if this shape may not be chosen.
fn clean(p: &[char; MAXP], from: usize, to: usize) -> bool {
    let mut ok = true;
    let mut i = 0;
    while i < MAXP { if i >= from && i < to && (p[i] == '%' || p[i] == '_' || p[i] == '\\') { ok = false; } i += 1; }
    ok
}

// Contract (C20, LIKE with `%`, `_` and backslash escapes on Unicode scalar values): for EVERY pattern of
// <= 4 scalars over {'%','_','\\','a','b','é'(2 bytes),'€'(3 bytes)} and EVERY haystack of <= 3 scalars
// over the same alphabet: if Predicate::like(pattern) picks a non-Regex strategy then
//   (a) evaluate(haystack) == reference LIKE matcher on chars (% = any sequence incl. empty, _ = exactly
//       one char, \x = literal x), and
//   (b) the literal carried by Eq/StartsWith/EndsWith/Contains is exactly the pattern minus its leading
//       and/or trailing unescaped `%`, and contains no '%', '_' or '\\' (so no wildcard or escape is ever
//       treated as a literal, and `_` can never match a byte instead of a char).
// Patterns classified Regex (Err under the stub) are undecided here.
// Stubs: memchr3/memchr -> naive; avx2/sse2 is_available -> false (portable memmem runs for real);
//        regex_like -> Err sentinel; alloc::fmt::format.
// confirmed at machine load ~40: 876 s
// @unit name=like_nonregex_matches_reference props=C20 kind=bounded bound=pattern<=4_chars_haystack<=3_chars_alphabet_of_7_incl_2-_and_3-byte_scalars fns=Predicate::like,Predicate::evaluate,Predicate::contains,contains_like_pattern,starts_with,ends_with timeout=900 mem=6 tier=thorough
#[kani::proof]
#[kani::unwind(14)]
#[kani::stub(memchr3, naive_memchr3)]
#[kani::stub(dep_memchr, naive_memchr)]
#[kani::stub(Avx2PackedPair::is_available, not_available)]
#[kani::stub(Sse2PackedPair::is_available, not_available)]
#[kani::stub(regex_like, stub_regex_like)]
#[kani::stub(Regex::is_match, stub_is_match)]
#[kani::stub(alloc::fmt::format, stub_format)]
fn like_nonregex_matches_reference() {
    let p: [char; MAXP] = [sym_like_char(), sym_like_char(), sym_like_char(), sym_like_char()];
    let h: [char; MAXH] = [sym_like_char(), sym_like_char(), sym_like_char()];
    let (pn, hn): (usize, usize) = (kani::any(), kani::any());
    kani::assume(pn <= MAXP && hn <= MAXH);
    let (mut pb, mut hb) = ([0u8; 12], [0u8; 9]);
    let pl = encode(&p, pn, &mut pb);
    let hl = encode(&h, hn, &mut hb);
    let (ps, hs) = (str_of(&pb, pl), str_of(&hb, hl));

    // `%lit%` shapes (Contains) are decided by the like_contains_* units below (concrete byte lengths:
    // memmem's searcher construction with a symbolic needle length did not finish in 600 s).
    let contains_shape = pn >= 2 && p[0] == '%' && p[pn - 1] == '%' && clean(&p, 1, pn - 1);
    kani::assume(!contains_shape);
    let r = Predicate::like(ps);
    let want = like_match(&p, pn, &h, hn, false);
    let first_pct = pn >= 1 && p[0] == '%';
    let last_pct = pn >= 1 && p[pn - 1] == '%';
    // `evaluate` is called on a freshly built value of the SAME variant with the SAME payload: CBMC does not
    // propagate the variant through the Result returned by like(), and would otherwise symbolically execute
    // every arm of evaluate (memmem's fn-pointer dispatch, the regex engine: 3.7 M steps, out of memory).
    match &r {
        Ok(Predicate::Eq(v)) => {
            assert!(clean(&p, 0, pn));
            assert!(v.as_bytes() == &pb[..pl]);
            let q = Predicate::Eq(*v);
            assert!(q.evaluate(hs) == want);
            kani::cover!(pn == 3 && want);
            kani::cover!(pn == 3 && !want && hn == 3);
            std::mem::forget(q);
        }
        Ok(Predicate::StartsWith(v)) => {
            assert!(last_pct && clean(&p, 0, pn - 1));
            assert!(v.as_bytes() == &pb[..pl - 1]);
            let q = Predicate::StartsWith(*v);
            assert!(q.evaluate(hs) == want);
            kani::cover!(pn == 3 && want && hn == 3);
            kani::cover!(pn == 3 && !want && hn == 3);
            std::mem::forget(q);
        }
        Ok(Predicate::EndsWith(v)) => {
            assert!(first_pct && clean(&p, 1, pn));
            assert!(v.as_bytes() == &pb[1..pl]);
            let q = Predicate::EndsWith(*v);
            assert!(q.evaluate(hs) == want);
            kani::cover!(pn == 3 && want && hn == 3);
            kani::cover!(pn == 3 && !want && hn == 3);
            std::mem::forget(q);
        }
        Ok(_) => assert!(false),     // like() never yields a case-insensitive strategy; Contains shapes are excluded; Regex is Err under the stub
        Err(_) => {
            kani::cover!(pn == 3 && p[1] == '%');      // "a%b"-like patterns go to Regex
            kani::cover!(pn == 2 && p[0] == '\\');     // escapes go to Regex
            kani::cover!(pn == 2 && p[1] == '_');      // `_` goes to Regex
        }
    }
    std::mem::forget(r);
}

// Contract (C20, ILIKE; "only when is_ascii and the pattern is ASCII"): for EVERY pattern of <= 4 ASCII
// chars (all 128 values each), every is_ascii flag and EVERY ASCII haystack of <= 3 chars: if
// Predicate::ilike(pattern, is_ascii) picks a non-Regex strategy then is_ascii holds, the strategy is one
// of the three ASCII case-insensitive ones, evaluate(haystack) == reference LIKE matcher under ASCII case
// folding, and the carried literal is the pattern minus one leading or trailing unescaped `%`, free of
// '%', '_', '\\'. A pattern containing a non-ASCII scalar is always classified Regex (second harness).
// Precondition from the call site (like.rs::op_scalar): is_ascii == true only if every haystack is ASCII.
// Stubs: memchr3 -> naive_memchr3; regex_like -> Err sentinel; alloc::fmt::format.
// NOT CONFIRMED under load (never seen to finish on the shared machine, load 40-75): keep tier=thorough until re-measured
// @unit name=ilike_nonregex_matches_reference props=C20 kind=bounded bound=pattern<=4_ascii_chars_haystack<=3_ascii_chars fns=Predicate::ilike,Predicate::evaluate,contains_like_pattern,starts_with,ends_with timeout=900 mem=6 tier=thorough
#[kani::proof]
#[kani::unwind(14)]
#[kani::stub(memchr3, naive_memchr3)]
#[kani::stub(regex_like, stub_regex_like)]
#[kani::stub(Regex::is_match, stub_is_match)]
#[kani::stub(alloc::fmt::format, stub_format)]
fn ilike_nonregex_matches_reference() {
    let pb: [u8; MAXP] = kani::any();
    let hb: [u8; MAXH] = kani::any();
    let (pn, hn): (usize, usize) = (kani::any(), kani::any());
    kani::assume(pn <= MAXP && hn <= MAXH);
    let mut p = ['a'; MAXP];
    let mut h = ['a'; MAXH];
    let mut i = 0;
    while i < MAXP { kani::assume(pb[i] < 0x80); p[i] = pb[i] as char; i += 1; }
    let mut i = 0;
    while i < MAXH { kani::assume(hb[i] < 0x80); h[i] = hb[i] as char; i += 1; }
    let is_ascii: bool = kani::any();
    let (ps, hs) = (str_of(&pb, pn), str_of(&hb, hn));

    let r = Predicate::ilike(ps, is_ascii);
    let want = like_match(&p, pn, &h, hn, true);
    match &r {
        Ok(Predicate::IEqAscii(v)) => {
            assert!(is_ascii);
            assert!(clean(&p, 0, pn));
            assert!(v.as_bytes() == &pb[..pn]);
            let q = Predicate::IEqAscii(*v);
            assert!(q.evaluate(hs) == want);
            kani::cover!(pn == 3 && want && pb[0] != hb[0]);
            std::mem::forget(q);
        }
        Ok(Predicate::IStartsWithAscii(v)) => {
            assert!(is_ascii);
            assert!(pn >= 1 && p[pn - 1] == '%' && clean(&p, 0, pn - 1));
            assert!(v.as_bytes() == &pb[..pn - 1]);
            let q = Predicate::IStartsWithAscii(*v);
            assert!(q.evaluate(hs) == want);
            kani::cover!(pn == 3 && want && hn == 3 && pb[0] != hb[0]);
            kani::cover!(pn == 3 && !want && hn == 3);
            std::mem::forget(q);
        }
        Ok(Predicate::IEndsWithAscii(v)) => {
            assert!(is_ascii);
            assert!(pn >= 1 && p[0] == '%' && clean(&p, 1, pn));
            assert!(v.as_bytes() == &pb[1..pn]);
            let q = Predicate::IEndsWithAscii(*v);
            assert!(q.evaluate(hs) == want);
            kani::cover!(pn == 3 && want && hn == 3 && pb[2] != hb[2]);
            kani::cover!(pn == 3 && !want && hn == 3);
            std::mem::forget(q);
        }
        Ok(_) => assert!(false),
        Err(_) => {
            kani::cover!(!is_ascii);
            kani::cover!(is_ascii && pn == 3 && pb[0] == b'%' && pb[2] == b'%');   // %x% has no ASCII-ci strategy -> Regex
        }
    }
    std::mem::forget(r);
}

// Contract (C20, ILIKE): a pattern containing a non-ASCII scalar is never given an ASCII-case-insensitive
// byte strategy (Unicode case folding is the regex engine's job): ilike(pattern, any flag) is Regex.
// Stubs: memchr3 -> naive_memchr3; regex_like -> Err sentinel; alloc::fmt::format.
// @unit name=ilike_non_ascii_pattern_is_regex props=C20 kind=bounded bound=pattern<=3_chars_of_1..4_bytes fns=Predicate::ilike timeout=300 mem=3
#[kani::proof]
#[kani::unwind(14)]
#[kani::stub(memchr3, naive_memchr3)]
#[kani::stub(regex_like, stub_regex_like)]
#[kani::stub(Regex::is_match, stub_is_match)]
#[kani::stub(alloc::fmt::format, stub_format)]
fn ilike_non_ascii_pattern_is_regex() {
    let p: [char; 3] = [sym_char(), sym_char(), sym_char()];
    let pn: usize = kani::any();
    kani::assume(pn <= 3);
    let mut pb = [0u8; 12];
    let pl = encode(&p, pn, &mut pb);
    let is_ascii: bool = kani::any();
    let mut non_ascii = false;
    let mut i = 0;
    while i < 3 { if i < pn && (p[i] as u32) >= 0x80 { non_ascii = true; } i += 1; }
    let r = Predicate::ilike(str_of(&pb, pl), is_ascii);
    if non_ascii || !is_ascii { assert!(r.is_err()); }
    kani::cover!(non_ascii && is_ascii);
    kani::cover!(r.is_ok());
    std::mem::forget(r);
}

/// a symbolic Unicode scalar value whose UTF-8 encoding has exactly `w` bytes (full range of that class)
fn sym_char_w(w: u8) -> char {
    let u: u32 = kani::any();
    match w {
        1 => kani::assume(u < 0x80),
        2 => kani::assume(u >= 0x80 && u < 0x800),
        3 => kani::assume(u >= 0x800 && u < 0x10000 && !(u >= 0xD800 && u < 0xE000)),
        _ => kani::assume(u >= 0x10000 && u < 0x110000),
    }
    char::from_u32(u).unwrap()
}
/// encode chars with CONCRETE widths w (0 = absent) at concrete positions; returns (chars, count, byte len)
fn mk_concrete<const N: usize>(w: [u8; N], buf: &mut [u8], start: usize, no_special: bool) -> ([char; N], usize, usize) {
    let mut cs = ['a'; N];
    let mut n = 0;
    let mut pos = start;
    let mut i = 0;
    while i < N {
        if w[i] != 0 {
            let c = sym_char_w(w[i]);
            if no_special { kani::assume(c != '%' && c != '_' && c != '\\'); }
            let k = put(buf, pos, c);
            assert!(k == w[i] as usize);
            cs[n] = c;
            n += 1;
            pos += w[i] as usize;      // concrete advance
        }
        i += 1;
    }
    (cs, n, pos)
}

// Contract (C20, LIKE `%lit%` and `contains`): for the pattern '%' ++ lit ++ '%' where lit consists of
// scalars of the given CONCRETE byte widths (any scalar of that width except '%', '_', '\\') and every
// haystack of 3 scalars of the given concrete widths (any scalars):
//   Predicate::like(pattern) is Contains carrying exactly lit's bytes as the needle, and
//   evaluate(haystack) == reference LIKE matcher on chars == "lit occurs as a contiguous char subsequence".
// Byte lengths are concrete because memmem's searcher construction with a symbolic needle length did not
// finish (600 s).  memmem's portable path (Rabin-Karp, haystack < 16 bytes) is executed for real.
// Stubs: memchr3/memchr -> naive; avx2/sse2 is_available -> false; regex_like -> Err sentinel; alloc::fmt::format.
macro_rules! like_contains {
    ($name:ident, $lit:expr, $hay:expr) => {
        #[kani::proof]
        #[kani::unwind(14)]
        #[kani::stub(memchr3, naive_memchr3)]
        #[kani::stub(dep_memchr, naive_memchr)]
        #[kani::stub(Avx2PackedPair::is_available, not_available)]
        #[kani::stub(Sse2PackedPair::is_available, not_available)]
        #[kani::stub(regex_like, stub_regex_like)]
        #[kani::stub(Regex::is_match, stub_is_match)]
        #[kani::stub(alloc::fmt::format, stub_format)]
        fn $name() {
            let (mut pb, mut hb) = ([0u8; 12], [0u8; 12]);
            pb[0] = b'%';
            let (lit, ln, lend) = mk_concrete::<2>($lit, &mut pb, 1, true);
            pb[lend] = b'%';
            let pl = lend + 1;
            let (h, hn, hl) = mk_concrete::<3>($hay, &mut hb, 0, false);
            let mut p = ['%'; MAXP];
            let mut i = 0;
            while i < 2 { if i < ln { p[1 + i] = lit[i]; } i += 1; }
            let pn = ln + 2;                       // p = ['%', lit.., '%']
            let r = Predicate::like(str_of(&pb, pl));
            match &r {
                Ok(Predicate::Contains(f)) => {
                    assert!(f.needle() == &pb[1..lend]);
                    // fresh value of the same variant built from the needle that like() chose (see the
                    // remark in like_nonregex_matches_reference)
                    let q = Predicate::contains(unsafe { std::str::from_utf8_unchecked(f.needle()) });
                    let got = q.evaluate(str_of(&hb, hl));
                    assert!(got == like_match(&p, pn, &h, hn, false));
                    let mut occurs = false;
                    let mut s = 0;
                    while s < 4 {
                        if s + ln <= hn {
                            let mut eq = true;
                            let mut j = 0;
                            while j < 2 { if j < ln && h[s + j] != lit[j] { eq = false; } j += 1; }
                            if eq { occurs = true; }
                        }
                        s += 1;
                    }
                    assert!(got == occurs);
                    kani::cover!(got);
                    kani::cover!(!got || ln == 0);
                    std::mem::forget(q);
                }
                _ => assert!(false),
            }
            std::mem::forget(r);
        }
    };
}
// confirmed at machine load ~40: 205 s
// @unit name=like_contains_empty props=C20 kind=bounded bound=pattern_%%_haystack_widths(1,2,1) fns=Predicate::like,Predicate::contains,Predicate::evaluate timeout=900 mem=4 tier=thorough
like_contains!(like_contains_empty, [0, 0], [1, 2, 1]);
// NOT CONFIRMED under load (never seen to finish on the shared machine, load 40-75): keep tier=thorough until re-measured
// @unit name=like_contains_w1 props=C20 kind=bounded bound=literal_widths(1)_haystack_widths(1,1,2) fns=Predicate::like,Predicate::contains,Predicate::evaluate timeout=900 mem=4 tier=thorough
like_contains!(like_contains_w1, [1, 0], [1, 1, 2]);
// confirmed at machine load ~40: 963 s
// @unit name=like_contains_w2 props=C20 kind=bounded bound=literal_widths(2)_haystack_widths(1,2,2) fns=Predicate::like,Predicate::contains,Predicate::evaluate timeout=900 mem=4 tier=thorough
like_contains!(like_contains_w2, [2, 0], [1, 2, 2]);
// NOT CONFIRMED under load (never seen to finish on the shared machine, load 40-75): keep tier=thorough until re-measured
// @unit name=like_contains_w11 props=C20 kind=bounded bound=literal_widths(1,1)_haystack_widths(1,1,1) fns=Predicate::like,Predicate::contains,Predicate::evaluate timeout=900 mem=4 tier=thorough
like_contains!(like_contains_w11, [1, 1], [1, 1, 1]);
// NOT CONFIRMED under load (never seen to finish on the shared machine, load 40-75): keep tier=thorough until re-measured
// @unit name=like_contains_w3 props=C20 kind=bounded bound=literal_widths(3)_haystack_widths(3,1,3) fns=Predicate::like,Predicate::contains,Predicate::evaluate timeout=900 mem=4 tier=thorough
like_contains!(like_contains_w3, [3, 0], [3, 1, 3]);

