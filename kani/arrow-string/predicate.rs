// Kani contract harnesses for /repo/arrow-string/src/predicate.rs (child module: sees private items via super::)
