// Kani contract harnesses for /repo/arrow-string/src/length.rs (child module: sees private items via super::)
use super::*;
#[path = "/verif/kani/support/spec.rs"]
mod spec;
#[allow(unused_imports)]
use spec::*;
use arrow_buffer::{BooleanBuffer, Buffer, ScalarBuffer};

// Contract (C20, "length/bit length ... return, for every row, the result of the straightforward
// definition", nulls preserved): for an offsets buffer of 3 rows (4 monotone non-negative offsets, all
// symbolic, so every byte length per row) and a symbolic validity bitmap (`bitmap`) or none (`nonulls`):
//   length_impl      : output has 3 rows; row k valid <=> input row k valid; value k == offsets[k+1]-offsets[k]
//   bit_length_impl  : same with value k == 8 * (offsets[k+1]-offsets[k])
// Precondition of the bit-length contract: 8 * byte_length fits the offset type (byte length < 2^28 for
// i32 offsets): the code multiplies with mul_wrapping, see finding_bit_length_wraps.
// The typed cores are called directly (the public `length`/`bit_length` dispatch on `dyn Array`).
macro_rules! len_unit {
    ($name:ident, $f:ident, $p:ty, $n:ty, $mul:expr, $bitmap:tt) => {
        #[kani::proof]
        #[kani::unwind(6)]
        fn $name() {
            let o: [$n; 4] = kani::any();
            kani::assume(0 <= o[0] && o[0] <= o[1] && o[1] <= o[2] && o[2] <= o[3]);
            kani::assume(((o[3] - o[0]) as i128) * ($mul as i128) <= (<$n>::MAX as i128));
            let bits: u8 = kani::any();
            let offsets = OffsetBuffer::<$n>::new(ScalarBuffer::from(o.to_vec()));
            let nulls: Option<NullBuffer> = sel!($bitmap, Some(NullBuffer::new(BooleanBuffer::new(Buffer::from_slice_ref(&[bits]), 0, 3))), None);
            let r: ArrayRef = $f::<$p>(&offsets, nulls.as_ref());
            assert!(r.len() == 3);
            let a = r.as_primitive_opt::<$p>();
            assert!(a.is_some());
            let a = a.unwrap();
            let k: usize = kani::any();
            kani::assume(k < 3);
            let in_valid = sel!($bitmap, (bits >> k) & 1 == 1, true);
            assert!(a.is_valid(k) == in_valid);
            assert!((a.value(k) as i128) == ((o[k + 1] - o[k]) as i128) * ($mul as i128));
            kani::cover!(in_valid && a.value(k) > 0);
            sel!($bitmap, kani::cover!(!in_valid && a.value(k) > 0), ());
            std::mem::forget(r);
            std::mem::forget(nulls);
            std::mem::forget(offsets);
        }
    };
}
macro_rules! sel { (true, $a:expr, $b:expr) => { $a }; (false, $a:expr, $b:expr) => { $b }; }

// @unit name=length_i32_bitmap props=C20 kind=bounded bound=rows=3_offsets_and_validity_symbolic fns=length_impl timeout=600 mem=4
len_unit!(length_i32_bitmap, length_impl, Int32Type, i32, 1, true);
// @unit name=length_i32_nonulls props=C20 kind=bounded bound=rows=3_offsets_symbolic fns=length_impl timeout=600 mem=4 tier=thorough
len_unit!(length_i32_nonulls, length_impl, Int32Type, i32, 1, false);
// NOT CONFIRMED under load (never seen to finish on the shared machine, load 40-75): keep tier=thorough until re-measured
// @unit name=length_i64_bitmap props=C20 kind=bounded bound=rows=3_offsets_and_validity_symbolic fns=length_impl timeout=600 mem=4 tier=thorough
len_unit!(length_i64_bitmap, length_impl, Int64Type, i64, 1, true);
// @unit name=bit_length_i32_bitmap props=C20 kind=bounded bound=rows=3_offsets_and_validity_symbolic_byte_length<2^28 fns=bit_length_impl timeout=600 mem=4 tier=thorough
len_unit!(bit_length_i32_bitmap, bit_length_impl, Int32Type, i32, 8, true);
// NOT CONFIRMED under load (never seen to finish on the shared machine, load 40-75): keep tier=thorough until re-measured
// @unit name=bit_length_i32_nonulls props=C20 kind=bounded bound=rows=3_offsets_symbolic_byte_length<2^28 fns=bit_length_impl timeout=600 mem=4 tier=thorough
len_unit!(bit_length_i32_nonulls, bit_length_impl, Int32Type, i32, 8, false);
// NOT CONFIRMED under load (never seen to finish on the shared machine, load 40-75): keep tier=thorough until re-measured
// @unit name=bit_length_i64_bitmap props=C20 kind=bounded bound=rows=3_offsets_and_validity_symbolic_byte_length<2^60 fns=bit_length_impl timeout=600 mem=4 tier=thorough
len_unit!(bit_length_i64_bitmap, bit_length_impl, Int64Type, i64, 8, true);

// FINDING harness (not a registered unit; FAILS on the unchanged code): bit_length of a Utf8/Binary value of
// >= 2^28 bytes does not fit Int32 and is silently wrapped (mul_wrapping): offsets [0, 268435456] give
// -2147483648 instead of 2147483648 (no error, no null).
#[kani::proof]
#[kani::unwind(6)]
fn finding_bit_length_wraps() {
    let offsets = OffsetBuffer::<i32>::new(ScalarBuffer::from(vec![0i32, 268_435_456]));
    let r: ArrayRef = bit_length_impl::<Int32Type>(&offsets, None);
    let a = r.as_primitive::<Int32Type>();
    assert!(a.value(0) as i64 == 8 * 268_435_456i64);
    std::mem::forget(r);
    std::mem::forget(offsets);
}
