// Kani contract harnesses for /repo/arrow-string/src/length.rs (child module: sees private items via super::)
