// Kani contract harnesses for /repo/arrow-cast/src/parse.rs (child module: sees private items via super::)
