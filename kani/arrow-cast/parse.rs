// Kani contract harnesses for /repo/arrow-cast/src/parse.rs (child module: sees private items via super::)
// Only the tiny pure-integer helpers are in reach; everything that walks a `str` (parse_decimal,
// parse_e_notation, string_to_datetime, interval component parsing, lexical-core float/int parsers) and
// everything that goes through chrono (TimestampParser::date/time) is NOT covered.
use super::*;
#[path = "/verif/kani/support/spec.rs"]
mod spec;
use spec::*;

const P10: [u64; 10] = [1, 10, 100, 1_000, 10_000, 100_000, 1_000_000, 10_000_000, 100_000_000, 1_000_000_000];

// Contract (C13, text -> temporal: sub-second digits): for N ASCII digits d[0..N) (as raw bytes with offset
// O = b'0', or as pre-subtracted values with O = 0) followed by arbitrary further bytes,
//   parse_nanos::<N,O>(d) == (decimal number d[0]..d[N-1]) * 10^(9-N)     (the fraction 0.d0..d(N-1) in ns)
// and the result is < 10^9; no overflow.  Digits beyond N are ignored.
macro_rules! nanos_unit {
    ($name:ident, $n:expr, $o:expr) => {
        #[kani::proof]
        #[kani::unwind(12)]
        fn $name() {
            const N: usize = $n;
            let d: [u8; 10] = kani::any();
            let mut want: u64 = 0;
            let mut i = 0;
            while i < N {
                let v = d[i].wrapping_sub($o);
                kani::assume(v < 10);
                want = want * 10 + v as u64;
                i += 1;
            }
            let extra: usize = kani::any();
            kani::assume(extra <= 10 - N);
            let got = parse_nanos::<N, { $o }>(&d[..N + extra]);
            assert!(got as u64 == want * P10[9 - N]);
            assert!(got < 1_000_000_000);
            kani::cover!(got == 999_999_999 / (P10[9 - N] as u32) * (P10[9 - N] as u32));
            kani::cover!(extra > 0 && got != 0);
        }
    };
}
// @unit name=parse_nanos_1 props=C13 kind=complete fns=parse_nanos timeout=120
nanos_unit!(parse_nanos_1, 1, b'0');
// @unit name=parse_nanos_3 props=C13 kind=complete fns=parse_nanos timeout=120
nanos_unit!(parse_nanos_3, 3, 0);
// @unit name=parse_nanos_6 props=C13 kind=complete fns=parse_nanos timeout=120
nanos_unit!(parse_nanos_6, 6, 0);
// @unit name=parse_nanos_9 props=C13 kind=complete fns=parse_nanos timeout=240
nanos_unit!(parse_nanos_9, 9, b'0');

// Contract (C13, text -> timestamp: digit classification): for every byte string of <= 34 bytes:
//   TimestampParser::new(b): for i < min(len, 32): digits[i] == b[i] - b'0' (mod 256) and mask bit i is
//   set <=> b[i] is an ASCII digit; for i >= len: digits[i] == 0 and mask bit i clear (frame); bytes past
//   index 31 are ignored; test(i, c) <=> b[i] == c for i < min(len, 32).
// @unit name=timestamp_parser_new props=C13 kind=bounded bound=input<=34_bytes fns=TimestampParser::new,TimestampParser::test timeout=600 mem=3
#[kani::proof]
#[kani::unwind(36)]
fn timestamp_parser_new() {
    let b: [u8; 34] = kani::any();
    let len: usize = kani::any();
    kani::assume(len <= 34);
    let p = TimestampParser::new(&b[..len]);
    let i: usize = kani::any();
    kani::assume(i < 32);
    if i < len {
        assert!(p.digits[i] == b[i].wrapping_sub(b'0'));
        assert!(((p.mask >> i) & 1 == 1) == (b[i] >= b'0' && b[i] <= b'9'));
        let c: u8 = kani::any();
        assert!(p.test(i, c) == (b[i] == c));
    } else {
        assert!(p.digits[i] == 0 && (p.mask >> i) & 1 == 0);
    }
    kani::cover!(len == 34 && i == 31 && (p.mask >> 31) & 1 == 1);
    kani::cover!(len == 0);
    kani::cover!(i < len && (p.mask >> i) & 1 == 0);
}

// Contract (C13, text -> interval): for every (months, days, nanos):
//   Interval::to_year_months is Ok(m) <=> days == 0 && nanos == 0, and then m == months;
//   Interval::to_day_time:  Ok((d, ms)) => d == 30*months + days (exact, computed in i64) and
//       ms * 10^6 == nanos (exact, negatives included);
//     Err => 30*months + days does not fit i32, or nanos is not a whole number of milliseconds, or that
//       number does not fit i32   (never a panic).
//   The Err side uses core's i64 `%` and `/` by the constant 10^6 as the specification (a division-free
//   statement with an existential witness did not finish in 900 s).
// Stubs: alloc::fmt::format.
// NOT CONFIRMED under load (never seen to finish on the shared machine, load 40-75): keep tier=thorough until re-measured
// @unit name=interval_to_day_time props=C13 kind=complete fns=Interval::to_day_time,Interval::to_year_months,Interval::to_month_day_nanos timeout=900 mem=4 tier=thorough
#[kani::proof]
#[kani::stub(alloc::fmt::format, stub_format)]
fn interval_to_day_time() {
    let (months, days): (i32, i32) = (kani::any(), kani::any());
    let nanos: i64 = kani::any();
    let iv = Interval::new(months, days, nanos);
    assert!(iv.to_month_day_nanos() == (months, days, nanos));
    let ym = iv.to_year_months();
    assert!(ym.is_ok() == (days == 0 && nanos == 0));
    if let Ok(m) = &ym { assert!(*m == months); }
    let dt = iv.to_day_time();
    let d = (months as i64) * 30 + days as i64;
    let d_fits = d >= i32::MIN as i64 && d <= i32::MAX as i64;
    match &dt {
        Ok((gd, gms)) => {
            assert!(*gd as i64 == d);
            assert!((*gms as i64) * 1_000_000 == nanos);
        }
        Err(_) => {
            let q = nanos / 1_000_000;
            assert!(!d_fits || nanos % 1_000_000 != 0 || q < i32::MIN as i64 || q > i32::MAX as i64);
        }
    }
    kani::cover!(dt.is_ok() && nanos < 0);
    kani::cover!(dt.is_err() && d_fits && nanos % 1_000_000 == 0);
    kani::cover!(dt.is_err() && !d_fits);
    kani::cover!(ym.is_ok());
    std::mem::forget(dt);
    std::mem::forget(ym);
}
