// Kani contract harnesses for /repo/arrow-cast/src/cast/decimal.rs (child module: sees private items via super::)
