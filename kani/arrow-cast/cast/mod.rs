// Kani contract harnesses for /repo/arrow-cast/src/cast/mod.rs (child module: sees private items via super::)
