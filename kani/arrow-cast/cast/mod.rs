// Kani contract harnesses for /repo/arrow-cast/src/cast/mod.rs (child module: sees private items via super::)
// GENERATED instance lines (the 64+16+16 macro invocations) come from /tmp/dev/cast/gen/gen_cast_mod.py;
// macro bodies and spec helpers are hand-written.
use super::*;
#[path = "/verif/kani/support/spec.rs"]
mod spec;
use spec::*;
use arrow_buffer::{BooleanBuffer, Buffer, NullBuffer, ScalarBuffer};

// ---------------------------------------------------------------------------------------------
// Independent spec helpers (IEEE-754 binary32/binary64 decoded by hand from the bit pattern; no
// float operation of the platform, no num-traits call).
// ---------------------------------------------------------------------------------------------

/// Integer part (truncation toward zero) of a float given by its bit pattern.
#[derive(Clone, Copy, PartialEq, Eq)]
enum Tr {
    /// NaN or +-infinity
    NotFinite,
    /// finite, |x| >= 2^114: outside every 64-bit integer range (sign does not matter)
    Huge,
    /// finite: (trunc(x) as a mathematical integer, x is itself integral)
    Int(i128, bool),
}

fn trunc_f64(bits: u64) -> Tr {
    let neg = bits >> 63 == 1;
    let e = ((bits >> 52) & 0x7ff) as i32;
    let m = bits & ((1u64 << 52) - 1);
    if e == 0x7ff { return Tr::NotFinite; }
    if e == 0 { return Tr::Int(0, m == 0); }            // +-0 or subnormal (|x| < 1)
    let sig = (m | (1u64 << 52)) as i128;                 // x = +-sig * 2^(e-1075)
    let sh = e - 1075;
    if sh >= 0 {
        if sh > 61 { return Tr::Huge; }                   // |x| >= 2^(52+62)
        let t = sig << (sh as u32);
        Tr::Int(if neg { -t } else { t }, true)
    } else if sh <= -53 {
        Tr::Int(0, false)                                 // 0 < |x| < 1
    } else {
        let s = (-sh) as u32;
        let t = sig >> s;
        Tr::Int(if neg { -t } else { t }, (t << s) == sig)
    }
}

fn trunc_f32(bits: u32) -> Tr {
    let neg = bits >> 31 == 1;
    let e = ((bits >> 23) & 0xff) as i32;
    let m = bits & ((1u32 << 23) - 1);
    if e == 0xff { return Tr::NotFinite; }
    if e == 0 { return Tr::Int(0, m == 0); }
    let sig = (m | (1u32 << 23)) as i128;                 // x = +-sig * 2^(e-150)
    let sh = e - 150;
    if sh >= 0 {
        if sh > 90 { return Tr::Huge; }                   // |x| >= 2^(23+91)
        let t = sig << (sh as u32);
        Tr::Int(if neg { -t } else { t }, true)
    } else if sh <= -24 {
        Tr::Int(0, false)
    } else {
        let s = (-sh) as u32;
        let t = sig >> s;
        Tr::Int(if neg { -t } else { t }, (t << s) == sig)
    }
}

fn abs128(x: i128) -> i128 { if x < 0 { -x } else { x } }

// Contract (C13, "representable values are preserved exactly (integer widths)"; strict and safe mode
// both go through this scalar): for every value x of integer type I and every target O in
// {i8,i16,i32,i64,u8,u16,u32,u64} (one harness per source type, all 8 targets inside; 64 ordered pairs):
//   num_cast::<I,O>(x) == Some(v)  <=>  x (as a mathematical integer) lies in [O::MIN, O::MAX],
//   and then v is the same mathematical integer; otherwise None. Full domain, loop-free.
// `narrow:` targets do not contain range(I) (None must be reachable), `widen:` targets do (None never).
macro_rules! nc_int_pair {
    ($i:ty, $o:ty, $x:ident, $narrow:tt) => {{
        let r: Option<$o> = num_cast::<$i, $o>($x);
        let (lo, hi, xi) = (<$o>::MIN as i128, <$o>::MAX as i128, $x as i128);
        let fits = lo <= xi && xi <= hi;
        assert!(r.is_some() == fits, concat!("num_cast ", stringify!($i), "->", stringify!($o), ": Some <=> in range"));
        if let Some(v) = r { assert!(v as i128 == xi, concat!("num_cast ", stringify!($i), "->", stringify!($o), ": same integer")); }
        kani::cover!(r.is_some() && $x != (0 as $i));
        nc_branch!($narrow, kani::cover!(r.is_none()), assert!(fits));
    }};
}
// compile-time selection (an `if false { cover!(..) }` would still register an unsatisfiable cover)
macro_rules! nc_branch { (true, $a:expr, $b:expr) => { $a }; (false, $a:expr, $b:expr) => { $b }; }
macro_rules! nc_int_from {
    ($name:ident, $i:ty; narrow: [$($n:ty),*]; widen: [$($w:ty),*]) => {
        #[kani::proof]
        #[allow(trivial_numeric_casts)]
        fn $name() {
            let x: $i = kani::any();
            $( nc_int_pair!($i, $n, x, true); )*
            $( nc_int_pair!($i, $w, x, false); )*
        }
    };
}

// Contract (C13): for every bit pattern x of float type F (NaN payloads, infinities, subnormals, -0):
//   num_cast::<F,O>(x) == Some(v) <=> x is finite and t = trunc(x) (toward zero) lies in [O::MIN,O::MAX],
//   and then v == t as a mathematical integer; None for NaN, +-inf and every out-of-range value.
//   (So: Some(v) => x finite, v = trunc(x), trunc(x) in range; integral in-range x => Some(exactly x).)
// trunc is specified independently by decoding sign/exponent/mantissa (trunc_f32 / trunc_f64 above).
macro_rules! nc_float_int {
    ($name:ident, $f:ty, $o:ty, $trunc:ident) => {
        #[kani::proof]
        fn $name() {
            let x: $f = kani::any();
            let r: Option<$o> = num_cast::<$f, $o>(x);
            let (lo, hi) = (<$o>::MIN as i128, <$o>::MAX as i128);
            let tr = $trunc(x.to_bits());
            let want: Option<$o> = match tr {
                Tr::Int(t, _) if lo <= t && t <= hi => Some(t as $o),
                _ => None,
            };
            assert!(r == want);
            if let Some(v) = r {
                assert!(x.is_finite());
                if let Tr::Int(t, exact) = tr { if exact { assert!(v as i128 == t && (v as $f) == x); } }
            }
            if x.is_nan() || x.is_infinite() { assert!(r.is_none()); }
            kani::cover!(r.is_some() && x < 0.0);
            kani::cover!(r.is_some() && x > 0.0 && matches!(tr, Tr::Int(_, false)));   // fractional input truncated
            kani::cover!(r.is_some() && x != 0.0 && matches!(tr, Tr::Int(_, true)));   // integral input exact
            kani::cover!(r.is_none() && x.is_nan());
            kani::cover!(r.is_none() && x.is_finite() && x > 0.0);
            kani::cover!(r.is_none() && x.is_finite() && x < 0.0);
        }
    };
}

// Contract (C13): for every integer x of every source type I in {i8..u64}, num_cast::<I,F>(x) is Some(f)
//   with f finite and integral, and |f - x| * 2^P <= |x|   (P = 24 for f32, 53 for f64: f is within
//   half an ulp of x), hence f == x exactly whenever |x| <= 2^P. The value of f is read back by the
//   independent bit decoder. `lossy:` sources have more than P bits (rounding must be reachable).
macro_rules! nc_int_float_pair {
    ($i:ty, $f:ty, $trunc:ident, $p:expr, $lossy:tt) => {{
        let x: $i = kani::any();
        let r: Option<$f> = num_cast::<$i, $f>(x);
        assert!(r.is_some());
        let f = r.unwrap();
        let xi = x as i128;
        match $trunc(f.to_bits()) {
            Tr::Int(t, integral) => {
                assert!(integral);
                assert!((abs128(t - xi) << $p) <= abs128(xi), concat!("num_cast ", stringify!($i), "->", stringify!($f), ": within half ulp"));
                if abs128(xi) <= (1i128 << $p) { assert!(t == xi, concat!("num_cast ", stringify!($i), "->", stringify!($f), ": exact")); }
                nc_branch!($lossy, kani::cover!(t != xi), assert!(t == xi));
            }
            _ => assert!(false),
        }
        kani::cover!(x != 0 as $i);
    }};
}
macro_rules! nc_int_to_float {
    ($name:ident, $f:ty, $trunc:ident, $p:expr; lossy: [$($l:ty),*]; exact: [$($e:ty),*]) => {
        #[kani::proof]
        #[allow(trivial_numeric_casts)]
        fn $name() {
            $( nc_int_float_pair!($l, $f, $trunc, $p, true); )*
            $( nc_int_float_pair!($e, $f, $trunc, $p, false); )*
        }
    };
}

// ---- int -> int: all 64 ordered pairs, one harness per source type ----
// @unit name=nc_from_i8 props=C13 kind=complete fns=num_cast timeout=120
nc_int_from!(nc_from_i8, i8; narrow: [u8, u16, u32, u64]; widen: [i8, i16, i32, i64]);
// @unit name=nc_from_i16 props=C13 kind=complete fns=num_cast timeout=120
nc_int_from!(nc_from_i16, i16; narrow: [i8, u8, u16, u32, u64]; widen: [i16, i32, i64]);
// @unit name=nc_from_i32 props=C13 kind=complete fns=num_cast timeout=120
nc_int_from!(nc_from_i32, i32; narrow: [i8, i16, u8, u16, u32, u64]; widen: [i32, i64]);
// @unit name=nc_from_i64 props=C13 kind=complete fns=num_cast timeout=120
nc_int_from!(nc_from_i64, i64; narrow: [i8, i16, i32, u8, u16, u32, u64]; widen: [i64]);
// @unit name=nc_from_u8 props=C13 kind=complete fns=num_cast timeout=120
nc_int_from!(nc_from_u8, u8; narrow: [i8]; widen: [i16, i32, i64, u8, u16, u32, u64]);
// @unit name=nc_from_u16 props=C13 kind=complete fns=num_cast timeout=120
nc_int_from!(nc_from_u16, u16; narrow: [i8, i16, u8]; widen: [i32, i64, u16, u32, u64]);
// @unit name=nc_from_u32 props=C13 kind=complete fns=num_cast timeout=120
nc_int_from!(nc_from_u32, u32; narrow: [i8, i16, i32, u8, u16]; widen: [i64, u32, u64]);
// @unit name=nc_from_u64 props=C13 kind=complete fns=num_cast timeout=120
nc_int_from!(nc_from_u64, u64; narrow: [i8, i16, i32, i64, u8, u16, u32]; widen: [u64]);

// ---- float -> int ----
// @unit name=nc_f32_i8 props=C13 kind=complete fns=num_cast timeout=240
nc_float_int!(nc_f32_i8, f32, i8, trunc_f32);
// @unit name=nc_f32_i16 props=C13 kind=complete fns=num_cast timeout=240
nc_float_int!(nc_f32_i16, f32, i16, trunc_f32);
// @unit name=nc_f32_i32 props=C13 kind=complete fns=num_cast timeout=240
nc_float_int!(nc_f32_i32, f32, i32, trunc_f32);
// @unit name=nc_f32_i64 props=C13 kind=complete fns=num_cast timeout=240
nc_float_int!(nc_f32_i64, f32, i64, trunc_f32);
// @unit name=nc_f32_u8 props=C13 kind=complete fns=num_cast timeout=240
nc_float_int!(nc_f32_u8, f32, u8, trunc_f32);
// @unit name=nc_f32_u16 props=C13 kind=complete fns=num_cast timeout=240
nc_float_int!(nc_f32_u16, f32, u16, trunc_f32);
// @unit name=nc_f32_u32 props=C13 kind=complete fns=num_cast timeout=240
nc_float_int!(nc_f32_u32, f32, u32, trunc_f32);
// @unit name=nc_f32_u64 props=C13 kind=complete fns=num_cast timeout=240
nc_float_int!(nc_f32_u64, f32, u64, trunc_f32);
// @unit name=nc_f64_i8 props=C13 kind=complete fns=num_cast timeout=240
nc_float_int!(nc_f64_i8, f64, i8, trunc_f64);
// @unit name=nc_f64_i16 props=C13 kind=complete fns=num_cast timeout=240
nc_float_int!(nc_f64_i16, f64, i16, trunc_f64);
// @unit name=nc_f64_i32 props=C13 kind=complete fns=num_cast timeout=240
nc_float_int!(nc_f64_i32, f64, i32, trunc_f64);
// @unit name=nc_f64_i64 props=C13 kind=complete fns=num_cast timeout=240
nc_float_int!(nc_f64_i64, f64, i64, trunc_f64);
// @unit name=nc_f64_u8 props=C13 kind=complete fns=num_cast timeout=240
nc_float_int!(nc_f64_u8, f64, u8, trunc_f64);
// @unit name=nc_f64_u16 props=C13 kind=complete fns=num_cast timeout=240
nc_float_int!(nc_f64_u16, f64, u16, trunc_f64);
// @unit name=nc_f64_u32 props=C13 kind=complete fns=num_cast timeout=240
nc_float_int!(nc_f64_u32, f64, u32, trunc_f64);
// @unit name=nc_f64_u64 props=C13 kind=complete fns=num_cast timeout=240
nc_float_int!(nc_f64_u64, f64, u64, trunc_f64);

// ---- int -> float: one harness per target float type, all 8 source types inside ----
// @unit name=nc_int_to_f32 props=C13 kind=complete fns=num_cast timeout=240
nc_int_to_float!(nc_int_to_f32, f32, trunc_f32, 24; lossy: [i32, i64, u32, u64]; exact: [i8, i16, u8, u16]);
// @unit name=nc_int_to_f64 props=C13 kind=complete fns=num_cast timeout=240
nc_int_to_float!(nc_int_to_f64, f64, trunc_f64, 53; lossy: [i64, u64]; exact: [i8, i16, i32, u8, u16, u32]);

// ---- float <-> float ("as coded": Rust `as` conversion, IEEE round-to-nearest-even) ----

// Contract (C13): f32 -> f64 is lossless: Some(y) with y as f32 bit-identical to x for every non-NaN x
// (infinities and -0 included), NaN maps to NaN; independent check through the bit decoders: same
// truncated integer part and same integrality whenever the decoder yields an integer.
// @unit name=nc_f32_f64 props=C13 kind=complete fns=num_cast timeout=240
#[kani::proof]
fn nc_f32_f64() {
    let x: f32 = kani::any();
    let r: Option<f64> = num_cast::<f32, f64>(x);
    assert!(r.is_some());
    let y = r.unwrap();
    assert!(y.is_nan() == x.is_nan());
    if !x.is_nan() {
        assert!((y as f32).to_bits() == x.to_bits());
        assert!(trunc_f32(x.to_bits()) == trunc_f64(y.to_bits()));
    }
    kani::cover!(x.is_nan());
    kani::cover!(x.is_infinite());
    kani::cover!(x.is_finite() && x != 0.0 && x.abs() < f32::MIN_POSITIVE);   // subnormal widened exactly
}

// Contract (C13): f64 -> f32 always returns Some(x as f32) (never None: overflow goes to +-inf as the
// `as` conversion does, NaN stays NaN); values that are exactly representable in f32 are preserved
// exactly (x == (y as f64) whenever some f32 equals x).
// @unit name=nc_f64_f32 props=C13 kind=complete fns=num_cast timeout=240
#[kani::proof]
fn nc_f64_f32() {
    let x: f64 = kani::any();
    let r: Option<f32> = num_cast::<f64, f32>(x);
    assert!(r.is_some());
    let y = r.unwrap();
    assert!(y.is_nan() == x.is_nan());
    if !x.is_nan() { assert!(y.to_bits() == (x as f32).to_bits()); }
    // representable values preserved: if x came from an f32 z, the cast gives back z
    let z: f32 = kani::any();
    if !z.is_nan() && (z as f64).to_bits() == x.to_bits() { assert!(y.to_bits() == z.to_bits()); }
    kani::cover!(x.is_finite() && y.is_infinite());
    kani::cover!(!z.is_nan() && (z as f64).to_bits() == x.to_bits() && z != 0.0);
    kani::cover!(x.is_nan());
}

// Contract (C13): same-type float casts are the identity on bits for non-NaN, NaN stays NaN.
// @unit name=nc_f32_f32 props=C13 kind=complete fns=num_cast timeout=60
#[kani::proof]
fn nc_f32_f32() {
    let x: f32 = kani::any();
    let r: Option<f32> = num_cast::<f32, f32>(x);
    assert!(r.is_some());
    if !x.is_nan() { assert!(r.unwrap().to_bits() == x.to_bits()); } else { assert!(r.unwrap().is_nan()); }
    kani::cover!(x.is_nan()); kani::cover!(x == 1.5);
}
// @unit name=nc_f64_f64 props=C13 kind=complete fns=num_cast timeout=60
#[kani::proof]
fn nc_f64_f64() {
    let x: f64 = kani::any();
    let r: Option<f64> = num_cast::<f64, f64>(x);
    assert!(r.is_some());
    if !x.is_nan() { assert!(r.unwrap().to_bits() == x.to_bits()); } else { assert!(r.unwrap().is_nan()); }
    kani::cover!(x.is_nan()); kani::cover!(x == 1.5);
}

// ---- temporal unit multiples ----

// Contract (C13, temporal unit conversions): time_unit_multiple(u) is the number of u-units per second
// (1, 10^3, 10^6, 10^9); for any two units the larger multiple is an exact multiple of the smaller
// one (so the cast's `from_size / to_size` and `to_size / from_size` ratios are exact powers of 1000).
// @unit name=time_unit_multiple_exact props=C13 kind=complete fns=time_unit_multiple timeout=60
#[kani::proof]
fn time_unit_multiple_exact() {
    fn unit(k: u8) -> TimeUnit {
        match k { 0 => TimeUnit::Second, 1 => TimeUnit::Millisecond, 2 => TimeUnit::Microsecond, _ => TimeUnit::Nanosecond }
    }
    const P: [i64; 4] = [1, 1_000, 1_000_000, 1_000_000_000];
    let (a, b): (u8, u8) = (kani::any(), kani::any());
    kani::assume(a < 4 && b < 4);
    let (ma, mb) = (time_unit_multiple(&unit(a)), time_unit_multiple(&unit(b)));
    assert!(ma == P[a as usize] && mb == P[b as usize]);
    if a >= b { assert!(ma % mb == 0 && ma / mb == P[(a - b) as usize]); }
    kani::cover!(a > b);
    kani::cover!(a == 3 && b == 0);
}

// ---- numeric -> binary offsets ----

// Contract (C13, numeric -> binary re-encoding: cast_numeric_to_binary builds its offsets with
// OffsetBuffer::from_repeated_length(size_of::<T>(), len)): for a concrete row count N (grid rule) and every
// element size `size` with size * N <= i32::MAX: the buffer has N + 1 offsets and offsets[i] == i * size.
// (cast_numeric_to_binary itself takes `&dyn Array` and validates through GenericBinaryArray::try_new: out
// of reach; the "Panics on overflow" side of from_repeated_length is not exercised.)
macro_rules! repeated_offsets {
    ($name:ident, $n:expr) => {
        #[kani::proof]
        #[kani::unwind(8)]
        fn $name() {
            const N: usize = $n;
            let size: usize = kani::any();
            kani::assume(size <= (i32::MAX as usize) / (if N == 0 { 1 } else { N }));
            let ob = OffsetBuffer::<i32>::from_repeated_length(size, N);
            assert!(ob.len() == N + 1);
            let i: usize = kani::any();
            kani::assume(i <= N);
            assert!(ob[i] as i64 == (i as i64) * (size as i64));
            kani::cover!(size == 8 && i == N);
            kani::cover!(size == 0);
        }
    };
}
// @unit name=repeated_offsets_n0 props=C13 kind=bounded bound=rows=0_element_size_symbolic fns=OffsetBuffer::from_repeated_length timeout=120
repeated_offsets!(repeated_offsets_n0, 0);
// @unit name=repeated_offsets_n1 props=C13 kind=bounded bound=rows=1_element_size_symbolic fns=OffsetBuffer::from_repeated_length timeout=240
repeated_offsets!(repeated_offsets_n1, 1);
// @unit name=repeated_offsets_n4 props=C13 kind=bounded bound=rows=4_element_size_symbolic fns=OffsetBuffer::from_repeated_length timeout=240
repeated_offsets!(repeated_offsets_n4, 4);

// ---- strict / safe duality of the array-level numeric cast ----

fn mk_prim<T: ArrowPrimitiveType>(vals: Vec<T::Native>, valid: Option<u8>, len: usize) -> PrimitiveArray<T> {
    let nulls = valid.map(|bits| NullBuffer::new(BooleanBuffer::new(Buffer::from_slice_ref(&[bits]), 0, len)));
    PrimitiveArray::<T>::new(ScalarBuffer::from(vals), nulls)
}

// Contract (C13, "in strict mode the cast errors exactly when some non-null value is not representable
// in b, and in safe mode it succeeds with nulls at exactly those rows and the identical values
// elsewhere"). Both kernels are specified against the SAME independent row predicate
//     ok(k) := in_valid(k) && vals[k] in [R::MIN, R::MAX]          (wide-integer comparison)
// for an input array of LEN rows with symbolic values (also under null slots) and a symbolic validity
// bitmap (`bitmap` variant) or no bitmap at all (`nonulls` variant):
//   safe_*   numeric_cast:     output has LEN rows; row k valid <=> ok(k); valid rows carry the same integer.
//   strict_* try_numeric_cast: Err <=> exists k: in_valid(k) && !fits(k);  if Ok: LEN rows, validity ==
//            input validity, every valid row carries the same integer.
// Together: strict errs <=> the safe output has a null on a VALID input row; elsewhere identical values;
// nulls preserved. (One kernel per harness: both kernels in one harness did not finish in 900 s.)
// Row postconditions are asserted for a symbolic row index k < LEN (equivalent to all rows).
// Stubs: alloc::fmt::format (error message text is not part of the contract).
macro_rules! safe_cast {
    ($name:ident, $t:ty, $r:ty, $len:expr, $bitmap:tt) => {
        #[kani::proof]
        #[kani::unwind(6)]
        #[kani::stub(alloc::fmt::format, stub_format)]
        fn $name() {
            type RN = <$r as ArrowPrimitiveType>::Native;
            const LEN: usize = $len;
            let vals: [<$t as ArrowPrimitiveType>::Native; LEN] = kani::any();
            let bits: u8 = kani::any();
            let arr: PrimitiveArray<$t> = mk_prim::<$t>(vals.to_vec(), nc_branch!($bitmap, Some(bits), None), LEN);
            let in_valid = |k: usize| nc_branch!($bitmap, (bits >> k) & 1 == 1, true);
            let fits = |k: usize| (vals[k] as i128) >= (RN::MIN as i128) && (vals[k] as i128) <= (RN::MAX as i128);
            let safe: PrimitiveArray<$r> = numeric_cast::<$t, $r>(&arr);
            assert!(safe.len() == LEN);
            let k: usize = kani::any();
            kani::assume(k < LEN);
            let ok = in_valid(k) && fits(k);
            assert!(safe.is_valid(k) == ok);
            if ok { assert!(safe.value(k) as i128 == vals[k] as i128); }
            kani::cover!(ok && vals[k] != 0);
            kani::cover!(in_valid(k) && !fits(k));
            // the three iteration strategies of try_for_each_valid_idx: null_count == 0, mixed, all null
            nc_branch!($bitmap, kani::cover!(bits & 7 == 7), ());
            nc_branch!($bitmap, kani::cover!(bits & 7 == 5), ());
            nc_branch!($bitmap, kani::cover!(bits & 7 == 0), ());
            nc_branch!($bitmap, kani::cover!(!in_valid(k) && !fits(k)), ());   // garbage under a null slot
            std::mem::forget(safe);
            std::mem::forget(arr);
        }
    };
}
macro_rules! strict_cast {
    ($name:ident, $t:ty, $r:ty, $len:expr, $bitmap:tt) => {
        #[kani::proof]
        #[kani::unwind(6)]
        #[kani::stub(alloc::fmt::format, stub_format)]
        fn $name() {
            type RN = <$r as ArrowPrimitiveType>::Native;
            const LEN: usize = $len;
            let vals: [<$t as ArrowPrimitiveType>::Native; LEN] = kani::any();
            let bits: u8 = kani::any();
            let arr: PrimitiveArray<$t> = mk_prim::<$t>(vals.to_vec(), nc_branch!($bitmap, Some(bits), None), LEN);
            let in_valid = |k: usize| nc_branch!($bitmap, (bits >> k) & 1 == 1, true);
            let fits = |k: usize| (vals[k] as i128) >= (RN::MIN as i128) && (vals[k] as i128) <= (RN::MAX as i128);
            let strict = try_numeric_cast::<$t, $r>(&arr);
            let mut bad = false;           // some VALID row is not representable
            let mut j = 0;
            while j < LEN { if in_valid(j) && !fits(j) { bad = true; } j += 1; }
            assert!(strict.is_err() == bad);
            if let Ok(s) = &strict {
                assert!(s.len() == LEN);
                let k: usize = kani::any();
                kani::assume(k < LEN);
                assert!(s.is_valid(k) == in_valid(k));
                if in_valid(k) { assert!(s.value(k) as i128 == vals[k] as i128); }
                kani::cover!(in_valid(k) && vals[k] != 0);
                nc_branch!($bitmap, kani::cover!(!in_valid(k) && !fits(k)), ());   // garbage under a null slot is ignored
            }
            kani::cover!(strict.is_err());
            kani::cover!(strict.is_ok());
            // the iteration strategies of NullBuffer::try_for_each_valid_idx: no nulls, mixed, all null
            nc_branch!($bitmap, kani::cover!(strict.is_ok() && bits & 7 == 7), ());
            nc_branch!($bitmap, kani::cover!(strict.is_ok() && bits & 7 == 5), ());
            nc_branch!($bitmap, kani::cover!(strict.is_err() && bits & 7 == 2), ());
            nc_branch!($bitmap, kani::cover!(strict.is_ok() && bits & 7 == 0 && !fits(1)), ());
            std::mem::forget(strict);
            std::mem::forget(arr);
        }
    };
}
// @unit name=safe_i64_i32_len3_bitmap props=C13 kind=bounded bound=len=3_concrete_values_and_validity_symbolic fns=numeric_cast,num_cast tier=thorough mem=6 timeout=900
safe_cast!(safe_i64_i32_len3_bitmap, Int64Type, Int32Type, 3, true);
// @unit name=strict_i64_i32_len3_bitmap props=C13 kind=bounded bound=len=3_concrete_values_and_validity_symbolic fns=try_numeric_cast,num_cast tier=thorough mem=6 timeout=900
strict_cast!(strict_i64_i32_len3_bitmap, Int64Type, Int32Type, 3, true);
// @unit name=safe_i64_i32_len3_nonulls props=C13 kind=bounded bound=len=3_concrete_values_symbolic_no_bitmap fns=numeric_cast,num_cast tier=thorough mem=6 timeout=900
safe_cast!(safe_i64_i32_len3_nonulls, Int64Type, Int32Type, 3, false);
// @unit name=strict_i64_i32_len3_nonulls props=C13 kind=bounded bound=len=3_concrete_values_symbolic_no_bitmap fns=try_numeric_cast,num_cast tier=thorough mem=6 timeout=900
strict_cast!(strict_i64_i32_len3_nonulls, Int64Type, Int32Type, 3, false);
// @unit name=safe_i32_u8_len3_bitmap props=C13 kind=bounded bound=len=3_concrete_values_and_validity_symbolic fns=numeric_cast,num_cast tier=thorough mem=6 timeout=900
safe_cast!(safe_i32_u8_len3_bitmap, Int32Type, UInt8Type, 3, true);
// @unit name=strict_i32_u8_len3_bitmap props=C13 kind=bounded bound=len=3_concrete_values_and_validity_symbolic fns=try_numeric_cast,num_cast tier=thorough mem=6 timeout=900
strict_cast!(strict_i32_u8_len3_bitmap, Int32Type, UInt8Type, 3, true);
