// Kani contract harnesses for /repo/arrow-buffer/src/builder/offset.rs (child module: sees private items via super::)
use super::*;
#[path = "/verif/kani/support/spec.rs"]
mod spec;
#[allow(unused_imports)]
use spec::*;

// ---------------------------------------------------------------------------------------------
// Shared harness helpers (spec side). Nothing here calls the code under test.
// ---------------------------------------------------------------------------------------------

/// N <= 64 fully symbolic bytes built without a loop (lets a harness use a small unwind bound).
#[allow(dead_code)]
fn any_bytes<const N: usize>() -> [u8; N] {
    let w: (u128, u128, u128, u128) = (kani::any(), kani::any(), kani::any(), kani::any());
    let full: [u8; 64] = unsafe { std::mem::transmute(w) };
    let mut out = [0u8; N];
    out.copy_from_slice(&full[..N]);
    out
}
#[allow(dead_code)]
fn mask(b: bool) -> u64 { if b { u64::MAX } else { 0 } }

// STUB (listed): `core::ptr::align_offset`, the single address-dependent step of
// `<[u8]>::align_to::<u64>()`. CBMC cannot constant-fold an address during symbolic execution, so
// without it every slice length after `align_to` is symbolic (measured: out of memory / > 5 min).
// The stub returns the exact value of the real function for a pointer whose address is congruent
// to the harness-supplied skew modulo 8, and it *asserts* that congruence on the real address, so
// nothing is assumed about the allocator; the rest of the real `align_to` runs unchanged.
// The k-th call uses ALIGN_SKEWS[k] (control flow is concrete, so k is concrete).
#[allow(dead_code)]
static mut ALIGN_SKEWS: [usize; 6] = [0; 6];
#[allow(dead_code)]
static mut ALIGN_CALLS: usize = 0;
#[allow(dead_code)]
fn set_skews(s: [usize; 6]) { unsafe { ALIGN_SKEWS = s; ALIGN_CALLS = 0; } }
/// builder for the list of expected `align_to` calls of one harness (bookkeeping only: a wrong
/// prediction makes the stub's address assertion fail, it can never hide a violation)
#[derive(Clone, Copy)]
#[allow(dead_code)]
struct Skews { s: [usize; 6], n: usize }
#[allow(dead_code)]
fn skews() -> Skews { Skews { s: [0; 6], n: 0 } }
#[allow(dead_code)]
impl Skews {
    /// one `align_to` call on a slice that starts `sk` bytes past an 8-byte aligned address
    fn raw(mut self, sk: usize) -> Self { self.s[self.n] = sk % 8; self.n += 1; self }
    /// the `align_to` call of `UnalignedBitChunk::new(bytes, off, len)` (made only when the addressed
    /// byte range is longer than 16 bytes), `bytes` starting `sk` bytes past an 8-byte aligned address
    fn ubc(self, sk: usize, off: usize, len: usize) -> Self {
        if len > 0 && (len + off % 8 + 7) / 8 > 16 { self.raw(sk + off / 8) } else { self }
    }
    fn install(self) { unsafe { ALIGN_SKEWS = self.s; ALIGN_CALLS = 0; } }
}
#[allow(dead_code)]
unsafe fn stub_align_offset<T>(p: *const T, a: usize) -> usize {
    assert!(std::mem::size_of::<T>() == 1 && a == 8);
    let k = unsafe { ALIGN_CALLS };
    assert!(k < 6);
    unsafe { ALIGN_CALLS = k + 1 };
    let skew = unsafe { ALIGN_SKEWS[k] } % a;
    assert!((p as usize) % a == skew);
    (a - skew) % a
}
macro_rules! inst {
    ($name:ident, $unwind:expr, $call:expr) => {
        #[kani::proof]
        #[kani::unwind($unwind)]
        #[kani::stub(core::ptr::align_offset, stub_align_offset)]
        fn $name() { $call }
    };
}

fn seq_offsets<const CAP: usize, const K: usize>() {
    let lens: [u16; K] = kani::any();
    let mut b = OffsetBufferBuilder::<i32>::new(CAP);
    assert!(b.len() == 1 && b[0] == 0);
    let mut sum = 0usize;
    let mut i = 0;
    while i < K {
        b.push_length(lens[i] as usize);
        sum += lens[i] as usize;
        assert!(b.len() == i + 2 && b[i + 1] as usize == sum);
        i += 1;
    }
    b.reserve(3);
    let c = b.finish_cloned();
    let o = b.finish();
    // model: prefix sums of the pushed lengths, starting at 0
    assert!(o.len() == K + 1 && c.len() == K + 1 && o[0] == 0);
    if K > 0 {
        let j: usize = kani::any();
        kani::assume(j < K);
        assert!(o[j] >= 0 && o[j + 1] - o[j] == lens[j] as i32 && c[j + 1] == o[j + 1]);
    }
    kani::cover!(K > 1 && lens[0] == 0 && lens[1] == 65535);
    kani::cover!(o[K] as usize == sum);
}
// Contract (C01) OffsetBufferBuilder::<i32>::{new, push_length, reserve, finish_cloned, finish, deref}:
// after K pushes of symbolic lengths (each < 2^16) the offsets are exactly the prefix sums starting
// at 0: K+1 entries, first 0, entry j+1 - entry j == j-th length (hence monotone, non-negative);
// finish_cloned returns the same offsets.
// @unit name=obb_offsets_0_3 props=C01 kind=bounded bound=pushes=3_lengths<2^16_symbolic fns=OffsetBufferBuilder::new,OffsetBufferBuilder::push_length,OffsetBufferBuilder::finish,OffsetBufferBuilder::finish_cloned tier=thorough timeout=300 note=not_confirmed_under_load
inst!(obb_offsets_0_3, 8, seq_offsets::<0, 3>());
// @unit name=obb_offsets_10_4 props=C01 kind=bounded bound=pushes=4_lengths<2^16_symbolic fns=OffsetBufferBuilder::new,OffsetBufferBuilder::push_length,OffsetBufferBuilder::finish,OffsetBufferBuilder::finish_cloned tier=thorough timeout=300 note=not_confirmed_under_load
inst!(obb_offsets_10_4, 8, seq_offsets::<10, 4>());
// @unit name=obb_offsets_0_0 props=C01 kind=bounded bound=pushes=0_lengths<2^16_symbolic fns=OffsetBufferBuilder::new,OffsetBufferBuilder::push_length,OffsetBufferBuilder::finish,OffsetBufferBuilder::finish_cloned tier=thorough timeout=300 note=not_confirmed_under_load
inst!(obb_offsets_0_0, 8, seq_offsets::<0, 0>());

fn seq_overflow<const K: usize>() {
    let lens: [usize; K] = kani::any();
    let mut b = OffsetBufferBuilder::<i32>::new(0);
    let mut sum: u128 = 0;
    let mut i = 0;
    while i < K {
        b.push_length(lens[i]);
        sum += lens[i] as u128;
        i += 1;
    }
    let o = b.finish();
    // may-reject reading: if finish returns, no offset wrapped: the total fits i32 and the offsets
    // are non-decreasing and non-negative
    assert!(sum <= i32::MAX as u128);
    let j: usize = kani::any();
    kani::assume(j < K);
    assert!(o[j] >= 0 && o[j] <= o[j + 1] && (o[j + 1] - o[j]) as u128 == lens[j] as u128);
    kani::cover!(o[K] == i32::MAX);
    kani::cover!(o[K] == 0);
}
// Contract (C01) OffsetBufferBuilder::<i32>::{push_length, finish}, overflow direction (may-reject): for
// arbitrary usize lengths, whenever finish returns the total is <= i32::MAX and every offset
// difference is the pushed length exactly (no wrapped i32 offset is ever returned); the only other
// outcome is a panic ("overflow").
// @unit name=obb_overflow_2 props=C01 kind=bounded bound=pushes=2_lengths_full_usize fns=OffsetBufferBuilder::push_length,OffsetBufferBuilder::finish tier=thorough timeout=300 mayreject=1 note=not_confirmed_under_load
#[kani::proof]
#[kani::unwind(8)]
#[kani::stub(alloc::fmt::format, stub_format)]
fn obb_overflow_2() { seq_overflow::<2>() }
// @unit name=obb_overflow_3 props=C01 kind=bounded bound=pushes=3_lengths_full_usize fns=OffsetBufferBuilder::push_length,OffsetBufferBuilder::finish tier=thorough timeout=300 mayreject=1 note=not_confirmed_under_load
#[kani::proof]
#[kani::unwind(8)]
#[kani::stub(alloc::fmt::format, stub_format)]
fn obb_overflow_3() { seq_overflow::<3>() }
