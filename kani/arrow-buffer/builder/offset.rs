// Kani contract harnesses for /repo/arrow-buffer/src/builder/offset.rs (child module: sees private items via super::)
