// Kani contract harnesses for /repo/arrow-buffer/src/builder/boolean.rs (child module: sees private items via super::)
use super::*;
#[path = "/verif/kani/support/spec.rs"]
mod spec;
#[allow(unused_imports)]
use spec::*;

// ---------------------------------------------------------------------------------------------
// Shared harness helpers (spec side). Nothing here calls the code under test.
// ---------------------------------------------------------------------------------------------

/// N <= 64 fully symbolic bytes built without a loop (lets a harness use a small unwind bound).
#[allow(dead_code)]
fn any_bytes<const N: usize>() -> [u8; N] {
    let w: (u128, u128, u128, u128) = (kani::any(), kani::any(), kani::any(), kani::any());
    let full: [u8; 64] = unsafe { std::mem::transmute(w) };
    let mut out = [0u8; N];
    out.copy_from_slice(&full[..N]);
    out
}
#[allow(dead_code)]
fn mask(b: bool) -> u64 { if b { u64::MAX } else { 0 } }

// STUB (listed): `core::ptr::align_offset`, the single address-dependent step of
// `<[u8]>::align_to::<u64>()`. CBMC cannot constant-fold an address during symbolic execution, so
// without it every slice length after `align_to` is symbolic (measured: out of memory / > 5 min).
// The stub returns the exact value of the real function for a pointer whose address is congruent
// to the harness-supplied skew modulo 8, and it *asserts* that congruence on the real address, so
// nothing is assumed about the allocator; the rest of the real `align_to` runs unchanged.
// The k-th call uses ALIGN_SKEWS[k] (control flow is concrete, so k is concrete).
#[allow(dead_code)]
static mut ALIGN_SKEWS: [usize; 6] = [0; 6];
#[allow(dead_code)]
static mut ALIGN_CALLS: usize = 0;
#[allow(dead_code)]
fn set_skews(s: [usize; 6]) { unsafe { ALIGN_SKEWS = s; ALIGN_CALLS = 0; } }
/// builder for the list of expected `align_to` calls of one harness (bookkeeping only: a wrong
/// prediction makes the stub's address assertion fail, it can never hide a violation)
#[derive(Clone, Copy)]
#[allow(dead_code)]
struct Skews { s: [usize; 6], n: usize }
#[allow(dead_code)]
fn skews() -> Skews { Skews { s: [0; 6], n: 0 } }
#[allow(dead_code)]
impl Skews {
    /// one `align_to` call on a slice that starts `sk` bytes past an 8-byte aligned address
    fn raw(mut self, sk: usize) -> Self { self.s[self.n] = sk % 8; self.n += 1; self }
    /// the `align_to` call of `UnalignedBitChunk::new(bytes, off, len)` (made only when the addressed
    /// byte range is longer than 16 bytes), `bytes` starting `sk` bytes past an 8-byte aligned address
    fn ubc(self, sk: usize, off: usize, len: usize) -> Self {
        if len > 0 && (len + off % 8 + 7) / 8 > 16 { self.raw(sk + off / 8) } else { self }
    }
    fn install(self) { unsafe { ALIGN_SKEWS = self.s; ALIGN_CALLS = 0; } }
}
#[allow(dead_code)]
unsafe fn stub_align_offset<T>(p: *const T, a: usize) -> usize {
    assert!(std::mem::size_of::<T>() == 1 && a == 8);
    let k = unsafe { ALIGN_CALLS };
    assert!(k < 6);
    unsafe { ALIGN_CALLS = k + 1 };
    let skew = unsafe { ALIGN_SKEWS[k] } % a;
    assert!((p as usize) % a == skew);
    (a - skew) % a
}
macro_rules! inst {
    ($name:ident, $unwind:expr, $call:expr) => {
        #[kani::proof]
        #[kani::unwind($unwind)]
        #[kani::stub(core::ptr::align_offset, stub_align_offset)]
        fn $name() { $call }
    };
}

// ---------------------------------------------------------------------------------------------
// Model: the sequence of booleans a Vec<bool> would hold under the same operations
// (fixed-capacity array + length so that the spec side allocates nothing).
// ---------------------------------------------------------------------------------------------
const MAXM: usize = 420;
struct Model { v: [bool; MAXM], n: usize }
impl Model {
    fn new() -> Self { Model { v: [false; MAXM], n: 0 } }
    fn push(&mut self, b: bool) { self.v[self.n] = b; self.n += 1; }
    fn push_n(&mut self, k: usize, b: bool) { let mut i = 0; while i < k { self.push(b); i += 1; } }
    fn push_slice(&mut self, s: &[bool]) { let mut i = 0; while i < s.len() { self.push(s[i]); i += 1; } }
    fn push_bits(&mut self, bytes: &[u8], start: usize, len: usize) { let mut i = 0; while i < len { self.push(bit(bytes, start + i)); i += 1; } }
    /// Vec::truncate: no effect when k > len
    fn truncate(&mut self, k: usize) { if k <= self.n { self.n = k; } }
    /// Vec::resize(k, false)
    fn resize(&mut self, k: usize) { if k <= self.n { self.n = k; } else { self.push_n(k - self.n, false); } }
}

/// observable state of the builder == model: len, every bit below len, and the byte slice is exactly
/// ceil(len/8) bytes long (bytes beyond it are not observable)
fn check(b: &BooleanBufferBuilder, m: &Model) {
    assert!(b.len() == m.n && b.is_empty() == (m.n == 0));
    assert!(b.as_slice().len() == (m.n + 7) / 8);
    assert!(b.capacity() >= m.n);
    if m.n > 0 {
        let i: usize = kani::any();
        kani::assume(i < m.n);
        assert!(b.get_bit(i) == m.v[i]);
        assert!(bit(b.as_slice(), i) == m.v[i]);
    }
}
/// finish(): returns the model as a BooleanBuffer and leaves an empty, reusable builder
fn check_finish(b: &mut BooleanBufferBuilder, m: &Model) {
    let out = b.finish();
    assert!(out.len() == m.n);
    assert!(out.offset() + out.len() <= 8 * out.values().len());
    if m.n > 0 {
        let i: usize = kani::any();
        kani::assume(i < m.n);
        assert!(out.value(i) == m.v[i]);
        kani::cover!(out.value(i));
        kani::cover!(!out.value(i));
    }
    assert!(b.len() == 0 && b.is_empty() && b.as_slice().is_empty());
}

fn seq_append<const CAP: usize, const N1: usize, const N2: usize>() {
    let (v1, v2, v3, v4): (bool, bool, bool, bool) = (kani::any(), kani::any(), kani::any(), kani::any());
    let mut b = BooleanBufferBuilder::new(CAP);
    assert!(b.len() == 0 && b.is_empty() && b.capacity() >= CAP);
    let mut m = Model::new();
    b.append_n(N1, v1); m.push_n(N1, v1);
    b.append(v2); m.push(v2);
    b.append_n(N2, v3); m.push_n(N2, v3);
    b.append(v4); m.push(v4);
    check(&b, &m);
    check_finish(&mut b, &m);
    kani::cover!(v1 && !v2 && v3 && !v4);
    kani::cover!(!v1 && v2 && !v3 && v4);
}
// Contract (C19/C01) BooleanBufferBuilder::{new, append, append_n, len, is_empty, get_bit, as_slice,
// capacity, finish}: after new(cap); append_n(n1, v1); append(v2); append_n(n2, v3); append(v4) with
// symbolic values, the builder is observably the Vec<bool> built by the same pushes (length, every
// bit, byte slice of exactly ceil(len/8) bytes); finish returns that sequence as a BooleanBuffer
// inside its byte buffer and leaves an empty builder.
// @unit name=bbb_append_0_7_0 props=C19,C01 kind=bounded bound=ops=4_shape_(cap,n1,n2)=(0,7,0)_values_symbolic fns=BooleanBufferBuilder::new,BooleanBufferBuilder::append,BooleanBufferBuilder::append_n,BooleanBufferBuilder::finish,BooleanBufferBuilder::len,BooleanBufferBuilder::get_bit timeout=240
inst!(bbb_append_0_7_0, 12, seq_append::<0, 7, 0>());
// @unit name=bbb_append_0_3_62 props=C19,C01 kind=bounded bound=ops=4_shape_(cap,n1,n2)=(0,3,62)_values_symbolic fns=BooleanBufferBuilder::new,BooleanBufferBuilder::append,BooleanBufferBuilder::append_n,BooleanBufferBuilder::finish,BooleanBufferBuilder::len,BooleanBufferBuilder::get_bit tier=thorough timeout=240 note=not_confirmed_under_load
inst!(bbb_append_0_3_62, 65, seq_append::<0, 3, 62>());
// @unit name=bbb_append_100_63_64 props=C19,C01 kind=bounded bound=ops=4_shape_(cap,n1,n2)=(100,63,64)_values_symbolic fns=BooleanBufferBuilder::new,BooleanBufferBuilder::append,BooleanBufferBuilder::append_n,BooleanBufferBuilder::finish,BooleanBufferBuilder::len,BooleanBufferBuilder::get_bit tier=thorough timeout=240 note=not_confirmed_under_load
inst!(bbb_append_100_63_64, 67, seq_append::<100, 63, 64>());
// @unit name=bbb_append_0_0_0 props=C19,C01 kind=bounded bound=ops=4_shape_(cap,n1,n2)=(0,0,0)_values_symbolic fns=BooleanBufferBuilder::new,BooleanBufferBuilder::append,BooleanBufferBuilder::append_n,BooleanBufferBuilder::finish,BooleanBufferBuilder::len,BooleanBufferBuilder::get_bit tier=thorough timeout=240 note=not_confirmed_under_load
inst!(bbb_append_0_0_0, 12, seq_append::<0, 0, 0>());
// @unit name=bbb_append_8_64_1 props=C19,C01 kind=bounded bound=ops=4_shape_(cap,n1,n2)=(8,64,1)_values_symbolic fns=BooleanBufferBuilder::new,BooleanBufferBuilder::append,BooleanBufferBuilder::append_n,BooleanBufferBuilder::finish,BooleanBufferBuilder::len,BooleanBufferBuilder::get_bit tier=thorough timeout=240 note=not_confirmed_under_load
inst!(bbb_append_8_64_1, 67, seq_append::<8, 64, 1>());
// @unit name=bbb_append_0_127_70 props=C19,C01 kind=bounded bound=ops=4_shape_(cap,n1,n2)=(0,127,70)_values_symbolic fns=BooleanBufferBuilder::new,BooleanBufferBuilder::append,BooleanBufferBuilder::append_n,BooleanBufferBuilder::finish,BooleanBufferBuilder::len,BooleanBufferBuilder::get_bit tier=thorough timeout=240 note=not_confirmed_under_load
inst!(bbb_append_0_127_70, 130, seq_append::<0, 127, 70>());

fn seq_truncate<const N1: usize, const T: usize, const K: usize>() {
    let (v1, v2): (bool, bool) = (kani::any(), kani::any());
    let mut b = BooleanBufferBuilder::new(0);
    let mut m = Model::new();
    b.append_n(N1, v1); m.push_n(N1, v1);
    b.truncate(T); m.truncate(T);
    check(&b, &m);
    b.advance(K); m.push_n(K, false);
    b.append(v2); m.push(v2);
    check(&b, &m);
    check_finish(&mut b, &m);
    kani::cover!(v1 && v2);
    kani::cover!(!v1 && !v2);
}
// Contract (C19/C01) BooleanBufferBuilder::{truncate, advance}: after append_n(n1, v1); truncate(t);
// advance(k); append(v2) the builder equals the model Vec<bool> under truncate(t) (no effect when
// t > len), k pushes of false, one push: in particular the values dropped by truncate are never
// visible again (advance yields false even where true bits were truncated away).
// @unit name=bbb_truncate_13_5_6 props=C19,C01 kind=bounded bound=ops=4_shape_(n1,truncate_to,advance)=(13,5,6)_values_symbolic fns=BooleanBufferBuilder::truncate,BooleanBufferBuilder::advance,BooleanBufferBuilder::append timeout=240
inst!(bbb_truncate_13_5_6, 16, seq_truncate::<13, 5, 6>());
// @unit name=bbb_truncate_70_63_3 props=C19,C01 kind=bounded bound=ops=4_shape_(n1,truncate_to,advance)=(70,63,3)_values_symbolic fns=BooleanBufferBuilder::truncate,BooleanBufferBuilder::advance,BooleanBufferBuilder::append tier=thorough timeout=240 note=not_confirmed_under_load
inst!(bbb_truncate_70_63_3, 73, seq_truncate::<70, 63, 3>());
// @unit name=bbb_truncate_20_16_9 props=C19,C01 kind=bounded bound=ops=4_shape_(n1,truncate_to,advance)=(20,16,9)_values_symbolic fns=BooleanBufferBuilder::truncate,BooleanBufferBuilder::advance,BooleanBufferBuilder::append tier=thorough timeout=240 note=not_confirmed_under_load
inst!(bbb_truncate_20_16_9, 23, seq_truncate::<20, 16, 9>());
// @unit name=bbb_truncate_9_12_2 props=C19,C01 kind=bounded bound=ops=4_shape_(n1,truncate_to,advance)=(9,12,2)_values_symbolic fns=BooleanBufferBuilder::truncate,BooleanBufferBuilder::advance,BooleanBufferBuilder::append tier=thorough timeout=240 note=not_confirmed_under_load
inst!(bbb_truncate_9_12_2, 12, seq_truncate::<9, 12, 2>());
// @unit name=bbb_truncate_66_0_1 props=C19,C01 kind=bounded bound=ops=4_shape_(n1,truncate_to,advance)=(66,0,1)_values_symbolic fns=BooleanBufferBuilder::truncate,BooleanBufferBuilder::advance,BooleanBufferBuilder::append tier=thorough timeout=240 note=not_confirmed_under_load
inst!(bbb_truncate_66_0_1, 69, seq_truncate::<66, 0, 1>());
// @unit name=bbb_truncate_130_65_64 props=C19,C01 kind=bounded bound=ops=4_shape_(n1,truncate_to,advance)=(130,65,64)_values_symbolic fns=BooleanBufferBuilder::truncate,BooleanBufferBuilder::advance,BooleanBufferBuilder::append tier=thorough timeout=240 note=not_confirmed_under_load
inst!(bbb_truncate_130_65_64, 133, seq_truncate::<130, 65, 64>());

fn seq_resize<const N1: usize, const R1: usize, const R2: usize>() {
    let s: [bool; N1] = kani::any();
    let mut b = BooleanBufferBuilder::new(N1);
    let mut m = Model::new();
    b.append_slice(&s); m.push_slice(&s);
    check(&b, &m);
    b.resize(R1); m.resize(R1);
    check(&b, &m);
    b.resize(R2); m.resize(R2);
    check(&b, &m);
    check_finish(&mut b, &m);
}
// Contract (C19/C01) BooleanBufferBuilder::{append_slice, resize}: after append_slice(s) (symbolic
// values); resize(r1); resize(r2) the builder equals the model under Vec::resize(_, false): shrinking
// drops values, growing appends false values (never stale bits).
// @unit name=bbb_resize_13_5_11 props=C19,C01 kind=bounded bound=ops=3_shape_(n1,resize1,resize2)=(13,5,11)_values_symbolic fns=BooleanBufferBuilder::append_slice,BooleanBufferBuilder::resize timeout=240
inst!(bbb_resize_13_5_11, 16, seq_resize::<13, 5, 11>());
// @unit name=bbb_resize_10_70_64 props=C19,C01 kind=bounded bound=ops=3_shape_(n1,resize1,resize2)=(10,70,64)_values_symbolic fns=BooleanBufferBuilder::append_slice,BooleanBufferBuilder::resize tier=thorough timeout=240 note=not_confirmed_under_load
inst!(bbb_resize_10_70_64, 73, seq_resize::<10, 70, 64>());
// @unit name=bbb_resize_65_8_9 props=C19,C01 kind=bounded bound=ops=3_shape_(n1,resize1,resize2)=(65,8,9)_values_symbolic fns=BooleanBufferBuilder::append_slice,BooleanBufferBuilder::resize tier=thorough timeout=240 note=not_confirmed_under_load
inst!(bbb_resize_65_8_9, 68, seq_resize::<65, 8, 9>());
// @unit name=bbb_resize_3_3_0 props=C19,C01 kind=bounded bound=ops=3_shape_(n1,resize1,resize2)=(3,3,0)_values_symbolic fns=BooleanBufferBuilder::append_slice,BooleanBufferBuilder::resize tier=thorough timeout=240 note=not_confirmed_under_load
inst!(bbb_resize_3_3_0, 12, seq_resize::<3, 3, 0>());

fn seq_set_bit<const N1: usize, const K: usize>() {
    let v1: bool = kani::any();
    let s: [bool; K] = kani::any();
    let mut b = BooleanBufferBuilder::new(0);
    let mut m = Model::new();
    b.append_n(N1, v1); m.push_n(N1, v1);
    b.append_slice(&s); m.push_slice(&s);
    check(&b, &m);
    let (j, w): (usize, bool) = (kani::any(), kani::any());
    kani::assume(j < N1 + K);
    b.set_bit(j, w); m.v[j] = w;
    assert!(b.get_bit(j) == w);
    check(&b, &m); // frame: every other bit unchanged, length unchanged
    let x: bool = kani::any();
    b.append(x); m.push(x);
    check(&b, &m);
    check_finish(&mut b, &m);
    kani::cover!(w && j < N1);
    kani::cover!(!w && j >= N1);
}
// Contract (C19/C01) BooleanBufferBuilder::{append_slice, set_bit, get_bit}: after append_n(n1, v);
// append_slice(s); set_bit(j, w) for a symbolic j < len, bit j reads w, every other bit and the
// length are unchanged (frame), and a following append lands at position len.
// @unit name=bbb_set_bit_5_6 props=C19,C01 kind=bounded bound=ops=4_shape_(n1,slice_len)=(5,6)_values_and_index_symbolic fns=BooleanBufferBuilder::set_bit,BooleanBufferBuilder::get_bit,BooleanBufferBuilder::append_slice timeout=240
inst!(bbb_set_bit_5_6, 12, seq_set_bit::<5, 6>());
// @unit name=bbb_set_bit_60_10 props=C19,C01 kind=bounded bound=ops=4_shape_(n1,slice_len)=(60,10)_values_and_index_symbolic fns=BooleanBufferBuilder::set_bit,BooleanBufferBuilder::get_bit,BooleanBufferBuilder::append_slice tier=thorough timeout=240 note=not_confirmed_under_load
inst!(bbb_set_bit_60_10, 63, seq_set_bit::<60, 10>());
// @unit name=bbb_set_bit_0_9 props=C19,C01 kind=bounded bound=ops=4_shape_(n1,slice_len)=(0,9)_values_and_index_symbolic fns=BooleanBufferBuilder::set_bit,BooleanBufferBuilder::get_bit,BooleanBufferBuilder::append_slice tier=thorough timeout=240 note=not_confirmed_under_load
inst!(bbb_set_bit_0_9, 12, seq_set_bit::<0, 9>());

fn seq_packed<const W: usize, const START: usize, const LEN: usize, const NB: usize>() {
    let (v1, x): (bool, bool) = (kani::any(), kani::any());
    let bytes: [u8; NB] = any_bytes();
    let mut b = BooleanBufferBuilder::new(0);
    let mut m = Model::new();
    b.append_n(W, v1); m.push_n(W, v1);
    b.append_packed_range(START..START + LEN, &bytes); m.push_bits(&bytes, START, LEN);
    check(&b, &m);
    b.append(x); m.push(x);
    check(&b, &m);
    check_finish(&mut b, &m);
    kani::cover!(v1 && !x);
    kani::cover!(!v1 && x);
}
// Contract (C19/C01) BooleanBufferBuilder::append_packed_range(range, bytes): after append_n(w, v) the
// call appends exactly the bits range.start..range.end of `bytes` (all bytes symbolic: bits outside
// the range are not read as data), leaves the first w values unchanged (not modified), and a
// following append lands right after them.
// @unit name=bbb_packed_0_0_64 props=C19,C01 kind=bounded bound=ops=3_grid_(write_offset,read_offset,len,bytes)=(0,0,64,9) fns=BooleanBufferBuilder::append_packed_range tier=thorough timeout=300 note=not_confirmed_under_load
inst!(bbb_packed_0_0_64, 67, seq_packed::<0, 0, 64, 9>());
// @unit name=bbb_packed_0_3_12 props=C19,C01 kind=bounded bound=ops=3_grid_(write_offset,read_offset,len,bytes)=(0,3,12,3) fns=BooleanBufferBuilder::append_packed_range timeout=300
inst!(bbb_packed_0_3_12, 15, seq_packed::<0, 3, 12, 3>());
// @unit name=bbb_packed_3_0_12 props=C19,C01 kind=bounded bound=ops=3_grid_(write_offset,read_offset,len,bytes)=(3,0,12,3) fns=BooleanBufferBuilder::append_packed_range timeout=300
inst!(bbb_packed_3_0_12, 15, seq_packed::<3, 0, 12, 3>());
// @unit name=bbb_packed_5_7_70 props=C19,C01 kind=bounded bound=ops=3_grid_(write_offset,read_offset,len,bytes)=(5,7,70,11) fns=BooleanBufferBuilder::append_packed_range timeout=300
inst!(bbb_packed_5_7_70, 73, seq_packed::<5, 7, 70, 11>());
// @unit name=bbb_packed_8_8_130 props=C19,C01 kind=bounded bound=ops=3_grid_(write_offset,read_offset,len,bytes)=(8,8,130,19) fns=BooleanBufferBuilder::append_packed_range tier=thorough timeout=300 note=not_confirmed_under_load
inst!(bbb_packed_8_8_130, 133, seq_packed::<8, 8, 130, 19>());
// @unit name=bbb_packed_61_1_6 props=C19,C01 kind=bounded bound=ops=3_grid_(write_offset,read_offset,len,bytes)=(61,1,6,2) fns=BooleanBufferBuilder::append_packed_range tier=thorough timeout=300 note=not_confirmed_under_load
inst!(bbb_packed_61_1_6, 64, seq_packed::<61, 1, 6, 2>());
// @unit name=bbb_packed_3_5_0 props=C19,C01 kind=bounded bound=ops=3_grid_(write_offset,read_offset,len,bytes)=(3,5,0,2) fns=BooleanBufferBuilder::append_packed_range tier=thorough timeout=300 note=not_confirmed_under_load
inst!(bbb_packed_3_5_0, 12, seq_packed::<3, 5, 0, 2>());
// @unit name=bbb_packed_7_63_65 props=C19,C01 kind=bounded bound=ops=3_grid_(write_offset,read_offset,len,bytes)=(7,63,65,17) fns=BooleanBufferBuilder::append_packed_range tier=thorough timeout=300 note=not_confirmed_under_load
inst!(bbb_packed_7_63_65, 68, seq_packed::<7, 63, 65, 17>());
// @unit name=bbb_packed_64_2_128 props=C19,C01 kind=bounded bound=ops=3_grid_(write_offset,read_offset,len,bytes)=(64,2,128,18) fns=BooleanBufferBuilder::append_packed_range tier=thorough timeout=300 note=not_confirmed_under_load
inst!(bbb_packed_64_2_128, 131, seq_packed::<64, 2, 128, 18>());
// @unit name=bbb_packed_1_130_200 props=C19,C01 kind=bounded bound=ops=3_grid_(write_offset,read_offset,len,bytes)=(1,130,200,43) fns=BooleanBufferBuilder::append_packed_range tier=thorough timeout=300 note=not_confirmed_under_load
inst!(bbb_packed_1_130_200, 203, seq_packed::<1, 130, 200, 43>());
// @unit name=bbb_packed_13_0_3 props=C19,C01 kind=bounded bound=ops=3_grid_(write_offset,read_offset,len,bytes)=(13,0,3,2) fns=BooleanBufferBuilder::append_packed_range tier=thorough timeout=300 note=not_confirmed_under_load
inst!(bbb_packed_13_0_3, 16, seq_packed::<13, 0, 3, 2>());

fn seq_append_buffer<const W: usize, const OFF: usize, const LEN: usize, const NB: usize>() {
    let (v1, x): (bool, bool) = (kani::any(), kani::any());
    let bytes: [u8; NB] = any_bytes();
    let src = BooleanBuffer::new(Buffer::from_slice_ref(&bytes), OFF, LEN);
    let mut b = BooleanBufferBuilder::new(0);
    let mut m = Model::new();
    b.append_n(W, v1); m.push_n(W, v1);
    b.append_buffer(&src); m.push_bits(&bytes, OFF, LEN);
    b.append(x); m.push(x);
    check(&b, &m);
    check_finish(&mut b, &m);
    // the source is unchanged
    if LEN > 0 {
        let i: usize = kani::any();
        kani::assume(i < LEN);
        assert!(src.value(i) == bit(&bytes, OFF + i));
    }
}
// Contract (C19/C01) BooleanBufferBuilder::append_buffer(&BooleanBuffer): appends exactly the values of
// the (offset, len) view, earlier values and the source unchanged.
// @unit name=bbb_append_buffer_3_5_12 props=C19,C01 kind=bounded bound=ops=3_grid_(write_offset,src_offset,len)=(3,5,12) fns=BooleanBufferBuilder::append_buffer timeout=300
inst!(bbb_append_buffer_3_5_12, 15, seq_append_buffer::<3, 5, 12, 4>());
// @unit name=bbb_append_buffer_0_64_65 props=C19,C01 kind=bounded bound=ops=3_grid_(write_offset,src_offset,len)=(0,64,65) fns=BooleanBufferBuilder::append_buffer tier=thorough timeout=300 note=not_confirmed_under_load
inst!(bbb_append_buffer_0_64_65, 68, seq_append_buffer::<0, 64, 65, 18>());
// @unit name=bbb_append_buffer_9_0_0 props=C19,C01 kind=bounded bound=ops=3_grid_(write_offset,src_offset,len)=(9,0,0) fns=BooleanBufferBuilder::append_buffer tier=thorough timeout=300 note=not_confirmed_under_load
inst!(bbb_append_buffer_9_0_0, 12, seq_append_buffer::<9, 0, 0, 2>());
// @unit name=bbb_append_buffer_62_3_70 props=C19,C01 kind=bounded bound=ops=3_grid_(write_offset,src_offset,len)=(62,3,70) fns=BooleanBufferBuilder::append_buffer tier=thorough timeout=300 note=not_confirmed_under_load
inst!(bbb_append_buffer_62_3_70, 73, seq_append_buffer::<62, 3, 70, 11>());

fn seq_finish_reuse<const N1: usize, const N2: usize>() {
    let v1: bool = kani::any();
    let s: [bool; N2] = kani::any();
    let mut b = BooleanBufferBuilder::new(8);
    let mut m = Model::new();
    b.append_n(N1, v1); m.push_n(N1, v1);
    check_finish(&mut b, &m);
    // reuse after finish: nothing of the first sequence is visible
    let mut m = Model::new();
    b.append_slice(&s); m.push_slice(&s);
    check(&b, &m);
    let c = b.finish_cloned();
    assert!(c.len() == m.n);
    assert!(c.offset() + c.len() <= 8 * c.values().len());
    if N2 > 0 {
        let i: usize = kani::any();
        kani::assume(i < N2);
        assert!(c.value(i) == s[i]);
    }
    check(&b, &m); // finish_cloned leaves the builder unchanged
    check_finish(&mut b, &m);
}
// Contract (C19/C01) BooleanBufferBuilder::{finish, finish_cloned}: finish resets the builder (a second
// sequence built afterwards shows none of the first one's bits); finish_cloned returns the current
// sequence and leaves the builder unchanged.
// @unit name=bbb_finish_reuse_13_9 props=C19,C01 kind=bounded bound=ops=4_shape_(n1,n2)=(13,9)_values_symbolic fns=BooleanBufferBuilder::finish,BooleanBufferBuilder::finish_cloned timeout=300
inst!(bbb_finish_reuse_13_9, 16, seq_finish_reuse::<13, 9>());
// @unit name=bbb_finish_reuse_64_65 props=C19,C01 kind=bounded bound=ops=4_shape_(n1,n2)=(64,65)_values_symbolic fns=BooleanBufferBuilder::finish,BooleanBufferBuilder::finish_cloned tier=thorough timeout=300 note=not_confirmed_under_load
inst!(bbb_finish_reuse_64_65, 68, seq_finish_reuse::<64, 65>());
// @unit name=bbb_finish_reuse_0_0 props=C19,C01 kind=bounded bound=ops=4_shape_(n1,n2)=(0,0)_values_symbolic fns=BooleanBufferBuilder::finish,BooleanBufferBuilder::finish_cloned tier=thorough timeout=300 note=not_confirmed_under_load
inst!(bbb_finish_reuse_0_0, 12, seq_finish_reuse::<0, 0>());

fn seq_reserve<const N1: usize, const R: usize>() {
    let (v1, x): (bool, bool) = (kani::any(), kani::any());
    let mut b = BooleanBufferBuilder::new(0);
    let mut m = Model::new();
    b.append_n(N1, v1); m.push_n(N1, v1);
    b.reserve(R);
    assert!(b.capacity() >= N1 + R);
    check(&b, &m); // reserve does not change the observable sequence
    b.append(x); m.push(x);
    check(&b, &m);
    check_finish(&mut b, &m);
    kani::cover!(v1 && !x);
}
// Contract (C19/C01) BooleanBufferBuilder::reserve(r): capacity() >= len + r afterwards, observable
// sequence unchanged, later appends behave as before.
// @unit name=bbb_reserve_13_600 props=C19,C01 kind=bounded bound=ops=3_shape_(n1,reserve)=(13,600) fns=BooleanBufferBuilder::reserve,BooleanBufferBuilder::capacity timeout=240
inst!(bbb_reserve_13_600, 16, seq_reserve::<13, 600>());
// @unit name=bbb_reserve_0_1 props=C19,C01 kind=bounded bound=ops=3_shape_(n1,reserve)=(0,1) fns=BooleanBufferBuilder::reserve,BooleanBufferBuilder::capacity tier=thorough timeout=240 note=not_confirmed_under_load
inst!(bbb_reserve_0_1, 12, seq_reserve::<0, 1>());
// @unit name=bbb_reserve_64_0 props=C19,C01 kind=bounded bound=ops=3_shape_(n1,reserve)=(64,0) fns=BooleanBufferBuilder::reserve,BooleanBufferBuilder::capacity tier=thorough timeout=240 note=not_confirmed_under_load
inst!(bbb_reserve_64_0, 67, seq_reserve::<64, 0>());

fn seq_append_word<const W: usize, const COUNT: usize>() {
    let (v1, x): (bool, bool) = (kani::any(), kani::any());
    let word: u64 = kani::any();
    let mut b = BooleanBufferBuilder::new(0);
    let mut m = Model::new();
    b.append_n(W, v1); m.push_n(W, v1);
    b.append_word(word, COUNT);
    let mut k = 0;
    while k < COUNT { m.push((word >> k) & 1 == 1); k += 1; }
    check(&b, &m);
    b.append(x); m.push(x);
    check(&b, &m);
    check_finish(&mut b, &m);
    kani::cover!(v1 && !x && word == u64::MAX);
    kani::cover!(!v1 && x && word == 1 << 63);
}
// Contract (C19/C01) BooleanBufferBuilder::append_word(word, count), count <= 64: after append_n(w, v)
// the call appends exactly the count low bits of the symbolic word, LSB first (bits >= count of the
// word are not read as data), leaves the first w values unchanged, and a following append lands
// right after them.
// @unit name=bbb_append_word_0_64 props=C19,C01 kind=bounded bound=ops=3_grid_(bit_offset,count)=(0,64)_word_symbolic fns=BooleanBufferBuilder::append_word timeout=240
inst!(bbb_append_word_0_64, 67, seq_append_word::<0, 64>());
// @unit name=bbb_append_word_1_63 props=C19,C01 kind=bounded bound=ops=3_grid_(bit_offset,count)=(1,63)_word_symbolic fns=BooleanBufferBuilder::append_word timeout=240
inst!(bbb_append_word_1_63, 66, seq_append_word::<1, 63>());
// @unit name=bbb_append_word_7_64 props=C19,C01 kind=bounded bound=ops=3_grid_(bit_offset,count)=(7,64)_word_symbolic fns=BooleanBufferBuilder::append_word timeout=240
inst!(bbb_append_word_7_64, 67, seq_append_word::<7, 64>());
// @unit name=bbb_append_word_0_0 props=C19,C01 kind=bounded bound=ops=3_grid_(bit_offset,count)=(0,0)_word_symbolic fns=BooleanBufferBuilder::append_word tier=thorough timeout=240 note=not_confirmed_under_load
inst!(bbb_append_word_0_0, 12, seq_append_word::<0, 0>());
// @unit name=bbb_append_word_0_1 props=C19,C01 kind=bounded bound=ops=3_grid_(bit_offset,count)=(0,1)_word_symbolic fns=BooleanBufferBuilder::append_word tier=thorough timeout=240 note=not_confirmed_under_load
inst!(bbb_append_word_0_1, 12, seq_append_word::<0, 1>());
// @unit name=bbb_append_word_0_63 props=C19,C01 kind=bounded bound=ops=3_grid_(bit_offset,count)=(0,63)_word_symbolic fns=BooleanBufferBuilder::append_word tier=thorough timeout=240 note=not_confirmed_under_load
inst!(bbb_append_word_0_63, 66, seq_append_word::<0, 63>());
// @unit name=bbb_append_word_1_0 props=C19,C01 kind=bounded bound=ops=3_grid_(bit_offset,count)=(1,0)_word_symbolic fns=BooleanBufferBuilder::append_word tier=thorough timeout=240 note=not_confirmed_under_load
inst!(bbb_append_word_1_0, 12, seq_append_word::<1, 0>());
// @unit name=bbb_append_word_1_1 props=C19,C01 kind=bounded bound=ops=3_grid_(bit_offset,count)=(1,1)_word_symbolic fns=BooleanBufferBuilder::append_word tier=thorough timeout=240 note=not_confirmed_under_load
inst!(bbb_append_word_1_1, 12, seq_append_word::<1, 1>());
// @unit name=bbb_append_word_1_64 props=C19,C01 kind=bounded bound=ops=3_grid_(bit_offset,count)=(1,64)_word_symbolic fns=BooleanBufferBuilder::append_word tier=thorough timeout=240 note=not_confirmed_under_load
inst!(bbb_append_word_1_64, 67, seq_append_word::<1, 64>());
// @unit name=bbb_append_word_7_0 props=C19,C01 kind=bounded bound=ops=3_grid_(bit_offset,count)=(7,0)_word_symbolic fns=BooleanBufferBuilder::append_word tier=thorough timeout=240 note=not_confirmed_under_load
inst!(bbb_append_word_7_0, 12, seq_append_word::<7, 0>());
// @unit name=bbb_append_word_7_1 props=C19,C01 kind=bounded bound=ops=3_grid_(bit_offset,count)=(7,1)_word_symbolic fns=BooleanBufferBuilder::append_word tier=thorough timeout=240 note=not_confirmed_under_load
inst!(bbb_append_word_7_1, 12, seq_append_word::<7, 1>());
// @unit name=bbb_append_word_7_63 props=C19,C01 kind=bounded bound=ops=3_grid_(bit_offset,count)=(7,63)_word_symbolic fns=BooleanBufferBuilder::append_word tier=thorough timeout=240 note=not_confirmed_under_load
inst!(bbb_append_word_7_63, 66, seq_append_word::<7, 63>());
// @unit name=bbb_append_word_61_64 props=C19,C01 kind=bounded bound=ops=3_grid_(bit_offset,count)=(61,64)_word_symbolic fns=BooleanBufferBuilder::append_word tier=thorough timeout=240 note=not_confirmed_under_load
inst!(bbb_append_word_61_64, 67, seq_append_word::<61, 64>());
// @unit name=bbb_append_word_64_33 props=C19,C01 kind=bounded bound=ops=3_grid_(bit_offset,count)=(64,33)_word_symbolic fns=BooleanBufferBuilder::append_word tier=thorough timeout=240 note=not_confirmed_under_load
inst!(bbb_append_word_64_33, 67, seq_append_word::<64, 33>());
// @unit name=bbb_append_word_3_61 props=C19,C01 kind=bounded bound=ops=3_grid_(bit_offset,count)=(3,61)_word_symbolic fns=BooleanBufferBuilder::append_word tier=thorough timeout=240 note=not_confirmed_under_load
inst!(bbb_append_word_3_61, 64, seq_append_word::<3, 61>());
// @unit name=bbb_append_word_5_58 props=C19,C01 kind=bounded bound=ops=3_grid_(bit_offset,count)=(5,58)_word_symbolic fns=BooleanBufferBuilder::append_word tier=thorough timeout=240
inst!(bbb_append_word_5_58, 61, seq_append_word::<5, 58>());
// @unit name=bbb_append_word_7_60 props=C19,C01 kind=bounded bound=ops=3_grid_(bit_offset,count)=(7,60)_word_symbolic fns=BooleanBufferBuilder::append_word tier=thorough timeout=240
inst!(bbb_append_word_7_60, 63, seq_append_word::<7, 60>());
// @unit name=bbb_append_word_2_62 props=C19,C01 kind=bounded bound=ops=3_grid_(bit_offset,count)=(2,62)_word_symbolic fns=BooleanBufferBuilder::append_word tier=thorough timeout=240 note=not_confirmed_under_load
inst!(bbb_append_word_2_62, 65, seq_append_word::<2, 62>());
// @unit name=bbb_append_word_6_59 props=C19,C01 kind=bounded bound=ops=3_grid_(bit_offset,count)=(6,59)_word_symbolic fns=BooleanBufferBuilder::append_word tier=thorough timeout=240 note=not_confirmed_under_load
inst!(bbb_append_word_6_59, 62, seq_append_word::<6, 59>());

fn seq_extend_trusted<const W: usize, const K: usize>() {
    let (v1, x): (bool, bool) = (kani::any(), kani::any());
    let s: [bool; K] = kani::any();
    let mut b = BooleanBufferBuilder::new(0);
    let mut m = Model::new();
    b.append_n(W, v1); m.push_n(W, v1);
    unsafe { b.extend_trusted_len(s.iter().copied()) };
    m.push_slice(&s);
    check(&b, &m);
    b.append(x); m.push(x);
    check(&b, &m);
    check_finish(&mut b, &m);
    kani::cover!(v1 && !x);
    kani::cover!(!v1 && x);
}
// Contract (C19/C01) BooleanBufferBuilder::extend_trusted_len(iter) (iterator with exact size hint):
// after append_n(w, v) the call appends exactly the items of the iterator in order (through
// MutableBuffer::extend_bool_trusted_len: unaligned prefix up to the next 64-bit boundary, whole
// 64-bit words, suffix), leaves the first w values unchanged, and a following append lands right
// after them.
// @unit name=bbb_extend_trusted_3_70 props=C19,C01 kind=bounded bound=ops=3_grid_(bit_offset,items)=(3,70)_values_symbolic fns=BooleanBufferBuilder::extend_trusted_len,MutableBuffer::extend_bool_trusted_len tier=thorough timeout=400 note=not_confirmed_under_load
inst!(bbb_extend_trusted_3_70, 73, seq_extend_trusted::<3, 70>());
// @unit name=bbb_extend_trusted_0_64 props=C19,C01 kind=bounded bound=ops=3_grid_(bit_offset,items)=(0,64)_values_symbolic fns=BooleanBufferBuilder::extend_trusted_len,MutableBuffer::extend_bool_trusted_len tier=thorough timeout=400 note=not_confirmed_under_load
inst!(bbb_extend_trusted_0_64, 67, seq_extend_trusted::<0, 64>());
// @unit name=bbb_extend_trusted_3_5 props=C19,C01 kind=bounded bound=ops=3_grid_(bit_offset,items)=(3,5)_values_symbolic fns=BooleanBufferBuilder::extend_trusted_len,MutableBuffer::extend_bool_trusted_len tier=thorough timeout=400 note=not_confirmed_under_load
inst!(bbb_extend_trusted_3_5, 67, seq_extend_trusted::<3, 5>());
// @unit name=bbb_extend_trusted_61_10 props=C19,C01 kind=bounded bound=ops=3_grid_(bit_offset,items)=(61,10)_values_symbolic fns=BooleanBufferBuilder::extend_trusted_len,MutableBuffer::extend_bool_trusted_len tier=thorough timeout=400 note=not_confirmed_under_load
inst!(bbb_extend_trusted_61_10, 67, seq_extend_trusted::<61, 10>());
// @unit name=bbb_extend_trusted_64_130 props=C19,C01 kind=bounded bound=ops=3_grid_(bit_offset,items)=(64,130)_values_symbolic fns=BooleanBufferBuilder::extend_trusted_len,MutableBuffer::extend_bool_trusted_len tier=thorough timeout=400 note=not_confirmed_under_load
inst!(bbb_extend_trusted_64_130, 133, seq_extend_trusted::<64, 130>());
// @unit name=bbb_extend_trusted_5_0 props=C19,C01 kind=bounded bound=ops=3_grid_(bit_offset,items)=(5,0)_values_symbolic fns=BooleanBufferBuilder::extend_trusted_len,MutableBuffer::extend_bool_trusted_len tier=thorough timeout=400 note=not_confirmed_under_load
inst!(bbb_extend_trusted_5_0, 67, seq_extend_trusted::<5, 0>());
// @unit name=bbb_extend_trusted_7_200 props=C19,C01 kind=bounded bound=ops=3_grid_(bit_offset,items)=(7,200)_values_symbolic fns=BooleanBufferBuilder::extend_trusted_len,MutableBuffer::extend_bool_trusted_len tier=thorough timeout=400 note=not_confirmed_under_load
inst!(bbb_extend_trusted_7_200, 203, seq_extend_trusted::<7, 200>());
// @unit name=bbb_extend_trusted_60_4 props=C19,C01 kind=bounded bound=ops=3_grid_(bit_offset,items)=(60,4)_values_symbolic fns=BooleanBufferBuilder::extend_trusted_len,MutableBuffer::extend_bool_trusted_len tier=thorough timeout=400 note=not_confirmed_under_load
inst!(bbb_extend_trusted_60_4, 67, seq_extend_trusted::<60, 4>());
// @unit name=bbb_extend_trusted_8_56 props=C19,C01 kind=bounded bound=ops=3_grid_(bit_offset,items)=(8,56)_values_symbolic fns=BooleanBufferBuilder::extend_trusted_len,MutableBuffer::extend_bool_trusted_len tier=thorough timeout=400 note=not_confirmed_under_load
inst!(bbb_extend_trusted_8_56, 67, seq_extend_trusted::<8, 56>());

fn seq_new_from_buffer<const NB: usize, const LEN: usize, const K: usize>() {
    let bytes: [u8; NB] = any_bytes();
    let mut mb = MutableBuffer::new(0);
    mb.extend_from_slice(&bytes);
    let mut b = BooleanBufferBuilder::new_from_buffer(mb, LEN);
    let mut m = Model::new();
    m.push_bits(&bytes, 0, LEN);
    check(&b, &m);
    // the bits of the buffer at positions >= LEN are not part of the sequence: growing yields false
    b.advance(K); m.push_n(K, false);
    check(&b, &m);
    // as_slice_mut exposes the same bytes as as_slice / get_bit
    if m.n > 0 {
        let j: usize = kani::any();
        kani::assume(j < m.n);
        b.as_slice_mut()[j / 8] ^= 1 << (j % 8);
        m.v[j] = !m.v[j];
        check(&b, &m);
    }
    let out = b.build();
    assert!(out.len() == m.n && out.offset() + out.len() <= 8 * out.values().len());
    if m.n > 0 {
        let i: usize = kani::any();
        kani::assume(i < m.n);
        assert!(out.value(i) == m.v[i]);
        kani::cover!(out.value(i) && i >= LEN);
        kani::cover!(!out.value(i) && i < LEN);
    }
    kani::cover!(out.len() == LEN + K);
}
// Contract (C19/C01) BooleanBufferBuilder::{new_from_buffer, as_slice_mut, build}: new_from_buffer(buf,
// len) with len <= 8*bytes is the sequence of the first len bits of buf (symbolic bytes; bits at
// positions >= len are not read as data: advance(k) afterwards yields k false values); a bit flipped
// through as_slice_mut is the bit read by get_bit / as_slice; build returns the sequence as a
// BooleanBuffer inside its byte buffer.
// @unit name=bbb_new_from_buffer_3_13_6 props=C19,C01 kind=bounded bound=grid_(bytes,len,advance)=(3,13,6) fns=BooleanBufferBuilder::new_from_buffer,BooleanBufferBuilder::as_slice_mut,BooleanBufferBuilder::as_slice,BooleanBufferBuilder::build timeout=300
inst!(bbb_new_from_buffer_3_13_6, 16, seq_new_from_buffer::<3, 13, 6>());
// @unit name=bbb_new_from_buffer_9_64_3 props=C19,C01 kind=bounded bound=grid_(bytes,len,advance)=(9,64,3) fns=BooleanBufferBuilder::new_from_buffer,BooleanBufferBuilder::as_slice_mut,BooleanBufferBuilder::as_slice,BooleanBufferBuilder::build tier=thorough timeout=300 note=not_confirmed_under_load
inst!(bbb_new_from_buffer_9_64_3, 67, seq_new_from_buffer::<9, 64, 3>());
// @unit name=bbb_new_from_buffer_2_16_1 props=C19,C01 kind=bounded bound=grid_(bytes,len,advance)=(2,16,1) fns=BooleanBufferBuilder::new_from_buffer,BooleanBufferBuilder::as_slice_mut,BooleanBufferBuilder::as_slice,BooleanBufferBuilder::build tier=thorough timeout=300 note=not_confirmed_under_load
inst!(bbb_new_from_buffer_2_16_1, 19, seq_new_from_buffer::<2, 16, 1>());
// @unit name=bbb_new_from_buffer_1_0_9 props=C19,C01 kind=bounded bound=grid_(bytes,len,advance)=(1,0,9) fns=BooleanBufferBuilder::new_from_buffer,BooleanBufferBuilder::as_slice_mut,BooleanBufferBuilder::as_slice,BooleanBufferBuilder::build tier=thorough timeout=300 note=not_confirmed_under_load
inst!(bbb_new_from_buffer_1_0_9, 12, seq_new_from_buffer::<1, 0, 9>());

// Contract (C19/C01) BooleanBufferBuilder::new_from_buffer rejection direction (may-reject): for a 3-byte
// buffer and any usize len, whenever the call returns, len <= 24 and the builder has that length.
// @unit name=bbb_new_from_buffer_rejects props=C19,C01 kind=bounded bound=buffer_bytes=3_len_full_usize fns=BooleanBufferBuilder::new_from_buffer tier=thorough timeout=200 mayreject=1 note=not_confirmed_under_load
#[kani::proof]
#[kani::unwind(6)]
#[kani::stub(alloc::fmt::format, stub_format)]
fn bbb_new_from_buffer_rejects() {
    let bytes: [u8; 3] = any_bytes();
    let mut mb = MutableBuffer::new(0);
    mb.extend_from_slice(&bytes);
    let len: usize = kani::any();
    let b = BooleanBufferBuilder::new_from_buffer(mb, len);
    assert!(len <= 24 && b.len() == len && b.as_slice().len() == (len + 7) / 8);
    kani::cover!(len == 24);
    kani::cover!(len == 0);
    kani::cover!(len == 17);
}

fn seq_convert<const N1: usize, const K: usize, const VARIANT: u8>() {
    let v1: bool = kani::any();
    let s: [bool; K] = kani::any();
    let mut b = BooleanBufferBuilder::new(3);
    let mut m = Model::new();
    b.append_n(N1, v1); m.push_n(N1, v1);
    b.append_slice(&s); m.push_slice(&s);
    let i: usize = kani::any();
    kani::assume(i < m.n);
    set_skews([0; 6]);
    match VARIANT {
        0 => { let o = b.build(); assert!(o.len() == m.n && o.value(i) == m.v[i]); }
        1 => { let o: BooleanBuffer = b.into(); assert!(o.len() == m.n && o.value(i) == m.v[i] && o.offset() + o.len() <= 8 * o.values().len()); }
        2 => { let o: Buffer = b.into(); assert!(o.len() == (m.n + 7) / 8 && bit(o.as_slice(), i) == m.v[i]); }
        _ => {
            let o: NullBuffer = b.into();
            let mut nulls = 0usize;
            let mut k = 0;
            while k < m.n { if !m.v[k] { nulls += 1; } k += 1; }
            assert!(o.len() == m.n && o.is_valid(i) == m.v[i] && o.null_count() == nulls);
        }
    }
    kani::cover!(m.v[i]);
    kani::cover!(!m.v[i]);
}
// Contract (C19/C01) BooleanBufferBuilder::build and the conversions into BooleanBuffer / Buffer /
// NullBuffer (VARIANT 0/1/2/3): the result holds exactly the model sequence (Buffer: exactly
// ceil(len/8) bytes, bit i = value i; NullBuffer: validity = sequence and null_count = number of
// false values exactly).
// @unit name=bbb_convert_5_6_3 props=C19,C01 kind=bounded bound=shape_(n1,slice_len,variant)=(5,6,3)_values_symbolic fns=BooleanBufferBuilder::build,BooleanBufferBuilder::into timeout=300
inst!(bbb_convert_5_6_3, 14, seq_convert::<5, 6, 3>());
// @unit name=bbb_convert_5_6_0 props=C19,C01 kind=bounded bound=shape_(n1,slice_len,variant)=(5,6,0)_values_symbolic fns=BooleanBufferBuilder::build,BooleanBufferBuilder::into tier=thorough timeout=300 note=not_confirmed_under_load
inst!(bbb_convert_5_6_0, 14, seq_convert::<5, 6, 0>());
// @unit name=bbb_convert_60_9_1 props=C19,C01 kind=bounded bound=shape_(n1,slice_len,variant)=(60,9,1)_values_symbolic fns=BooleanBufferBuilder::build,BooleanBufferBuilder::into tier=thorough timeout=300 note=not_confirmed_under_load
inst!(bbb_convert_60_9_1, 72, seq_convert::<60, 9, 1>());
// @unit name=bbb_convert_5_6_2 props=C19,C01 kind=bounded bound=shape_(n1,slice_len,variant)=(5,6,2)_values_symbolic fns=BooleanBufferBuilder::build,BooleanBufferBuilder::into tier=thorough timeout=300 note=not_confirmed_under_load
inst!(bbb_convert_5_6_2, 14, seq_convert::<5, 6, 2>());
