// Kani contract harnesses for /repo/arrow-buffer/src/builder/boolean.rs (child module: sees private items via super::)
