// Kani contract harnesses for /repo/arrow-buffer/src/builder/mod.rs (child module: sees private items via super::)
