// Kani contract harnesses for /repo/arrow-buffer/src/builder/mod.rs (child module: sees private items via super::)
use super::*;
#[path = "/verif/kani/support/spec.rs"]
mod spec;
#[allow(unused_imports)]
use spec::*;

// ---------------------------------------------------------------------------------------------
// Shared harness helpers (spec side). Nothing here calls the code under test.
// ---------------------------------------------------------------------------------------------

/// N <= 64 fully symbolic bytes built without a loop (lets a harness use a small unwind bound).
#[allow(dead_code)]
fn any_bytes<const N: usize>() -> [u8; N] {
    let w: (u128, u128, u128, u128) = (kani::any(), kani::any(), kani::any(), kani::any());
    let full: [u8; 64] = unsafe { std::mem::transmute(w) };
    let mut out = [0u8; N];
    out.copy_from_slice(&full[..N]);
    out
}
#[allow(dead_code)]
fn mask(b: bool) -> u64 { if b { u64::MAX } else { 0 } }

// STUB (listed): `core::ptr::align_offset`, the single address-dependent step of
// `<[u8]>::align_to::<u64>()`. CBMC cannot constant-fold an address during symbolic execution, so
// without it every slice length after `align_to` is symbolic (measured: out of memory / > 5 min).
// The stub returns the exact value of the real function for a pointer whose address is congruent
// to the harness-supplied skew modulo 8, and it *asserts* that congruence on the real address, so
// nothing is assumed about the allocator; the rest of the real `align_to` runs unchanged.
// The k-th call uses ALIGN_SKEWS[k] (control flow is concrete, so k is concrete).
#[allow(dead_code)]
static mut ALIGN_SKEWS: [usize; 6] = [0; 6];
#[allow(dead_code)]
static mut ALIGN_CALLS: usize = 0;
#[allow(dead_code)]
fn set_skews(s: [usize; 6]) { unsafe { ALIGN_SKEWS = s; ALIGN_CALLS = 0; } }
/// builder for the list of expected `align_to` calls of one harness (bookkeeping only: a wrong
/// prediction makes the stub's address assertion fail, it can never hide a violation)
#[derive(Clone, Copy)]
#[allow(dead_code)]
struct Skews { s: [usize; 6], n: usize }
#[allow(dead_code)]
fn skews() -> Skews { Skews { s: [0; 6], n: 0 } }
#[allow(dead_code)]
impl Skews {
    /// one `align_to` call on a slice that starts `sk` bytes past an 8-byte aligned address
    fn raw(mut self, sk: usize) -> Self { self.s[self.n] = sk % 8; self.n += 1; self }
    /// the `align_to` call of `UnalignedBitChunk::new(bytes, off, len)` (made only when the addressed
    /// byte range is longer than 16 bytes), `bytes` starting `sk` bytes past an 8-byte aligned address
    fn ubc(self, sk: usize, off: usize, len: usize) -> Self {
        if len > 0 && (len + off % 8 + 7) / 8 > 16 { self.raw(sk + off / 8) } else { self }
    }
    fn install(self) { unsafe { ALIGN_SKEWS = self.s; ALIGN_CALLS = 0; } }
}
#[allow(dead_code)]
unsafe fn stub_align_offset<T>(p: *const T, a: usize) -> usize {
    assert!(std::mem::size_of::<T>() == 1 && a == 8);
    let k = unsafe { ALIGN_CALLS };
    assert!(k < 6);
    unsafe { ALIGN_CALLS = k + 1 };
    let skew = unsafe { ALIGN_SKEWS[k] } % a;
    assert!((p as usize) % a == skew);
    (a - skew) % a
}
macro_rules! inst {
    ($name:ident, $unwind:expr, $call:expr) => {
        #[kani::proof]
        #[kani::unwind($unwind)]
        #[kani::stub(core::ptr::align_offset, stub_align_offset)]
        fn $name() { $call }
    };
}

const MAXM: usize = 96;
struct Model { v: [i32; MAXM], n: usize }
impl Model {
    fn new() -> Self { Model { v: [0; MAXM], n: 0 } }
    fn push(&mut self, x: i32) { self.v[self.n] = x; self.n += 1; }
    fn push_n(&mut self, k: usize, x: i32) { let mut i = 0; while i < k { self.push(x); i += 1; } }
    fn push_slice(&mut self, s: &[i32]) { let mut i = 0; while i < s.len() { self.push(s[i]); i += 1; } }
    fn truncate(&mut self, k: usize) { if k <= self.n { self.n = k; } }
}
fn check(b: &BufferBuilder<i32>, m: &Model) {
    assert!(b.len() == m.n && b.is_empty() == (m.n == 0) && b.capacity() >= m.n);
    assert!(b.as_slice().len() == m.n);
    if m.n > 0 {
        let i: usize = kani::any();
        kani::assume(i < m.n);
        assert!(b.as_slice()[i] == m.v[i]);
    }
}
fn check_finish(b: &mut BufferBuilder<i32>, m: &Model) {
    let out: Buffer = b.finish();
    assert!(out.len() == 4 * m.n);
    if m.n > 0 {
        let i: usize = kani::any();
        kani::assume(i < m.n);
        let s = out.as_slice();
        assert!(i32::from_le_bytes([s[4 * i], s[4 * i + 1], s[4 * i + 2], s[4 * i + 3]]) == m.v[i]);
    }
    assert!(b.len() == 0 && b.is_empty());
}

fn seq_bb<const CAP: usize, const N1: usize, const K: usize, const T: usize, const ADV: usize>() {
    let (x, y, z): (i32, i32, i32) = (kani::any(), kani::any(), kani::any());
    let s: [i32; K] = kani::any();
    set_skews([0; 6]);
    let mut b = BufferBuilder::<i32>::new(CAP);
    assert!(b.len() == 0 && b.capacity() >= CAP);
    let mut m = Model::new();
    b.append(x); m.push(x);
    b.append_n(N1, y); m.push_n(N1, y);
    b.append_slice(&s); m.push_slice(&s);
    check(&b, &m);
    b.truncate(T); m.truncate(T);
    check(&b, &m);
    b.advance(ADV); m.push_n(ADV, 0);
    b.append(z); m.push(z);
    check(&b, &m);
    check_finish(&mut b, &m);
    kani::cover!(x == -1 && y == i32::MIN && z == 7);
}
// Contract (C01) BufferBuilder::<i32>::{new, append, append_n, append_slice, truncate, advance, len,
// as_slice, capacity, finish}: after new(cap); append(x); append_n(n1, y); append_slice(s); truncate(t);
// advance(a); append(z) (all values symbolic) the builder is observably the Vec<i32> built by the
// same pushes, Vec::truncate (no effect when t > len), `a` pushes of 0, one push; finish returns
// exactly 4*len bytes holding those values in little-endian order (across the 64-byte reallocation
// boundary) and leaves an empty builder.
// @unit name=bufb_i32_0_3_4_5_2 props=C01 kind=bounded bound=ops=6_shape_(cap,n1,slice_len,truncate_to,advance)=(0,3,4,5,2)_values_symbolic fns=BufferBuilder::append,BufferBuilder::append_n,BufferBuilder::append_slice,BufferBuilder::truncate,BufferBuilder::advance,BufferBuilder::finish tier=thorough timeout=400 note=not_confirmed_under_load
inst!(bufb_i32_0_3_4_5_2, 13, seq_bb::<0, 3, 4, 5, 2>());
// @unit name=bufb_i32_2_14_3_17_1 props=C01 kind=bounded bound=ops=6_shape_(cap,n1,slice_len,truncate_to,advance)=(2,14,3,17,1)_values_symbolic fns=BufferBuilder::append,BufferBuilder::append_n,BufferBuilder::append_slice,BufferBuilder::truncate,BufferBuilder::advance,BufferBuilder::finish tier=thorough timeout=400 note=not_confirmed_under_load
inst!(bufb_i32_2_14_3_17_1, 22, seq_bb::<2, 14, 3, 17, 1>());
// @unit name=bufb_i32_0_0_0_0_0 props=C01 kind=bounded bound=ops=6_shape_(cap,n1,slice_len,truncate_to,advance)=(0,0,0,0,0)_values_symbolic fns=BufferBuilder::append,BufferBuilder::append_n,BufferBuilder::append_slice,BufferBuilder::truncate,BufferBuilder::advance,BufferBuilder::finish tier=thorough timeout=400 note=not_confirmed_under_load
inst!(bufb_i32_0_0_0_0_0, 12, seq_bb::<0, 0, 0, 0, 0>());
// @unit name=bufb_i32_4_20_9_40_3 props=C01 kind=bounded bound=ops=6_shape_(cap,n1,slice_len,truncate_to,advance)=(4,20,9,40,3)_values_symbolic fns=BufferBuilder::append,BufferBuilder::append_n,BufferBuilder::append_slice,BufferBuilder::truncate,BufferBuilder::advance,BufferBuilder::finish tier=thorough timeout=400 note=not_confirmed_under_load
inst!(bufb_i32_4_20_9_40_3, 36, seq_bb::<4, 20, 9, 40, 3>());
// @unit name=bufb_i32_0_17_2_16_20 props=C01 kind=bounded bound=ops=6_shape_(cap,n1,slice_len,truncate_to,advance)=(0,17,2,16,20)_values_symbolic fns=BufferBuilder::append,BufferBuilder::append_n,BufferBuilder::append_slice,BufferBuilder::truncate,BufferBuilder::advance,BufferBuilder::finish tier=thorough timeout=400 note=not_confirmed_under_load
inst!(bufb_i32_0_17_2_16_20, 43, seq_bb::<0, 17, 2, 16, 20>());

fn seq_bb2<const K1: usize, const Z: usize, const K2: usize, const K3: usize, const R: usize>() {
    let s1: [i32; K1] = kani::any();
    let s2: [i32; K2] = kani::any();
    let s3: [i32; K3] = kani::any();
    let mut m = Model::new();
    let mut b: BufferBuilder<i32> = s1.iter().copied().collect(); m.push_slice(&s1);
    check(&b, &m);
    b.append_n_zeroed(Z); m.push_n(Z, 0);
    unsafe { b.append_trusted_len_iter(s2.iter().copied()) }; m.push_slice(&s2);
    check(&b, &m);
    b.extend(s3.iter().copied()); m.push_slice(&s3);
    b.reserve(R);
    assert!(b.capacity() >= m.n + R);
    check(&b, &m); // reserve does not change the contents
    let out: Buffer = b.build();
    assert!(out.len() == 4 * m.n);
    if m.n > 0 {
        let i: usize = kani::any();
        kani::assume(i < m.n);
        let s = out.as_slice();
        assert!(i32::from_le_bytes([s[4 * i], s[4 * i + 1], s[4 * i + 2], s[4 * i + 3]]) == m.v[i]);
        kani::cover!(m.v[i] == -1 && i >= K1 + Z);
    }
    kani::cover!(out.len() == 4 * (K1 + Z + K2 + K3));
}
// Contract (C01) BufferBuilder::<i32>::{from_iter, append_n_zeroed, append_trusted_len_iter, extend,
// reserve, capacity, len, as_slice, build}: collecting s1, then append_n_zeroed(z),
// append_trusted_len_iter(s2), extend(s3), reserve(r) gives observably the Vec<i32>
// s1 ++ [0; z] ++ s2 ++ s3 (all values symbolic), capacity() >= len + r, and build returns exactly
// 4*len bytes holding those values in little-endian order.
// @unit name=bufb_i32_iter_3_2_4_1_50 props=C01 kind=bounded bound=ops=5_shape_(k1,zeroed,k2,k3,reserve)=(3,2,4,1,50)_values_symbolic fns=BufferBuilder::from_iter,BufferBuilder::append_n_zeroed,BufferBuilder::append_trusted_len_iter,BufferBuilder::extend,BufferBuilder::reserve,BufferBuilder::capacity,BufferBuilder::len,BufferBuilder::build tier=thorough timeout=400 note=not_confirmed_under_load
inst!(bufb_i32_iter_3_2_4_1_50, 14, seq_bb2::<3, 2, 4, 1, 50>());
// @unit name=bufb_i32_iter_0_0_0_0_0 props=C01 kind=bounded bound=ops=5_shape_(k1,zeroed,k2,k3,reserve)=(0,0,0,0,0)_values_symbolic fns=BufferBuilder::from_iter,BufferBuilder::append_n_zeroed,BufferBuilder::append_trusted_len_iter,BufferBuilder::extend,BufferBuilder::reserve,BufferBuilder::capacity,BufferBuilder::len,BufferBuilder::build tier=thorough timeout=400 note=not_confirmed_under_load
inst!(bufb_i32_iter_0_0_0_0_0, 12, seq_bb2::<0, 0, 0, 0, 0>());
// @unit name=bufb_i32_iter_17_1_2_16_3 props=C01 kind=bounded bound=ops=5_shape_(k1,zeroed,k2,k3,reserve)=(17,1,2,16,3)_values_symbolic fns=BufferBuilder::from_iter,BufferBuilder::append_n_zeroed,BufferBuilder::append_trusted_len_iter,BufferBuilder::extend,BufferBuilder::reserve,BufferBuilder::capacity,BufferBuilder::len,BufferBuilder::build tier=thorough timeout=400 note=not_confirmed_under_load
inst!(bufb_i32_iter_17_1_2_16_3, 40, seq_bb2::<17, 1, 2, 16, 3>());

fn seq_bb_from_vec<const K: usize>() {
    let s: [i32; K] = kani::any();
    let x: i32 = kani::any();
    let mut m = Model::new();
    let mut b = BufferBuilder::<i32>::from(s.to_vec()); m.push_slice(&s);
    check(&b, &m);
    b.append(x); m.push(x);
    check(&b, &m);
    let mut d = BufferBuilder::<i32>::default();
    assert!(d.len() == 0 && d.is_empty());
    d.append(x);
    assert!(d.len() == 1 && d.as_slice()[0] == x);
    if K > 0 {
        let j: usize = kani::any();
        kani::assume(j < K);
        b.as_slice_mut()[j] = x; m.v[j] = x;
        check(&b, &m);
    }
    check_finish(&mut b, &m);
}
// Contract (C01) BufferBuilder::<i32>::{from(Vec), default, as_slice_mut}: from(vec) holds exactly the
// vector's values and keeps accepting appends; default() is empty; a value written through
// as_slice_mut is the value read back (all others unchanged); finish returns the model bytes.
// @unit name=bufb_i32_from_vec_5 props=C01 kind=bounded bound=shape_vec_len=5_values_symbolic fns=BufferBuilder::from,BufferBuilder::default,BufferBuilder::as_slice_mut,BufferBuilder::as_slice tier=thorough timeout=400 note=not_confirmed_under_load
inst!(bufb_i32_from_vec_5, 12, seq_bb_from_vec::<5>());
// @unit name=bufb_i32_from_vec_0 props=C01 kind=bounded bound=shape_vec_len=0_values_symbolic fns=BufferBuilder::from,BufferBuilder::default,BufferBuilder::as_slice_mut,BufferBuilder::as_slice tier=thorough timeout=400 note=not_confirmed_under_load
inst!(bufb_i32_from_vec_0, 12, seq_bb_from_vec::<0>());
// @unit name=bufb_i32_from_vec_17 props=C01 kind=bounded bound=shape_vec_len=17_values_symbolic fns=BufferBuilder::from,BufferBuilder::default,BufferBuilder::as_slice_mut,BufferBuilder::as_slice tier=thorough timeout=400 note=not_confirmed_under_load
inst!(bufb_i32_from_vec_17, 21, seq_bb_from_vec::<17>());
