// Kani contract harnesses for /repo/arrow-buffer/src/builder/null.rs (child module: sees private items via super::)
use super::*;
#[path = "/verif/kani/support/spec.rs"]
mod spec;
#[allow(unused_imports)]
use spec::*;

// ---------------------------------------------------------------------------------------------
// Shared harness helpers (spec side). Nothing here calls the code under test.
// ---------------------------------------------------------------------------------------------

/// N <= 64 fully symbolic bytes built without a loop (lets a harness use a small unwind bound).
#[allow(dead_code)]
fn any_bytes<const N: usize>() -> [u8; N] {
    let w: (u128, u128, u128, u128) = (kani::any(), kani::any(), kani::any(), kani::any());
    let full: [u8; 64] = unsafe { std::mem::transmute(w) };
    let mut out = [0u8; N];
    out.copy_from_slice(&full[..N]);
    out
}
#[allow(dead_code)]
fn mask(b: bool) -> u64 { if b { u64::MAX } else { 0 } }

// STUB (listed): `core::ptr::align_offset`, the single address-dependent step of
// `<[u8]>::align_to::<u64>()`. CBMC cannot constant-fold an address during symbolic execution, so
// without it every slice length after `align_to` is symbolic (measured: out of memory / > 5 min).
// The stub returns the exact value of the real function for a pointer whose address is congruent
// to the harness-supplied skew modulo 8, and it *asserts* that congruence on the real address, so
// nothing is assumed about the allocator; the rest of the real `align_to` runs unchanged.
// The k-th call uses ALIGN_SKEWS[k] (control flow is concrete, so k is concrete).
#[allow(dead_code)]
static mut ALIGN_SKEWS: [usize; 6] = [0; 6];
#[allow(dead_code)]
static mut ALIGN_CALLS: usize = 0;
#[allow(dead_code)]
fn set_skews(s: [usize; 6]) { unsafe { ALIGN_SKEWS = s; ALIGN_CALLS = 0; } }
/// builder for the list of expected `align_to` calls of one harness (bookkeeping only: a wrong
/// prediction makes the stub's address assertion fail, it can never hide a violation)
#[derive(Clone, Copy)]
#[allow(dead_code)]
struct Skews { s: [usize; 6], n: usize }
#[allow(dead_code)]
fn skews() -> Skews { Skews { s: [0; 6], n: 0 } }
#[allow(dead_code)]
impl Skews {
    /// one `align_to` call on a slice that starts `sk` bytes past an 8-byte aligned address
    fn raw(mut self, sk: usize) -> Self { self.s[self.n] = sk % 8; self.n += 1; self }
    /// the `align_to` call of `UnalignedBitChunk::new(bytes, off, len)` (made only when the addressed
    /// byte range is longer than 16 bytes), `bytes` starting `sk` bytes past an 8-byte aligned address
    fn ubc(self, sk: usize, off: usize, len: usize) -> Self {
        if len > 0 && (len + off % 8 + 7) / 8 > 16 { self.raw(sk + off / 8) } else { self }
    }
    fn install(self) { unsafe { ALIGN_SKEWS = self.s; ALIGN_CALLS = 0; } }
}
#[allow(dead_code)]
unsafe fn stub_align_offset<T>(p: *const T, a: usize) -> usize {
    assert!(std::mem::size_of::<T>() == 1 && a == 8);
    let k = unsafe { ALIGN_CALLS };
    assert!(k < 6);
    unsafe { ALIGN_CALLS = k + 1 };
    let skew = unsafe { ALIGN_SKEWS[k] } % a;
    assert!((p as usize) % a == skew);
    (a - skew) % a
}
macro_rules! inst {
    ($name:ident, $unwind:expr, $call:expr) => {
        #[kani::proof]
        #[kani::unwind($unwind)]
        #[kani::stub(core::ptr::align_offset, stub_align_offset)]
        fn $name() { $call }
    };
}

use crate::{BooleanBuffer, Buffer};

// Model: the Vec<bool> of validity values appended so far, plus `mat` = "the operation sequence
// contained an operation that appends at least one null (false)" -- the condition under which the
// builder may no longer answer None.
const MAXM: usize = 300;
struct Model { v: [bool; MAXM], n: usize, mat: bool }
impl Model {
    fn new() -> Self { Model { v: [true; MAXM], n: 0, mat: false } }
    fn push(&mut self, b: bool) { self.v[self.n] = b; self.n += 1; if !b { self.mat = true; } }
    fn push_n(&mut self, k: usize, b: bool) { let mut i = 0; while i < k { self.push(b); i += 1; } }
    fn push_slice(&mut self, s: &[bool]) { let mut i = 0; while i < s.len() { self.push(s[i]); i += 1; } }
    fn push_bits(&mut self, bytes: &[u8], start: usize, len: usize) { let mut i = 0; while i < len { self.push(bit(bytes, start + i)); i += 1; } }
    fn truncate(&mut self, k: usize) { if k <= self.n { self.n = k; } }
    fn nulls(&self) -> usize { let mut c = 0; let mut i = 0; while i < self.n { if !self.v[i] { c += 1; } i += 1; } c }
}
fn check(b: &NullBufferBuilder, m: &Model) {
    assert!(b.len() == m.n && b.is_empty() == (m.n == 0));
    match b.as_slice() {
        None => assert!(!m.mat),
        Some(s) => { assert!(m.mat); assert!(s.len() == (m.n + 7) / 8); }
    }
    if m.n > 0 {
        let j: usize = kani::any();
        kani::assume(j < m.n);
        assert!(b.is_valid(j) == m.v[j]);
        if let Some(s) = b.as_slice() { assert!(bit(s, j) == m.v[j]); }
    }
}
fn check_result(r: &Option<NullBuffer>, m: &Model) {
    match r {
        // None iff no null was ever appended (both directions)
        None => assert!(!m.mat && m.nulls() == 0),
        Some(n) => {
            assert!(m.mat);
            assert!(n.len() == m.n);
            assert!(n.null_count() == m.nulls());
            assert!(n.offset() + n.len() <= 8 * n.validity().len());
            if m.n > 0 {
                let i: usize = kani::any();
                kani::assume(i < m.n);
                assert!(n.is_valid(i) == m.v[i]);
            }
        }
    }
}
fn check_finish(b: &mut NullBufferBuilder, m: &Model) {
    let c = b.finish_cloned();
    check_result(&c, m);
    check(b, m); // finish_cloned leaves the builder unchanged
    let r = b.finish();
    check_result(&r, m);
    assert!(b.len() == 0 && b.as_slice().is_none()); // reset
}

fn seq_append<const CAP: usize, const N1: usize, const N2: usize, const WITH_NULLS: bool>() {
    let (v1, v2): (bool, bool) = (kani::any(), kani::any());
    let mut b = NullBufferBuilder::new(CAP);
    let mut m = Model::new();
    b.append_n_non_nulls(N1); m.push_n(N1, true);
    b.append(v1); m.push(v1);
    if WITH_NULLS { b.append_n_nulls(N2); m.push_n(N2, false); } else { b.append_n_non_nulls(N2); m.push_n(N2, true); }
    b.append(v2); m.push(v2);
    check(&b, &m);
    set_skews([0; 6]);
    check_finish(&mut b, &m);
    kani::cover!(!m.mat);
    kani::cover!(m.mat && v2);
    kani::cover!(m.mat && !v1 && v2);
}
// Contract (C19/C01) NullBufferBuilder::{new, append, append_n_non_nulls, append_n_nulls, len, is_valid,
// as_slice, finish_cloned, finish}: after append_n_non_nulls(n1); append(v1); append_n_nulls(n2) or
// append_n_non_nulls(n2) (n2 >= 1); append(v2) with symbolic v1, v2: length and every validity bit
// equal the model Vec<bool>; finish_cloned / finish return None exactly when no null was appended,
// otherwise a NullBuffer with validity == model and null_count == number of false values exactly;
// finish_cloned leaves the builder unchanged, finish resets it.
// @unit name=nbb_append_0_3_2_nonnull props=C19,C01 kind=bounded bound=ops=4_shape_(cap,n1,n2,third_op_appends_nulls)=(0,3,2,false)_values_symbolic fns=NullBufferBuilder::new,NullBufferBuilder::append,NullBufferBuilder::append_n_non_nulls,NullBufferBuilder::append_n_nulls,NullBufferBuilder::finish,NullBufferBuilder::finish_cloned,NullBufferBuilder::len,NullBufferBuilder::as_slice tier=thorough timeout=400 note=not_confirmed_under_load
inst!(nbb_append_0_3_2_nonnull, 12, seq_append::<0, 3, 2, false>());
// @unit name=nbb_append_0_5_4_nulls props=C19,C01 kind=bounded bound=ops=4_shape_(cap,n1,n2,third_op_appends_nulls)=(0,5,4,true)_values_symbolic fns=NullBufferBuilder::new,NullBufferBuilder::append,NullBufferBuilder::append_n_non_nulls,NullBufferBuilder::append_n_nulls,NullBufferBuilder::finish,NullBufferBuilder::finish_cloned,NullBufferBuilder::len,NullBufferBuilder::as_slice tier=thorough timeout=400 note=not_confirmed_under_load
inst!(nbb_append_0_5_4_nulls, 14, seq_append::<0, 5, 4, true>());
// @unit name=nbb_append_16_63_2_nulls props=C19,C01 kind=bounded bound=ops=4_shape_(cap,n1,n2,third_op_appends_nulls)=(16,63,2,true)_values_symbolic fns=NullBufferBuilder::new,NullBufferBuilder::append,NullBufferBuilder::append_n_non_nulls,NullBufferBuilder::append_n_nulls,NullBufferBuilder::finish,NullBufferBuilder::finish_cloned,NullBufferBuilder::len,NullBufferBuilder::as_slice tier=thorough timeout=400 note=not_confirmed_under_load
inst!(nbb_append_16_63_2_nulls, 70, seq_append::<16, 63, 2, true>());
// @unit name=nbb_append_0_0_1_nonnull props=C19,C01 kind=bounded bound=ops=4_shape_(cap,n1,n2,third_op_appends_nulls)=(0,0,1,false)_values_symbolic fns=NullBufferBuilder::new,NullBufferBuilder::append,NullBufferBuilder::append_n_non_nulls,NullBufferBuilder::append_n_nulls,NullBufferBuilder::finish,NullBufferBuilder::finish_cloned,NullBufferBuilder::len,NullBufferBuilder::as_slice tier=thorough timeout=400 note=not_confirmed_under_load
inst!(nbb_append_0_0_1_nonnull, 12, seq_append::<0, 0, 1, false>());
// @unit name=nbb_append_0_64_65_nulls props=C19,C01 kind=bounded bound=ops=4_shape_(cap,n1,n2,third_op_appends_nulls)=(0,64,65,true)_values_symbolic fns=NullBufferBuilder::new,NullBufferBuilder::append,NullBufferBuilder::append_n_non_nulls,NullBufferBuilder::append_n_nulls,NullBufferBuilder::finish,NullBufferBuilder::finish_cloned,NullBufferBuilder::len,NullBufferBuilder::as_slice tier=thorough timeout=400 note=not_confirmed_under_load
inst!(nbb_append_0_64_65_nulls, 134, seq_append::<0, 64, 65, true>());
// @unit name=nbb_append_200_130_1_nonnull props=C19,C01 kind=bounded bound=ops=4_shape_(cap,n1,n2,third_op_appends_nulls)=(200,130,1,false)_values_symbolic fns=NullBufferBuilder::new,NullBufferBuilder::append,NullBufferBuilder::append_n_non_nulls,NullBufferBuilder::append_n_nulls,NullBufferBuilder::finish,NullBufferBuilder::finish_cloned,NullBufferBuilder::len,NullBufferBuilder::as_slice tier=thorough timeout=400 note=not_confirmed_under_load
inst!(nbb_append_200_130_1_nonnull, 136, seq_append::<200, 130, 1, false>());

fn seq_slice_truncate<const N1: usize, const K: usize, const T: usize>() {
    let s: [bool; K] = kani::any();
    let v: bool = kani::any();
    let mut b = NullBufferBuilder::new(0);
    let mut m = Model::new();
    b.append_n_non_nulls(N1); m.push_n(N1, true);
    b.append_slice(&s); m.push_slice(&s);
    check(&b, &m);
    b.truncate(T); m.truncate(T);
    check(&b, &m);
    b.append(v); m.push(v);
    check(&b, &m);
    set_skews([0; 6]);
    // after a truncate the "None iff no null appended" reading refers to the operations performed
    // (m.mat), the exact null count refers to the values still present
    let c = b.finish_cloned();
    match &c {
        None => assert!(!m.mat),
        Some(n) => {
            assert!(m.mat && n.len() == m.n && n.null_count() == m.nulls());
            let i: usize = kani::any();
            kani::assume(i < m.n);
            assert!(n.is_valid(i) == m.v[i]);
        }
    }
    let r = b.finish();
    assert!(r.is_some() == c.is_some());
    assert!(b.len() == 0);
    kani::cover!(c.is_none());
    kani::cover!(c.is_some() && m.nulls() == 0);
    kani::cover!(c.is_some() && m.nulls() > 1);
}
// Contract (C19/C01) NullBufferBuilder::{append_slice, truncate}: after append_n_non_nulls(n1);
// append_slice(s); truncate(t); append(v) (s, v symbolic): length / validity == model Vec<bool> with
// Vec::truncate semantics (no effect when t > len); the result of finish is None only if no null was
// appended by any operation, and when it is Some its validity == model and its null_count is the
// exact number of false values still present (possibly 0 after truncating the nulls away).
// @unit name=nbb_slice_truncate_3_6_5 props=C19,C01 kind=bounded bound=ops=4_shape_(n1,slice_len,truncate_to)=(3,6,5)_values_symbolic fns=NullBufferBuilder::append_slice,NullBufferBuilder::truncate,NullBufferBuilder::finish,NullBufferBuilder::finish_cloned tier=thorough timeout=400 note=not_confirmed_under_load
inst!(nbb_slice_truncate_3_6_5, 13, seq_slice_truncate::<3, 6, 5>());
// @unit name=nbb_slice_truncate_60_8_63 props=C19,C01 kind=bounded bound=ops=4_shape_(n1,slice_len,truncate_to)=(60,8,63)_values_symbolic fns=NullBufferBuilder::append_slice,NullBufferBuilder::truncate,NullBufferBuilder::finish,NullBufferBuilder::finish_cloned tier=thorough timeout=400 note=not_confirmed_under_load
inst!(nbb_slice_truncate_60_8_63, 72, seq_slice_truncate::<60, 8, 63>());
// @unit name=nbb_slice_truncate_0_9_0 props=C19,C01 kind=bounded bound=ops=4_shape_(n1,slice_len,truncate_to)=(0,9,0)_values_symbolic fns=NullBufferBuilder::append_slice,NullBufferBuilder::truncate,NullBufferBuilder::finish,NullBufferBuilder::finish_cloned tier=thorough timeout=400 note=not_confirmed_under_load
inst!(nbb_slice_truncate_0_9_0, 13, seq_slice_truncate::<0, 9, 0>());
// @unit name=nbb_slice_truncate_2_3_9 props=C19,C01 kind=bounded bound=ops=4_shape_(n1,slice_len,truncate_to)=(2,3,9)_values_symbolic fns=NullBufferBuilder::append_slice,NullBufferBuilder::truncate,NullBufferBuilder::finish,NullBufferBuilder::finish_cloned tier=thorough timeout=400 note=not_confirmed_under_load
inst!(nbb_slice_truncate_2_3_9, 12, seq_slice_truncate::<2, 3, 9>());

fn seq_append_buffer<const W: usize, const OFF: usize, const LEN: usize, const NB: usize>() {
    let bytes: [u8; NB] = any_bytes();
    skews().ubc(0, OFF, LEN).install();
    let src = NullBuffer::new(BooleanBuffer::new(Buffer::from_slice_ref(&bytes), OFF, LEN));
    let v: bool = kani::any();
    let mut b = NullBufferBuilder::new(0);
    let mut m = Model::new();
    b.append_n_non_nulls(W); m.push_n(W, true);
    b.append_buffer(&src); m.push_bits(&bytes, OFF, LEN);
    check(&b, &m);
    b.append(v); m.push(v);
    check(&b, &m);
    set_skews([0; 6]);
    check_finish(&mut b, &m);
    kani::cover!(!m.mat);
    kani::cover!(m.mat && src.null_count() == 0);
    kani::cover!(src.null_count() > 1);
}
// Contract (C19/C01) NullBufferBuilder::append_buffer(&NullBuffer): appends exactly the validity values of
// the (offset, len) view (all source bytes symbolic), earlier values unchanged; finish is None exactly
// when neither the appended buffer nor any other operation contributed a null; exact null count.
// @unit name=nbb_append_buffer_3_5_12 props=C19,C01 kind=bounded bound=ops=3_grid_(non_nulls_before,src_offset,len)=(3,5,12) fns=NullBufferBuilder::append_buffer,NullBufferBuilder::finish tier=thorough timeout=400 note=not_confirmed_under_load
inst!(nbb_append_buffer_3_5_12, 19, seq_append_buffer::<3, 5, 12, 4>());
// @unit name=nbb_append_buffer_0_0_9 props=C19,C01 kind=bounded bound=ops=3_grid_(non_nulls_before,src_offset,len)=(0,0,9) fns=NullBufferBuilder::append_buffer,NullBufferBuilder::finish tier=thorough timeout=400 note=not_confirmed_under_load
inst!(nbb_append_buffer_0_0_9, 13, seq_append_buffer::<0, 0, 9, 3>());
// @unit name=nbb_append_buffer_62_3_70 props=C19,C01 kind=bounded bound=ops=3_grid_(non_nulls_before,src_offset,len)=(62,3,70) fns=NullBufferBuilder::append_buffer,NullBufferBuilder::finish tier=thorough timeout=400 note=not_confirmed_under_load
inst!(nbb_append_buffer_62_3_70, 136, seq_append_buffer::<62, 3, 70, 11>());
// @unit name=nbb_append_buffer_7_64_0 props=C19,C01 kind=bounded bound=ops=3_grid_(non_nulls_before,src_offset,len)=(7,64,0) fns=NullBufferBuilder::append_buffer,NullBufferBuilder::finish tier=thorough timeout=400 note=not_confirmed_under_load
inst!(nbb_append_buffer_7_64_0, 12, seq_append_buffer::<7, 64, 0, 9>());

fn seq_with_len<const N1: usize, const N2: usize>() {
    let c: bool = kani::any();
    let mut b = NullBufferBuilder::new_with_len(N1);
    let mut m = Model::new();
    m.push_n(N1, true);
    check(&b, &m); // N1 valid slots, nothing materialized
    b.append_non_null(); m.push(true);
    if c { b.append_null(); m.push(false); } else { b.append_non_null(); m.push(true); }
    b.append_n_non_nulls(N2); m.push_n(N2, true);
    check(&b, &m);
    set_skews([0; 6]);
    check_finish(&mut b, &m);
    kani::cover!(c);
    kani::cover!(!c);
}
// Contract (C19/C01) NullBufferBuilder::{new_with_len, append_non_null, append_null, is_valid}: the lazy
// all-valid representation is equivalent to the materialised one: new_with_len(n1) is n1 valid slots;
// after append_non_null(); (append_null() | append_non_null()); append_n_non_nulls(n2) the length and
// every validity bit equal the model Vec<bool>, and finish / finish_cloned are None exactly when no
// null was appended, else validity == model with the exact null count.
// @unit name=nbb_with_len_5_3 props=C19,C01 kind=bounded bound=ops=4_shape_(len,n2)=(5,3)_null_choice_symbolic fns=NullBufferBuilder::new_with_len,NullBufferBuilder::append_non_null,NullBufferBuilder::append_null,NullBufferBuilder::is_valid,NullBufferBuilder::materialize_if_needed,NullBufferBuilder::materialize tier=thorough timeout=400 note=not_confirmed_under_load
inst!(nbb_with_len_5_3, 14, seq_with_len::<5, 3>());
// @unit name=nbb_with_len_0_0 props=C19,C01 kind=bounded bound=ops=4_shape_(len,n2)=(0,0)_null_choice_symbolic fns=NullBufferBuilder::new_with_len,NullBufferBuilder::append_non_null,NullBufferBuilder::append_null,NullBufferBuilder::is_valid,NullBufferBuilder::materialize_if_needed,NullBufferBuilder::materialize tier=thorough timeout=400 note=not_confirmed_under_load
inst!(nbb_with_len_0_0, 12, seq_with_len::<0, 0>());
// @unit name=nbb_with_len_63_2 props=C19,C01 kind=bounded bound=ops=4_shape_(len,n2)=(63,2)_null_choice_symbolic fns=NullBufferBuilder::new_with_len,NullBufferBuilder::append_non_null,NullBufferBuilder::append_null,NullBufferBuilder::is_valid,NullBufferBuilder::materialize_if_needed,NullBufferBuilder::materialize tier=thorough timeout=400 note=not_confirmed_under_load
inst!(nbb_with_len_63_2, 71, seq_with_len::<63, 2>());
// @unit name=nbb_with_len_64_64 props=C19,C01 kind=bounded bound=ops=4_shape_(len,n2)=(64,64)_null_choice_symbolic fns=NullBufferBuilder::new_with_len,NullBufferBuilder::append_non_null,NullBufferBuilder::append_null,NullBufferBuilder::is_valid,NullBufferBuilder::materialize_if_needed,NullBufferBuilder::materialize tier=thorough timeout=400 note=not_confirmed_under_load
inst!(nbb_with_len_64_64, 134, seq_with_len::<64, 64>());

fn seq_nb_set_bit<const N1: usize>() {
    let (j, w): (usize, bool) = (kani::any(), kani::any());
    kani::assume(j < N1);
    let mut b = NullBufferBuilder::new(0);
    let mut m = Model::new();
    b.append_n_non_nulls(N1); m.push_n(N1, true);
    b.set_bit(j, w); m.v[j] = w;
    assert!(b.is_valid(j) == w && b.len() == N1);
    let i: usize = kani::any();
    kani::assume(i < N1);
    assert!(b.is_valid(i) == m.v[i]); // frame: the other N1-1 lazily valid slots are still valid
    b.append_null(); m.push(false);
    assert!(b.len() == N1 + 1 && !b.is_valid(N1) && b.is_valid(i) == m.v[i]);
    set_skews([0; 6]);
    let r = b.finish();
    match &r {
        None => assert!(false), // a null was appended
        Some(n) => {
            assert!(n.len() == N1 + 1 && n.null_count() == 1 + (!w) as usize);
            assert!(n.is_valid(i) == m.v[i] && n.is_null(N1));
        }
    }
    kani::cover!(w);
    kani::cover!(!w && i != j);
}
// Contract (C19/C01) NullBufferBuilder::{set_bit, is_valid} on a lazily all-valid builder: after
// append_n_non_nulls(n1); set_bit(j, w) (j < n1, w symbolic), slot j reads w and every other slot is
// still valid (materialisation preserves the n1 implicit trues); after append_null the result of
// finish has n1+1 slots, validity == model and null_count == 1 + [w == false] exactly.
// @unit name=nbb_set_bit_9 props=C19,C01 kind=bounded bound=ops=3_shape_n1=9_index_and_value_symbolic fns=NullBufferBuilder::set_bit,NullBufferBuilder::is_valid,NullBufferBuilder::materialize_if_needed tier=thorough timeout=400 note=not_confirmed_under_load
inst!(nbb_set_bit_9, 14, seq_nb_set_bit::<9>());
// @unit name=nbb_set_bit_1 props=C19,C01 kind=bounded bound=ops=3_shape_n1=1_index_and_value_symbolic fns=NullBufferBuilder::set_bit,NullBufferBuilder::is_valid,NullBufferBuilder::materialize_if_needed tier=thorough timeout=400 note=not_confirmed_under_load
inst!(nbb_set_bit_1, 12, seq_nb_set_bit::<1>());
// @unit name=nbb_set_bit_65 props=C19,C01 kind=bounded bound=ops=3_shape_n1=65_index_and_value_symbolic fns=NullBufferBuilder::set_bit,NullBufferBuilder::is_valid,NullBufferBuilder::materialize_if_needed tier=thorough timeout=400 note=not_confirmed_under_load
inst!(nbb_set_bit_65, 70, seq_nb_set_bit::<65>());

fn seq_nb_from_buffer<const NB: usize, const LEN: usize>() {
    let bytes: [u8; NB] = any_bytes();
    let mut mb = MutableBuffer::new(0);
    mb.extend_from_slice(&bytes);
    let v: bool = kani::any();
    let mut b = NullBufferBuilder::new_from_buffer(mb, LEN);
    let mut m = Model::new();
    m.push_bits(&bytes, 0, LEN);
    m.mat = true; // a builder created from a bitmap always answers Some
    check(&b, &m);
    b.append(v); m.push(v);
    check(&b, &m);
    set_skews([0; 6]);
    check_finish(&mut b, &m);
    kani::cover!(m.nulls() == 0);
    kani::cover!(m.nulls() > 1);
}
// Contract (C19/C01) NullBufferBuilder::new_from_buffer(buf, len), len <= 8*bytes: validity = the first len
// bits of buf (symbolic bytes; bits >= len are not read as data), further appends land after them,
// finish returns Some with validity == model and the exact null count.
// @unit name=nbb_new_from_buffer_2_13 props=C19,C01 kind=bounded bound=grid_(bytes,len)=(2,13) fns=NullBufferBuilder::new_from_buffer tier=thorough timeout=400 note=not_confirmed_under_load
inst!(nbb_new_from_buffer_2_13, 18, seq_nb_from_buffer::<2, 13>());
// @unit name=nbb_new_from_buffer_9_64 props=C19,C01 kind=bounded bound=grid_(bytes,len)=(9,64) fns=NullBufferBuilder::new_from_buffer tier=thorough timeout=400 note=not_confirmed_under_load
inst!(nbb_new_from_buffer_9_64, 69, seq_nb_from_buffer::<9, 64>());
// @unit name=nbb_new_from_buffer_1_0 props=C19,C01 kind=bounded bound=grid_(bytes,len)=(1,0) fns=NullBufferBuilder::new_from_buffer tier=thorough timeout=400 note=not_confirmed_under_load
inst!(nbb_new_from_buffer_1_0, 12, seq_nb_from_buffer::<1, 0>());
