// Kani contract harnesses for /repo/arrow-buffer/src/builder/null.rs (child module: sees private items via super::)
