// Kani contract harnesses for /repo/arrow-buffer/src/pool.rs (child module: sees private items via super::)
