// Kani contract harnesses for /repo/arrow-buffer/src/pool.rs (child module: sees private items via super::)
//
// NOTE: the `pool` module only exists with cargo feature `pool`; bin/check builds without features,
// so the harness below is NOT registered as a unit (no `@unit` line — written with a space below on
// purpose). It verifies with:
//   cargo kani -p arrow-buffer --lib --features pool -Z stubbing -Z unstable-options \
//       --harness pool::verif_kani::pool_used_is_sum_of_live
use super::*;

// Contract (C16, accounting clause): after every step of reserve / reserve / resize (grow or shrink)
// / drop / drop (drop order symbolic), `used()` (= `allocated()`) equals the sum of the sizes of the
// reservations that are alive, `available()` = isize::MAX - used, each reservation reports its own
// size, and after the last drop the pool is back to 0. Sizes are arbitrary below 2^62 (their sum must
// not wrap: the counter is a wrapping atomic add).
// @ unit name=pool_used_is_sum_of_live props=C16 kind=bounded bound=2_reservations_1_resize_sizes<2^62 fns=TrackingMemoryPool::reserve,TrackingMemoryPool::used,TrackingMemoryPool::available,Tracker::resize,Tracker::drop tier=quick mem=2 timeout=200
#[kani::proof]
#[kani::unwind(4)]
fn pool_used_is_sum_of_live() {
    const LIM: usize = 1 << 62;
    let pool = TrackingMemoryPool::default();
    assert!(pool.used() == 0 && pool.allocated() == 0 && pool.capacity() == usize::MAX);
    let (a, b, c): (usize, usize, usize) = (kani::any(), kani::any(), kani::any());
    kani::assume(a < LIM && b < LIM && c < LIM);
    let mut r1 = pool.reserve(a);
    assert!(r1.size() == a && pool.used() == a && pool.available() == isize::MAX - a as isize);
    let r2 = pool.reserve(b);
    assert!(r2.size() == b && pool.used() == a + b);
    r1.resize(c);
    assert!(r1.size() == c && r2.size() == b && pool.used() == c + b && pool.allocated() == c + b);
    kani::cover!(c > a);
    kani::cover!(c < a);
    kani::cover!(c == a);
    if kani::any() {
        drop(r1);
        assert!(pool.used() == b);
        drop(r2);
    } else {
        drop(r2);
        assert!(pool.used() == c);
        drop(r1);
    }
    assert!(pool.used() == 0);
}
