// Kani contract harnesses for /repo/arrow-buffer/src/buffer/offset.rs (child module: sees private items via super::)
//
// C09/C01: an `OffsetBuffer` that a *checked* constructor hands out always satisfies the Arrow
// format rule for offsets buffers: non-empty, first offset >= 0, monotonically non-decreasing.
// `wf_offsets` below is that rule written independently (plain loop over the input array).
use super::*;

/// Arrow columnar format, variable-size layouts: offsets buffer has length+1 entries, starts at a
/// non-negative value and never decreases.
fn wf_offsets<O: ArrowNativeType>(v: &[O]) -> bool {
    if v.is_empty() {
        return false;
    }
    if v[0] < O::usize_as(0) {
        return false;
    }
    let mut i = 0;
    while i + 1 < v.len() {
        if v[i] > v[i + 1] {
            return false;
        }
        i += 1;
    }
    true
}

// Contract (C09): `OffsetBuffer::new` on an arbitrary ScalarBuffer of n arbitrary values, n chosen
// nondeterministically among the concrete sizes 0..=4 (grid rule: n sizes an allocation):
//   *_accept_implies_wf (may-reject): IF it returns THEN wf_offsets(input) and the result exposes
//       exactly the input values (len, every element).
//   *_wf_implies_accept (not may-reject): IF wf_offsets(input) THEN it does not panic (no
//       over-rejection) and exposes exactly the input.
fn offset_new_case<O: ArrowNativeType + kani::Arbitrary, const N: usize, const ASSUME_WF: bool>() -> (bool, bool) {
    let v: [O; N] = kani::any();
    if ASSUME_WF {
        kani::assume(wf_offsets(&v));
    }
    let ob = OffsetBuffer::new(ScalarBuffer::<O>::from(v.to_vec()));
    assert!(wf_offsets(&v));
    assert!(ob.len() == N && ob.inner().len() == N);
    let i: usize = kani::any();
    kani::assume(i < N);
    assert!(ob[i] == v[i]);
    // (accepted a strictly growing input, accepted a constant input)
    (N > 1 && v[0] < v[N - 1], N > 1 && v[0] == v[N - 1])
}
fn offset_new_upto<O: ArrowNativeType + kani::Arbitrary, const ASSUME_WF: bool, const WITH4: bool>() {
    let n: u8 = kani::any();
    let (grow, flat) = match n {
        0 => offset_new_case::<O, 0, ASSUME_WF>(),
        1 => offset_new_case::<O, 1, ASSUME_WF>(),
        2 => offset_new_case::<O, 2, ASSUME_WF>(),
        3 => offset_new_case::<O, 3, ASSUME_WF>(),
        _ => {
            kani::assume(WITH4);
            offset_new_case::<O, 4, ASSUME_WF>()
        }
    };
    kani::cover!(n == 1);
    kani::cover!(n == 3 && grow);
    kani::cover!(n == 3 && flat);
}
// @unit name=offset_new_accept_implies_wf_i32 props=C09,C01 kind=bounded bound=n<=4_offsets fns=OffsetBuffer<i32>::new mayreject=1 tier=quick mem=3 timeout=300
#[kani::proof]
#[kani::unwind(8)]
fn offset_new_accept_implies_wf_i32() {
    offset_new_upto::<i32, false, true>()
}
// @unit name=offset_new_wf_implies_accept_i32 props=C09 kind=bounded bound=n<=4_offsets fns=OffsetBuffer<i32>::new tier=quick mem=3 timeout=300
#[kani::proof]
#[kani::unwind(8)]
fn offset_new_wf_implies_accept_i32() {
    offset_new_upto::<i32, true, true>()
}
// @unit name=offset_new_accept_implies_wf_i64 props=C09,C01 kind=bounded bound=n<=3_offsets fns=OffsetBuffer<i64>::new mayreject=1 tier=quick mem=3 timeout=300
#[kani::proof]
#[kani::unwind(8)]
fn offset_new_accept_implies_wf_i64() {
    offset_new_upto::<i64, false, false>()
}
// @unit name=offset_new_wf_implies_accept_i64 props=C09 kind=bounded bound=n<=3_offsets fns=OffsetBuffer<i64>::new tier=quick mem=3 timeout=300
#[kani::proof]
#[kani::unwind(8)]
fn offset_new_wf_implies_accept_i64() {
    offset_new_upto::<i64, true, false>()
}
// @unit name=offset_new_accept_implies_wf_i32_n6 props=C09,C01 kind=bounded bound=n=6_offsets fns=OffsetBuffer<i32>::new mayreject=1 tier=thorough mem=4 timeout=900
#[kani::proof]
#[kani::unwind(10)]
fn offset_new_accept_implies_wf_i32_n6() {
    let (grow, flat) = offset_new_case::<i32, 6, false>();
    kani::cover!(grow);
    kani::cover!(flat);
}
// @unit name=offset_new_wf_implies_accept_i32_n6 props=C09 kind=bounded bound=n=6_offsets fns=OffsetBuffer<i32>::new tier=thorough mem=4 timeout=900
#[kani::proof]
#[kani::unwind(10)]
fn offset_new_wf_implies_accept_i32_n6() {
    let (grow, flat) = offset_new_case::<i32, 6, true>();
    kani::cover!(grow);
    kani::cover!(flat);
}

// Contract (C09/C01): the unchecked-input-free constructors produce well-formed offsets:
// `new_empty()` = [0]; `new_zeroed(L)` = L+1 zeros; `Default` = [0].
fn offset_zeroed_point<const L: usize>() {
    let z = OffsetBuffer::<i32>::new_zeroed(L);
    assert!(z.len() == L + 1 && wf_offsets(&z));
    let i: usize = kani::any();
    kani::assume(i <= L);
    assert!(z[i] == 0);
    let z64 = OffsetBuffer::<i64>::new_zeroed(L);
    assert!(z64.len() == L + 1 && z64[i] == 0);
    let e = OffsetBuffer::<i64>::new_empty();
    assert!(e.len() == 1 && e[0] == 0);
    let d = OffsetBuffer::<i32>::default();
    assert!(d.len() == 1 && d[0] == 0 && d.lengths().len() == 0);
    kani::cover!(i == L);
}
// @unit name=offset_zeroed_0 props=C09,C01 kind=bounded bound=len_0 fns=OffsetBuffer::new_zeroed,OffsetBuffer::new_empty,OffsetBuffer::default tier=quick mem=2 timeout=120
#[kani::proof]
#[kani::unwind(8)]
fn offset_zeroed_0() {
    offset_zeroed_point::<0>()
}
// @unit name=offset_zeroed_3 props=C09,C01 kind=bounded bound=len_3 fns=OffsetBuffer::new_zeroed,OffsetBuffer::new_empty,OffsetBuffer::default tier=quick mem=2 timeout=120
#[kani::proof]
#[kani::unwind(8)]
fn offset_zeroed_3() {
    offset_zeroed_point::<3>()
}
// Contract (C09): `new_zeroed(len)` panics (instead of wrapping and allocating a short buffer) when
// (len+1)*size_of::<O>() overflows usize: for such len it never returns.
// @unit name=offset_zeroed_overflow_rejects props=C09 kind=complete fns=OffsetBuffer::new_zeroed mayreject=1 tier=quick mem=2 timeout=120
#[kani::proof]
#[kani::unwind(8)]
fn offset_zeroed_overflow_rejects() {
    let len: usize = kani::any();
    kani::assume(len >= usize::MAX / 8); // (len+1)*8 overflows
    let always = len == usize::MAX || (len + 1) as u128 * 8 > usize::MAX as u128;
    kani::cover!(always);
    let z = OffsetBuffer::<i64>::new_zeroed(len);
    // reached only if it returned: then the byte size did not overflow and the allocator gave
    // len+1 elements (impossible in practice, but the contract is about wrap-around)
    assert!((len as u128 + 1) * 8 <= usize::MAX as u128);
    assert!(z.len() as u128 == len as u128 + 1);
}

// Contract (C09/C01): `from_lengths` of K arbitrary usize lengths:
//   may-reject: IF it returns THEN the total fits the offset type, offsets[0] = 0, offsets[i+1] =
//       offsets[i] + lengths[i] exactly (no wrap-around, computed in u128), hence wf_offsets;
//   accept: IF the total fits THEN it does not panic. `lengths()` inverts it.
fn offset_from_lengths_case<O: ArrowNativeType + kani::Arbitrary, const K: usize, const ASSUME_FITS: bool>(max: u128) {
    let l: [usize; K] = kani::any();
    let mut total: u128 = 0;
    for x in l.iter() {
        total += *x as u128;
    }
    if ASSUME_FITS {
        kani::assume(total <= max);
    }
    let ob = OffsetBuffer::<O>::from_lengths(l.iter().copied());
    assert!(total <= max);
    assert!(ob.len() == K + 1 && wf_offsets(&ob) && ob[0] == O::usize_as(0));
    let i: usize = kani::any();
    kani::assume(i < K);
    let mut pre: u128 = 0;
    for (j, x) in l.iter().enumerate() {
        if j <= i {
            pre += *x as u128;
        }
    }
    assert!(ob[i + 1].as_usize() as u128 == pre);
    // lengths() gives the input back
    let mut it = ob.lengths();
    assert!(it.len() == K);
    let mut j = 0;
    while let Some(x) = it.next() {
        if j == i {
            assert!(x == l[i]);
        }
        j += 1;
    }
    kani::cover!(total == max);
    kani::cover!(total == 0);
}
// @unit name=offset_from_lengths_rejects_i32 props=C09,C01 kind=bounded bound=3_lengths fns=OffsetBuffer<i32>::from_lengths,OffsetBuffer::lengths mayreject=1 tier=quick mem=3 timeout=300
#[kani::proof]
#[kani::unwind(8)]
fn offset_from_lengths_rejects_i32() {
    offset_from_lengths_case::<i32, 3, false>(i32::MAX as u128)
}
// @unit name=offset_from_lengths_accepts_i32 props=C09 kind=bounded bound=3_lengths fns=OffsetBuffer<i32>::from_lengths,OffsetBuffer::lengths tier=quick mem=3 timeout=300
#[kani::proof]
#[kani::unwind(8)]
fn offset_from_lengths_accepts_i32() {
    offset_from_lengths_case::<i32, 3, true>(i32::MAX as u128)
}
// @unit name=offset_from_lengths_rejects_i64 props=C09,C01 kind=bounded bound=3_lengths fns=OffsetBuffer<i64>::from_lengths,OffsetBuffer::lengths mayreject=1 tier=quick mem=3 timeout=300
#[kani::proof]
#[kani::unwind(8)]
fn offset_from_lengths_rejects_i64() {
    offset_from_lengths_case::<i64, 3, false>(i64::MAX as u128)
}
// @unit name=offset_from_lengths_accepts_i64 props=C09 kind=bounded bound=3_lengths fns=OffsetBuffer<i64>::from_lengths,OffsetBuffer::lengths tier=quick mem=3 timeout=300
#[kani::proof]
#[kani::unwind(8)]
fn offset_from_lengths_accepts_i64() {
    offset_from_lengths_case::<i64, 3, true>(i64::MAX as u128)
}

// Contract (C09/C01): `from_repeated_length(length, N)` for arbitrary `length` and concrete N:
// returns exactly [0, length, 2*length, ..., N*length] (monotone, starts at 0), and it panics
// EXACTLY when N*length does not fit the offset type (or usize):
//   may-reject: returns => N*length <= O::MAX and every offset is i*length;
//   accept: N*length <= O::MAX => no panic.
fn offset_repeated_case<O: ArrowNativeType, const N: usize, const ASSUME_FITS: bool>(max: u128) {
    let length: usize = kani::any();
    let total = length as u128 * N as u128; // N is a constant: linear
    if ASSUME_FITS {
        kani::assume(total <= max);
    }
    let ob = OffsetBuffer::<O>::from_repeated_length(length, N);
    assert!(total <= max);
    assert!(ob.len() == N + 1 && wf_offsets(&ob));
    let mut i = 0;
    while i <= N {
        assert!(ob[i].as_usize() as u128 == length as u128 * i as u128);
        i += 1;
    }
    kani::cover!((N == 0 && length == usize::MAX) || (N > 0 && total > max - N as u128)); // largest accepted length
    kani::cover!(length == 0);
}
macro_rules! offset_repeated_unit {
    ($name:ident, $o:ty, $n:expr, $fits:expr) => {
        #[kani::proof]
        #[kani::unwind(8)]
        fn $name() {
            offset_repeated_case::<$o, $n, $fits>(<$o>::MAX as u128)
        }
    };
}
// @unit name=offset_repeated_rejects_i32_n0 props=C09,C01 kind=bounded bound=n=0 fns=OffsetBuffer<i32>::from_repeated_length mayreject=1 tier=quick mem=2 timeout=200
offset_repeated_unit!(offset_repeated_rejects_i32_n0, i32, 0, false);
// @unit name=offset_repeated_rejects_i32_n1 props=C09,C01 kind=bounded bound=n=1 fns=OffsetBuffer<i32>::from_repeated_length mayreject=1 tier=quick mem=2 timeout=200
offset_repeated_unit!(offset_repeated_rejects_i32_n1, i32, 1, false);
// @unit name=offset_repeated_rejects_i32_n3 props=C09,C01 kind=bounded bound=n=3 fns=OffsetBuffer<i32>::from_repeated_length mayreject=1 tier=quick mem=2 timeout=200
offset_repeated_unit!(offset_repeated_rejects_i32_n3, i32, 3, false);
// @unit name=offset_repeated_accepts_i32_n3 props=C09 kind=bounded bound=n=3 fns=OffsetBuffer<i32>::from_repeated_length tier=quick mem=2 timeout=200
offset_repeated_unit!(offset_repeated_accepts_i32_n3, i32, 3, true);
// @unit name=offset_repeated_accepts_i32_n0 props=C09 kind=bounded bound=n=0 fns=OffsetBuffer<i32>::from_repeated_length tier=quick mem=2 timeout=200
offset_repeated_unit!(offset_repeated_accepts_i32_n0, i32, 0, true);
// @unit name=offset_repeated_rejects_i64_n2 props=C09,C01 kind=bounded bound=n=2 fns=OffsetBuffer<i64>::from_repeated_length mayreject=1 tier=quick mem=2 timeout=200
offset_repeated_unit!(offset_repeated_rejects_i64_n2, i64, 2, false);
// @unit name=offset_repeated_accepts_i64_n2 props=C09 kind=bounded bound=n=2 fns=OffsetBuffer<i64>::from_repeated_length tier=quick mem=2 timeout=200
offset_repeated_unit!(offset_repeated_accepts_i64_n2, i64, 2, true);

// Contract (C09/C01): `slice(offset, len)` of a well-formed buffer of 4 offsets (3 ranges) with
// ARBITRARY usize arguments: IF it returns THEN offset + len + 1 <= 4 (no wrap-around), the result
// has len+1 entries equal to offsets[offset ..= offset+len] (so it is well-formed again) and shares
// the parent's memory; the parent is unchanged. In-range arguments never panic (second harness).
fn offset_slice_case<const ASSUME_IN_RANGE: bool>() {
    let v: [i32; 4] = kani::any();
    kani::assume(wf_offsets(&v));
    let ob = OffsetBuffer::new(ScalarBuffer::<i32>::from(v.to_vec()));
    let (o, l): (usize, usize) = (kani::any(), kani::any());
    if ASSUME_IN_RANGE {
        kani::assume(o <= 3 && l <= 3 - o);
    }
    let s = ob.slice(o, l);
    assert!(o as u128 + l as u128 + 1 <= 4);
    assert!(s.len() == l + 1 && wf_offsets(&s));
    let i: usize = kani::any();
    kani::assume(i <= l);
    assert!(s[i] == v[o + i]);
    assert!(ob.len() == 4 && ob[o + i] == v[o + i]);
    assert!(s.ptr_eq(&ob) == (o == 0 && l == 3));
    kani::cover!(o == 3 && l == 0);
    kani::cover!(o == 1 && l == 2);
}
// @unit name=offset_slice_rejects props=C09,C01 kind=bounded bound=4_offsets fns=OffsetBuffer::slice,ScalarBuffer::slice,ScalarBuffer::new,OffsetBuffer::ptr_eq mayreject=1 tier=quick mem=3 timeout=300
#[kani::proof]
#[kani::unwind(8)]
fn offset_slice_rejects() {
    offset_slice_case::<false>()
}
// @unit name=offset_slice_accepts props=C09 kind=bounded bound=4_offsets fns=OffsetBuffer::slice,ScalarBuffer::slice,ScalarBuffer::new tier=quick mem=3 timeout=300
#[kani::proof]
#[kani::unwind(8)]
fn offset_slice_accepts() {
    offset_slice_case::<true>()
}

// Contract (C09/C01/C16): `subtract(rhs)` on a well-formed buffer of 3 offsets, uniquely owned or
// shared with a clone (symbolic): IF it returns THEN rhs <= first offset and last - rhs does not
// overflow, every result offset is offsets[i] - rhs exactly, the result is well-formed, and a
// surviving clone still reads the ORIGINAL offsets (in-place update only when uniquely owned).
// Accept harness: rhs <= first /\ no overflow => no panic.
fn offset_subtract_case<const ASSUME_OK: bool, const SHARED: bool>() {
    let v: [i32; 3] = kani::any();
    kani::assume(wf_offsets(&v));
    let rhs: i32 = kani::any();
    let fits = rhs <= v[0] && (v[2] as i64 - rhs as i64) <= i32::MAX as i64;
    if ASSUME_OK {
        kani::assume(fits);
    }
    let ob = OffsetBuffer::new(ScalarBuffer::<i32>::from(v.to_vec()));
    let shared = SHARED;
    let keep = if shared { Some(ob.clone()) } else { None };
    let r = ob.subtract(rhs);
    assert!(fits);
    assert!(r.len() == 3 && wf_offsets(&r));
    let i: usize = kani::any();
    kani::assume(i < 3);
    assert!(r[i] as i64 == v[i] as i64 - rhs as i64);
    if let Some(k) = &keep {
        assert!(k.len() == 3 && k[i] == v[i]);
    }
    kani::cover!(rhs > 0);
    kani::cover!(rhs < 0);
    kani::cover!(rhs == 0);
}
// @unit name=offset_subtract_rejects_unique props=C09,C01,C16 kind=bounded bound=3_offsets fns=OffsetBuffer::subtract,Buffer::into_vec mayreject=1 tier=quick mem=3 timeout=400
#[kani::proof]
#[kani::unwind(8)]
fn offset_subtract_rejects_unique() {
    offset_subtract_case::<false, false>()
}
// @unit name=offset_subtract_rejects_shared props=C09,C01,C16 kind=bounded bound=3_offsets fns=OffsetBuffer::subtract,Buffer::into_vec mayreject=1 tier=quick mem=3 timeout=400
#[kani::proof]
#[kani::unwind(8)]
fn offset_subtract_rejects_shared() {
    offset_subtract_case::<false, true>()
}
// @unit name=offset_subtract_accepts_unique props=C09,C16 kind=bounded bound=3_offsets fns=OffsetBuffer::subtract,Buffer::into_vec tier=quick mem=3 timeout=400
#[kani::proof]
#[kani::unwind(8)]
fn offset_subtract_accepts_unique() {
    offset_subtract_case::<true, false>()
}
// @unit name=offset_subtract_accepts_shared props=C09,C16 kind=bounded bound=3_offsets fns=OffsetBuffer::subtract,Buffer::into_vec tier=quick mem=3 timeout=400
#[kani::proof]
#[kani::unwind(8)]
fn offset_subtract_accepts_shared() {
    offset_subtract_case::<true, true>()
}
