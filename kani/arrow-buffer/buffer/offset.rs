// Kani contract harnesses for /repo/arrow-buffer/src/buffer/offset.rs (child module: sees private items via super::)
