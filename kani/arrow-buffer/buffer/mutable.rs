// Kani contract harnesses for /repo/arrow-buffer/src/buffer/mutable.rs (child module: sees private items via super::)
