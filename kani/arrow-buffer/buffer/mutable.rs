// Kani contract harnesses for /repo/arrow-buffer/src/buffer/mutable.rs (child module: sees private items via super::)
//
// C16 (sequential half) for the growable buffer: contents are preserved across every reallocation,
// len <= capacity always, capacity stays a multiple of 64 for buffers created by new/with_capacity,
// nothing is written outside the allocation and the allocation is freed exactly once. No harness
// here calls mem::forget: CBMC's out-of-bounds / use-after-free / double-free / invalid-free checks
// are part of each obligation.
// GRID RULE: every quantity that sizes an allocation is a concrete grid point (const generic), chosen
// around the 64-byte rounding boundary {0,1,3,63,64,65,70,130}; all byte contents are symbolic.
// (collect_bool / from_trusted_len_iter_bool are specified elsewhere.)
use super::*;

/// `view` shows exactly `data[off..off+len]` (length compared exactly, contents at one
/// nondeterministically chosen position, i.e. at every position)
fn same(view: &[u8], data: &[u8], off: usize, len: usize) -> bool {
    if view.len() != len {
        return false;
    }
    let i: usize = kani::any();
    if i < len { view[i] == data[off + i] } else { true }
}
/// every byte of `view[from..to]` equals `v`
fn all_eq(view: &[u8], from: usize, to: usize, v: u8) -> bool {
    let i: usize = kani::any();
    if from <= i && i < to { view[i] == v } else { true }
}
fn round64(n: usize) -> usize {
    (n + 63) / 64 * 64
}
/// representation invariant of a buffer that was created by new / with_capacity
fn inv(m: &MutableBuffer) -> bool {
    m.len() <= m.capacity() && m.capacity() % 64 == 0 && m.is_empty() == (m.len() == 0)
}
/// documented growth contract of `reserve(additional)` given the state before the call:
/// reallocates iff len + additional > capacity; afterwards capacity >= len + additional; a
/// reallocation at least doubles (amortised growth) and keeps the 64-byte rounding.
fn grown(m: &MutableBuffer, old_cap: usize, old_ptr: *const u8, required: usize) -> bool {
    if required <= old_cap {
        m.capacity() == old_cap && m.as_ptr() == old_ptr
    } else {
        m.capacity() >= required && m.capacity() >= 2 * old_cap && m.capacity() % 64 == 0
    }
}

// Contract (C16): `new(C)` / `with_capacity(C)` give an empty buffer whose capacity is C rounded up
// to the next multiple of 64 (0 stays 0, no allocation); `from_len_zeroed(C)` gives C zero bytes
// with capacity >= C; `new_null(BITS)` gives ceil(BITS/8) zero bytes; `Default` is empty. All are
// dropped (freed once; the zero-capacity ones free nothing).
fn mb_create_point<const C: usize>() {
    let m = if kani::any() { MutableBuffer::new(C) } else { MutableBuffer::with_capacity(C) };
    assert!(m.len() == 0 && m.is_empty() && m.capacity() == round64(C) && inv(&m));
    assert!(m.as_slice().len() == 0);
    let z = MutableBuffer::from_len_zeroed(C);
    assert!(z.len() == C && z.capacity() >= C && all_eq(z.as_slice(), 0, C, 0) && z.as_slice().len() == C);
    let nb = MutableBuffer::new_null(C);
    assert!(nb.len() == (C + 7) / 8 && all_eq(nb.as_slice(), 0, (C + 7) / 8, 0));
    let d = MutableBuffer::default();
    assert!(d.len() == 0 && d.capacity() == 0);
    kani::cover!(true);
    if kani::any() {
        drop(z);
        drop(m);
    }
}
macro_rules! mb_create_unit {
    ($name:ident, $c:expr) => {
        #[kani::proof]
        #[kani::unwind(4)]
        fn $name() {
            mb_create_point::<$c>()
        }
    };
}
// @unit name=mb_create_0 props=C16 kind=bounded bound=size_0 fns=MutableBuffer::new,MutableBuffer::with_capacity,MutableBuffer::try_with_capacity,MutableBuffer::from_len_zeroed,MutableBuffer::new_null,MutableBuffer::default,MutableBuffer::drop tier=quick mem=2 timeout=120
mb_create_unit!(mb_create_0, 0);
// @unit name=mb_create_1 props=C16 kind=bounded bound=size_1 fns=MutableBuffer::new,MutableBuffer::with_capacity,MutableBuffer::try_with_capacity,MutableBuffer::from_len_zeroed,MutableBuffer::new_null,MutableBuffer::drop tier=quick mem=2 timeout=120
mb_create_unit!(mb_create_1, 1);
// @unit name=mb_create_64 props=C16 kind=bounded bound=size_64 fns=MutableBuffer::new,MutableBuffer::with_capacity,MutableBuffer::try_with_capacity,MutableBuffer::from_len_zeroed,MutableBuffer::new_null,MutableBuffer::drop tier=quick mem=2 timeout=120
mb_create_unit!(mb_create_64, 64);
// @unit name=mb_create_65 props=C16 kind=bounded bound=size_65 fns=MutableBuffer::new,MutableBuffer::with_capacity,MutableBuffer::try_with_capacity,MutableBuffer::from_len_zeroed,MutableBuffer::new_null,MutableBuffer::drop tier=quick mem=2 timeout=120
mb_create_unit!(mb_create_65, 65);
// @unit name=mb_create_130 props=C16 kind=bounded bound=size_130 fns=MutableBuffer::new,MutableBuffer::with_capacity,MutableBuffer::try_with_capacity,MutableBuffer::from_len_zeroed,MutableBuffer::new_null,MutableBuffer::drop tier=quick mem=2 timeout=120
mb_create_unit!(mb_create_130, 130);

// Contract (C16): with_capacity(C0); extend_from_slice(a[A]); extend_from_slice(b[B]); into Buffer.
// After each step: len is the sum so far, contents are the concatenation so far (bytes written
// earlier survive the reallocation), inv (len <= capacity, capacity % 64 == 0), and the growth
// contract of reserve holds. The final Buffer shows a ++ b, has the same capacity, and converts
// back (into_mutable) to an equal MutableBuffer which is then dropped.
fn mb_extend_point<const C0: usize, const A: usize, const B: usize>() {
    let a: [u8; A] = kani::any();
    let b: [u8; B] = kani::any();
    let mut m = MutableBuffer::with_capacity(C0);
    let (c0, p0) = (m.capacity(), m.as_ptr());
    m.extend_from_slice(&a);
    assert!(m.len() == A && inv(&m) && grown(&m, c0, p0, A) && same(m.as_slice(), &a, 0, A));
    let (c1, p1) = (m.capacity(), m.as_ptr());
    m.extend_from_slice(&b);
    assert!(m.len() == A + B && inv(&m) && grown(&m, c1, p1, A + B));
    let i: usize = kani::any();
    kani::assume(i < A + B);
    let want = if i < A { a[i] } else { b[i - A] };
    assert!(m.as_slice()[i] == want);
    let c2 = m.capacity();
    let buf: Buffer = m.into();
    assert!(buf.len() == A + B && buf.capacity() == c2 && buf.as_slice()[i] == want && buf.ptr_offset() == 0);
    let m2 = buf.into_mutable().unwrap();
    assert!(m2.len() == A + B && m2.capacity() == c2 && m2.as_slice()[i] == want);
    kani::cover!(i < A);
    kani::cover!(i >= A);
}
macro_rules! mb_extend_unit {
    ($name:ident, $c0:expr, $a:expr, $b:expr) => {
        #[kani::proof]
        #[kani::unwind(4)]
        fn $name() {
            mb_extend_point::<$c0, $a, $b>()
        }
    };
}
// @unit name=mb_extend_0_3_70 props=C16 kind=bounded bound=cap0_ext3_ext70 fns=MutableBuffer::extend_from_slice,MutableBuffer::try_extend_from_slice,MutableBuffer::reserve,MutableBuffer::try_reserve,MutableBuffer::try_reallocate,MutableBuffer::into_buffer,MutableBuffer::as_slice,MutableBuffer::len,MutableBuffer::capacity tier=quick mem=2 timeout=200
mb_extend_unit!(mb_extend_0_3_70, 0, 3, 70);
// @unit name=mb_extend_0_64_1 props=C16 kind=bounded bound=cap0_ext64_ext1 fns=MutableBuffer::extend_from_slice,MutableBuffer::try_reserve,MutableBuffer::try_reallocate,MutableBuffer::into_buffer tier=quick mem=2 timeout=200
mb_extend_unit!(mb_extend_0_64_1, 0, 64, 1);
// @unit name=mb_extend_1_63_1 props=C16 kind=bounded bound=cap1_ext63_ext1 fns=MutableBuffer::extend_from_slice,MutableBuffer::try_reserve,MutableBuffer::try_reallocate,MutableBuffer::into_buffer tier=quick mem=2 timeout=200
mb_extend_unit!(mb_extend_1_63_1, 1, 63, 1);
// @unit name=mb_extend_64_65_64 props=C16 kind=bounded bound=cap64_ext65_ext64 fns=MutableBuffer::extend_from_slice,MutableBuffer::try_reserve,MutableBuffer::try_reallocate,MutableBuffer::into_buffer tier=quick mem=2 timeout=200
mb_extend_unit!(mb_extend_64_65_64, 64, 65, 64);
// @unit name=mb_extend_0_1_130 props=C16 kind=bounded bound=cap0_ext1_ext130 fns=MutableBuffer::extend_from_slice,MutableBuffer::try_reserve,MutableBuffer::try_reallocate,MutableBuffer::into_buffer tier=quick mem=2 timeout=200
mb_extend_unit!(mb_extend_0_1_130, 0, 1, 130);

// Contract (C16): extend_from_slice(a[A]) then resize(R, v) then truncate(T) then extend_zeros(Z):
// resize to R > A appends R-A copies of v after the preserved prefix (reallocating if needed),
// resize to R <= A keeps the first R bytes and never changes the capacity; truncate(T) sets
// len = min(len, T) (no effect when T > len) without touching capacity or the surviving prefix;
// extend_zeros(Z) appends Z zero bytes. inv after every step.
fn mb_resize_point<const A: usize, const R: usize, const T: usize, const Z: usize>() {
    let a: [u8; A] = kani::any();
    let v: u8 = kani::any();
    let mut m = MutableBuffer::new(0);
    m.extend_from_slice(&a);
    let (c1, p1) = (m.capacity(), m.as_ptr());
    m.resize(R, v);
    assert!(m.len() == R && inv(&m));
    if R <= A {
        assert!(m.capacity() == c1 && m.as_ptr() == p1 && same(m.as_slice(), &a, 0, R));
    } else {
        assert!(grown(&m, c1, p1, R) && same(&m.as_slice()[..A], &a, 0, A) && all_eq(m.as_slice(), A, R, v));
    }
    let keep = if R < A { R } else { A }; // bytes of `a` still visible
    let c2 = m.capacity();
    m.truncate(T);
    let l3 = if T < R { T } else { R };
    assert!(m.len() == l3 && m.capacity() == c2 && inv(&m));
    let k3 = if keep < l3 { keep } else { l3 };
    assert!(same(&m.as_slice()[..k3], &a, 0, k3) && all_eq(m.as_slice(), k3, l3, v));
    let (c3, p3) = (m.capacity(), m.as_ptr());
    m.extend_zeros(Z);
    assert!(m.len() == l3 + Z && inv(&m) && grown(&m, c3, p3, l3 + Z));
    assert!(same(&m.as_slice()[..k3], &a, 0, k3) && all_eq(m.as_slice(), k3, l3, v) && all_eq(m.as_slice(), l3, l3 + Z, 0));
    m.clear();
    assert!(m.len() == 0 && m.capacity() >= c3 && inv(&m));
    kani::cover!(true);
}
macro_rules! mb_resize_unit {
    ($name:ident, $a:expr, $r:expr, $t:expr, $z:expr) => {
        #[kani::proof]
        #[kani::unwind(4)]
        fn $name() {
            mb_resize_point::<$a, $r, $t, $z>()
        }
    };
}
// @unit name=mb_resize_3_70_65_1 props=C16 kind=bounded bound=ext3_resize70_truncate65_zeros1 fns=MutableBuffer::resize,MutableBuffer::try_resize,MutableBuffer::truncate,MutableBuffer::extend_zeros,MutableBuffer::try_extend_zeros,MutableBuffer::clear,MutableBuffer::try_reserve,MutableBuffer::try_reallocate tier=quick mem=2 timeout=200
mb_resize_unit!(mb_resize_3_70_65_1, 3, 70, 65, 1);
// @unit name=mb_resize_70_3_64_130 props=C16 kind=bounded bound=ext70_resize3_truncate64_zeros130 fns=MutableBuffer::resize,MutableBuffer::try_resize,MutableBuffer::truncate,MutableBuffer::extend_zeros,MutableBuffer::clear,MutableBuffer::try_reallocate tier=quick mem=2 timeout=200
mb_resize_unit!(mb_resize_70_3_64_130, 70, 3, 64, 130);
// @unit name=mb_resize_64_65_0_63 props=C16 kind=bounded bound=ext64_resize65_truncate0_zeros63 fns=MutableBuffer::resize,MutableBuffer::try_resize,MutableBuffer::truncate,MutableBuffer::extend_zeros,MutableBuffer::clear,MutableBuffer::try_reallocate tier=quick mem=2 timeout=200
mb_resize_unit!(mb_resize_64_65_0_63, 64, 65, 0, 63);
// @unit name=mb_resize_0_0_1_0 props=C16 kind=bounded bound=ext0_resize0_truncate1_zeros0 fns=MutableBuffer::resize,MutableBuffer::try_resize,MutableBuffer::truncate,MutableBuffer::extend_zeros,MutableBuffer::clear tier=quick mem=2 timeout=200
mb_resize_unit!(mb_resize_0_0_1_0, 0, 0, 1, 0);
// @unit name=mb_resize_5_5_5_64 props=C16 kind=bounded bound=ext5_resize5_truncate5_zeros64 fns=MutableBuffer::resize,MutableBuffer::try_resize,MutableBuffer::truncate,MutableBuffer::extend_zeros,MutableBuffer::clear,MutableBuffer::try_reallocate tier=quick mem=2 timeout=200
mb_resize_unit!(mb_resize_5_5_5_64, 5, 5, 5, 64);

// Contract (C16): `push` of u8 / i32 / i64 values appends the value's native-endian bytes, also
// across the 64-byte capacity boundary (P prefix bytes then u8, i64, i32: with P = 58 the i64
// straddles the first reallocation); prefix and earlier pushes are preserved; `reserve(additional)`
// follows the growth contract and never changes len or contents; `typed_data` reads pushed values back.
fn mb_push_point<const P: usize, const ADD: usize>() {
    let a: [u8; P] = kani::any();
    let (x, y, z): (u8, i64, i32) = (kani::any(), kani::any(), kani::any());
    let mut m = MutableBuffer::new(P);
    m.extend_from_slice(&a);
    let (c0, p0) = (m.capacity(), m.as_ptr());
    m.push(x);
    assert!(m.len() == P + 1 && inv(&m) && grown(&m, c0, p0, P + 1));
    let (c1, p1) = (m.capacity(), m.as_ptr());
    m.push(y);
    assert!(m.len() == P + 9 && inv(&m) && grown(&m, c1, p1, P + 9));
    let (c2, p2) = (m.capacity(), m.as_ptr());
    m.push(z);
    assert!(m.len() == P + 13 && inv(&m) && grown(&m, c2, p2, P + 13));
    let (c3, p3) = (m.capacity(), m.as_ptr());
    m.reserve(ADD);
    assert!(m.len() == P + 13 && inv(&m) && grown(&m, c3, p3, P + 13 + ADD));
    let s = m.as_slice();
    assert!(same(&s[..P], &a, 0, P));
    assert!(s[P] == x);
    assert!(same(&s[P + 1..P + 9], &y.to_ne_bytes(), 0, 8));
    assert!(same(&s[P + 9..P + 13], &z.to_ne_bytes(), 0, 4));
    kani::cover!(c1 != c2 || c0 != c1 || c2 != c3); // some push reallocated
    kani::cover!(m.capacity() != c3 || ADD < 64); // the large reserve reallocated
}
macro_rules! mb_push_unit {
    ($name:ident, $p:expr, $add:expr) => {
        #[kani::proof]
        #[kani::unwind(4)]
        fn $name() {
            mb_push_point::<$p, $add>()
        }
    };
}
// @unit name=mb_push_58_200 props=C16 kind=bounded bound=prefix58_push_u8_i64_i32_reserve200 fns=MutableBuffer::push,MutableBuffer::reserve,MutableBuffer::try_reserve,MutableBuffer::try_reallocate tier=quick mem=2 timeout=200
mb_push_unit!(mb_push_58_200, 58, 200);
// @unit name=mb_push_63_1 props=C16 kind=bounded bound=prefix63_push_u8_i64_i32_reserve1 fns=MutableBuffer::push,MutableBuffer::reserve,MutableBuffer::try_reserve,MutableBuffer::try_reallocate tier=quick mem=2 timeout=200
mb_push_unit!(mb_push_63_1, 63, 1);

// Contract (C16): after pushing three i32 values into an empty buffer, `typed_data::<i32>` and
// `typed_data_mut::<i32>` view exactly those values; a write through typed_data_mut changes exactly
// that element.
// @unit name=mb_typed_data props=C16,C01 kind=bounded bound=3_i32 fns=MutableBuffer::typed_data,MutableBuffer::typed_data_mut,MutableBuffer::push tier=quick mem=2 timeout=120
#[kani::proof]
#[kani::unwind(5)]
fn mb_typed_data() {
    let v: [i32; 3] = kani::any();
    let mut m = MutableBuffer::new(0);
    m.push(v[0]);
    m.push(v[1]);
    m.push(v[2]);
    let j0: usize = kani::any();
    kani::assume(j0 < 3);
    assert!(m.typed_data::<i32>().len() == 3 && m.typed_data::<i32>()[j0] == v[j0]);
    let (k, w): (usize, i32) = (kani::any(), kani::any());
    kani::assume(k < 3);
    m.typed_data_mut::<i32>()[k] = w;
    let t = m.typed_data::<i32>();
    let j: usize = kani::any();
    kani::assume(j < 3);
    assert!(t.len() == 3 && t[j] == if j == k { w } else { v[j] });
    kani::cover!(j != k);
}

// Contract (C16/C09): `set_null_bits(start, count)` with ARBITRARY usize arguments on a buffer of
// len L = 10, capacity 64, either panics (= rejects) or — only if start + count <= capacity without
// wrap-around — zeroes exactly the bytes [start, start+count) and leaves len, capacity and every
// other visible byte unchanged (no write outside the allocation: CBMC bounds checks).
// `with_bitset(end, val)`: rejects unless end <= capacity; sets len = end and bytes [0,end) to 0x00/0xFF.
// @unit name=mb_set_null_bits props=C16,C09 kind=bounded bound=len10_cap64 fns=MutableBuffer::set_null_bits,MutableBuffer::with_bitset mayreject=1 tier=quick mem=2 timeout=200
#[kani::proof]
#[kani::unwind(4)]
fn mb_set_null_bits() {
    const L: usize = 10;
    let a: [u8; L] = kani::any();
    let mut m = MutableBuffer::new(L);
    m.extend_from_slice(&a);
    let (start, count): (usize, usize) = (kani::any(), kani::any());
    if kani::any() {
        m.set_null_bits(start, count);
        assert!(start as u128 + count as u128 <= 64);
        assert!(m.len() == L && m.capacity() == 64);
        let i: usize = kani::any();
        kani::assume(i < L);
        assert!(m.as_slice()[i] == if start <= i && i < start + count { 0 } else { a[i] });
        kani::cover!(start + count == 64 && count > 0);
        kani::cover!(start < L && start + count < L && count > 0);
    } else {
        let val: bool = kani::any();
        let m2 = m.with_bitset(start, val);
        assert!(start <= 64 && m2.len() == start && m2.capacity() == 64);
        assert!(all_eq(m2.as_slice(), 0, start, if val { 0xff } else { 0 }));
        kani::cover!(start == 64);
        kani::cover!(start == 0);
    }
}

// Contract (C16): `set_null_bits` / `with_bitset` accept every in-capacity range (no over-rejection,
// not may-reject): start + count <= capacity never panics.
// @unit name=mb_set_null_bits_accepts props=C16 kind=bounded bound=len10_cap64 fns=MutableBuffer::set_null_bits,MutableBuffer::with_bitset tier=quick mem=2 timeout=200
#[kani::proof]
#[kani::unwind(4)]
fn mb_set_null_bits_accepts() {
    let a: [u8; 10] = kani::any();
    let mut m = MutableBuffer::new(10);
    m.extend_from_slice(&a);
    let (start, count): (usize, usize) = (kani::any(), kani::any());
    kani::assume(start <= 64 && count <= 64 - start);
    m.set_null_bits(start, count);
    let m2 = m.with_bitset(start, true);
    assert!(m2.len() == start);
    kani::cover!(start + count == 64 && count > 0);
}

// Contract (C16): `MutableBuffer::from(Vec<i32>)` takes over the Vec's allocation without copying
// (len = 4*len, capacity = 4*capacity, same bytes); it can then grow (reallocation with the Vec's
// own layout alignment, contents preserved) and is freed exactly once, by the right deallocation.
// `shrink_to_fit` reduces capacity to len rounded up to 64 (never below len) and preserves contents.
// @unit name=mb_from_vec_grow_shrink props=C16 kind=bounded bound=Vec<i32>_len3_cap5_then_ext70_then_truncate3 fns=MutableBuffer::from,MutableBuffer::extend_from_slice,MutableBuffer::try_reallocate,MutableBuffer::shrink_to_fit,MutableBuffer::try_shrink_to_fit,MutableBuffer::truncate,MutableBuffer::drop tier=quick mem=2 timeout=200
#[kani::proof]
#[kani::unwind(6)]
fn mb_from_vec_grow_shrink() {
    let d: [i32; 3] = kani::any();
    let b: [u8; 70] = kani::any();
    let mut v: Vec<i32> = Vec::with_capacity(5);
    v.extend_from_slice(&d);
    let cap = v.capacity();
    let vp = v.as_ptr() as *const u8;
    let mut m = MutableBuffer::from(v);
    assert!(m.len() == 12 && m.capacity() == 4 * cap && m.as_ptr() == vp);
    let j0: usize = kani::any();
    kani::assume(j0 < 3);
    assert!(m.typed_data::<i32>().len() == 3 && m.typed_data::<i32>()[j0] == d[j0]);
    if kani::any() {
        return; // dropped as is: frees the Vec's allocation once
    }
    m.extend_from_slice(&b);
    assert!(m.len() == 82 && m.capacity() >= 82);
    assert!(same(&m.as_slice()[12..], &b, 0, 70));
    let i: usize = kani::any();
    kani::assume(i < 3);
    assert!(m.as_slice()[4 * i..4 * i + 4] == d[i].to_ne_bytes());
    let before = m.capacity();
    m.truncate(3);
    m.shrink_to_fit();
    assert!(m.len() == 3 && m.capacity() == 64 && m.capacity() <= before);
    assert!(same(m.as_slice(), &d[0].to_ne_bytes(), 0, 3));
    kani::cover!(before > 64);
}

// Contract (C16): `repeat_slice_n_times(s, n)` appends n copies of s (doubling copy strategy) after
// the existing prefix, which is preserved; n = 0 or an empty slice appends nothing.
fn mb_repeat_point<const P: usize, const S: usize, const N: usize>() {
    let a: [u8; P] = kani::any();
    let s: [u8; S] = kani::any();
    let mut m = MutableBuffer::new(0);
    m.extend_from_slice(&a);
    m.repeat_slice_n_times(&s, N);
    assert!(m.len() == P + S * N && inv(&m));
    let i: usize = kani::any();
    kani::assume(i < P + S * N);
    assert!(m.as_slice()[i] == if i < P { a[i] } else { s[(i - P) % S] });
    kani::cover!(i >= P);
    kani::cover!(i < P);
}
macro_rules! mb_repeat_unit {
    ($name:ident, $p:expr, $s:expr, $n:expr) => {
        #[kani::proof]
        #[kani::unwind(8)]
        fn $name() {
            mb_repeat_point::<$p, $s, $n>()
        }
    };
}
// @unit name=mb_repeat_2_3_5 props=C16 kind=bounded bound=prefix2_slice3_times5 fns=MutableBuffer::repeat_slice_n_times,MutableBuffer::try_repeat_slice_n_times tier=quick mem=2 timeout=200
mb_repeat_unit!(mb_repeat_2_3_5, 2, 3, 5);
// @unit name=mb_repeat_1_9_8 props=C16 kind=bounded bound=prefix1_slice9_times8 fns=MutableBuffer::repeat_slice_n_times,MutableBuffer::try_repeat_slice_n_times tier=quick mem=2 timeout=200
mb_repeat_unit!(mb_repeat_1_9_8, 1, 9, 8);
// @unit name=mb_repeat_60_4_1 props=C16 kind=bounded bound=prefix60_slice4_times1 fns=MutableBuffer::repeat_slice_n_times,MutableBuffer::try_repeat_slice_n_times tier=quick mem=2 timeout=200
mb_repeat_unit!(mb_repeat_60_4_1, 60, 4, 1);

// Contract (C16): n = 0 appends nothing and changes nothing.
// @unit name=mb_repeat_zero props=C16 kind=bounded bound=prefix3_slice3_times0 fns=MutableBuffer::repeat_slice_n_times,MutableBuffer::try_repeat_slice_n_times tier=quick mem=2 timeout=120
#[kani::proof]
#[kani::unwind(8)]
fn mb_repeat_zero() {
    let a: [u8; 3] = kani::any();
    let mut m = MutableBuffer::new(0);
    m.extend_from_slice(&a);
    let c = m.capacity();
    m.repeat_slice_n_times(&a, 0);
    let e: [u8; 0] = [];
    m.repeat_slice_n_times(&e, 7);
    assert!(m.len() == 3 && m.capacity() == c && same(m.as_slice(), &a, 0, 3));
    kani::cover!(true);
}

// Contract (C16): building from iterators of native values — `FromIterator<i32>`, `Extend<i32>`
// (extend_from_iter: a size-hinted fast path followed by per-item push) and the unsafe
// `from_trusted_len_iter` with a correct length — yields exactly the values' bytes in order; an
// `Extend` keeps the existing prefix. (20 i32 = 80 bytes: crosses the first 64-byte capacity.)
// @unit name=mb_from_iter_i32 props=C16 kind=bounded bound=20_i32_plus_3_extended fns=MutableBuffer::from_iter,MutableBuffer::extend,MutableBuffer::extend_from_iter,MutableBuffer::from_trusted_len_iter tier=quick mem=3 timeout=300
#[kani::proof]
#[kani::unwind(22)]
fn mb_from_iter_i32() {
    let v: [i32; 20] = kani::any();
    let w: [i32; 3] = kani::any();
    let i: usize = kani::any();
    kani::assume(i < 23);
    let want = if i < 20 { v[i] } else { w[i - 20] };
    if kani::any() {
        let mut m: MutableBuffer = v.iter().copied().collect();
        assert!(m.len() == 80 && inv(&m));
        m.extend(w.iter().copied());
        assert!(m.len() == 92 && inv(&m));
        assert!(m.typed_data::<i32>()[i] == want);
        kani::cover!(i >= 20);
    } else {
        let m = unsafe { MutableBuffer::from_trusted_len_iter(v.iter().copied()) };
        assert!(m.len() == 80 && inv(&m));
        if i < 20 {
            assert!(m.typed_data::<i32>()[i] == want);
        }
        kani::cover!(i == 19);
    }
}

// Contract (C16): `Extend` from an iterator whose size_hint lower bound is 0 (a `filter`): nothing can
// be pre-reserved, so the items first fill the existing capacity through the raw-pointer fast path of
// `extend_from_iter` (16 i32 into the 64 bytes of `new(64)`) and the remaining 4 go through the
// per-item `push` path, which reallocates. All 20 values arrive in order; inv holds.
// @unit name=mb_extend_iter_unsized props=C16 kind=bounded bound=cap64_then_20_i32_from_unsized_iterator fns=MutableBuffer::extend,MutableBuffer::extend_from_iter,MutableBuffer::push tier=quick mem=3 timeout=400
#[kani::proof]
#[kani::unwind(22)]
fn mb_extend_iter_unsized() {
    let v: [i32; 20] = kani::any();
    let mut m = MutableBuffer::new(64);
    let (c0, p0) = (m.capacity(), m.as_ptr());
    m.extend(v.iter().copied().filter(|_| true));
    assert!(m.len() == 80 && inv(&m) && c0 == 64);
    let i: usize = kani::any();
    kani::assume(i < 20);
    assert!(m.typed_data::<i32>()[i] == v[i]);
    kani::cover!(m.capacity() == 128 && m.as_ptr() != p0); // the push path reallocated
    kani::cover!(i == 15);
    kani::cover!(i == 16);
}

// ---- C19 bit packing units ----
// (self-contained section: helper names are prefixed c19_ and nothing outside this section is used
//  except `use super::*;` above)

/// bit i of a little-endian bit-packed byte sequence (Arrow validity/boolean layout)
fn c19_bit(s: &[u8], i: usize) -> bool { (s[i / 8] >> (i % 8)) & 1 == 1 }

fn c19_collect_bool_grid<const LEN: usize>() {
    let m: [bool; LEN] = kani::any();
    let mut calls = 0usize;
    let buf = MutableBuffer::collect_bool(LEN, |i| {
        assert!(i == calls); // indexes are presented in order 0, 1, .., len-1, each exactly once
        calls += 1;
        m[i]
    });
    assert!(calls == LEN);
    assert!(buf.len() == (LEN + 7) / 8);
    if LEN > 0 {
        let i: usize = kani::any();
        kani::assume(i < LEN);
        assert!(c19_bit(buf.as_slice(), i) == m[i]);
        kani::cover!(m[i] && i == LEN - 1);
        kani::cover!(LEN % 64 == 0 || (!m[i] && i >= 64 * (LEN / 64)));
    }
    kani::cover!(buf.len() == (LEN + 7) / 8);
}
// Contract (C19) MutableBuffer::collect_bool(len, f): f is invoked with 0, 1, .., len-1 in this order,
// each exactly once; the result has exactly ceil(len/8) bytes and packed bit i == f(i) for every
// i < len (model: an arbitrary array of len booleans), across the 64-bit chunk boundary.
// @unit name=c19_collect_bool_0 props=C19 kind=bounded bound=grid_len=0 fns=MutableBuffer::collect_bool tier=thorough timeout=300 note=not_confirmed_under_load
#[kani::proof]
#[kani::unwind(66)]
fn c19_collect_bool_0() { c19_collect_bool_grid::<0>() }
// @unit name=c19_collect_bool_1 props=C19 kind=bounded bound=grid_len=1 fns=MutableBuffer::collect_bool tier=thorough timeout=300 note=not_confirmed_under_load
#[kani::proof]
#[kani::unwind(66)]
fn c19_collect_bool_1() { c19_collect_bool_grid::<1>() }
// @unit name=c19_collect_bool_7 props=C19 kind=bounded bound=grid_len=7 fns=MutableBuffer::collect_bool tier=thorough timeout=300 note=not_confirmed_under_load
#[kani::proof]
#[kani::unwind(66)]
fn c19_collect_bool_7() { c19_collect_bool_grid::<7>() }
// @unit name=c19_collect_bool_63 props=C19 kind=bounded bound=grid_len=63 fns=MutableBuffer::collect_bool tier=thorough timeout=300 note=not_confirmed_under_load
#[kani::proof]
#[kani::unwind(66)]
fn c19_collect_bool_63() { c19_collect_bool_grid::<63>() }
// @unit name=c19_collect_bool_64 props=C19 kind=bounded bound=grid_len=64 fns=MutableBuffer::collect_bool timeout=300
#[kani::proof]
#[kani::unwind(66)]
fn c19_collect_bool_64() { c19_collect_bool_grid::<64>() }
// @unit name=c19_collect_bool_65 props=C19 kind=bounded bound=grid_len=65 fns=MutableBuffer::collect_bool timeout=300
#[kani::proof]
#[kani::unwind(67)]
fn c19_collect_bool_65() { c19_collect_bool_grid::<65>() }
// @unit name=c19_collect_bool_70 props=C19 kind=bounded bound=grid_len=70 fns=MutableBuffer::collect_bool tier=thorough timeout=300 note=not_confirmed_under_load
#[kani::proof]
#[kani::unwind(72)]
fn c19_collect_bool_70() { c19_collect_bool_grid::<70>() }
// @unit name=c19_collect_bool_127 props=C19 kind=bounded bound=grid_len=127 fns=MutableBuffer::collect_bool tier=thorough timeout=300 note=not_confirmed_under_load
#[kani::proof]
#[kani::unwind(129)]
fn c19_collect_bool_127() { c19_collect_bool_grid::<127>() }
// @unit name=c19_collect_bool_128 props=C19 kind=bounded bound=grid_len=128 fns=MutableBuffer::collect_bool tier=thorough timeout=300 note=not_confirmed_under_load
#[kani::proof]
#[kani::unwind(130)]
fn c19_collect_bool_128() { c19_collect_bool_grid::<128>() }
// @unit name=c19_collect_bool_129 props=C19 kind=bounded bound=grid_len=129 fns=MutableBuffer::collect_bool tier=thorough timeout=300 note=not_confirmed_under_load
#[kani::proof]
#[kani::unwind(131)]
fn c19_collect_bool_129() { c19_collect_bool_grid::<129>() }
// @unit name=c19_collect_bool_200 props=C19 kind=bounded bound=grid_len=200 fns=MutableBuffer::collect_bool tier=thorough timeout=300 note=not_confirmed_under_load
#[kani::proof]
#[kani::unwind(202)]
fn c19_collect_bool_200() { c19_collect_bool_grid::<200>() }

fn c19_from_iter_bool_grid<const LEN: usize>() {
    let m: [bool; LEN] = kani::any();
    let buf = unsafe { MutableBuffer::from_trusted_len_iter_bool(m.iter().copied()) };
    assert!(buf.len() == (LEN + 7) / 8);
    if LEN > 0 {
        let i: usize = kani::any();
        kani::assume(i < LEN);
        assert!(c19_bit(buf.as_slice(), i) == m[i]);
        kani::cover!(m[i] && i == LEN - 1);
        kani::cover!(!m[i] && i == 0);
    }
    kani::cover!(buf.len() == (LEN + 7) / 8);
}
// Contract (C19) MutableBuffer::from_trusted_len_iter_bool(iter) for an iterator with an exact size hint:
// exactly ceil(len/8) bytes, packed bit i == i-th item of the iterator, for every i < len.
// @unit name=c19_from_trusted_len_iter_bool_0 props=C19 kind=bounded bound=grid_len=0 fns=MutableBuffer::from_trusted_len_iter_bool,MutableBuffer::collect_bool tier=thorough timeout=300 note=not_confirmed_under_load
#[kani::proof]
#[kani::unwind(66)]
fn c19_from_trusted_len_iter_bool_0() { c19_from_iter_bool_grid::<0>() }
// @unit name=c19_from_trusted_len_iter_bool_9 props=C19 kind=bounded bound=grid_len=9 fns=MutableBuffer::from_trusted_len_iter_bool,MutableBuffer::collect_bool tier=thorough timeout=300 note=not_confirmed_under_load
#[kani::proof]
#[kani::unwind(66)]
fn c19_from_trusted_len_iter_bool_9() { c19_from_iter_bool_grid::<9>() }
// @unit name=c19_from_trusted_len_iter_bool_65 props=C19 kind=bounded bound=grid_len=65 fns=MutableBuffer::from_trusted_len_iter_bool,MutableBuffer::collect_bool timeout=300
#[kani::proof]
#[kani::unwind(67)]
fn c19_from_trusted_len_iter_bool_65() { c19_from_iter_bool_grid::<65>() }
// @unit name=c19_from_trusted_len_iter_bool_128 props=C19 kind=bounded bound=grid_len=128 fns=MutableBuffer::from_trusted_len_iter_bool,MutableBuffer::collect_bool tier=thorough timeout=300 note=not_confirmed_under_load
#[kani::proof]
#[kani::unwind(130)]
fn c19_from_trusted_len_iter_bool_128() { c19_from_iter_bool_grid::<128>() }
// @unit name=c19_from_trusted_len_iter_bool_130 props=C19 kind=bounded bound=grid_len=130 fns=MutableBuffer::from_trusted_len_iter_bool,MutableBuffer::collect_bool tier=thorough timeout=300 note=not_confirmed_under_load
#[kani::proof]
#[kani::unwind(132)]
fn c19_from_trusted_len_iter_bool_130() { c19_from_iter_bool_grid::<130>() }

fn c19_extend_bool_grid<const OFF: usize, const LEN: usize, const NB: usize>() {
    let old: [u8; NB] = kani::any();
    let m: [bool; LEN] = kani::any();
    let mut buf = MutableBuffer::new(0);
    buf.extend_from_slice(&old);
    unsafe { buf.extend_bool_trusted_len(m.iter().copied(), OFF) };
    let end = OFF + LEN;
    let end_bytes = (end + 7) / 8;
    assert!(buf.len() == if NB > end_bytes { NB } else { end_bytes });
    let i: usize = kani::any();
    kani::assume(i < 8 * buf.len());
    let got = c19_bit(buf.as_slice(), i);
    if i < OFF {
        assert!(got == c19_bit(&old, i)); // existing bits below `offset` are preserved
        kani::cover!(got);
    } else if i < end {
        assert!(got == m[i - OFF]); // the written range is exactly the iterator's values, whatever was there
        kani::cover!(got && i < 8 * NB && !c19_bit(&old, i));
        kani::cover!(!got && i < 8 * NB && c19_bit(&old, i));
        kani::cover!(got && i == end - 1);
    } else if LEN > 0 && i < 8 * end_bytes {
        assert!(!got); // "All bits not written to (but readable due to byte alignment) will be zeroed out"
    } else if LEN > 0 {
        assert!(got == c19_bit(&old, i)); // whole bytes after the written range are untouched
    } else {
        assert!(got == c19_bit(&old, i)); // nothing to append: nothing changes
    }
    kani::cover!(NB > end_bytes || buf.len() == end_bytes);
}
// Contract (C19) MutableBuffer::extend_bool_trusted_len(iter, offset), offset <= 8*len(), iterator with
// exact size hint, old bytes fully symbolic (also at and after `offset`: the call may point INTO
// existing non-zero data): afterwards len() == max(old len, ceil((offset+n)/8)); every bit below
// offset is unchanged; bit offset+k is the k-th item (independent of the old contents); when n > 0
// the bits between offset+n and the end of that byte are zero; whole bytes after it are unchanged.
// @unit name=c19_extend_bool_3_70_1 props=C19 kind=bounded bound=grid_(offset,items,old_bytes)=(3,70,1) fns=MutableBuffer::extend_bool_trusted_len tier=thorough timeout=600 note=not_confirmed_under_load
#[kani::proof]
#[kani::unwind(73)]
fn c19_extend_bool_3_70_1() { c19_extend_bool_grid::<3, 70, 1>() }
// @unit name=c19_extend_bool_1_63_12 props=C19 kind=bounded bound=grid_(offset,items,old_bytes)=(1,63,12) fns=MutableBuffer::extend_bool_trusted_len timeout=600
#[kani::proof]
#[kani::unwind(67)]
fn c19_extend_bool_1_63_12() { c19_extend_bool_grid::<1, 63, 12>() }
// @unit name=c19_extend_bool_0_64_0 props=C19 kind=bounded bound=grid_(offset,items,old_bytes)=(0,64,0) fns=MutableBuffer::extend_bool_trusted_len tier=thorough timeout=600 note=not_confirmed_under_load
#[kani::proof]
#[kani::unwind(67)]
fn c19_extend_bool_0_64_0() { c19_extend_bool_grid::<0, 64, 0>() }
// @unit name=c19_extend_bool_0_0_0 props=C19 kind=bounded bound=grid_(offset,items,old_bytes)=(0,0,0) fns=MutableBuffer::extend_bool_trusted_len tier=thorough timeout=600 note=not_confirmed_under_load
#[kani::proof]
#[kani::unwind(67)]
fn c19_extend_bool_0_0_0() { c19_extend_bool_grid::<0, 0, 0>() }
// @unit name=c19_extend_bool_5_0_2 props=C19 kind=bounded bound=grid_(offset,items,old_bytes)=(5,0,2) fns=MutableBuffer::extend_bool_trusted_len tier=thorough timeout=600 note=not_confirmed_under_load
#[kani::proof]
#[kani::unwind(67)]
fn c19_extend_bool_5_0_2() { c19_extend_bool_grid::<5, 0, 2>() }
// @unit name=c19_extend_bool_3_5_1 props=C19 kind=bounded bound=grid_(offset,items,old_bytes)=(3,5,1) fns=MutableBuffer::extend_bool_trusted_len tier=thorough timeout=600
#[kani::proof]
#[kani::unwind(67)]
fn c19_extend_bool_3_5_1() { c19_extend_bool_grid::<3, 5, 1>() }
// @unit name=c19_extend_bool_3_2_3 props=C19 kind=bounded bound=grid_(offset,items,old_bytes)=(3,2,3) fns=MutableBuffer::extend_bool_trusted_len tier=thorough timeout=600 note=not_confirmed_under_load
#[kani::proof]
#[kani::unwind(67)]
fn c19_extend_bool_3_2_3() { c19_extend_bool_grid::<3, 2, 3>() }
// @unit name=c19_extend_bool_61_10_8 props=C19 kind=bounded bound=grid_(offset,items,old_bytes)=(61,10,8) fns=MutableBuffer::extend_bool_trusted_len tier=thorough timeout=600 note=not_confirmed_under_load
#[kani::proof]
#[kani::unwind(67)]
fn c19_extend_bool_61_10_8() { c19_extend_bool_grid::<61, 10, 8>() }
// @unit name=c19_extend_bool_61_10_12 props=C19 kind=bounded bound=grid_(offset,items,old_bytes)=(61,10,12) fns=MutableBuffer::extend_bool_trusted_len tier=thorough timeout=600 note=not_confirmed_under_load
#[kani::proof]
#[kani::unwind(67)]
fn c19_extend_bool_61_10_12() { c19_extend_bool_grid::<61, 10, 12>() }
// @unit name=c19_extend_bool_64_130_8 props=C19 kind=bounded bound=grid_(offset,items,old_bytes)=(64,130,8) fns=MutableBuffer::extend_bool_trusted_len tier=thorough timeout=600 note=not_confirmed_under_load
#[kani::proof]
#[kani::unwind(133)]
fn c19_extend_bool_64_130_8() { c19_extend_bool_grid::<64, 130, 8>() }
// @unit name=c19_extend_bool_7_200_1 props=C19 kind=bounded bound=grid_(offset,items,old_bytes)=(7,200,1) fns=MutableBuffer::extend_bool_trusted_len tier=thorough timeout=600 note=not_confirmed_under_load
#[kani::proof]
#[kani::unwind(203)]
fn c19_extend_bool_7_200_1() { c19_extend_bool_grid::<7, 200, 1>() }
// @unit name=c19_extend_bool_60_4_8 props=C19 kind=bounded bound=grid_(offset,items,old_bytes)=(60,4,8) fns=MutableBuffer::extend_bool_trusted_len tier=thorough timeout=600 note=not_confirmed_under_load
#[kani::proof]
#[kani::unwind(67)]
fn c19_extend_bool_60_4_8() { c19_extend_bool_grid::<60, 4, 8>() }
// @unit name=c19_extend_bool_8_56_9 props=C19 kind=bounded bound=grid_(offset,items,old_bytes)=(8,56,9) fns=MutableBuffer::extend_bool_trusted_len tier=thorough timeout=600 note=not_confirmed_under_load
#[kani::proof]
#[kani::unwind(67)]
fn c19_extend_bool_8_56_9() { c19_extend_bool_grid::<8, 56, 9>() }
// @unit name=c19_extend_bool_63_1_8 props=C19 kind=bounded bound=grid_(offset,items,old_bytes)=(63,1,8) fns=MutableBuffer::extend_bool_trusted_len tier=thorough timeout=600 note=not_confirmed_under_load
#[kani::proof]
#[kani::unwind(67)]
fn c19_extend_bool_63_1_8() { c19_extend_bool_grid::<63, 1, 8>() }
// @unit name=c19_extend_bool_65_127_30 props=C19 kind=bounded bound=grid_(offset,items,old_bytes)=(65,127,30) fns=MutableBuffer::extend_bool_trusted_len tier=thorough timeout=600 note=not_confirmed_under_load
#[kani::proof]
#[kani::unwind(130)]
fn c19_extend_bool_65_127_30() { c19_extend_bool_grid::<65, 127, 30>() }
// @unit name=c19_extend_bool_9_7_2 props=C19 kind=bounded bound=grid_(offset,items,old_bytes)=(9,7,2) fns=MutableBuffer::extend_bool_trusted_len tier=thorough timeout=600 note=not_confirmed_under_load
#[kani::proof]
#[kani::unwind(67)]
fn c19_extend_bool_9_7_2() { c19_extend_bool_grid::<9, 7, 2>() }
// @unit name=c19_extend_bool_0_70_16 props=C19 kind=bounded bound=grid_(offset,items,old_bytes)=(0,70,16) fns=MutableBuffer::extend_bool_trusted_len tier=thorough timeout=600 note=not_confirmed_under_load
#[kani::proof]
#[kani::unwind(73)]
fn c19_extend_bool_0_70_16() { c19_extend_bool_grid::<0, 70, 16>() }
// @unit name=c19_extend_bool_13_3_2 props=C19 kind=bounded bound=grid_(offset,items,old_bytes)=(13,3,2) fns=MutableBuffer::extend_bool_trusted_len tier=thorough timeout=600 note=not_confirmed_under_load
#[kani::proof]
#[kani::unwind(67)]
fn c19_extend_bool_13_3_2() { c19_extend_bool_grid::<13, 3, 2>() }
// @unit name=c19_extend_bool_5_130_20 props=C19 kind=bounded bound=grid_(offset,items,old_bytes)=(5,130,20) fns=MutableBuffer::extend_bool_trusted_len tier=thorough timeout=600 note=not_confirmed_under_load
#[kani::proof]
#[kani::unwind(133)]
fn c19_extend_bool_5_130_20() { c19_extend_bool_grid::<5, 130, 20>() }
// ---- end of C19 bit packing units ----
