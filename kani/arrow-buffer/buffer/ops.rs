// Kani contract harnesses for /repo/arrow-buffer/src/buffer/ops.rs (child module: sees private items via super::)
