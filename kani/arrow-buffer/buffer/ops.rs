// Kani contract harnesses for /repo/arrow-buffer/src/buffer/ops.rs (child module: sees private items via super::)
use super::*;
#[path = "/verif/kani/support/spec.rs"]
mod spec;
#[allow(unused_imports)]
use spec::*;

// ---------------------------------------------------------------------------------------------
// Shared harness helpers (spec side). Nothing here calls the code under test.
// ---------------------------------------------------------------------------------------------

/// N <= 64 fully symbolic bytes built without a loop (lets a harness use a small unwind bound).
#[allow(dead_code)]
fn any_bytes<const N: usize>() -> [u8; N] {
    let w: (u128, u128, u128, u128) = (kani::any(), kani::any(), kani::any(), kani::any());
    let full: [u8; 64] = unsafe { std::mem::transmute(w) };
    let mut out = [0u8; N];
    out.copy_from_slice(&full[..N]);
    out
}
#[allow(dead_code)]
fn mask(b: bool) -> u64 { if b { u64::MAX } else { 0 } }

// STUB (listed): `core::ptr::align_offset`, the single address-dependent step of
// `<[u8]>::align_to::<u64>()`. CBMC cannot constant-fold an address during symbolic execution, so
// without it every slice length after `align_to` is symbolic (measured: out of memory / > 5 min).
// The stub returns the exact value of the real function for a pointer whose address is congruent
// to the harness-supplied skew modulo 8, and it *asserts* that congruence on the real address, so
// nothing is assumed about the allocator; the rest of the real `align_to` runs unchanged.
// The k-th call uses ALIGN_SKEWS[k] (control flow is concrete, so k is concrete).
#[allow(dead_code)]
static mut ALIGN_SKEWS: [usize; 6] = [0; 6];
#[allow(dead_code)]
static mut ALIGN_CALLS: usize = 0;
#[allow(dead_code)]
fn set_skews(s: [usize; 6]) { unsafe { ALIGN_SKEWS = s; ALIGN_CALLS = 0; } }
/// builder for the list of expected `align_to` calls of one harness (bookkeeping only: a wrong
/// prediction makes the stub's address assertion fail, it can never hide a violation)
#[derive(Clone, Copy)]
#[allow(dead_code)]
struct Skews { s: [usize; 6], n: usize }
#[allow(dead_code)]
fn skews() -> Skews { Skews { s: [0; 6], n: 0 } }
#[allow(dead_code)]
impl Skews {
    /// one `align_to` call on a slice that starts `sk` bytes past an 8-byte aligned address
    fn raw(mut self, sk: usize) -> Self { self.s[self.n] = sk % 8; self.n += 1; self }
    /// the `align_to` call of `UnalignedBitChunk::new(bytes, off, len)` (made only when the addressed
    /// byte range is longer than 16 bytes), `bytes` starting `sk` bytes past an 8-byte aligned address
    fn ubc(self, sk: usize, off: usize, len: usize) -> Self {
        if len > 0 && (len + off % 8 + 7) / 8 > 16 { self.raw(sk + off / 8) } else { self }
    }
    fn install(self) { unsafe { ALIGN_SKEWS = self.s; ALIGN_CALLS = 0; } }
}
#[allow(dead_code)]
unsafe fn stub_align_offset<T>(p: *const T, a: usize) -> usize {
    assert!(std::mem::size_of::<T>() == 1 && a == 8);
    let k = unsafe { ALIGN_CALLS };
    assert!(k < 6);
    unsafe { ALIGN_CALLS = k + 1 };
    let skew = unsafe { ALIGN_SKEWS[k] } % a;
    assert!((p as usize) % a == skew);
    (a - skew) % a
}
macro_rules! inst {
    ($name:ident, $unwind:expr, $call:expr) => {
        #[kani::proof]
        #[kani::unwind($unwind)]
        #[kani::stub(core::ptr::align_offset, stub_align_offset)]
        fn $name() { $call }
    };
}

fn mk(a: &[u8], sk: usize) -> Buffer { Buffer::from_slice_ref(a).slice(sk) }

/// one of the 16 uniform bitwise binary operations, selected by its truth table t[2a+b]
fn tt2(t: [bool; 4]) -> impl Fn(u64, u64) -> u64 {
    let (t0, t1, t2, t3) = (mask(t[0]), mask(t[1]), mask(t[2]), mask(t[3]));
    move |a, b| (t0 & !a & !b) | (t1 & !a & b) | (t2 & a & !b) | (t3 & a & b)
}

fn bin_helper_grid<const OL: usize, const OR: usize, const LEN: usize, const NL: usize, const NR: usize>() {
    let a: [u8; NL] = any_bytes();
    let b: [u8; NR] = any_bytes();
    let t: [bool; 4] = [kani::any(), kani::any(), kani::any(), kani::any()];
    let (ba, bb) = (mk(&a, 0), mk(&b, 0));
    let z = bitwise_bin_op_helper(&ba, OL, &bb, OR, LEN, tt2(t));
    assert!(z.len() == (LEN + 7) / 8);
    let (mut c1, mut c2) = (LEN == 0, LEN == 0);
    if LEN > 0 {
        let i: usize = kani::any();
        kani::assume(i < LEN);
        let (x, y) = (bit(&a, OL + i), bit(&b, OR + i));
        assert!(bit(z.as_slice(), i) == t[2 * (x as usize) + (y as usize)]);
        c1 = bit(z.as_slice(), i) && x && !y;
        c2 = !bit(z.as_slice(), i) && y;
    }
    kani::cover!(c1);
    kani::cover!(c2);
}
// Contract (C19) bitwise_bin_op_helper(l, ol, r, or, len, op) for each of the 16 uniform bitwise binary
// operations (symbolic truth table t): returns a zero-offset bitmap of exactly ceil(len/8) bytes
// whose bit i is t[l-bit ol+i][r-bit or+i] for every i < len; inputs fully symbolic (bits outside the
// addressed ranges included, so they are not read as data).
// @unit name=ops_bin_helper_3_5_12 props=C19 kind=bounded bound=grid_(ol,or,len,bytes_l,bytes_r)=(3,5,12,3,3) fns=bitwise_bin_op_helper timeout=240
inst!(ops_bin_helper_3_5_12, 12, bin_helper_grid::<3, 5, 12, 3, 3>());
// @unit name=ops_bin_helper_0_0_64 props=C19 kind=bounded bound=grid_(ol,or,len,bytes_l,bytes_r)=(0,0,64,9,8) fns=bitwise_bin_op_helper timeout=240
inst!(ops_bin_helper_0_0_64, 12, bin_helper_grid::<0, 0, 64, 9, 8>());
// @unit name=ops_bin_helper_0_9_65 props=C19 kind=bounded bound=grid_(ol,or,len,bytes_l,bytes_r)=(0,9,65,10,10) fns=bitwise_bin_op_helper timeout=240
inst!(ops_bin_helper_0_9_65, 12, bin_helper_grid::<0, 9, 65, 10, 10>());
// @unit name=ops_bin_helper_3_3_70 props=C19 kind=bounded bound=grid_(ol,or,len,bytes_l,bytes_r)=(3,3,70,11,10) fns=bitwise_bin_op_helper tier=thorough timeout=240
inst!(ops_bin_helper_3_3_70, 12, bin_helper_grid::<3, 3, 70, 11, 10>());
// @unit name=ops_bin_helper_0_0_0 props=C19 kind=bounded bound=grid_(ol,or,len,bytes_l,bytes_r)=(0,0,0,2,1) fns=bitwise_bin_op_helper tier=thorough timeout=240
inst!(ops_bin_helper_0_0_0, 12, bin_helper_grid::<0, 0, 0, 2, 1>());
// @unit name=ops_bin_helper_7_1_1 props=C19 kind=bounded bound=grid_(ol,or,len,bytes_l,bytes_r)=(7,1,1,2,1) fns=bitwise_bin_op_helper tier=thorough timeout=240
inst!(ops_bin_helper_7_1_1, 12, bin_helper_grid::<7, 1, 1, 2, 1>());
// @unit name=ops_bin_helper_63_64_65 props=C19 kind=bounded bound=grid_(ol,or,len,bytes_l,bytes_r)=(63,64,65,17,17) fns=bitwise_bin_op_helper tier=thorough timeout=240
inst!(ops_bin_helper_63_64_65, 12, bin_helper_grid::<63, 64, 65, 17, 17>());
// @unit name=ops_bin_helper_1_65_127 props=C19 kind=bounded bound=grid_(ol,or,len,bytes_l,bytes_r)=(1,65,127,17,24) fns=bitwise_bin_op_helper tier=thorough timeout=240
inst!(ops_bin_helper_1_65_127, 12, bin_helper_grid::<1, 65, 127, 17, 24>());
// @unit name=ops_bin_helper_130_2_200 props=C19 kind=bounded bound=grid_(ol,or,len,bytes_l,bytes_r)=(130,2,200,43,26) fns=bitwise_bin_op_helper tier=thorough timeout=240
inst!(ops_bin_helper_130_2_200, 12, bin_helper_grid::<130, 2, 200, 43, 26>());
// @unit name=ops_bin_helper_8_16_128 props=C19 kind=bounded bound=grid_(ol,or,len,bytes_l,bytes_r)=(8,16,128,18,18) fns=bitwise_bin_op_helper tier=thorough timeout=240
inst!(ops_bin_helper_8_16_128, 12, bin_helper_grid::<8, 16, 128, 18, 18>());
// @unit name=ops_bin_helper_129_127_129 props=C19 kind=bounded bound=grid_(ol,or,len,bytes_l,bytes_r)=(129,127,129,34,32) fns=bitwise_bin_op_helper tier=thorough timeout=240
inst!(ops_bin_helper_129_127_129, 12, bin_helper_grid::<129, 127, 129, 34, 32>());
// @unit name=ops_bin_helper_5_5_63 props=C19 kind=bounded bound=grid_(ol,or,len,bytes_l,bytes_r)=(5,5,63,10,9) fns=bitwise_bin_op_helper tier=thorough timeout=240
inst!(ops_bin_helper_5_5_63, 12, bin_helper_grid::<5, 5, 63, 10, 9>());

fn unary_helper_grid<const OFF: usize, const LEN: usize, const N: usize>() {
    let a: [u8; N] = any_bytes();
    let t: [bool; 2] = [kani::any(), kani::any()];
    let ba = mk(&a, 0);
    set_skews([0; 6]);
    let (m0, m1) = (mask(t[0]), mask(t[1]));
    let z = bitwise_unary_op_helper(&ba, OFF, LEN, |x| (m0 & !x) | (m1 & x));
    assert!(z.len() == (LEN + 7) / 8);
    let (mut c1, mut c2) = (LEN == 0, LEN == 0);
    if LEN > 0 {
        let i: usize = kani::any();
        kani::assume(i < LEN);
        assert!(bit(z.as_slice(), i) == t[bit(&a, OFF + i) as usize]);
        c1 = bit(z.as_slice(), i) && !t[0];
        c2 = !bit(z.as_slice(), i) && t[0];
    }
    kani::cover!(c1);
    kani::cover!(c2);
}
// Contract (C19) bitwise_unary_op_helper(src, offset, len, op) for each of the 4 uniform bitwise unary
// operations: zero-offset bitmap of exactly ceil(len/8) bytes, bit i = t[src-bit offset+i], i < len.
// @unit name=ops_unary_helper_3_12 props=C19 kind=bounded bound=grid_(offset,len,bytes)=(3,12,3) fns=bitwise_unary_op_helper timeout=240
inst!(ops_unary_helper_3_12, 12, unary_helper_grid::<3, 12, 3>());
// @unit name=ops_unary_helper_0_64 props=C19 kind=bounded bound=grid_(offset,len,bytes)=(0,64,8) fns=bitwise_unary_op_helper timeout=240
inst!(ops_unary_helper_0_64, 12, unary_helper_grid::<0, 64, 8>());
// @unit name=ops_unary_helper_5_65 props=C19 kind=bounded bound=grid_(offset,len,bytes)=(5,65,10) fns=bitwise_unary_op_helper timeout=240
inst!(ops_unary_helper_5_65, 12, unary_helper_grid::<5, 65, 10>());
// @unit name=ops_unary_helper_0_0 props=C19 kind=bounded bound=grid_(offset,len,bytes)=(0,0,1) fns=bitwise_unary_op_helper tier=thorough timeout=240
inst!(ops_unary_helper_0_0, 12, unary_helper_grid::<0, 0, 1>());
// @unit name=ops_unary_helper_63_2 props=C19 kind=bounded bound=grid_(offset,len,bytes)=(63,2,10) fns=bitwise_unary_op_helper tier=thorough timeout=240
inst!(ops_unary_helper_63_2, 12, unary_helper_grid::<63, 2, 10>());
// @unit name=ops_unary_helper_64_128 props=C19 kind=bounded bound=grid_(offset,len,bytes)=(64,128,24) fns=bitwise_unary_op_helper tier=thorough timeout=240
inst!(ops_unary_helper_64_128, 12, unary_helper_grid::<64, 128, 24>());
// @unit name=ops_unary_helper_1_127 props=C19 kind=bounded bound=grid_(offset,len,bytes)=(1,127,17) fns=bitwise_unary_op_helper tier=thorough timeout=240
inst!(ops_unary_helper_1_127, 12, unary_helper_grid::<1, 127, 17>());
// @unit name=ops_unary_helper_130_200 props=C19 kind=bounded bound=grid_(offset,len,bytes)=(130,200,42) fns=bitwise_unary_op_helper tier=thorough timeout=240
inst!(ops_unary_helper_130_200, 12, unary_helper_grid::<130, 200, 42>());
// @unit name=ops_unary_helper_9_129 props=C19 kind=bounded bound=grid_(offset,len,bytes)=(9,129,19) fns=bitwise_unary_op_helper tier=thorough timeout=240
inst!(ops_unary_helper_9_129, 12, unary_helper_grid::<9, 129, 19>());
// @unit name=ops_unary_helper_7_63 props=C19 kind=bounded bound=grid_(offset,len,bytes)=(7,63,10) fns=bitwise_unary_op_helper tier=thorough timeout=240
inst!(ops_unary_helper_7_63, 12, unary_helper_grid::<7, 63, 10>());

fn quat_helper_grid<const O0: usize, const O1: usize, const O2: usize, const O3: usize, const LEN: usize, const N: usize>() {
    let a: [u8; N] = any_bytes();
    let b: [u8; N] = any_bytes();
    let c: [u8; N] = any_bytes();
    let d: [u8; N] = any_bytes();
    // truth table of a uniform 4-input bitwise operation, as 16 masks
    let tb: u16 = kani::any();
    let m = |k: u32| mask((tb >> k) & 1 == 1);
    let ms: [u64; 16] = [m(0), m(1), m(2), m(3), m(4), m(5), m(6), m(7), m(8), m(9), m(10), m(11), m(12), m(13), m(14), m(15)];
    let op = |w: u64, x: u64, y: u64, z: u64| -> u64 {
        let mut r = 0u64;
        let mut k = 0;
        while k < 16 {
            let sel = (if k & 8 != 0 { w } else { !w }) & (if k & 4 != 0 { x } else { !x })
                & (if k & 2 != 0 { y } else { !y }) & (if k & 1 != 0 { z } else { !z });
            r |= sel & ms[k];
            k += 1;
        }
        r
    };
    let (ba, bb, bc, bd) = (mk(&a, 0), mk(&b, 0), mk(&c, 0), mk(&d, 0));
    let z = bitwise_quaternary_op_helper([&ba, &bb, &bc, &bd], [O0, O1, O2, O3], LEN, op);
    assert!(z.len() == (LEN + 7) / 8);
    let (mut c1, mut c2) = (LEN == 0, LEN == 0);
    if LEN > 0 {
        let i: usize = kani::any();
        kani::assume(i < LEN);
        let k = 8 * (bit(&a, O0 + i) as u32) + 4 * (bit(&b, O1 + i) as u32) + 2 * (bit(&c, O2 + i) as u32) + (bit(&d, O3 + i) as u32);
        assert!(bit(z.as_slice(), i) == ((tb >> k) & 1 == 1));
        c1 = bit(z.as_slice(), i) && k == 5;
        c2 = !bit(z.as_slice(), i) && k == 10;
    }
    kani::cover!(c1);
    kani::cover!(c2);
}
// Contract (C19) bitwise_quaternary_op_helper(bufs, offsets, len, op) for each of the 65536 uniform
// bitwise 4-input operations (symbolic 16-entry truth table): zero-offset bitmap of exactly
// ceil(len/8) bytes, bit i = table[b0-bit o0+i, b1-bit o1+i, b2-bit o2+i, b3-bit o3+i], i < len.
// @unit name=ops_quat_helper_0_3_5_9_12 props=C19 kind=bounded bound=grid_(o0,o1,o2,o3,len,bytes)=(0,3,5,9,12,3) fns=bitwise_quaternary_op_helper timeout=400
inst!(ops_quat_helper_0_3_5_9_12, 20, quat_helper_grid::<0, 3, 5, 9, 12, 3>());
// @unit name=ops_quat_helper_0_0_0_0_64 props=C19 kind=bounded bound=grid_(o0,o1,o2,o3,len,bytes)=(0,0,0,0,64,8) fns=bitwise_quaternary_op_helper tier=thorough timeout=400
inst!(ops_quat_helper_0_0_0_0_64, 20, quat_helper_grid::<0, 0, 0, 0, 64, 8>());
// @unit name=ops_quat_helper_1_0_63_64_65 props=C19 kind=bounded bound=grid_(o0,o1,o2,o3,len,bytes)=(1,0,63,64,65,17) fns=bitwise_quaternary_op_helper timeout=400
inst!(ops_quat_helper_1_0_63_64_65, 20, quat_helper_grid::<1, 0, 63, 64, 65, 17>());
// @unit name=ops_quat_helper_7_8_9_130_130 props=C19 kind=bounded bound=grid_(o0,o1,o2,o3,len,bytes)=(7,8,9,130,130,33) fns=bitwise_quaternary_op_helper tier=thorough timeout=400
inst!(ops_quat_helper_7_8_9_130_130, 20, quat_helper_grid::<7, 8, 9, 130, 130, 33>());
// @unit name=ops_quat_helper_0_1_2_3_0 props=C19 kind=bounded bound=grid_(o0,o1,o2,o3,len,bytes)=(0,1,2,3,0,1) fns=bitwise_quaternary_op_helper tier=thorough timeout=400
inst!(ops_quat_helper_0_1_2_3_0, 20, quat_helper_grid::<0, 1, 2, 3, 0, 1>());
// @unit name=ops_quat_helper_64_65_1_2_127 props=C19 kind=bounded bound=grid_(o0,o1,o2,o3,len,bytes)=(64,65,1,2,127,24) fns=bitwise_quaternary_op_helper tier=thorough timeout=400
inst!(ops_quat_helper_64_65_1_2_127, 20, quat_helper_grid::<64, 65, 1, 2, 127, 24>());

fn buffer_bin_grid<const OP: u8, const OL: usize, const OR: usize, const LEN: usize, const NL: usize, const NR: usize, const SKL: usize, const SKR: usize>() {
    let a: [u8; NL] = any_bytes();
    let b: [u8; NR] = any_bytes();
    let (ba, bb) = (mk(&a, SKL), mk(&b, SKR));
    set_skews([SKL % 8, SKR % 8, SKL % 8, SKR % 8, 0, 0]);
    let z = match OP {
        0 => buffer_bin_and(&ba, OL, &bb, OR, LEN),
        1 => buffer_bin_or(&ba, OL, &bb, OR, LEN),
        2 => buffer_bin_xor(&ba, OL, &bb, OR, LEN),
        _ => buffer_bin_and_not(&ba, OL, &bb, OR, LEN),
    };
    assert!(8 * z.len() >= LEN);
    let i: usize = kani::any();
    kani::assume(i < LEN);
    let (p, q) = (bit(&a, 8 * SKL + OL + i), bit(&b, 8 * SKR + OR + i));
    assert!(bit(z.as_slice(), i) == match OP { 0 => p & q, 1 => p | q, 2 => p ^ q, _ => p & !q });
    kani::cover!(bit(z.as_slice(), i));
    kani::cover!(!bit(z.as_slice(), i));
}
// Contract (C19) buffer_bin_and / buffer_bin_or / buffer_bin_xor / buffer_bin_and_not
// (l, ol, r, or, len): the returned Buffer is a zero-offset bitmap of at least ceil(len/8) bytes whose
// bit i is l-bit(ol+i) op r-bit(or+i) for every i < len (OP 0/1/2/3 = and/or/xor/and_not); inputs
// fully symbolic. Path labels as for BooleanBuffer::from_bitwise_binary_op.
// @unit name=ops_buffer_bin_and_1_65_7_9_17_0_0 props=C19 kind=bounded bound=grid_(ol,or,len,bytes_l,bytes_r,skew_l,skew_r)=(1,65,7,9,17,0,0)_path=aligned_exact fns=buffer_bin_and timeout=300
inst!(ops_buffer_bin_and_1_65_7_9_17_0_0, 12, buffer_bin_grid::<0, 1, 65, 7, 9, 17, 0, 0>());
// @unit name=ops_buffer_bin_or_3_5_12_2_3_0_0 props=C19 kind=bounded bound=grid_(ol,or,len,bytes_l,bytes_r,skew_l,skew_r)=(3,5,12,2,3,0,0)_path=bitchunks fns=buffer_bin_or timeout=300
inst!(ops_buffer_bin_or_3_5_12_2_3_0_0, 12, buffer_bin_grid::<1, 3, 5, 12, 2, 3, 0, 0>());
// @unit name=ops_buffer_bin_xor_0_64_65_9_24_0_0 props=C19 kind=bounded bound=grid_(ol,or,len,bytes_l,bytes_r,skew_l,skew_r)=(0,64,65,9,24,0,0)_path=aligned_suffix fns=buffer_bin_xor tier=thorough timeout=300
inst!(ops_buffer_bin_xor_0_64_65_9_24_0_0, 12, buffer_bin_grid::<2, 0, 64, 65, 9, 24, 0, 0>());
// @unit name=ops_buffer_bin_and_not_3_67_70_10_18_0_0 props=C19 kind=bounded bound=grid_(ol,or,len,bytes_l,bytes_r,skew_l,skew_r)=(3,67,70,10,18,0,0)_path=aligned_suffix fns=buffer_bin_and_not timeout=300
inst!(ops_buffer_bin_and_not_3_67_70_10_18_0_0, 12, buffer_bin_grid::<3, 3, 67, 70, 10, 18, 0, 0>());
// @unit name=ops_buffer_bin_and_3_3_70_11_17_1_1 props=C19 kind=bounded bound=grid_(ol,or,len,bytes_l,bytes_r,skew_l,skew_r)=(3,3,70,11,17,1,1)_path=unaligned_chunks_rem fns=buffer_bin_and tier=thorough timeout=300
inst!(ops_buffer_bin_and_3_3_70_11_17_1_1, 12, buffer_bin_grid::<0, 3, 3, 70, 11, 17, 1, 1>());
// @unit name=ops_buffer_bin_or_8_72_20_4_12_0_0 props=C19 kind=bounded bound=grid_(ol,or,len,bytes_l,bytes_r,skew_l,skew_r)=(8,72,20,4,12,0,0)_path=aligned_suffix fns=buffer_bin_or tier=thorough timeout=300
inst!(ops_buffer_bin_or_8_72_20_4_12_0_0, 12, buffer_bin_grid::<1, 8, 72, 20, 4, 12, 0, 0>());
// @unit name=ops_buffer_bin_xor_0_9_65_9_10_0_0 props=C19 kind=bounded bound=grid_(ol,or,len,bytes_l,bytes_r,skew_l,skew_r)=(0,9,65,9,10,0,0)_path=bitchunks fns=buffer_bin_xor tier=thorough timeout=300
inst!(ops_buffer_bin_xor_0_9_65_9_10_0_0, 12, buffer_bin_grid::<2, 0, 9, 65, 9, 10, 0, 0>());
// @unit name=ops_buffer_bin_and_not_63_0_64_16_8_0_0 props=C19 kind=bounded bound=grid_(ol,or,len,bytes_l,bytes_r,skew_l,skew_r)=(63,0,64,16,8,0,0)_path=bitchunks fns=buffer_bin_and_not tier=thorough timeout=300
inst!(ops_buffer_bin_and_not_63_0_64_16_8_0_0, 12, buffer_bin_grid::<3, 63, 0, 64, 16, 8, 0, 0>());
// @unit name=ops_buffer_bin_and_130_2_200_42_26_0_0 props=C19 kind=bounded bound=grid_(ol,or,len,bytes_l,bytes_r,skew_l,skew_r)=(130,2,200,42,26,0,0)_path=aligned_suffix fns=buffer_bin_and tier=thorough timeout=300
inst!(ops_buffer_bin_and_130_2_200_42_26_0_0, 12, buffer_bin_grid::<0, 130, 2, 200, 42, 26, 0, 0>());
// @unit name=ops_buffer_bin_or_65_1_130_25_17_0_0 props=C19 kind=bounded bound=grid_(ol,or,len,bytes_l,bytes_r,skew_l,skew_r)=(65,1,130,25,17,0,0)_path=aligned_suffix fns=buffer_bin_or tier=thorough timeout=300
inst!(ops_buffer_bin_or_65_1_130_25_17_0_0, 12, buffer_bin_grid::<1, 65, 1, 130, 25, 17, 0, 0>());

fn buffer_not_grid<const OFF: usize, const LEN: usize, const N: usize, const SK: usize>() {
    let a: [u8; N] = any_bytes();
    let ba = mk(&a, SK);
    set_skews([SK % 8; 6]);
    let z = buffer_unary_not(&ba, OFF, LEN);
    assert!(8 * z.len() >= LEN);
    let i: usize = kani::any();
    kani::assume(i < LEN);
    assert!(bit(z.as_slice(), i) == !bit(&a, 8 * SK + OFF + i));
    kani::cover!(bit(z.as_slice(), i));
    kani::cover!(!bit(z.as_slice(), i));
}
// Contract (C19) buffer_unary_not(src, offset, len): "Apply a bitwise not to one input and return the
// result as a Buffer. The input is treated as a bitmap [...] offset and length are specified in
// number of bits": the returned Buffer is a zero-offset bitmap (like the result of every other
// function of this module) of at least ceil(len/8) bytes whose bit i is the negation of src-bit
// offset+i, for every i < len.
// @unit name=ops_buffer_not_0_64_8_0 props=C19 kind=bounded bound=grid_(offset,len,bytes,ptr_skew)=(0,64,8,0) fns=buffer_unary_not timeout=240
inst!(ops_buffer_not_0_64_8_0, 12, buffer_not_grid::<0, 64, 8, 0>());
// @unit name=ops_buffer_not_0_70_9_0 props=C19 kind=bounded bound=grid_(offset,len,bytes,ptr_skew)=(0,70,9,0) fns=buffer_unary_not tier=thorough timeout=240
inst!(ops_buffer_not_0_70_9_0, 12, buffer_not_grid::<0, 70, 9, 0>());
// @unit name=ops_buffer_not_64_65_17_0 props=C19 kind=bounded bound=grid_(offset,len,bytes,ptr_skew)=(64,65,17,0) fns=buffer_unary_not tier=thorough timeout=240
inst!(ops_buffer_not_64_65_17_0, 12, buffer_not_grid::<64, 65, 17, 0>());
// @unit name=ops_buffer_not_128_10_19_1 props=C19 kind=bounded bound=grid_(offset,len,bytes,ptr_skew)=(128,10,19,1) fns=buffer_unary_not tier=thorough timeout=240
inst!(ops_buffer_not_128_10_19_1, 12, buffer_not_grid::<128, 10, 19, 1>());
// @unit name=ops_buffer_not_3_12_2_0 props=C19 kind=bounded bound=grid_(offset,len,bytes,ptr_skew)=(3,12,2,0) fns=buffer_unary_not timeout=240 note=passes_only_with_fix_efa269e_of_F5
inst!(ops_buffer_not_3_12_2_0, 12, buffer_not_grid::<3, 12, 2, 0>());
// @unit name=ops_buffer_not_65_63_16_0 props=C19 kind=bounded bound=grid_(offset,len,bytes,ptr_skew)=(65,63,16,0) fns=buffer_unary_not tier=thorough timeout=240 note=passes_only_with_fix_efa269e_of_F5
inst!(ops_buffer_not_65_63_16_0, 12, buffer_not_grid::<65, 63, 16, 0>());
