// Kani contract harnesses for /repo/arrow-buffer/src/buffer/immutable.rs (child module: sees private items via super::)
