// Kani contract harnesses for /repo/arrow-buffer/src/buffer/immutable.rs (child module: sees private items via super::)
//
// C16 (sequential half): no harness in this file calls mem::forget; every Buffer / MutableBuffer / Vec
// is dropped normally so that CBMC's use-after-free, double-free, invalid-free and out-of-bounds
// checks are part of each obligation.
use super::*;
use std::sync::atomic::{AtomicUsize, Ordering};

/// handle-count model of sharing: the harness knows how many `Buffer` handles onto the same
/// allocation it created and has not yet dropped.
fn live(hs: &[&Option<Buffer>]) -> usize {
    let mut n = 0;
    for h in hs {
        if h.is_some() {
            n += 1;
        }
    }
    n
}

/// `view` shows exactly `data[off..off+len]` (length compared exactly, contents at one
/// nondeterministically chosen position, i.e. at every position)
fn same(view: &[u8], data: &[u8], off: usize, len: usize) -> bool {
    if view.len() != len {
        return false;
    }
    let i: usize = kani::any();
    if i < len { view[i] == data[off + i] } else { true }
}

// Contract (C16): `Buffer::into_mutable` on a buffer over a standard (Rust allocator) region returns
// Ok  <=>  no other Buffer handle shares the region  /\  the buffer's pointer offset into the region is 0.
// Ok(m): m holds exactly the bytes the buffer showed (same length) and is writable/growable; writing
//        through it is unobservable to anybody else because nobody else exists.
// Err(b): b is the very same view (same bytes, same length, same pointer offset), nothing was copied
//        or freed. Every surviving clone/slice reads the original bytes afterwards, whatever happened.
// All handles are dropped in a symbolic order; CBMC checks that the region is freed exactly once.
// History: create (from_vec | from_slice_ref) ; optional clone ; operand = itself | slice(off) |
// slice_with_length(0, l) with the parent kept or dropped ; into_mutable ; write + push through Ok ;
// read through survivors ; drops in symbolic order.
fn into_mutable_history<const VIA_VEC: bool>() {
    const N: usize = 8;
    let data: [u8; N] = kani::any();
    let via_vec = VIA_VEC;
    let b = if via_vec { Buffer::from_vec(data.to_vec()) } else { Buffer::from_slice_ref(data) };
    // optional extra sharer
    let share: bool = kani::any();
    let mut keep: Option<Buffer> = if share { Some(b.clone()) } else { None };
    // operand selection
    let off: usize = kani::any();
    let len: usize = kani::any();
    kani::assume(off <= N && len <= N - off);
    let mode: u8 = kani::any();
    kani::assume(mode < 3);
    let keep_parent: bool = kani::any();
    let (operand, mut parent): (Buffer, Option<Buffer>) = match mode {
        0 => {
            kani::assume(off == 0 && len == N);
            (b, None)
        }
        1 => {
            kani::assume(len == N - off);
            let s = b.slice(off);
            if keep_parent { (s, Some(b)) } else { drop(b); (s, None) }
        }
        _ => {
            let s = b.slice_with_length(off, len);
            if keep_parent { (s, Some(b)) } else { drop(b); (s, None) }
        }
    };
    let others = live(&[&keep, &parent]);
    assert!(operand.strong_count() == others + 1); // the model agrees with the reference count
    assert!(operand.ptr_offset() == off && operand.len() == len);
    let expect_ok = others == 0 && off == 0;

    let w: u8 = kani::any();
    let wi: usize = kani::any();
    match operand.into_mutable() {
        Ok(mut m) => {
            assert!(expect_ok);
            assert!(m.len() == len && m.capacity() >= len);
            assert!(same(m.as_slice(), &data, 0, len));
            // mutate uniquely owned memory: overwrite one byte, append one byte (may reallocate)
            if len > 0 {
                kani::assume(wi < len);
                m.as_slice_mut()[wi] = w;
            }
            m.push(w);
            assert!(m.len() == len + 1 && m.as_slice()[len] == w);
            if len > 0 {
                assert!(m.as_slice()[wi] == w);
            }
            kani::cover!(len == N);
            kani::cover!(len < N);
            let back: bool = kani::any();
            if back {
                let b2: Buffer = m.into();
                assert!(b2.len() == len + 1 && b2.as_slice()[len] == w);
            }
        }
        Err(orig) => {
            assert!(!expect_ok);
            assert!(orig.len() == len && orig.ptr_offset() == off);
            assert!(same(orig.as_slice(), &data, off, len));
            assert!(orig.strong_count() == others + 1);
            kani::cover!(others == 0 && off > 0); // declined only because of the offset
            kani::cover!(others > 0 && off == 0); // declined only because shared
            // drop order: returned buffer first or last
            if kani::any() {
                drop(orig);
            } else {
                let k = keep.take();
                if let Some(k) = &k {
                    assert!(same(k.as_slice(), &data, 0, N));
                }
                drop(k);
                let p = parent.take();
                drop(p);
                assert!(same(orig.as_slice(), &data, off, len));
                drop(orig);
            }
        }
    }
    // survivors still read the original bytes
    if let Some(k) = &keep {
        assert!(same(k.as_slice(), &data, 0, N) && k.ptr_offset() == 0);
    }
    if let Some(p) = &parent {
        assert!(same(p.as_slice(), &data, 0, N));
    }
    if kani::any() {
        drop(keep);
        drop(parent);
    } else {
        drop(parent);
        drop(keep);
    }
}

// @unit name=into_mutable_history_vec props=C16 kind=bounded bound=8_bytes_history<=6_ops fns=Buffer::into_mutable,MutableBuffer::from_bytes,Buffer::from_vec,Buffer::slice,Buffer::slice_with_length,Buffer::clone,Bytes::drop tier=quick mem=3 timeout=300
#[kani::proof]
#[kani::unwind(10)]
fn into_mutable_history_vec() {
    into_mutable_history::<true>()
}
// @unit name=into_mutable_history_slice props=C16 kind=bounded bound=8_bytes_history<=6_ops fns=Buffer::into_mutable,MutableBuffer::from_bytes,Buffer::from_slice_ref,Buffer::slice,Buffer::slice_with_length,Buffer::clone,Bytes::drop tier=quick mem=3 timeout=300
#[kani::proof]
#[kani::unwind(10)]
fn into_mutable_history_slice() {
    into_mutable_history::<false>()
}

/// raw bytes of a slice of plain-old-data values (spec side: native layout of `[S]`)
fn bytes_of<S>(s: &[S]) -> &[u8] {
    unsafe { std::slice::from_raw_parts(s.as_ptr() as *const u8, std::mem::size_of_val(s)) }
}

// Contract (C16): `Buffer::into_vec::<T>` on a buffer whose region was allocated for a `Vec<S>` of
// capacity CAP returns Ok <=> no other handle shares the region /\ pointer offset 0 /\ the region's
// layout is exactly the layout of a `Vec<T>` (align_of T = align_of S and CAP*size_of S divisible
// by size_of T). Ok(v): v.len() = visible bytes / size_of T, v.capacity()*size_of T = region size,
// v's bytes are the buffer's bytes, v may be written, grown and dropped (freed once, with a layout
// the allocator accepts). Err(b): b is the same view; survivors read the original bytes.
fn into_vec_history<S, T, const LEN: usize, const CAP: usize>()
where
    S: ArrowNativeType + kani::Arbitrary,
    T: ArrowNativeType,
{
    let ssz = std::mem::size_of::<S>();
    let tsz = std::mem::size_of::<T>();
    let data: [S; LEN] = kani::any();
    let mut v: Vec<S> = Vec::with_capacity(CAP);
    v.extend_from_slice(&data);
    let region = v.capacity() * ssz;
    let raw = bytes_of(&data);
    let n = LEN * ssz;
    let b = Buffer::from_vec(v);
    assert!(b.len() == n && b.capacity() == region && b.ptr_offset() == 0);
    let share: bool = kani::any();
    let keep: Option<Buffer> = if share { Some(b.clone()) } else { None };
    let off: usize = kani::any();
    let len: usize = kani::any();
    kani::assume(off <= n && len <= n - off);
    let keep_parent: bool = kani::any();
    let (operand, parent) = if kani::any() {
        kani::assume(off == 0 && len == n);
        (b, None)
    } else {
        let s = b.slice_with_length(off, len);
        if keep_parent { (s, Some(b)) } else { drop(b); (s, None) }
    };
    let others = live(&[&keep, &parent]);
    let layout_ok = std::mem::align_of::<S>() == std::mem::align_of::<T>() && region % tsz == 0;
    let expect_ok = others == 0 && off == 0 && layout_ok;
    match operand.into_vec::<T>() {
        Ok(mut out) => {
            assert!(expect_ok);
            assert!(out.len() == len / tsz);
            assert!(out.capacity() * tsz == region);
            assert!(same(bytes_of(&out), raw, 0, (len / tsz) * tsz));
            // uniquely owned: write, grow (reallocates with the Vec's layout), drop
            out.push(T::usize_as(7));
            assert!(out.len() == len / tsz + 1);
            out[0] = T::usize_as(9);
        }
        Err(orig) => {
            assert!(!expect_ok);
            assert!(orig.ptr_offset() == off && orig.strong_count() == others + 1);
            assert!(same(orig.as_slice(), raw, off, len));
            if kani::any() {
                drop(orig);
            }
        }
    }
    if let Some(k) = &keep {
        assert!(same(k.as_slice(), raw, 0, n));
    }
    if let Some(p) = &parent {
        assert!(same(p.as_slice(), raw, 0, n));
    }
    // reached on the Ok path iff the layouts agree, otherwise on the "declined for layout only" path
    kani::cover!(others == 0 && off == 0 && len == n);
    kani::cover!(others == 0 && off == 0 && len < n);
    kani::cover!(others > 0 && off == 0); // declined: shared
    kani::cover!(others == 0 && off > 0); // declined: offset
    if kani::any() {
        drop(keep);
        drop(parent);
    }
}

macro_rules! into_vec_unit {
    ($name:ident, $s:ty, $t:ty, $len:expr, $cap:expr) => {
        #[kani::proof]
        #[kani::unwind(10)]
        fn $name() {
            into_vec_history::<$s, $t, $len, $cap>()
        }
    };
}
// @unit name=into_vec_u8_u8 props=C16 kind=bounded bound=Vec<u8>_len6_cap8_history<=5_ops fns=Buffer::into_vec,Buffer::from_vec,MutableBuffer::from tier=quick mem=3 timeout=300
into_vec_unit!(into_vec_u8_u8, u8, u8, 6, 8);
// @unit name=into_vec_i32_i32 props=C16 kind=bounded bound=Vec<i32>_len2_cap3_history<=5_ops fns=Buffer::into_vec,Buffer::from_vec,MutableBuffer::from tier=quick mem=3 timeout=300
into_vec_unit!(into_vec_i32_i32, i32, i32, 2, 3);
// @unit name=into_vec_i32_u32 props=C16 kind=bounded bound=Vec<i32>_len2_cap2_history<=5_ops fns=Buffer::into_vec,Buffer::from_vec tier=quick mem=3 timeout=300
into_vec_unit!(into_vec_i32_u32, i32, u32, 2, 2);
// @unit name=into_vec_i32_i64 props=C16 kind=bounded bound=Vec<i32>_len2_cap2_history<=5_ops fns=Buffer::into_vec,Buffer::from_vec tier=quick mem=3 timeout=300
into_vec_unit!(into_vec_i32_i64, i32, i64, 2, 2);
// @unit name=into_vec_i64_i32 props=C16 kind=bounded bound=Vec<i64>_len1_cap1_history<=5_ops fns=Buffer::into_vec,Buffer::from_vec tier=quick mem=3 timeout=300
into_vec_unit!(into_vec_i64_i32, i64, i32, 1, 1);
// size-divisibility condition: IntervalDayTime has align 4, size 8
// @unit name=into_vec_i32_daytime_cap3 props=C16 kind=bounded bound=Vec<i32>_len2_cap3_history<=5_ops fns=Buffer::into_vec,Buffer::from_vec tier=quick mem=3 timeout=300
into_vec_unit!(into_vec_i32_daytime_cap3, i32, crate::IntervalDayTime, 2, 3);
// @unit name=into_vec_i32_daytime_cap4 props=C16 kind=bounded bound=Vec<i32>_len2_cap4_history<=5_ops fns=Buffer::into_vec,Buffer::from_vec tier=quick mem=3 timeout=300
into_vec_unit!(into_vec_i32_daytime_cap4, i32, crate::IntervalDayTime, 2, 4);

// Contract (C16): a buffer built by `MutableBuffer` (from_slice_ref: 128-byte aligned region on
// x86_64) never converts into a `Vec<u8>`/`Vec<i32>` (layout mismatch: the Vec would free it with
// the wrong alignment) — into_vec declines and gives the same view back, even when unique.
// @unit name=into_vec_from_slice_ref_declines props=C16 kind=bounded bound=8_bytes fns=Buffer::into_vec,Buffer::from_slice_ref tier=quick mem=2 timeout=200
#[kani::proof]
#[kani::unwind(10)]
fn into_vec_from_slice_ref_declines() {
    let data: [u8; 8] = kani::any();
    let b = Buffer::from_slice_ref(data);
    let r = if kani::any() {
        b.into_vec::<u8>().map(|_| ())
    } else {
        b.into_vec::<i32>().map(|_| ())
    };
    match r {
        Ok(()) => assert!(false),
        Err(orig) => {
            assert!(same(orig.as_slice(), &data, 0, 8) && orig.ptr_offset() == 0);
            kani::cover!(true);
        }
    }
}

// Contract (C16/C01): read-only views. For a buffer over 8 symbolic bytes and every in-range
// (offset, length): `slice_with_length` and `slice` show exactly the addressed sub-range of the
// original bytes, report len / is_empty / ptr_offset / as_ptr accordingly, never change what the
// parent shows (frame) and do not copy (same region: strong_count grows, data_ptr equal); the views
// stay readable after the parent is dropped. In-range calls never panic (not a may-reject harness).
// @unit name=buffer_slice_views props=C16,C01 kind=bounded bound=8_bytes fns=Buffer::from_slice_ref,Buffer::slice,Buffer::slice_with_length,Buffer::as_slice,Buffer::len,Buffer::is_empty,Buffer::ptr_offset,Buffer::as_ptr,Buffer::data_ptr,Buffer::strong_count,Buffer::capacity,Buffer::deref tier=quick mem=3 timeout=300
#[kani::proof]
#[kani::unwind(10)]
fn buffer_slice_views() {
    const N: usize = 8;
    let data: [u8; N] = kani::any();
    let b = Buffer::from_slice_ref(data);
    assert!(b.len() == N && !b.is_empty() && b.ptr_offset() == 0 && b.strong_count() == 1);
    assert!(b.capacity() == 64); // MutableBuffer rounds 8 up to 64
    assert!(same(b.as_slice(), &data, 0, N) && same(&b, &data, 0, N) && same(b.as_ref(), &data, 0, N));
    let (o1, l1): (usize, usize) = (kani::any(), kani::any());
    kani::assume(o1 <= N && l1 <= N - o1);
    let s = b.slice_with_length(o1, l1);
    assert!(s.len() == l1 && s.is_empty() == (l1 == 0) && s.ptr_offset() == o1);
    assert!(same(s.as_slice(), &data, o1, l1));
    assert!(s.data_ptr() == b.data_ptr() && b.strong_count() == 2);
    assert!(s.as_ptr() == unsafe { b.as_ptr().add(o1) });
    let o2: usize = kani::any();
    kani::assume(o2 <= l1);
    let t = s.slice(o2);
    assert!(t.len() == l1 - o2 && t.ptr_offset() == o1 + o2 && same(t.as_slice(), &data, o1 + o2, l1 - o2));
    // frame: nothing else moved
    assert!(same(s.as_slice(), &data, o1, l1) && same(b.as_slice(), &data, 0, N) && b.strong_count() == 3);
    kani::cover!(l1 == 0);
    kani::cover!(o1 > 0 && o2 > 0 && l1 - o2 > 0);
    if kani::any() {
        drop(b);
        drop(s);
        assert!(same(t.as_slice(), &data, o1 + o2, l1 - o2) && t.strong_count() == 1);
    }
}

// Contract (C16/C02): `clone` is a second handle on the same bytes; `advance(o)` on the clone moves
// only the clone; `ptr_eq` <=> same pointer and length; `==` <=> same byte sequence, wherever the two
// views sit in the region.
// @unit name=buffer_clone_advance_eq props=C16,C02 kind=bounded bound=8_bytes fns=Buffer::clone,Buffer::advance,Buffer::ptr_eq,Buffer::eq tier=quick mem=3 timeout=300
#[kani::proof]
#[kani::unwind(10)]
fn buffer_clone_advance_eq() {
    const N: usize = 8;
    let data: [u8; N] = kani::any();
    let b = Buffer::from_vec(data.to_vec());
    let mut u = b.clone();
    assert!(u.ptr_eq(&b) && u == b && b.strong_count() == 2);
    let o3: usize = kani::any();
    kani::assume(o3 <= N);
    u.advance(o3);
    assert!(u.len() == N - o3 && u.ptr_offset() == o3 && same(u.as_slice(), &data, o3, N - o3));
    assert!(u.ptr_eq(&b) == (o3 == 0));
    assert!(same(b.as_slice(), &data, 0, N) && b.ptr_offset() == 0);
    // content equality is independent of the position in the region (2-byte windows)
    let (p, q): (usize, usize) = (kani::any(), kani::any());
    kani::assume(p < N - 1 && q < N - 1);
    let (x, y) = (b.slice_with_length(p, 2), b.slice_with_length(q, 2));
    assert!((x == y) == (data[p] == data[q] && data[p + 1] == data[q + 1]));
    assert!((x.ptr_eq(&y)) == (p == q));
    assert!(!(x == b.slice_with_length(p, 1))); // different lengths are never equal
    kani::cover!(o3 == N);
    kani::cover!(p != q && x == y);
    if kani::any() {
        drop(b);
        assert!(same(u.as_slice(), &data, o3, N - o3));
    }
}

// Contract (C01/C09): `slice`, `slice_with_length`, `advance` and byte-aligned `bit_slice` called
// with ARBITRARY usize arguments (including values whose sum overflows) either panic (= reject) or
// return a view that lies inside the parent: returning implies offset + length <= parent length
// (computed without wrap-around), and the view shows the addressed bytes.
// @unit name=buffer_slice_rejects props=C01,C09 kind=bounded bound=8_bytes fns=Buffer::slice,Buffer::slice_with_length,Buffer::advance,Buffer::bit_slice mayreject=1 tier=quick mem=3 timeout=300
#[kani::proof]
#[kani::unwind(10)]
fn buffer_slice_rejects() {
    const N: usize = 8;
    let data: [u8; N] = kani::any();
    let b = Buffer::from_slice_ref(data);
    let (o, l): (usize, usize) = (kani::any(), kani::any());
    let which: u8 = kani::any();
    match which {
        0 => {
            let s = b.slice(o);
            assert!(o <= N && same(s.as_slice(), &data, o, N - o));
            kani::cover!(o == N);
        }
        1 => {
            let s = b.slice_with_length(o, l);
            assert!(o as u128 + l as u128 <= N as u128);
            assert!(same(s.as_slice(), &data, o, l));
            kani::cover!(o + l == N && l > 0);
        }
        2 => {
            let mut s = b.clone();
            s.advance(o);
            assert!(o <= N && same(s.as_slice(), &data, o, N - o));
            kani::cover!(o == 1);
        }
        _ => {
            // byte-aligned bit offset 8 (concrete: the unaligned path allocates, see the grid units), bit length l
            let s = b.bit_slice(8, l);
            assert!(l <= 8 * (N - 1));
            let nbytes = l / 8 + (l % 8 != 0) as usize;
            assert!(same(s.as_slice(), &data, 1, nbytes));
            kani::cover!(l % 8 == 3);
            kani::cover!(l == 56);
        }
    }
}

// Contract (C01): `typed_data::<T>` on a byte window [off, off+len) of a region allocated for
// `[T; 3]` returns (does not panic) exactly when the window is empty, or T-aligned and a whole number
// of T, and then yields exactly the addressed elements, in native byte order.
//   typed_data_rejects_*: arbitrary in-range window, may-reject reading: returns => aligned /\ whole /\ elements.
//   typed_data_accepts_*: aligned whole windows never panic and read the elements (not may-reject).
fn typed_data_window<T: ArrowNativeType + kani::Arbitrary + PartialEq, const ALIGNED_ONLY: bool>() {
    let sz = std::mem::size_of::<T>();
    let data: [T; 3] = kani::any();
    let b = Buffer::from_vec(data.to_vec());
    let (off, len): (usize, usize) = (kani::any(), kani::any());
    kani::assume(off <= 3 * sz && len <= 3 * sz - off);
    if ALIGNED_ONLY {
        kani::assume(len == 0 || (off % sz == 0 && len % sz == 0));
    }
    let w = b.slice_with_length(off, len);
    let t: &[T] = w.typed_data::<T>();
    assert!(len == 0 || (off % sz == 0 && len % sz == 0));
    assert!(t.len() == len / sz);
    let i: usize = kani::any();
    if i < len / sz {
        assert!(t[i] == data[off / sz + i]);
    }
    kani::cover!(len / sz == 3);
    kani::cover!(off / sz == 1 && len / sz == 2);
    kani::cover!(len == 0 && off % sz == 1);
}
// @unit name=typed_data_rejects_i32 props=C01,C09 kind=bounded bound=3_elements fns=Buffer::typed_data mayreject=1 tier=quick mem=2 timeout=200
#[kani::proof]
#[kani::unwind(10)]
fn typed_data_rejects_i32() {
    typed_data_window::<i32, false>()
}
// @unit name=typed_data_accepts_i32 props=C01 kind=bounded bound=3_elements fns=Buffer::typed_data tier=quick mem=2 timeout=200
#[kani::proof]
#[kani::unwind(10)]
fn typed_data_accepts_i32() {
    typed_data_window::<i32, true>()
}
// @unit name=typed_data_rejects_u16 props=C01,C09 kind=bounded bound=3_elements fns=Buffer::typed_data mayreject=1 tier=quick mem=2 timeout=200
#[kani::proof]
#[kani::unwind(10)]
fn typed_data_rejects_u16() {
    typed_data_window::<u16, false>()
}
// @unit name=typed_data_accepts_i64 props=C01 kind=bounded bound=3_elements fns=Buffer::typed_data tier=quick mem=2 timeout=200
#[kani::proof]
#[kani::unwind(10)]
fn typed_data_accepts_i64() {
    typed_data_window::<i64, true>()
}

// Contract (C01/C02): `bit_slice(OFF, LEN)` (bit units) of a 16-byte buffer returns a buffer of
// ceil(LEN/8) bytes whose bit i equals bit OFF+i of the source for every i < LEN; the source is
// unchanged; byte-aligned offsets share the region (no copy), unaligned offsets produce an
// independent region that stays valid after the source is dropped. One harness per (OFF, LEN) grid
// point (grid rule: the unaligned path allocates), contents symbolic.
fn bit_slice_point<const OFF: usize, const LEN: usize>() {
    const N: usize = 16;
    let data: [u8; N] = kani::any();
    let b = Buffer::from_slice_ref(data);
    let s = b.bit_slice(OFF, LEN);
    assert!(s.len() == (LEN + 7) / 8);
    let i: usize = kani::any();
    kani::assume(i < LEN);
    let src = (data[(OFF + i) / 8] >> ((OFF + i) % 8)) & 1;
    assert!((s.as_slice()[i / 8] >> (i % 8)) & 1 == src);
    assert!(same(b.as_slice(), &data, 0, N));
    assert!((s.data_ptr() == b.data_ptr()) == (OFF % 8 == 0));
    if OFF % 8 == 0 {
        assert!(s.ptr_offset() == OFF / 8 && b.strong_count() == 2);
    } else {
        assert!(s.ptr_offset() == 0 && b.strong_count() == 1);
    }
    drop(b);
    assert!((s.as_slice()[i / 8] >> (i % 8)) & 1 == src);
    kani::cover!(src == 1);
    kani::cover!(i == LEN - 1);
}
macro_rules! bit_slice_unit {
    ($name:ident, $off:expr, $len:expr) => {
        #[kani::proof]
        #[kani::unwind(20)]
        fn $name() {
            bit_slice_point::<$off, $len>()
        }
    };
}
// @unit name=bit_slice_0_16 props=C01,C02 kind=bounded bound=16_bytes_off0_len16 fns=Buffer::bit_slice tier=quick mem=2 timeout=200
bit_slice_unit!(bit_slice_0_16, 0, 16);
// @unit name=bit_slice_8_9 props=C01,C02 kind=bounded bound=16_bytes_off8_len9 fns=Buffer::bit_slice tier=quick mem=2 timeout=200
bit_slice_unit!(bit_slice_8_9, 8, 9);
// @unit name=bit_slice_3_5 props=C01,C02 kind=bounded bound=16_bytes_off3_len5 fns=Buffer::bit_slice tier=quick mem=2 timeout=200
bit_slice_unit!(bit_slice_3_5, 3, 5);
// @unit name=bit_slice_3_64 props=C01,C02 kind=bounded bound=16_bytes_off3_len64 fns=Buffer::bit_slice tier=quick mem=2 timeout=200
bit_slice_unit!(bit_slice_3_64, 3, 64);
// @unit name=bit_slice_5_70 props=C01,C02 kind=bounded bound=16_bytes_off5_len70 fns=Buffer::bit_slice tier=quick mem=2 timeout=200
bit_slice_unit!(bit_slice_5_70, 5, 70);
// @unit name=bit_slice_7_121 props=C01,C02 kind=bounded bound=16_bytes_off7_len121 fns=Buffer::bit_slice tier=quick mem=2 timeout=200
bit_slice_unit!(bit_slice_7_121, 7, 121);
// @unit name=bit_slice_63_65 props=C01,C02 kind=bounded bound=16_bytes_off63_len65 fns=Buffer::bit_slice tier=quick mem=2 timeout=200
bit_slice_unit!(bit_slice_63_65, 63, 65);

// Contract (C16): `shrink_to_fit` never changes what the buffer (or any other handle) shows and
// never frees memory that is still visible. Unique handle: afterwards capacity = ptr_offset + len
// (0 for an empty view), reallocation preserved the visible bytes, ptr_offset is preserved (0 if
// empty); shared region: complete no-op (same pointers, same capacity). Drops free exactly once.
// One harness per concrete (offset, len) window of an 8-byte buffer in a 64-byte region (grid rule:
// realloc size), contents and sharing symbolic.
fn shrink_to_fit_point<const OFF: usize, const LEN: usize>() {
    const N: usize = 8;
    let data: [u8; N] = kani::any();
    let b = Buffer::from_slice_ref(data); // capacity 64, len 8
    let (off, len) = (OFF, LEN);
    let mut s = b.slice_with_length(off, len);
    let shared: bool = kani::any();
    let keep = if shared { Some(b) } else { drop(b); None };
    let before_ptr = s.as_ptr();
    s.shrink_to_fit();
    assert!(s.len() == len && same(s.as_slice(), &data, off, len));
    if shared {
        assert!(s.capacity() == 64 && s.as_ptr() == before_ptr && s.ptr_offset() == off);
        let k = keep.as_ref().unwrap();
        assert!(same(k.as_slice(), &data, 0, N) && k.capacity() == 64);
    } else if len == 0 {
        assert!(s.capacity() == 0 && s.ptr_offset() == 0);
    } else {
        assert!(s.capacity() == off + len && s.ptr_offset() == off);
    }
    kani::cover!(shared);
    kani::cover!(!shared);
    // a second shrink is idempotent; then drop in either order
    s.shrink_to_fit();
    assert!(same(s.as_slice(), &data, off, len));
    if kani::any() {
        drop(s);
        if let Some(k) = &keep {
            assert!(same(k.as_slice(), &data, 0, N));
        }
    } else {
        drop(keep);
        assert!(same(s.as_slice(), &data, off, len));
    }
}
macro_rules! shrink_unit {
    ($name:ident, $off:expr, $len:expr) => {
        #[kani::proof]
        #[kani::unwind(10)]
        fn $name() {
            shrink_to_fit_point::<$off, $len>()
        }
    };
}
// @unit name=shrink_to_fit_0_8 props=C16 kind=bounded bound=window_0_8_of_8_bytes_cap64 fns=Buffer::shrink_to_fit,Bytes::try_realloc,Bytes::drop tier=quick mem=2 timeout=200
shrink_unit!(shrink_to_fit_0_8, 0, 8);
// @unit name=shrink_to_fit_0_3 props=C16 kind=bounded bound=window_0_3_of_8_bytes_cap64 fns=Buffer::shrink_to_fit,Bytes::try_realloc,Bytes::drop tier=quick mem=2 timeout=200
shrink_unit!(shrink_to_fit_0_3, 0, 3);
// @unit name=shrink_to_fit_2_3 props=C16 kind=bounded bound=window_2_3_of_8_bytes_cap64 fns=Buffer::shrink_to_fit,Bytes::try_realloc,Bytes::drop tier=quick mem=2 timeout=200
shrink_unit!(shrink_to_fit_2_3, 2, 3);
// @unit name=shrink_to_fit_0_0 props=C16 kind=bounded bound=window_0_0_of_8_bytes_cap64 fns=Buffer::shrink_to_fit,Bytes::try_realloc,Bytes::drop tier=quick mem=2 timeout=200
shrink_unit!(shrink_to_fit_0_0, 0, 0);
// @unit name=shrink_to_fit_8_0 props=C16 kind=bounded bound=window_8_0_of_8_bytes_cap64 fns=Buffer::shrink_to_fit,Bytes::try_realloc,Bytes::drop tier=quick mem=2 timeout=200
shrink_unit!(shrink_to_fit_8_0, 8, 0);

static RELEASED: AtomicUsize = AtomicUsize::new(0);
/// external owner of a memory region; its Drop is the "release callback" and counts invocations
struct Owner {
    bytes: [u8; 4],
}
impl Drop for Owner {
    fn drop(&mut self) {
        RELEASED.fetch_add(1, Ordering::SeqCst);
    }
}
fn released() -> usize {
    RELEASED.load(Ordering::SeqCst)
}

/// every live handle shows its window of the original bytes; the owner is unreleased iff any is alive
fn check_handles(hs: [&Option<(Buffer, usize)>; 4], snap: &[u8; 4]) -> usize {
    let mut alive = 0;
    for e in hs {
        if let Some((b, o)) = e {
            alive += 1;
            assert!(b.ptr_offset() == *o && same(b.as_slice(), snap, *o, b.len()));
        }
    }
    assert!(released() == if alive > 0 { 0 } else { 1 });
    alive
}

// Contract (C16): a buffer created by `from_custom_allocation(ptr, 4, Arc<owner>)`, then up to three
// derived handles (optional clone; optional slice(k) of the first or of the clone; optional
// slice_with_length(k, l) of the first or of the slice — all choices and k, l symbolic), then drops
// of the up to four handles in a symbolic order: while at least one handle is alive the owner has
// not been released (counter 0) and every live handle still shows its window of the original
// bytes; after the last handle is dropped the owner has been released exactly once (counter 1).
// @unit name=custom_allocation_history props=C16 kind=bounded bound=4_bytes_<=3_derivations_then_<=4_drops_any_order fns=Buffer::from_custom_allocation,Buffer::build_with_arguments,Buffer::clone,Buffer::slice,Buffer::slice_with_length,Bytes::drop tier=quick mem=4 timeout=400
#[kani::proof]
#[kani::unwind(7)]
fn custom_allocation_history() {
    let owner = std::sync::Arc::new(Owner { bytes: kani::any() });
    let snap = owner.bytes;
    let ptr = NonNull::new(owner.bytes.as_ptr() as *mut u8).unwrap();
    let first = unsafe { Buffer::from_custom_allocation(ptr, 4, owner) };
    assert!(first.len() == 4 && first.capacity() == 4 && first.ptr_offset() == 0);
    let mut a = Some((first, 0usize));
    let mut c: Option<(Buffer, usize)> = None;
    let mut s: Option<(Buffer, usize)> = None;
    let mut t: Option<(Buffer, usize)> = None;
    if kani::any() {
        c = Some((a.as_ref().unwrap().0.clone(), 0));
    }
    if kani::any() {
        let src = if c.is_some() && kani::any() { &c } else { &a };
        let (b, o) = src.as_ref().unwrap();
        let k: usize = kani::any();
        kani::assume(k <= b.len());
        s = Some((b.slice(k), *o + k));
    }
    if kani::any() {
        let src = if s.is_some() && kani::any() { &s } else { &a };
        let (b, o) = src.as_ref().unwrap();
        let (k, l): (usize, usize) = (kani::any(), kani::any());
        kani::assume(k <= b.len() && l <= b.len() - k);
        t = Some((b.slice_with_length(k, l), *o + k));
    }
    let n0 = check_handles([&a, &c, &s, &t], &snap);
    kani::cover!(n0 == 4);
    kani::cover!(n0 == 1);
    let mut last_alive = n0;
    for _ in 0..4 {
        let d: u8 = kani::any();
        let victim = match d {
            0 => a.take(),
            1 => c.take(),
            2 => s.take(),
            _ => t.take(),
        };
        kani::assume(victim.is_some());
        drop(victim); // the only drop site inside the loop
        last_alive = check_handles([&a, &c, &s, &t], &snap);
        if last_alive == 0 {
            break;
        }
    }
    assert!(last_alive == 0 && released() == 1);
    kani::cover!(n0 == 4 && released() == 1);
}

// Contract (C16): a uniquely held, offset-0 buffer over an EXTERNALLY owned region is never turned
// into a MutableBuffer or Vec (those would later free/reallocate with the Rust allocator memory it
// does not own): into_mutable / into_vec decline, return the same view, the owner is not released
// by the attempt and is released exactly once when the returned buffer is dropped.
// @unit name=custom_allocation_never_mutable props=C16 kind=bounded bound=4_bytes fns=Buffer::into_mutable,Buffer::into_vec,MutableBuffer::from_bytes,Buffer::from_custom_allocation tier=quick mem=2 timeout=200
#[kani::proof]
#[kani::unwind(7)]
fn custom_allocation_never_mutable() {
    let owner = std::sync::Arc::new(Owner { bytes: kani::any() });
    let snap = owner.bytes;
    let ptr = NonNull::new(owner.bytes.as_ptr() as *mut u8).unwrap();
    let b = unsafe { Buffer::from_custom_allocation(ptr, 4, owner) };
    let r: Result<(), Buffer> = if kani::any() {
        b.into_mutable().map(|_| ())
    } else {
        b.into_vec::<u8>().map(|_| ())
    };
    let orig = match r {
        Ok(()) => {
            assert!(false);
            return;
        }
        Err(orig) => orig,
    };
    assert!(released() == 0);
    assert!(orig.ptr_offset() == 0 && orig.strong_count() == 1 && same(orig.as_slice(), &snap, 0, 4));
    let mut again = orig;
    again.shrink_to_fit(); // no-op on external memory
    assert!(again.capacity() == 4 && same(again.as_slice(), &snap, 0, 4) && released() == 0);
    drop(again);
    assert!(released() == 1);
    kani::cover!(true);
}
