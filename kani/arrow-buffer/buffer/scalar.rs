// Kani contract harnesses for /repo/arrow-buffer/src/buffer/scalar.rs (child module: sees private items via super::)
