// Kani contract harnesses for /repo/arrow-buffer/src/buffer/scalar.rs (child module: sees private items via super::)
//
// C09/C01: a `ScalarBuffer<T>` handed out by a checked constructor is a T-aligned window of whole
// elements inside its byte buffer (so `Deref<[T]>` — an unchecked from_raw_parts — is in bounds and
// aligned). Rejections are the constructor's own panics (may-reject harnesses).
use super::*;

// Contract (C09): `ScalarBuffer::<T>::new(buffer, offset, len)` (offset/len in elements, ARBITRARY
// usize values) over a byte buffer that is a region allocated for [T; 4] advanced by `mis` bytes
// (symbolic, 0..=4*size): it returns  <=>  offset*size and len*size do not overflow, the byte window
// [offset*size, offset*size + len*size) lies inside the buffer, and the window start is T-aligned.
// On return: len() = len and element i is the element of the original array at that position.
//   *_rejects_* (may-reject): returns => condition + view;   *_accepts_*: condition => no panic + view.
fn scalar_new_case<T: ArrowNativeType + kani::Arbitrary + PartialEq, const ASSUME_OK: bool>() {
    let sz = std::mem::size_of::<T>();
    let al = std::mem::align_of::<T>();
    let data: [T; 4] = kani::any();
    let base = Buffer::from_vec(data.to_vec());
    let mis: usize = kani::any();
    kani::assume(mis <= 4 * sz);
    let buf = base.slice(mis);
    let (o, l): (usize, usize) = (kani::any(), kani::any());
    let start = o as u128 * sz as u128; // sz is a constant
    let bytes = l as u128 * sz as u128;
    let ok = start <= usize::MAX as u128
        && bytes <= usize::MAX as u128
        && start + bytes <= (4 * sz - mis) as u128
        && (mis as u128 + start) % al as u128 == 0;
    if ASSUME_OK {
        kani::assume(ok);
    }
    let s = ScalarBuffer::<T>::new(buf, o, l);
    assert!(ok);
    assert!(s.len() == l && s.is_empty() == (l == 0) && s.inner().len() == l * sz);
    assert!(base.len() == 4 * sz); // parent untouched
    kani::cover!(l == 4);
    kani::cover!(mis == sz && o == 1 && l == 2);
    kani::cover!(l == 0 && mis == 4 * sz);
    let i: usize = kani::any();
    kani::assume(i < l);
    assert!(s[i] == data[(mis + o * sz) / sz + i]);
}
// @unit name=scalar_new_rejects_i32 props=C09,C01 kind=bounded bound=16-byte_region_all_usize_offset_len fns=ScalarBuffer<i32>::new,ScalarBuffer::from tier=quick mayreject=1 mem=3 timeout=300
#[kani::proof]
#[kani::unwind(8)]
fn scalar_new_rejects_i32() {
    scalar_new_case::<i32, false>()
}
// @unit name=scalar_new_accepts_i32 props=C09 kind=bounded bound=16-byte_region fns=ScalarBuffer<i32>::new,ScalarBuffer::from tier=quick mem=3 timeout=300
#[kani::proof]
#[kani::unwind(8)]
fn scalar_new_accepts_i32() {
    scalar_new_case::<i32, true>()
}
// @unit name=scalar_new_rejects_i64 props=C09,C01 kind=bounded bound=32-byte_region_all_usize_offset_len fns=ScalarBuffer<i64>::new,ScalarBuffer::from tier=quick mayreject=1 mem=3 timeout=300
#[kani::proof]
#[kani::unwind(8)]
fn scalar_new_rejects_i64() {
    scalar_new_case::<i64, false>()
}
// @unit name=scalar_new_accepts_i64 props=C09 kind=bounded bound=32-byte_region fns=ScalarBuffer<i64>::new,ScalarBuffer::from tier=quick mem=3 timeout=300
#[kani::proof]
#[kani::unwind(8)]
fn scalar_new_accepts_i64() {
    scalar_new_case::<i64, true>()
}
// @unit name=scalar_new_rejects_u8 props=C09,C01 kind=bounded bound=4-byte_region_all_usize_offset_len fns=ScalarBuffer<u8>::new,ScalarBuffer::from tier=quick mayreject=1 mem=3 timeout=300
#[kani::proof]
#[kani::unwind(8)]
fn scalar_new_rejects_u8() {
    scalar_new_case::<u8, false>()
}

// Contract (C09): `From<Buffer> for ScalarBuffer<i32>` accepts exactly the 4-byte aligned buffers —
// also for externally owned memory (custom allocation) — and then views len/4 whole elements.
// @unit name=scalar_from_buffer_alignment props=C09,C01 kind=bounded bound=16-byte_regions fns=ScalarBuffer<i32>::from mayreject=1 tier=quick mem=3 timeout=300
#[kani::proof]
#[kani::unwind(8)]
fn scalar_from_buffer_alignment() {
    #[repr(align(8))]
    struct Ext([u8; 16]);
    let mis: usize = kani::any();
    kani::assume(mis <= 16);
    let custom: bool = kani::any();
    let raw: [u8; 16] = kani::any();
    let buf = if custom {
        let owner = std::sync::Arc::new(Ext(raw));
        let p = std::ptr::NonNull::new(owner.0.as_ptr() as *mut u8).unwrap();
        unsafe { Buffer::from_custom_allocation(p, 16, owner) }.slice(mis)
    } else {
        let words: [i32; 4] = unsafe { std::mem::transmute(raw) };
        Buffer::from_vec(words.to_vec()).slice(mis)
    };
    let s = ScalarBuffer::<i32>::from(buf);
    assert!(mis % 4 == 0);
    assert!(s.len() == (16 - mis) / 4);
    kani::cover!(custom && mis == 8);
    kani::cover!(!custom && mis == 4);
    kani::cover!(mis == 16);
    let i: usize = kani::any();
    kani::assume(i < s.len());
    let at = mis + 4 * i;
    assert!(s[i] == i32::from_ne_bytes([raw[at], raw[at + 1], raw[at + 2], raw[at + 3]]));
}
// accept direction: aligned => no panic
// @unit name=scalar_from_buffer_aligned_accepts props=C09 kind=bounded bound=16-byte_regions fns=ScalarBuffer<i32>::from tier=quick mem=3 timeout=300
#[kani::proof]
#[kani::unwind(8)]
fn scalar_from_buffer_aligned_accepts() {
    let words: [i32; 4] = kani::any();
    let k: usize = kani::any();
    kani::assume(k <= 4);
    let s = ScalarBuffer::<i32>::from(Buffer::from_vec(words.to_vec()).slice(4 * k));
    assert!(s.len() == 4 - k);
    kani::cover!(k == 4);
    kani::cover!(k == 1);
}

// Contract (C09/C01): `ScalarBuffer::slice(offset, len)` with ARBITRARY usize arguments on a buffer
// of 4 elements: returns => offset + len <= 4 (no wrap-around) and the result views exactly
// elements [offset, offset+len) and shares memory with the parent, which is unchanged;
// in-range arguments never panic (accept harness). `ptr_eq` <=> same window.
fn scalar_slice_case<const ASSUME_IN_RANGE: bool>() {
    let data: [i32; 4] = kani::any();
    let sb = ScalarBuffer::<i32>::from(data.to_vec());
    assert!(sb.len() == 4);
    let (o, l): (usize, usize) = (kani::any(), kani::any());
    if ASSUME_IN_RANGE {
        kani::assume(o <= 4 && l <= 4 - o);
    }
    let s = sb.slice(o, l);
    assert!(o as u128 + l as u128 <= 4);
    assert!(s.len() == l);
    assert!(s.ptr_eq(&sb) == (o == 0 && l == 4));
    assert!(s.inner().data_ptr() == sb.inner().data_ptr());
    kani::cover!(o == 4 && l == 0);
    kani::cover!(o == 1 && l == 3);
    let i: usize = kani::any();
    kani::assume(i < l);
    assert!(s[i] == data[o + i] && sb[o + i] == data[o + i]);
}
// @unit name=scalar_slice_rejects props=C09,C01 kind=bounded bound=4_elements_all_usize_offset_len fns=ScalarBuffer::slice,ScalarBuffer::new,ScalarBuffer::ptr_eq mayreject=1 tier=quick mem=3 timeout=300
#[kani::proof]
#[kani::unwind(8)]
fn scalar_slice_rejects() {
    scalar_slice_case::<false>()
}
// @unit name=scalar_slice_accepts props=C09 kind=bounded bound=4_elements fns=ScalarBuffer::slice,ScalarBuffer::new tier=quick mem=3 timeout=300
#[kani::proof]
#[kani::unwind(8)]
fn scalar_slice_accepts() {
    scalar_slice_case::<true>()
}

// Contract (C16): `Vec::<T>::from(ScalarBuffer<T>)` yields the viewed elements. It reuses the
// allocation only when the buffer is uniquely owned and unsliced; otherwise it copies: a surviving
// clone / parent keeps reading the original elements after the returned Vec is overwritten.
// `From<Vec<T>>` / `From<ScalarBuffer<T>> for Buffer` / `into_inner` preserve the bytes.
// @unit name=scalar_into_vec_cow props=C16,C02 kind=bounded bound=3_elements fns=Vec<i32>::from<ScalarBuffer>,ScalarBuffer::from<Vec>,Buffer::into_vec,Buffer::typed_data,ScalarBuffer::into_inner tier=quick mem=3 timeout=400
#[kani::proof]
#[kani::unwind(8)]
fn scalar_into_vec_cow() {
    let data: [i32; 3] = kani::any();
    let sb = ScalarBuffer::<i32>::from(data.to_vec());
    let shared: bool = kani::any();
    let o: usize = kani::any();
    kani::assume(o <= 3);
    let keep = if shared { Some(sb.clone()) } else { None };
    let operand = if o > 0 {
        let s = sb.slice(o, 3 - o);
        if kani::any() {
            drop(sb); // unique but offset: still a copy
        }
        s
    } else {
        sb
    };
    let mut v: Vec<i32> = operand.into();
    assert!(v.len() == 3 - o);
    let i: usize = kani::any();
    kani::assume(i < 3 - o);
    assert!(v[i] == data[o + i]);
    let w: i32 = kani::any();
    v[i] = w;
    v.push(w);
    if let Some(k) = &keep {
        let j: usize = kani::any();
        kani::assume(j < 3);
        assert!(k.len() == 3 && k[j] == data[j]);
        let b: Buffer = k.clone().into();
        assert!(b.len() == 12);
    }
    kani::cover!(shared && o == 0);
    kani::cover!(!shared && o == 0);
    kani::cover!(!shared && o == 2);
}
