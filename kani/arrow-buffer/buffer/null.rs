// Kani contract harnesses for /repo/arrow-buffer/src/buffer/null.rs (child module: sees private items via super::)
