// Kani contract harnesses for /repo/arrow-buffer/src/buffer/null.rs (child module: sees private items via super::)
use super::*;
#[path = "/verif/kani/support/spec.rs"]
mod spec;
#[allow(unused_imports)]
use spec::*;

// ---------------------------------------------------------------------------------------------
// Shared harness helpers (spec side). Nothing here calls the code under test.
// ---------------------------------------------------------------------------------------------

/// N <= 64 fully symbolic bytes built without a loop (lets a harness use a small unwind bound).
#[allow(dead_code)]
fn any_bytes<const N: usize>() -> [u8; N] {
    let w: (u128, u128, u128, u128) = (kani::any(), kani::any(), kani::any(), kani::any());
    let full: [u8; 64] = unsafe { std::mem::transmute(w) };
    let mut out = [0u8; N];
    out.copy_from_slice(&full[..N]);
    out
}
#[allow(dead_code)]
fn mask(b: bool) -> u64 { if b { u64::MAX } else { 0 } }

// STUB (listed): `core::ptr::align_offset`, the single address-dependent step of
// `<[u8]>::align_to::<u64>()`. CBMC cannot constant-fold an address during symbolic execution, so
// without it every slice length after `align_to` is symbolic (measured: out of memory / > 5 min).
// The stub returns the exact value of the real function for a pointer whose address is congruent
// to the harness-supplied skew modulo 8, and it *asserts* that congruence on the real address, so
// nothing is assumed about the allocator; the rest of the real `align_to` runs unchanged.
// The k-th call uses ALIGN_SKEWS[k] (control flow is concrete, so k is concrete).
#[allow(dead_code)]
static mut ALIGN_SKEWS: [usize; 6] = [0; 6];
#[allow(dead_code)]
static mut ALIGN_CALLS: usize = 0;
#[allow(dead_code)]
fn set_skews(s: [usize; 6]) { unsafe { ALIGN_SKEWS = s; ALIGN_CALLS = 0; } }
/// builder for the list of expected `align_to` calls of one harness (bookkeeping only: a wrong
/// prediction makes the stub's address assertion fail, it can never hide a violation)
#[derive(Clone, Copy)]
#[allow(dead_code)]
struct Skews { s: [usize; 6], n: usize }
#[allow(dead_code)]
fn skews() -> Skews { Skews { s: [0; 6], n: 0 } }
#[allow(dead_code)]
impl Skews {
    /// one `align_to` call on a slice that starts `sk` bytes past an 8-byte aligned address
    fn raw(mut self, sk: usize) -> Self { self.s[self.n] = sk % 8; self.n += 1; self }
    /// the `align_to` call of `UnalignedBitChunk::new(bytes, off, len)` (made only when the addressed
    /// byte range is longer than 16 bytes), `bytes` starting `sk` bytes past an 8-byte aligned address
    fn ubc(self, sk: usize, off: usize, len: usize) -> Self {
        if len > 0 && (len + off % 8 + 7) / 8 > 16 { self.raw(sk + off / 8) } else { self }
    }
    fn install(self) { unsafe { ALIGN_SKEWS = self.s; ALIGN_CALLS = 0; } }
}
#[allow(dead_code)]
unsafe fn stub_align_offset<T>(p: *const T, a: usize) -> usize {
    assert!(std::mem::size_of::<T>() == 1 && a == 8);
    let k = unsafe { ALIGN_CALLS };
    assert!(k < 6);
    unsafe { ALIGN_CALLS = k + 1 };
    let skew = unsafe { ALIGN_SKEWS[k] } % a;
    assert!((p as usize) % a == skew);
    (a - skew) % a
}
macro_rules! inst {
    ($name:ident, $unwind:expr, $call:expr) => {
        #[kani::proof]
        #[kani::unwind($unwind)]
        #[kani::stub(core::ptr::align_offset, stub_align_offset)]
        fn $name() { $call }
    };
}

fn mk(a: &[u8], sk: usize) -> Buffer { Buffer::from_slice_ref(a).slice(sk) }

/// number of true values among model bits [off, off+len) of `a` (naive loop)
fn popcount(a: &[u8], off: usize, len: usize) -> usize {
    let mut c = 0usize;
    let mut i = 0;
    while i < len {
        if bit(a, off + i) { c += 1; }
        i += 1;
    }
    c
}

fn new_grid<const OFF: usize, const LEN: usize, const N: usize, const SK: usize, const VIA_FROM: bool>() {
    let a: [u8; N] = any_bytes();
    let bb = BooleanBuffer::new(mk(&a, SK), OFF, LEN);
    set_skews([(SK + OFF / 8) % 8; 6]);
    let n = if VIA_FROM { NullBuffer::from(bb) } else { NullBuffer::new(bb) };
    let valid = popcount(&a, 8 * SK + OFF, LEN);
    assert!(n.len() == LEN && n.offset() == OFF && n.is_empty() == (LEN == 0));
    assert!(n.null_count() == LEN - valid);
    if LEN > 0 {
        let i: usize = kani::any();
        kani::assume(i < LEN);
        let v = bit(&a, 8 * SK + OFF + i);
        assert!(n.is_valid(i) == v && n.is_null(i) == !v && n.inner().value(i) == v);
        assert!(bit(n.validity(), OFF + i) == v);
        kani::cover!(v);
        kani::cover!(!v);
    }
    kani::cover!(n.null_count() == 0);
    kani::cover!(n.null_count() == LEN);
}
// Contract (C19/C01) NullBuffer::new(b) / NullBuffer::from(b): same length and offset as b, is_valid(i) =
// value i of b, is_null(i) its negation, and null_count() == len - (number of true values) exactly
// (naive popcount of the model); bits outside the addressed range are symbolic and not counted.
// @unit name=nb_new_0_0_1_0 props=C19,C01 kind=bounded bound=grid_(offset,len,bytes,ptr_skew)=(0,0,1,0) fns=NullBuffer::new,NullBuffer::null_count,NullBuffer::is_valid,NullBuffer::is_null,NullBuffer::len,NullBuffer::validity,NullBuffer::inner tier=thorough timeout=300 note=not_confirmed_under_load
inst!(nb_new_0_0_1_0, 10, new_grid::<0, 0, 1, 0, false>());
// @unit name=nb_new_3_12_2_0 props=C19,C01 kind=bounded bound=grid_(offset,len,bytes,ptr_skew)=(3,12,2,0) fns=NullBuffer::new,NullBuffer::null_count,NullBuffer::is_valid,NullBuffer::is_null,NullBuffer::len,NullBuffer::validity,NullBuffer::inner tier=thorough timeout=300 note=not_confirmed_under_load
inst!(nb_new_3_12_2_0, 15, new_grid::<3, 12, 2, 0, false>());
// @unit name=nb_from_5_65_9_0 props=C19,C01 kind=bounded bound=grid_(offset,len,bytes,ptr_skew)=(5,65,9,0) fns=NullBuffer::from,NullBuffer::null_count,NullBuffer::is_valid,NullBuffer::is_null,NullBuffer::len,NullBuffer::validity,NullBuffer::inner tier=thorough timeout=300 note=not_confirmed_under_load
inst!(nb_from_5_65_9_0, 68, new_grid::<5, 65, 9, 0, true>());
// @unit name=nb_new_0_64_8_0 props=C19,C01 kind=bounded bound=grid_(offset,len,bytes,ptr_skew)=(0,64,8,0) fns=NullBuffer::new,NullBuffer::null_count,NullBuffer::is_valid,NullBuffer::is_null,NullBuffer::len,NullBuffer::validity,NullBuffer::inner tier=thorough timeout=300 note=not_confirmed_under_load
inst!(nb_new_0_64_8_0, 67, new_grid::<0, 64, 8, 0, false>());
// @unit name=nb_new_1_130_17_0 props=C19,C01 kind=bounded bound=grid_(offset,len,bytes,ptr_skew)=(1,130,17,0) fns=NullBuffer::new,NullBuffer::null_count,NullBuffer::is_valid,NullBuffer::is_null,NullBuffer::len,NullBuffer::validity,NullBuffer::inner tier=thorough timeout=300 note=not_confirmed_under_load
inst!(nb_new_1_130_17_0, 133, new_grid::<1, 130, 17, 0, false>());
// @unit name=nb_from_13_140_22_2 props=C19,C01 kind=bounded bound=grid_(offset,len,bytes,ptr_skew)=(13,140,22,2) fns=NullBuffer::from,NullBuffer::null_count,NullBuffer::is_valid,NullBuffer::is_null,NullBuffer::len,NullBuffer::validity,NullBuffer::inner tier=thorough timeout=300 note=not_confirmed_under_load
inst!(nb_from_13_140_22_2, 143, new_grid::<13, 140, 22, 2, true>());
// @unit name=nb_new_130_200_42_0 props=C19,C01 kind=bounded bound=grid_(offset,len,bytes,ptr_skew)=(130,200,42,0) fns=NullBuffer::new,NullBuffer::null_count,NullBuffer::is_valid,NullBuffer::is_null,NullBuffer::len,NullBuffer::validity,NullBuffer::inner tier=thorough timeout=300 note=not_confirmed_under_load
inst!(nb_new_130_200_42_0, 203, new_grid::<130, 200, 42, 0, false>());
// @unit name=nb_from_63_129_24_0 props=C19,C01 kind=bounded bound=grid_(offset,len,bytes,ptr_skew)=(63,129,24,0) fns=NullBuffer::from,NullBuffer::null_count,NullBuffer::is_valid,NullBuffer::is_null,NullBuffer::len,NullBuffer::validity,NullBuffer::inner tier=thorough timeout=300 note=not_confirmed_under_load
inst!(nb_from_63_129_24_0, 132, new_grid::<63, 129, 24, 0, true>());
// @unit name=nb_new_7_1_1_0 props=C19,C01 kind=bounded bound=grid_(offset,len,bytes,ptr_skew)=(7,1,1,0) fns=NullBuffer::new,NullBuffer::null_count,NullBuffer::is_valid,NullBuffer::is_null,NullBuffer::len,NullBuffer::validity,NullBuffer::inner tier=thorough timeout=300 note=not_confirmed_under_load
inst!(nb_new_7_1_1_0, 10, new_grid::<7, 1, 1, 0, false>());

fn const_grid<const VALID: bool, const LEN: usize>() {
    let n = if VALID { NullBuffer::new_valid(LEN) } else { NullBuffer::new_null(LEN) };
    assert!(n.len() == LEN);
    assert!(n.null_count() == if VALID { 0 } else { LEN });
    assert!(n.offset() + LEN <= 8 * n.validity().len());
    if LEN > 0 {
        let i: usize = kani::any();
        kani::assume(i < LEN);
        assert!(n.is_valid(i) == VALID && n.is_null(i) == !VALID);
    }
    kani::cover!(n.len() == LEN);
}
// Contract (C19/C01) NullBuffer::new_valid(n) / new_null(n): length n, every slot valid / null,
// null_count 0 / n, bit range inside the byte buffer.
// @unit name=nb_new_valid_0 props=C19,C01 kind=bounded bound=grid_len=0 fns=NullBuffer::new_valid tier=thorough timeout=120 note=not_confirmed_under_load
inst!(nb_new_valid_0, 8, const_grid::<true, 0>());
// @unit name=nb_new_null_0 props=C19,C01 kind=bounded bound=grid_len=0 fns=NullBuffer::new_null tier=thorough timeout=120 note=not_confirmed_under_load
inst!(nb_new_null_0, 8, const_grid::<false, 0>());
// @unit name=nb_new_valid_1 props=C19,C01 kind=bounded bound=grid_len=1 fns=NullBuffer::new_valid tier=thorough timeout=120 note=not_confirmed_under_load
inst!(nb_new_valid_1, 8, const_grid::<true, 1>());
// @unit name=nb_new_null_1 props=C19,C01 kind=bounded bound=grid_len=1 fns=NullBuffer::new_null tier=thorough timeout=120 note=not_confirmed_under_load
inst!(nb_new_null_1, 8, const_grid::<false, 1>());
// @unit name=nb_new_valid_9 props=C19,C01 kind=bounded bound=grid_len=9 fns=NullBuffer::new_valid tier=thorough timeout=120 note=not_confirmed_under_load
inst!(nb_new_valid_9, 8, const_grid::<true, 9>());
// @unit name=nb_new_null_9 props=C19,C01 kind=bounded bound=grid_len=9 fns=NullBuffer::new_null tier=thorough timeout=120 note=not_confirmed_under_load
inst!(nb_new_null_9, 8, const_grid::<false, 9>());
// @unit name=nb_new_valid_64 props=C19,C01 kind=bounded bound=grid_len=64 fns=NullBuffer::new_valid tier=thorough timeout=120 note=not_confirmed_under_load
inst!(nb_new_valid_64, 8, const_grid::<true, 64>());
// @unit name=nb_new_null_64 props=C19,C01 kind=bounded bound=grid_len=64 fns=NullBuffer::new_null tier=thorough timeout=120 note=not_confirmed_under_load
inst!(nb_new_null_64, 8, const_grid::<false, 64>());
// @unit name=nb_new_valid_65 props=C19,C01 kind=bounded bound=grid_len=65 fns=NullBuffer::new_valid tier=thorough timeout=120 note=not_confirmed_under_load
inst!(nb_new_valid_65, 8, const_grid::<true, 65>());
// @unit name=nb_new_null_65 props=C19,C01 kind=bounded bound=grid_len=65 fns=NullBuffer::new_null tier=thorough timeout=120 note=not_confirmed_under_load
inst!(nb_new_null_65, 8, const_grid::<false, 65>());
// @unit name=nb_new_valid_130 props=C19,C01 kind=bounded bound=grid_len=130 fns=NullBuffer::new_valid tier=thorough timeout=120 note=not_confirmed_under_load
inst!(nb_new_valid_130, 8, const_grid::<true, 130>());
// @unit name=nb_new_null_130 props=C19,C01 kind=bounded bound=grid_len=130 fns=NullBuffer::new_null tier=thorough timeout=120 note=not_confirmed_under_load
inst!(nb_new_null_130, 8, const_grid::<false, 130>());

fn union_grid<const LP: bool, const RP: bool, const OL: usize, const OR: usize, const LEN: usize, const NL: usize, const NR: usize>() {
    let a: [u8; NL] = any_bytes();
    let b: [u8; NR] = any_bytes();
    skews().ubc(0, OL, LEN).ubc(0, OR, LEN).install();
    let l = NullBuffer::new(BooleanBuffer::new(mk(&a, 0), OL, LEN));
    let r = NullBuffer::new(BooleanBuffer::new(mk(&b, 0), OR, LEN));
    // from_bitwise_binary_op (2 align_to calls when ol%64 == or%64) then count_set_bits of the result
    set_skews([0; 6]);
    let u = NullBuffer::union(if LP { Some(&l) } else { None }, if RP { Some(&r) } else { None });
    // model: a slot is valid iff it is valid in every present operand
    let m = |i: usize| (!LP || bit(&a, OL + i)) && (!RP || bit(&b, OR + i));
    let mut valid = 0usize;
    let mut k = 0;
    while k < LEN {
        if m(k) { valid += 1; }
        k += 1;
    }
    match &u {
        None => assert!(valid == LEN),
        Some(n) => {
            assert!(valid < LEN);
            assert!(n.len() == LEN && n.null_count() == LEN - valid);
            assert!(n.offset() + LEN <= 8 * n.validity().len());
            let i: usize = kani::any();
            kani::assume(i < LEN);
            assert!(n.is_valid(i) == m(i));
            kani::cover!(n.is_valid(i));
            kani::cover!(!n.is_valid(i) && (!LP || bit(&a, OL + i)));
        }
    }
    kani::cover!(u.is_none());
    kani::cover!(u.is_some());
}
// Contract (C19) NullBuffer::union(lhs, rhs) on optional buffers of equal length (absent = all valid):
// with m(i) = valid in every present operand: the result is None exactly when every m(i) holds;
// otherwise Some(n) with n.len() = len, n.is_valid(i) = m(i) for all i, and n.null_count() = number of
// i with !m(i), exactly. LP/RP = operand present.
// @unit name=nb_union_ss_3_5_12 props=C19 kind=bounded bound=grid_(lhs_present,rhs_present,ol,or,len)=(true,true,3,5,12) fns=NullBuffer::union tier=thorough timeout=400 note=not_confirmed_under_load
inst!(nb_union_ss_3_5_12, 15, union_grid::<true, true, 3, 5, 12, 2, 3>());
// @unit name=nb_union_ss_3_3_70 props=C19 kind=bounded bound=grid_(lhs_present,rhs_present,ol,or,len)=(true,true,3,3,70) fns=NullBuffer::union tier=thorough timeout=400 note=not_confirmed_under_load
inst!(nb_union_ss_3_3_70, 73, union_grid::<true, true, 3, 3, 70, 10, 10>());
// @unit name=nb_union_sn_3_0_12 props=C19 kind=bounded bound=grid_(lhs_present,rhs_present,ol,or,len)=(true,false,3,0,12) fns=NullBuffer::union tier=thorough timeout=400 note=not_confirmed_under_load
inst!(nb_union_sn_3_0_12, 15, union_grid::<true, false, 3, 0, 12, 2, 2>());
// @unit name=nb_union_ns_0_5_65 props=C19 kind=bounded bound=grid_(lhs_present,rhs_present,ol,or,len)=(false,true,0,5,65) fns=NullBuffer::union tier=thorough timeout=400 note=not_confirmed_under_load
inst!(nb_union_ns_0_5_65, 68, union_grid::<false, true, 0, 5, 65, 9, 9>());
// @unit name=nb_union_nn_0_0_9 props=C19 kind=bounded bound=grid_(lhs_present,rhs_present,ol,or,len)=(false,false,0,0,9) fns=NullBuffer::union tier=thorough timeout=400 note=not_confirmed_under_load
inst!(nb_union_nn_0_0_9, 12, union_grid::<false, false, 0, 0, 9, 2, 2>());
// @unit name=nb_union_ss_0_9_65 props=C19 kind=bounded bound=grid_(lhs_present,rhs_present,ol,or,len)=(true,true,0,9,65) fns=NullBuffer::union tier=thorough timeout=400 note=not_confirmed_under_load
inst!(nb_union_ss_0_9_65, 68, union_grid::<true, true, 0, 9, 65, 9, 10>());
// @unit name=nb_union_ss_0_64_128 props=C19 kind=bounded bound=grid_(lhs_present,rhs_present,ol,or,len)=(true,true,0,64,128) fns=NullBuffer::union tier=thorough timeout=400 note=not_confirmed_under_load
inst!(nb_union_ss_0_64_128, 131, union_grid::<true, true, 0, 64, 128, 16, 24>());
// @unit name=nb_union_ss_130_1_130 props=C19 kind=bounded bound=grid_(lhs_present,rhs_present,ol,or,len)=(true,true,130,1,130) fns=NullBuffer::union tier=thorough timeout=400 note=not_confirmed_under_load
inst!(nb_union_ss_130_1_130, 133, union_grid::<true, true, 130, 1, 130, 33, 17>());

fn union_many_grid<const P0: bool, const P1: bool, const P2: bool, const O0: usize, const O1: usize, const O2: usize, const LEN: usize, const N: usize>() {
    let a: [u8; N] = any_bytes();
    let b: [u8; N] = any_bytes();
    let c: [u8; N] = any_bytes();
    skews().ubc(0, O0, LEN).ubc(0, O1, LEN).ubc(0, O2, LEN).install();
    let n0 = NullBuffer::new(BooleanBuffer::new(mk(&a, 0), O0, LEN));
    let n1 = NullBuffer::new(BooleanBuffer::new(mk(&b, 0), O1, LEN));
    let n2 = NullBuffer::new(BooleanBuffer::new(mk(&c, 0), O2, LEN));
    set_skews([0; 6]);
    let u = NullBuffer::union_many([if P0 { Some(&n0) } else { None }, if P1 { Some(&n1) } else { None }, if P2 { Some(&n2) } else { None }]);
    let m = |i: usize| (!P0 || bit(&a, O0 + i)) && (!P1 || bit(&b, O1 + i)) && (!P2 || bit(&c, O2 + i));
    let mut valid = 0usize;
    let mut k = 0;
    while k < LEN {
        if m(k) { valid += 1; }
        k += 1;
    }
    match &u {
        None => assert!(valid == LEN),
        Some(n) => {
            assert!(valid < LEN);
            assert!(n.len() == LEN && n.null_count() == LEN - valid);
            let i: usize = kani::any();
            kani::assume(i < LEN);
            assert!(n.is_valid(i) == m(i));
            kani::cover!(n.is_valid(i));
            kani::cover!(!n.is_valid(i));
        }
    }
    // inputs unchanged (the in-place `&=` must never write into a shared operand)
    let j: usize = kani::any();
    kani::assume(j < LEN);
    assert!(n0.is_valid(j) == bit(&a, O0 + j) && n1.is_valid(j) == bit(&b, O1 + j) && n2.is_valid(j) == bit(&c, O2 + j));
    kani::cover!(u.is_none());
    kani::cover!(u.is_some());
}
// Contract (C19) NullBuffer::union_many of up to three optional buffers of equal length: same statement
// as `union` with m(i) = valid in every present operand (None exactly when there is no null at all,
// otherwise exact validity and exact null count), and every operand still reads its old values
// afterwards (the second `&=` runs in place on the accumulator, never on an operand).
// @unit name=nb_union_many_sss_3_5_0_12 props=C19 kind=bounded bound=grid_(present,o0,o1,o2,len)=(111,3,5,0,12) fns=NullBuffer::union_many tier=thorough timeout=600 note=not_confirmed_under_load
inst!(nb_union_many_sss_3_5_0_12, 15, union_many_grid::<true, true, true, 3, 5, 0, 12, 3>());
// @unit name=nb_union_many_sns_0_0_7_20 props=C19 kind=bounded bound=grid_(present,o0,o1,o2,len)=(101,0,0,7,20) fns=NullBuffer::union_many tier=thorough timeout=600 note=not_confirmed_under_load
inst!(nb_union_many_sns_0_0_7_20, 23, union_many_grid::<true, false, true, 0, 0, 7, 20, 4>());
// @unit name=nb_union_many_nnn_0_0_0_9 props=C19 kind=bounded bound=grid_(present,o0,o1,o2,len)=(000,0,0,0,9) fns=NullBuffer::union_many tier=thorough timeout=600 note=not_confirmed_under_load
inst!(nb_union_many_nnn_0_0_0_9, 12, union_many_grid::<false, false, false, 0, 0, 0, 9, 2>());
// @unit name=nb_union_many_sss_1_65_2_66 props=C19 kind=bounded bound=grid_(present,o0,o1,o2,len)=(111,1,65,2,66) fns=NullBuffer::union_many tier=thorough timeout=600 note=not_confirmed_under_load
inst!(nb_union_many_sss_1_65_2_66, 69, union_many_grid::<true, true, true, 1, 65, 2, 66, 17>());

fn contains_grid<const OL: usize, const OR: usize, const LEN: usize, const NL: usize, const NR: usize>() {
    let a: [u8; NL] = any_bytes();
    let b: [u8; NR] = any_bytes();
    skews().ubc(0, OL, LEN).ubc(0, OR, LEN).install();
    let l = NullBuffer::new(BooleanBuffer::new(mk(&a, 0), OL, LEN));
    let r = NullBuffer::new(BooleanBuffer::new(mk(&b, 0), OR, LEN));
    let got = l.contains(&r);
    // spec: every null of r is also a null of l
    let mut all = true;
    let mut k = 0;
    while k < LEN {
        if !bit(&b, OR + k) && bit(&a, OL + k) { all = false; }
        k += 1;
    }
    assert!(got == all);
    kani::cover!(got && r.null_count() > 0);
    kani::cover!(!got);
    kani::cover!(got && r.null_count() == 0);
}
// Contract (C19) NullBuffer::contains(&self, other) ("true if all nulls in other also exist in self"),
// equal lengths: true exactly when for every i, other.is_null(i) implies self.is_null(i).
// @unit name=nb_contains_3_5_12 props=C19 kind=bounded bound=grid_(ol,or,len)=(3,5,12) fns=NullBuffer::contains tier=thorough timeout=300 note=not_confirmed_under_load
inst!(nb_contains_3_5_12, 15, contains_grid::<3, 5, 12, 2, 3>());
// @unit name=nb_contains_0_9_65 props=C19 kind=bounded bound=grid_(ol,or,len)=(0,9,65) fns=NullBuffer::contains tier=thorough timeout=300 note=not_confirmed_under_load
inst!(nb_contains_0_9_65, 68, contains_grid::<0, 9, 65, 9, 10>());
// @unit name=nb_contains_0_0_64 props=C19 kind=bounded bound=grid_(ol,or,len)=(0,0,64) fns=NullBuffer::contains tier=thorough timeout=300 note=not_confirmed_under_load
inst!(nb_contains_0_0_64, 67, contains_grid::<0, 0, 64, 8, 8>());
// @unit name=nb_contains_63_1_130 props=C19 kind=bounded bound=grid_(ol,or,len)=(63,1,130) fns=NullBuffer::contains tier=thorough timeout=300 note=not_confirmed_under_load
inst!(nb_contains_63_1_130, 133, contains_grid::<63, 1, 130, 25, 17>());
// @unit name=nb_contains_0_0_0 props=C19 kind=bounded bound=grid_(ol,or,len)=(0,0,0) fns=NullBuffer::contains tier=thorough timeout=300 note=not_confirmed_under_load
inst!(nb_contains_0_0_0, 12, contains_grid::<0, 0, 0, 1, 1>());

fn expand_grid<const OFF: usize, const LEN: usize, const COUNT: usize, const N: usize>() {
    let a: [u8; N] = any_bytes();
    set_skews([(OFF / 8) % 8; 6]);
    let n = NullBuffer::new(BooleanBuffer::new(mk(&a, 0), OFF, LEN));
    let e = n.expand(COUNT);
    assert!(e.len() == LEN * COUNT);
    assert!(e.null_count() == (LEN - popcount(&a, OFF, LEN)) * COUNT);
    assert!(e.offset() + e.len() <= 8 * e.validity().len());
    if LEN * COUNT > 0 {
        let i: usize = kani::any();
        kani::assume(i < LEN * COUNT);
        assert!(e.is_valid(i) == bit(&a, OFF + i / COUNT));
        kani::cover!(e.is_valid(i) && i % COUNT == COUNT - 1);
        kani::cover!(!e.is_valid(i));
    }
    kani::cover!(e.len() == LEN * COUNT);
}
// Contract (C19/C01) NullBuffer::expand(count): length len*count, slot i of the result is valid exactly
// when slot i / count of self is valid, null_count is the exact number of null slots of the result.
// @unit name=nb_expand_3_5_3 props=C19,C01 kind=bounded bound=grid_(offset,len,count)=(3,5,3) fns=NullBuffer::expand tier=thorough timeout=400 note=not_confirmed_under_load
inst!(nb_expand_3_5_3, 18, expand_grid::<3, 5, 3, 1>());
// @unit name=nb_expand_0_9_1 props=C19,C01 kind=bounded bound=grid_(offset,len,count)=(0,9,1) fns=NullBuffer::expand tier=thorough timeout=400 note=not_confirmed_under_load
inst!(nb_expand_0_9_1, 12, expand_grid::<0, 9, 1, 2>());
// @unit name=nb_expand_5_4_0 props=C19,C01 kind=bounded bound=grid_(offset,len,count)=(5,4,0) fns=NullBuffer::expand tier=thorough timeout=400 note=not_confirmed_under_load
inst!(nb_expand_5_4_0, 12, expand_grid::<5, 4, 0, 2>());
// @unit name=nb_expand_61_6_2 props=C19,C01 kind=bounded bound=grid_(offset,len,count)=(61,6,2) fns=NullBuffer::expand tier=thorough timeout=400 note=not_confirmed_under_load
inst!(nb_expand_61_6_2, 15, expand_grid::<61, 6, 2, 9>());
// @unit name=nb_expand_0_0_3 props=C19,C01 kind=bounded bound=grid_(offset,len,count)=(0,0,3) fns=NullBuffer::expand tier=thorough timeout=400 note=not_confirmed_under_load
inst!(nb_expand_0_0_3, 12, expand_grid::<0, 0, 3, 1>());
// @unit name=nb_expand_2_22_3 props=C19,C01 kind=bounded bound=grid_(offset,len,count)=(2,22,3) fns=NullBuffer::expand tier=thorough timeout=400 note=not_confirmed_under_load
inst!(nb_expand_2_22_3, 69, expand_grid::<2, 22, 3, 3>());

fn slice_grid<const OFF: usize, const LEN: usize, const O: usize, const L: usize, const N: usize>() {
    let a: [u8; N] = any_bytes();
    skews().ubc(0, OFF, LEN).ubc(0, OFF + O, L).install();
    let n = NullBuffer::new(BooleanBuffer::new(mk(&a, 0), OFF, LEN));
    let s = n.slice(O, L);
    assert!(s.len() == L);
    assert!(s.null_count() == L - popcount(&a, OFF + O, L));
    if L > 0 {
        let i: usize = kani::any();
        kani::assume(i < L);
        assert!(s.is_valid(i) == bit(&a, OFF + O + i) && s.is_valid(i) == n.is_valid(O + i));
        kani::cover!(s.is_valid(i));
        kani::cover!(s.is_null(i));
    }
    kani::cover!(s.null_count() == 0 && n.null_count() > 0);
}
// Contract (C19/C01) NullBuffer::slice(o, l): length l, slot i = slot o+i of self, and the null count is
// recomputed exactly for the sub-range (nulls outside [o, o+l) are not counted).
// @unit name=nb_slice_3_20_5_9 props=C19,C01 kind=bounded bound=grid_(offset,len,slice_offset,slice_len)=(3,20,5,9) fns=NullBuffer::slice tier=thorough timeout=300 note=not_confirmed_under_load
inst!(nb_slice_3_20_5_9, 23, slice_grid::<3, 20, 5, 9, 3>());
// @unit name=nb_slice_0_130_63_66 props=C19,C01 kind=bounded bound=grid_(offset,len,slice_offset,slice_len)=(0,130,63,66) fns=NullBuffer::slice tier=thorough timeout=300 note=not_confirmed_under_load
inst!(nb_slice_0_130_63_66, 133, slice_grid::<0, 130, 63, 66, 17>());
// @unit name=nb_slice_5_70_70_0 props=C19,C01 kind=bounded bound=grid_(offset,len,slice_offset,slice_len)=(5,70,70,0) fns=NullBuffer::slice tier=thorough timeout=300 note=not_confirmed_under_load
inst!(nb_slice_5_70_70_0, 73, slice_grid::<5, 70, 70, 0, 10>());
// @unit name=nb_slice_1_64_0_64 props=C19,C01 kind=bounded bound=grid_(offset,len,slice_offset,slice_len)=(1,64,0,64) fns=NullBuffer::slice tier=thorough timeout=300 note=not_confirmed_under_load
inst!(nb_slice_1_64_0_64, 67, slice_grid::<1, 64, 0, 64, 9>());
// @unit name=nb_slice_130_200_1_130 props=C19,C01 kind=bounded bound=grid_(offset,len,slice_offset,slice_len)=(130,200,1,130) fns=NullBuffer::slice tier=thorough timeout=300 note=not_confirmed_under_load
inst!(nb_slice_130_200_1_130, 203, slice_grid::<130, 200, 1, 130, 42>());

fn iter_grid<const OFF: usize, const LEN: usize, const N: usize>() {
    let a: [u8; N] = any_bytes();
    set_skews([(OFF / 8) % 8; 6]);
    let n = NullBuffer::new(BooleanBuffer::new(mk(&a, 0), OFF, LEN));
    let mut it = n.iter();
    let mut i = 0;
    while i < LEN {
        assert!(it.next() == Some(bit(&a, OFF + i)));
        i += 1;
    }
    assert!(it.next().is_none());
    let mut next_expected = 0usize;
    let mut vi = n.valid_indices();
    let mut k = 0;
    while k <= LEN {
        match vi.next() {
            Some(idx) => {
                assert!(idx >= next_expected && idx < LEN && bit(&a, OFF + idx));
                let mut j = next_expected;
                while j < idx { assert!(!bit(&a, OFF + j)); j += 1; }
                next_expected = idx + 1;
            }
            None => {
                let mut j = next_expected;
                while j < LEN { assert!(!bit(&a, OFF + j)); j += 1; }
                next_expected = LEN + 1;
                break;
            }
        }
        k += 1;
    }
    assert!(next_expected == LEN + 1);
    kani::cover!(n.null_count() == 0);
    kani::cover!(n.null_count() == LEN);
}
// Contract (C19) NullBuffer::iter yields exactly len items, the i-th being is_valid(i); valid_indices
// yields exactly the positions of the valid slots in increasing order.
// @unit name=nb_iter_5_6 props=C19 kind=bounded bound=grid_(offset,len)=(5,6) fns=NullBuffer::iter,NullBuffer::valid_indices tier=thorough timeout=600 note=not_confirmed_under_load
inst!(nb_iter_5_6, 12, iter_grid::<5, 6, 3>());
// @unit name=nb_iter_61_6 props=C19 kind=bounded bound=grid_(offset,len)=(61,6) fns=NullBuffer::iter,NullBuffer::valid_indices tier=thorough timeout=600 note=not_confirmed_under_load
inst!(nb_iter_61_6, 12, iter_grid::<61, 6, 10>());
// @unit name=nb_iter_0_0 props=C19 kind=bounded bound=grid_(offset,len)=(0,0) fns=NullBuffer::iter,NullBuffer::valid_indices tier=thorough timeout=600 note=not_confirmed_under_load
inst!(nb_iter_0_0, 12, iter_grid::<0, 0, 2>());

fn valid_slices_grid<const OFF: usize, const LEN: usize, const N: usize>() {
    let a: [u8; N] = any_bytes();
    set_skews([(OFF / 8) % 8; 6]);
    let n = NullBuffer::new(BooleanBuffer::new(mk(&a, 0), OFF, LEN));
    let mut pos = 0usize;
    let mut ss = n.valid_slices();
    let mut k = 0;
    let mut finished = false;
    while k <= LEN {
        match ss.next() {
            Some((s, e)) => {
                assert!(s >= pos && s < e && e <= LEN);
                assert!(k == 0 || s > pos);
                let mut j = pos;
                while j < s { assert!(!bit(&a, OFF + j)); j += 1; }
                while j < e { assert!(bit(&a, OFF + j)); j += 1; }
                pos = e;
            }
            None => {
                let mut j = pos;
                while j < LEN { assert!(!bit(&a, OFF + j)); j += 1; }
                finished = true;
                break;
            }
        }
        k += 1;
    }
    assert!(finished);
    kani::cover!(n.null_count() == 0);
    kani::cover!(n.null_count() == LEN);
    kani::cover!(LEN < 3 || (n.is_valid(0) && n.is_null(1) && n.is_valid(2)));
}
// Contract (C19) NullBuffer::valid_slices yields, in order, the maximal runs [start, end) of valid slots.
// @unit name=nb_valid_slices_5_6 props=C19 kind=bounded bound=grid_(offset,len)=(5,6) fns=NullBuffer::valid_slices tier=thorough timeout=900 note=not_confirmed_under_load
inst!(nb_valid_slices_5_6, 12, valid_slices_grid::<5, 6, 3>());
// @unit name=nb_valid_slices_61_5 props=C19 kind=bounded bound=grid_(offset,len)=(61,5) fns=NullBuffer::valid_slices tier=thorough timeout=900 note=not_confirmed_under_load
inst!(nb_valid_slices_61_5, 12, valid_slices_grid::<61, 5, 10>());

fn try_for_each_grid<const OFF: usize, const LEN: usize, const N: usize>() {
    let a: [u8; N] = any_bytes();
    set_skews([(OFF / 8) % 8; 6]);
    let n = NullBuffer::new(BooleanBuffer::new(mk(&a, 0), OFF, LEN));
    let valid = popcount(&a, OFF, LEN);
    let fail_at: usize = kani::any(); // the fail_at-th call (1-based) returns Err; 0 = never
    let mut calls = 0usize;
    let mut next_expected = 0usize;
    let r = n.try_for_each_valid_idx(|idx| {
        // called on valid slots only, in increasing order, skipping none
        assert!(idx >= next_expected && idx < LEN && bit(&a, OFF + idx));
        let mut j = next_expected;
        while j < idx { assert!(!bit(&a, OFF + j)); j += 1; }
        next_expected = idx + 1;
        calls += 1;
        if calls == fail_at { Err(idx) } else { Ok(()) }
    });
    if fail_at >= 1 && fail_at <= valid {
        assert!(r.is_err() && calls == fail_at); // stops at the first error and reports it
        assert!(r == Err(next_expected - 1));
    } else {
        assert!(r.is_ok() && calls == valid); // every valid slot visited exactly once
    }
    kani::cover!(r.is_err() && calls > 1);
    kani::cover!(r.is_ok() && calls == 0 && LEN > 0);
    kani::cover!(r.is_ok() && calls == LEN);
}
// Contract (C19) NullBuffer::try_for_each_valid_idx(f): f is called exactly on the valid slots, in
// increasing order, none skipped; if the k-th call returns Err(e) the iteration stops there and
// Err(e) is returned after exactly k calls; otherwise Ok(()) after exactly (number of valid slots) calls.
// @unit name=nb_try_for_each_valid_idx_5_5 props=C19 kind=bounded bound=grid_(offset,len)=(5,5)_failing_call_symbolic fns=NullBuffer::try_for_each_valid_idx tier=thorough timeout=900 note=not_confirmed_under_load
inst!(nb_try_for_each_valid_idx_5_5, 12, try_for_each_grid::<5, 5, 3>());
// @unit name=nb_try_for_each_valid_idx_62_4 props=C19 kind=bounded bound=grid_(offset,len)=(62,4)_failing_call_symbolic fns=NullBuffer::try_for_each_valid_idx tier=thorough timeout=900 note=not_confirmed_under_load
inst!(nb_try_for_each_valid_idx_62_4, 12, try_for_each_grid::<62, 4, 10>());

fn unsliced_grid<const LEN: usize, const N: usize>() {
    let a: [u8; N] = any_bytes();
    set_skews([0; 6]);
    let r = NullBuffer::from_unsliced_buffer(Buffer::from_slice_ref(&a), LEN);
    let valid = popcount(&a, 0, LEN);
    match &r {
        None => assert!(valid == LEN),
        Some(n) => {
            assert!(valid < LEN && n.len() == LEN && n.offset() == 0 && n.null_count() == LEN - valid);
            let i: usize = kani::any();
            kani::assume(i < LEN);
            assert!(n.is_valid(i) == bit(&a, i));
            assert!(n.validity().len() == N && bit(n.validity(), i) == bit(&a, i) && n.buffer().len() == N);
        }
    }
    kani::cover!(r.is_none());
    kani::cover!(r.is_some());
}
// Contract (C19/C01) NullBuffer::from_unsliced_buffer(buf, len): None exactly when the first len bits are
// all set; otherwise Some(n) with offset 0, length len, validity == those bits, exact null count
// (bits >= len of the buffer are symbolic and not counted); validity()/buffer() expose the bytes.
// @unit name=nb_from_unsliced_buffer_12_2 props=C19,C01 kind=bounded bound=grid_(len,bytes)=(12,2) fns=NullBuffer::from_unsliced_buffer,NullBuffer::validity,NullBuffer::buffer tier=thorough timeout=300 note=not_confirmed_under_load
inst!(nb_from_unsliced_buffer_12_2, 15, unsliced_grid::<12, 2>());
// @unit name=nb_from_unsliced_buffer_65_9 props=C19,C01 kind=bounded bound=grid_(len,bytes)=(65,9) fns=NullBuffer::from_unsliced_buffer,NullBuffer::validity,NullBuffer::buffer tier=thorough timeout=300 note=not_confirmed_under_load
inst!(nb_from_unsliced_buffer_65_9, 68, unsliced_grid::<65, 9>());
// @unit name=nb_from_unsliced_buffer_0_1 props=C19,C01 kind=bounded bound=grid_(len,bytes)=(0,1) fns=NullBuffer::from_unsliced_buffer,NullBuffer::validity,NullBuffer::buffer tier=thorough timeout=300 note=not_confirmed_under_load
inst!(nb_from_unsliced_buffer_0_1, 12, unsliced_grid::<0, 1>());
// @unit name=nb_from_unsliced_buffer_130_17 props=C19,C01 kind=bounded bound=grid_(len,bytes)=(130,17) fns=NullBuffer::from_unsliced_buffer,NullBuffer::validity,NullBuffer::buffer tier=thorough timeout=300 note=not_confirmed_under_load
inst!(nb_from_unsliced_buffer_130_17, 133, unsliced_grid::<130, 17>());

fn nb_from_bools_grid<const LEN: usize, const VARIANT: u8>() {
    let m: [bool; LEN] = kani::any();
    set_skews([0; 6]);
    let n: NullBuffer = match VARIANT {
        0 => NullBuffer::from(&m[..]),
        1 => NullBuffer::from(&m),
        2 => NullBuffer::from(m.to_vec()),
        _ => m.iter().copied().collect(),
    };
    let mut nulls = 0usize;
    let mut k = 0;
    while k < LEN { if !m[k] { nulls += 1; } k += 1; }
    assert!(n.len() == LEN && n.null_count() == nulls);
    if LEN > 0 {
        let i: usize = kani::any();
        kani::assume(i < LEN);
        assert!(n.is_valid(i) == m[i]);
    }
    kani::cover!(nulls == 0);
    kani::cover!(nulls == LEN);
}
// Contract (C19/C01) NullBuffer::from(&[bool]) / from(&[bool; N]) / from(Vec<bool>) / FromIterator<bool>
// (VARIANT 0/1/2/3): length = number of items, slot i valid exactly when item i is true, exact null count.
// @unit name=nb_from_bools_9_3 props=C19,C01 kind=bounded bound=grid_(len,variant)=(9,3) fns=NullBuffer::from,NullBuffer::from_iter tier=thorough timeout=300 note=not_confirmed_under_load
inst!(nb_from_bools_9_3, 12, nb_from_bools_grid::<9, 3>());
// @unit name=nb_from_bools_9_0 props=C19,C01 kind=bounded bound=grid_(len,variant)=(9,0) fns=NullBuffer::from,NullBuffer::from_iter tier=thorough timeout=300 note=not_confirmed_under_load
inst!(nb_from_bools_9_0, 12, nb_from_bools_grid::<9, 0>());
// @unit name=nb_from_bools_9_1 props=C19,C01 kind=bounded bound=grid_(len,variant)=(9,1) fns=NullBuffer::from,NullBuffer::from_iter tier=thorough timeout=300 note=not_confirmed_under_load
inst!(nb_from_bools_9_1, 12, nb_from_bools_grid::<9, 1>());
// @unit name=nb_from_bools_9_2 props=C19,C01 kind=bounded bound=grid_(len,variant)=(9,2) fns=NullBuffer::from,NullBuffer::from_iter tier=thorough timeout=300 note=not_confirmed_under_load
inst!(nb_from_bools_9_2, 12, nb_from_bools_grid::<9, 2>());
// @unit name=nb_from_bools_65_3 props=C19,C01 kind=bounded bound=grid_(len,variant)=(65,3) fns=NullBuffer::from,NullBuffer::from_iter tier=thorough timeout=300 note=not_confirmed_under_load
inst!(nb_from_bools_65_3, 68, nb_from_bools_grid::<65, 3>());
// @unit name=nb_from_bools_0_0 props=C19,C01 kind=bounded bound=grid_(len,variant)=(0,0) fns=NullBuffer::from,NullBuffer::from_iter tier=thorough timeout=300 note=not_confirmed_under_load
inst!(nb_from_bools_0_0, 12, nb_from_bools_grid::<0, 0>());
