// Kani contract harnesses for /repo/arrow-buffer/src/buffer/boolean.rs (child module: sees private items via super::)
use super::*;
#[path = "/verif/kani/support/spec.rs"]
mod spec;
#[allow(unused_imports)]
use spec::*;

// ---------------------------------------------------------------------------------------------
// Shared harness helpers (spec side). Nothing here calls the code under test.
// ---------------------------------------------------------------------------------------------

/// N <= 64 fully symbolic bytes built without a loop (lets a harness use a small unwind bound).
#[allow(dead_code)]
fn any_bytes<const N: usize>() -> [u8; N] {
    let w: (u128, u128, u128, u128) = (kani::any(), kani::any(), kani::any(), kani::any());
    let full: [u8; 64] = unsafe { std::mem::transmute(w) };
    let mut out = [0u8; N];
    out.copy_from_slice(&full[..N]);
    out
}
#[allow(dead_code)]
fn mask(b: bool) -> u64 { if b { u64::MAX } else { 0 } }

// STUB (listed): `core::ptr::align_offset`, the single address-dependent step of
// `<[u8]>::align_to::<u64>()`. CBMC cannot constant-fold an address during symbolic execution, so
// without it every slice length after `align_to` is symbolic (measured: out of memory / > 5 min).
// The stub returns the exact value of the real function for a pointer whose address is congruent
// to the harness-supplied skew modulo 8, and it *asserts* that congruence on the real address, so
// nothing is assumed about the allocator; the rest of the real `align_to` runs unchanged.
// The k-th call uses ALIGN_SKEWS[k] (control flow is concrete, so k is concrete).
#[allow(dead_code)]
static mut ALIGN_SKEWS: [usize; 6] = [0; 6];
#[allow(dead_code)]
static mut ALIGN_CALLS: usize = 0;
#[allow(dead_code)]
fn set_skews(s: [usize; 6]) { unsafe { ALIGN_SKEWS = s; ALIGN_CALLS = 0; } }
/// builder for the list of expected `align_to` calls of one harness (bookkeeping only: a wrong
/// prediction makes the stub's address assertion fail, it can never hide a violation)
#[derive(Clone, Copy)]
#[allow(dead_code)]
struct Skews { s: [usize; 6], n: usize }
#[allow(dead_code)]
fn skews() -> Skews { Skews { s: [0; 6], n: 0 } }
#[allow(dead_code)]
impl Skews {
    /// one `align_to` call on a slice that starts `sk` bytes past an 8-byte aligned address
    fn raw(mut self, sk: usize) -> Self { self.s[self.n] = sk % 8; self.n += 1; self }
    /// the `align_to` call of `UnalignedBitChunk::new(bytes, off, len)` (made only when the addressed
    /// byte range is longer than 16 bytes), `bytes` starting `sk` bytes past an 8-byte aligned address
    fn ubc(self, sk: usize, off: usize, len: usize) -> Self {
        if len > 0 && (len + off % 8 + 7) / 8 > 16 { self.raw(sk + off / 8) } else { self }
    }
    fn install(self) { unsafe { ALIGN_SKEWS = self.s; ALIGN_CALLS = 0; } }
}
#[allow(dead_code)]
unsafe fn stub_align_offset<T>(p: *const T, a: usize) -> usize {
    assert!(std::mem::size_of::<T>() == 1 && a == 8);
    let k = unsafe { ALIGN_CALLS };
    assert!(k < 6);
    unsafe { ALIGN_CALLS = k + 1 };
    let skew = unsafe { ALIGN_SKEWS[k] } % a;
    assert!((p as usize) % a == skew);
    (a - skew) % a
}
macro_rules! inst {
    ($name:ident, $unwind:expr, $call:expr) => {
        #[kani::proof]
        #[kani::unwind($unwind)]
        #[kani::stub(core::ptr::align_offset, stub_align_offset)]
        fn $name() { $call }
    };
}

/// symbolic bytes `a` as an arrow Buffer whose data pointer is `sk` bytes past a 64-byte aligned
/// allocation start (sk % 8 != 0 makes `align_to::<u64>` return a non-empty prefix)
fn mk(a: &[u8], sk: usize) -> Buffer { Buffer::from_slice_ref(a).slice(sk) }

// =============================================================================================
// BooleanBuffer::new
// =============================================================================================

// Contract (C19/C01) BooleanBuffer::new, acceptance direction: for every buffer of n <= 8 bytes and
// every (offset, len) over the full usize range with offset + len <= 8n (computed in u128, i.e. no
// overflow), `new` returns (does not panic) a buffer with exactly that offset and length whose
// bit i is bit offset+i of the bytes.
// @unit name=bb_new_accepts props=C19,C01 kind=bounded bound=buffer_bytes<=8_(offset,len_full_usize_range) fns=BooleanBuffer::new,BooleanBuffer::value,BooleanBuffer::len,BooleanBuffer::offset timeout=120
inst!(bb_new_accepts, 4, {
    let a: [u8; 8] = any_bytes();
    let n: usize = kani::any();
    kani::assume(n <= 8);
    let buf = Buffer::from_slice_ref(&a).slice_with_length(0, n);
    let (off, len): (usize, usize) = (kani::any(), kani::any());
    kani::assume(off as u128 + len as u128 <= 8 * n as u128);
    let b = BooleanBuffer::new(buf, off, len);
    assert!(b.offset() == off && b.len() == len && b.is_empty() == (len == 0));
    let i: usize = kani::any();
    if i < len {
        assert!(b.value(i) == bit(&a, off + i));
        kani::cover!(b.value(i) && off > 0 && i > 0);
    }
    kani::cover!(len == 0 && off == 8 * n);
    kani::cover!(len == 64);
});

// Contract (C19/C01) BooleanBuffer::new, rejection direction (may-reject reading): whenever `new`
// returns, offset + len <= 8 * bytes holds mathematically (so a wrapped sum is never accepted);
// panicking is the only other outcome.
// @unit name=bb_new_rejects props=C19,C01 kind=bounded bound=buffer_bytes<=8_(offset,len_full_usize_range) fns=BooleanBuffer::new timeout=120 mayreject=1
#[kani::proof]
#[kani::unwind(4)]
#[kani::stub(alloc::fmt::format, stub_format)]
fn bb_new_rejects() {
    let a: [u8; 8] = any_bytes();
    let n: usize = kani::any();
    kani::assume(n <= 8);
    let buf = Buffer::from_slice_ref(&a).slice_with_length(0, n);
    let (off, len): (usize, usize) = (kani::any(), kani::any());
    let b = BooleanBuffer::new(buf, off, len);
    assert!(off as u128 + len as u128 <= 8 * n as u128);
    kani::cover!(b.len() == 64);
    kani::cover!(b.len() == 0 && b.offset() == 64);
}

// =============================================================================================
// new_set / new_unset
// =============================================================================================

fn new_const_grid<const SET: bool, const LEN: usize>() {
    let b = if SET { BooleanBuffer::new_set(LEN) } else { BooleanBuffer::new_unset(LEN) };
    assert!(b.len() == LEN);
    assert!(b.offset() + LEN <= 8 * b.values().len());
    set_skews([b.offset() / 8 % 8; 6]);
    assert!(b.count_set_bits() == if SET { LEN } else { 0 });
    if LEN > 0 {
        let i: usize = kani::any();
        kani::assume(i < LEN);
        assert!(b.value(i) == SET);
    }
    kani::cover!(b.len() == LEN);
}
// Contract (C19) BooleanBuffer::new_set(n) / new_unset(n): length n, every bit i < n is true / false,
// count_set_bits is n / 0, and the bit range lies inside the byte buffer.
// @unit name=bb_new_set_0 props=C19,C01 kind=bounded bound=grid_len=0 fns=BooleanBuffer::new_set timeout=120
inst!(bb_new_set_0, 6, new_const_grid::<true, 0>());
// @unit name=bb_new_unset_0 props=C19,C01 kind=bounded bound=grid_len=0 fns=BooleanBuffer::new_unset timeout=120
inst!(bb_new_unset_0, 6, new_const_grid::<false, 0>());
// @unit name=bb_new_set_1 props=C19,C01 kind=bounded bound=grid_len=1 fns=BooleanBuffer::new_set tier=thorough timeout=120
inst!(bb_new_set_1, 6, new_const_grid::<true, 1>());
// @unit name=bb_new_unset_1 props=C19,C01 kind=bounded bound=grid_len=1 fns=BooleanBuffer::new_unset tier=thorough timeout=120
inst!(bb_new_unset_1, 6, new_const_grid::<false, 1>());
// @unit name=bb_new_set_7 props=C19,C01 kind=bounded bound=grid_len=7 fns=BooleanBuffer::new_set tier=thorough timeout=120
inst!(bb_new_set_7, 6, new_const_grid::<true, 7>());
// @unit name=bb_new_unset_7 props=C19,C01 kind=bounded bound=grid_len=7 fns=BooleanBuffer::new_unset tier=thorough timeout=120
inst!(bb_new_unset_7, 6, new_const_grid::<false, 7>());
// @unit name=bb_new_set_8 props=C19,C01 kind=bounded bound=grid_len=8 fns=BooleanBuffer::new_set tier=thorough timeout=120
inst!(bb_new_set_8, 6, new_const_grid::<true, 8>());
// @unit name=bb_new_unset_8 props=C19,C01 kind=bounded bound=grid_len=8 fns=BooleanBuffer::new_unset tier=thorough timeout=120
inst!(bb_new_unset_8, 6, new_const_grid::<false, 8>());
// @unit name=bb_new_set_9 props=C19,C01 kind=bounded bound=grid_len=9 fns=BooleanBuffer::new_set tier=thorough timeout=120
inst!(bb_new_set_9, 6, new_const_grid::<true, 9>());
// @unit name=bb_new_unset_9 props=C19,C01 kind=bounded bound=grid_len=9 fns=BooleanBuffer::new_unset tier=thorough timeout=120
inst!(bb_new_unset_9, 6, new_const_grid::<false, 9>());
// @unit name=bb_new_set_63 props=C19,C01 kind=bounded bound=grid_len=63 fns=BooleanBuffer::new_set tier=thorough timeout=120
inst!(bb_new_set_63, 6, new_const_grid::<true, 63>());
// @unit name=bb_new_unset_63 props=C19,C01 kind=bounded bound=grid_len=63 fns=BooleanBuffer::new_unset tier=thorough timeout=120
inst!(bb_new_unset_63, 6, new_const_grid::<false, 63>());
// @unit name=bb_new_set_64 props=C19,C01 kind=bounded bound=grid_len=64 fns=BooleanBuffer::new_set tier=thorough timeout=120
inst!(bb_new_set_64, 6, new_const_grid::<true, 64>());
// @unit name=bb_new_unset_64 props=C19,C01 kind=bounded bound=grid_len=64 fns=BooleanBuffer::new_unset tier=thorough timeout=120
inst!(bb_new_unset_64, 6, new_const_grid::<false, 64>());
// @unit name=bb_new_set_65 props=C19,C01 kind=bounded bound=grid_len=65 fns=BooleanBuffer::new_set timeout=120
inst!(bb_new_set_65, 6, new_const_grid::<true, 65>());
// @unit name=bb_new_unset_65 props=C19,C01 kind=bounded bound=grid_len=65 fns=BooleanBuffer::new_unset timeout=120
inst!(bb_new_unset_65, 6, new_const_grid::<false, 65>());
// @unit name=bb_new_set_127 props=C19,C01 kind=bounded bound=grid_len=127 fns=BooleanBuffer::new_set tier=thorough timeout=120
inst!(bb_new_set_127, 6, new_const_grid::<true, 127>());
// @unit name=bb_new_unset_127 props=C19,C01 kind=bounded bound=grid_len=127 fns=BooleanBuffer::new_unset tier=thorough timeout=120
inst!(bb_new_unset_127, 6, new_const_grid::<false, 127>());
// @unit name=bb_new_set_128 props=C19,C01 kind=bounded bound=grid_len=128 fns=BooleanBuffer::new_set tier=thorough timeout=120
inst!(bb_new_set_128, 6, new_const_grid::<true, 128>());
// @unit name=bb_new_unset_128 props=C19,C01 kind=bounded bound=grid_len=128 fns=BooleanBuffer::new_unset tier=thorough timeout=120
inst!(bb_new_unset_128, 6, new_const_grid::<false, 128>());
// @unit name=bb_new_set_129 props=C19,C01 kind=bounded bound=grid_len=129 fns=BooleanBuffer::new_set tier=thorough timeout=120
inst!(bb_new_set_129, 6, new_const_grid::<true, 129>());
// @unit name=bb_new_unset_129 props=C19,C01 kind=bounded bound=grid_len=129 fns=BooleanBuffer::new_unset tier=thorough timeout=120
inst!(bb_new_unset_129, 6, new_const_grid::<false, 129>());
// @unit name=bb_new_set_200 props=C19,C01 kind=bounded bound=grid_len=200 fns=BooleanBuffer::new_set tier=thorough timeout=120
inst!(bb_new_set_200, 6, new_const_grid::<true, 200>());
// @unit name=bb_new_unset_200 props=C19,C01 kind=bounded bound=grid_len=200 fns=BooleanBuffer::new_unset tier=thorough timeout=120
inst!(bb_new_unset_200, 6, new_const_grid::<false, 200>());

// =============================================================================================
// slice / value
// =============================================================================================

// Contract (C19) BooleanBuffer::slice + value: on a 12-byte buffer with arbitrary (offset, len)
// accepted by `new`, for every (o, l) with o + l <= len, slice(o, l) has length l and its bit i is bit
// offset+o+i of the bytes (the slice addresses exactly the requested sub-range; all other bits are
// symbolic and do not influence it); offset and length are fully symbolic (nothing is allocated).
// @unit name=bb_slice_value props=C19,C01 kind=bounded bound=buffer_bytes=12_(offset,len,slice_offset,slice_len_symbolic) fns=BooleanBuffer::slice,BooleanBuffer::value,BooleanBuffer::len timeout=200
inst!(bb_slice_value, 4, {
    let a: [u8; 12] = any_bytes();
    let (off, len): (usize, usize) = (kani::any(), kani::any());
    kani::assume(off <= 96 && len <= 96 - off);
    let b = BooleanBuffer::new(Buffer::from_slice_ref(&a), off, len);
    let (o, l): (usize, usize) = (kani::any(), kani::any());
    kani::assume(o <= len && l <= len - o);
    let s = b.slice(o, l);
    assert!(s.len() == l && s.offset() == off + o);
    let i: usize = kani::any();
    if i < l {
        assert!(s.value(i) == bit(&a, off + o + i));
        assert!(s.value(i) == b.value(o + i));
        kani::cover!(s.value(i) && o % 8 == 3 && i == 64);
    }
    kani::cover!(l == 0 && o == len);
});

// Contract (C19) BooleanBuffer::slice rejection direction (may-reject): if slice(o, l) returns then
// o + l <= len mathematically, for all usize o, l (a wrapped o + l is never accepted).
// @unit name=bb_slice_rejects props=C19,C01 kind=bounded bound=buffer_bytes=12 fns=BooleanBuffer::slice timeout=200 mayreject=1
#[kani::proof]
#[kani::unwind(4)]
#[kani::stub(alloc::fmt::format, stub_format)]
fn bb_slice_rejects() {
    let a: [u8; 12] = any_bytes();
    let (off, len): (usize, usize) = (kani::any(), kani::any());
    kani::assume(off <= 96 && len <= 96 - off);
    let b = BooleanBuffer::new(Buffer::from_slice_ref(&a), off, len);
    let (o, l): (usize, usize) = (kani::any(), kani::any());
    let s = b.slice(o, l);
    assert!(o as u128 + l as u128 <= len as u128);
    kani::cover!(s.len() == 0);
    kani::cover!(s.len() == 96);
}

// =============================================================================================
// count_set_bits / has_true / has_false
// =============================================================================================

fn readers_grid<const OFF: usize, const LEN: usize, const N: usize, const SK: usize>() {
    let a: [u8; N] = any_bytes();
    let x = BooleanBuffer::new(mk(&a, SK), OFF, LEN);
    set_skews([(SK + OFF / 8) % 8; 6]);
    let mut cnt = 0usize;
    let mut i = 0;
    while i < LEN {
        if bit(&a, 8 * SK + OFF + i) { cnt += 1; }
        i += 1;
    }
    assert!(x.count_set_bits() == cnt);
    assert!(x.has_true() == (cnt > 0));
    assert!(x.has_false() == (cnt < LEN));
    kani::cover!(cnt == LEN);
    kani::cover!(cnt == 0);
    kani::cover!(LEN < 2 || (cnt > 0 && cnt < LEN));
}
// Contract (C19) count_set_bits / has_true / has_false: equal to the number of true values / "some value
// is true" / "some value is false" of the addressed bit sequence (naive loop over the model); all
// bytes, including the bits before `offset`, after `offset+len` and the skipped bytes, are symbolic,
// so the results provably do not depend on bits outside the addressed range.
// @unit name=bb_readers_0_0_1_0 props=C19 kind=bounded bound=grid_(offset,len,bytes,ptr_skew)=(0,0,1,0) fns=BooleanBuffer::count_set_bits,BooleanBuffer::has_true,BooleanBuffer::has_false timeout=1500
inst!(bb_readers_0_0_1_0, 8, readers_grid::<0, 0, 1, 0>());
// @unit name=bb_readers_3_2_1_0 props=C19 kind=bounded bound=grid_(offset,len,bytes,ptr_skew)=(3,2,1,0) fns=BooleanBuffer::count_set_bits,BooleanBuffer::has_true,BooleanBuffer::has_false tier=thorough timeout=1500
inst!(bb_readers_3_2_1_0, 8, readers_grid::<3, 2, 1, 0>());
// @unit name=bb_readers_5_59_8_0 props=C19 kind=bounded bound=grid_(offset,len,bytes,ptr_skew)=(5,59,8,0) fns=BooleanBuffer::count_set_bits,BooleanBuffer::has_true,BooleanBuffer::has_false timeout=1500
inst!(bb_readers_5_59_8_0, 62, readers_grid::<5, 59, 8, 0>());
// @unit name=bb_readers_0_64_8_0 props=C19 kind=bounded bound=grid_(offset,len,bytes,ptr_skew)=(0,64,8,0) fns=BooleanBuffer::count_set_bits,BooleanBuffer::has_true,BooleanBuffer::has_false tier=thorough timeout=1500
inst!(bb_readers_0_64_8_0, 67, readers_grid::<0, 64, 8, 0>());
// @unit name=bb_readers_1_64_9_0 props=C19 kind=bounded bound=grid_(offset,len,bytes,ptr_skew)=(1,64,9,0) fns=BooleanBuffer::count_set_bits,BooleanBuffer::has_true,BooleanBuffer::has_false timeout=1500
inst!(bb_readers_1_64_9_0, 67, readers_grid::<1, 64, 9, 0>());
// @unit name=bb_readers_7_121_16_0 props=C19 kind=bounded bound=grid_(offset,len,bytes,ptr_skew)=(7,121,16,0) fns=BooleanBuffer::count_set_bits,BooleanBuffer::has_true,BooleanBuffer::has_false tier=thorough timeout=1500
inst!(bb_readers_7_121_16_0, 124, readers_grid::<7, 121, 16, 0>());
// @unit name=bb_readers_0_129_17_0 props=C19 kind=bounded bound=grid_(offset,len,bytes,ptr_skew)=(0,129,17,0) fns=BooleanBuffer::count_set_bits,BooleanBuffer::has_true,BooleanBuffer::has_false timeout=1500
inst!(bb_readers_0_129_17_0, 132, readers_grid::<0, 129, 17, 0>());
// @unit name=bb_readers_3_130_24_0 props=C19 kind=bounded bound=grid_(offset,len,bytes,ptr_skew)=(3,130,24,0) fns=BooleanBuffer::count_set_bits,BooleanBuffer::has_true,BooleanBuffer::has_false timeout=1500
inst!(bb_readers_3_130_24_0, 133, readers_grid::<3, 130, 24, 0>());
// @unit name=bb_readers_8_136_19_0 props=C19 kind=bounded bound=grid_(offset,len,bytes,ptr_skew)=(8,136,19,0) fns=BooleanBuffer::count_set_bits,BooleanBuffer::has_true,BooleanBuffer::has_false tier=thorough timeout=1500
inst!(bb_readers_8_136_19_0, 139, readers_grid::<8, 136, 19, 0>());
// @unit name=bb_readers_13_140_22_2 props=C19 kind=bounded bound=grid_(offset,len,bytes,ptr_skew)=(13,140,22,2) fns=BooleanBuffer::count_set_bits,BooleanBuffer::has_true,BooleanBuffer::has_false timeout=1500
inst!(bb_readers_13_140_22_2, 143, readers_grid::<13, 140, 22, 2>());
// @unit name=bb_readers_64_128_24_0 props=C19 kind=bounded bound=grid_(offset,len,bytes,ptr_skew)=(64,128,24,0) fns=BooleanBuffer::count_set_bits,BooleanBuffer::has_true,BooleanBuffer::has_false tier=thorough timeout=1500
inst!(bb_readers_64_128_24_0, 131, readers_grid::<64, 128, 24, 0>());
// @unit name=bb_readers_65_200_34_0 props=C19 kind=bounded bound=grid_(offset,len,bytes,ptr_skew)=(65,200,34,0) fns=BooleanBuffer::count_set_bits,BooleanBuffer::has_true,BooleanBuffer::has_false tier=thorough timeout=1500
inst!(bb_readers_65_200_34_0, 203, readers_grid::<65, 200, 34, 0>());
// @unit name=bb_readers_130_200_42_0 props=C19 kind=bounded bound=grid_(offset,len,bytes,ptr_skew)=(130,200,42,0) fns=BooleanBuffer::count_set_bits,BooleanBuffer::has_true,BooleanBuffer::has_false tier=thorough timeout=1500 note=not_confirmed_under_load
inst!(bb_readers_130_200_42_0, 203, readers_grid::<130, 200, 42, 0>());
// @unit name=bb_readers_63_65_17_1 props=C19 kind=bounded bound=grid_(offset,len,bytes,ptr_skew)=(63,65,17,1) fns=BooleanBuffer::count_set_bits,BooleanBuffer::has_true,BooleanBuffer::has_false tier=thorough timeout=1500
inst!(bb_readers_63_65_17_1, 68, readers_grid::<63, 65, 17, 1>());

fn readers_big<const OFF: usize, const LEN: usize, const N: usize>() {
    let a: [u8; N] = kani::any();
    let x = BooleanBuffer::new(mk(&a, 0), OFF, LEN);
    set_skews([(OFF / 8) % 8; 6]);
    let (mut any_true, mut any_false) = (false, false);
    let mut i = 0;
    while i < LEN {
        if bit(&a, OFF + i) { any_true = true; } else { any_false = true; }
        i += 1;
    }
    assert!(x.has_true() == any_true);
    assert!(x.has_false() == any_false);
    kani::cover!(!any_false);
    kani::cover!(!any_true);
    kani::cover!(any_true && any_false);
}
// Contract (C19) has_true / has_false on long buffers (more than 16 whole 64-bit chunks after the prefix,
// so the 16-chunk block folds (CHUNK_FOLD_BLOCK_SIZE) and their remainders are executed): true exactly
// when some addressed value is true / false; every byte symbolic, including bits outside the range.
// @unit name=bb_readers_big_0_1100 props=C19 kind=bounded bound=grid_(offset,len,bytes)=(0,1100,138) fns=BooleanBuffer::has_true,BooleanBuffer::has_false tier=thorough timeout=1500 mem=6 note=not_confirmed_under_load
inst!(bb_readers_big_0_1100, 1103, readers_big::<0, 1100, 138>());
// @unit name=bb_readers_big_5_1090 props=C19 kind=bounded bound=grid_(offset,len,bytes)=(5,1090,140) fns=BooleanBuffer::has_true,BooleanBuffer::has_false tier=thorough timeout=1500 mem=6 note=not_confirmed_under_load
inst!(bb_readers_big_5_1090, 1093, readers_big::<5, 1090, 140>());

// =============================================================================================
// find_nth_set_bit_position
// =============================================================================================

fn find_nth_grid<const OFF: usize, const LEN: usize, const N: usize, const START: usize, const NTH: usize>() {
    let a: [u8; N] = any_bytes();
    let x = BooleanBuffer::new(mk(&a, 0), OFF, LEN);
    set_skews([((OFF + START) / 8) % 8; 6]);
    let r = x.find_nth_set_bit_position(START, NTH);
    // spec: scan the model from START; the answer is one past the NTH-th true value, or LEN
    let mut seen = 0usize;
    let mut expect = if NTH == 0 { START } else { LEN };
    let mut done = NTH == 0;
    let mut i = START;
    while i < LEN {
        if !done && bit(&a, OFF + i) {
            seen += 1;
            if seen == NTH { expect = i + 1; done = true; }
        }
        i += 1;
    }
    assert!(r == expect);
    kani::cover!(NTH == 0 || START == LEN || (r == LEN && !done));
    kani::cover!(NTH == 0 || NTH >= LEN - START || (done && r < LEN));
    kani::cover!(NTH == 0 || NTH > LEN - START || (done && r == LEN));
}
// Contract (C19) find_nth_set_bit_position(start, n): n == 0 gives start; otherwise one past the position
// of the n-th true value at or after `start`, or len() when fewer than n true values remain
// (contents symbolic; start <= len and n concrete per instance).
// @unit name=bb_find_nth_3_9_2_1 props=C19 kind=bounded bound=grid_(offset,len,start,n)=(3,9,2,1) fns=BooleanBuffer::find_nth_set_bit_position timeout=1500
inst!(bb_find_nth_3_9_2_1, 12, find_nth_grid::<3, 9, 2, 2, 1>());
// @unit name=bb_find_nth_60_8_1_2 props=C19 kind=bounded bound=grid_(offset,len,start,n)=(60,8,1,2) fns=BooleanBuffer::find_nth_set_bit_position tier=thorough timeout=1500
inst!(bb_find_nth_60_8_1_2, 11, find_nth_grid::<60, 8, 9, 1, 2>());
// @unit name=bb_find_nth_0_8_0_3 props=C19 kind=bounded bound=grid_(offset,len,start,n)=(0,8,0,3) fns=BooleanBuffer::find_nth_set_bit_position tier=thorough timeout=1500
inst!(bb_find_nth_0_8_0_3, 11, find_nth_grid::<0, 8, 1, 0, 3>());
// @unit name=bb_find_nth_5_12_12_1 props=C19 kind=bounded bound=grid_(offset,len,start,n)=(5,12,12,1) fns=BooleanBuffer::find_nth_set_bit_position tier=thorough timeout=1500
inst!(bb_find_nth_5_12_12_1, 15, find_nth_grid::<5, 12, 3, 12, 1>());
// @unit name=bb_find_nth_3_9_4_0 props=C19 kind=bounded bound=grid_(offset,len,start,n)=(3,9,4,0) fns=BooleanBuffer::find_nth_set_bit_position tier=thorough timeout=1500
inst!(bb_find_nth_3_9_4_0, 12, find_nth_grid::<3, 9, 2, 4, 0>());
// @unit name=bb_find_nth_61_6_0_6 props=C19 kind=bounded bound=grid_(offset,len,start,n)=(61,6,0,6) fns=BooleanBuffer::find_nth_set_bit_position tier=thorough timeout=1500
inst!(bb_find_nth_61_6_0_6, 9, find_nth_grid::<61, 6, 9, 0, 6>());

// =============================================================================================
// from_bitwise_unary_op / from_bits / Not
// =============================================================================================

fn unary_grid<const OFF: usize, const LEN: usize, const N: usize, const SK: usize>() {
    let a: [u8; N] = any_bytes();
    let t: [bool; 2] = [kani::any(), kani::any()];
    let buf = mk(&a, SK);
    set_skews([SK % 8; 6]);
    let (m0, m1) = (mask(t[0]), mask(t[1]));
    let z = BooleanBuffer::from_bitwise_unary_op(&buf, OFF, LEN, |x| (m0 & !x) | (m1 & x));
    assert!(z.len() == LEN);
    assert!(z.offset() + LEN <= 8 * z.values().len());
    let (mut c1, mut c2) = (LEN == 0, LEN == 0);
    if LEN > 0 {
        let i: usize = kani::any();
        kani::assume(i < LEN);
        assert!(z.value(i) == t[bit(&a, 8 * SK + OFF + i) as usize]);
        c1 = z.value(i) && !t[0];
        c2 = !z.value(i) && t[0];
    }
    kani::cover!(c1);
    kani::cover!(c2);
}
// Contract (C19) from_bitwise_unary_op(src, offset, len, op) for each of the 4 uniform bitwise unary
// operations op (truth table t symbolic: identity, not, const-0, const-1): the result has length len,
// lies inside its byte buffer, and bit i equals t[bit offset+i of src] for every i < len. All src
// bytes (also outside the addressed range, which the code does feed to `op`) are symbolic.
// @unit name=bb_unary_0_64_8_0 props=C19 kind=bounded bound=grid_(offset,len,bytes,ptr_skew)=(0,64,8,0)_path=aligned_exact fns=BooleanBuffer::from_bitwise_unary_op timeout=240
inst!(bb_unary_0_64_8_0, 10, unary_grid::<0, 64, 8, 0>());
// @unit name=bb_unary_3_70_16_0 props=C19 kind=bounded bound=grid_(offset,len,bytes,ptr_skew)=(3,70,16,0)_path=aligned_exact fns=BooleanBuffer::from_bitwise_unary_op timeout=240
inst!(bb_unary_3_70_16_0, 10, unary_grid::<3, 70, 16, 0>());
// @unit name=bb_unary_3_70_10_0 props=C19 kind=bounded bound=grid_(offset,len,bytes,ptr_skew)=(3,70,10,0)_path=aligned_suffix fns=BooleanBuffer::from_bitwise_unary_op timeout=240
inst!(bb_unary_3_70_10_0, 10, unary_grid::<3, 70, 10, 0>());
// @unit name=bb_unary_65_63_16_0 props=C19 kind=bounded bound=grid_(offset,len,bytes,ptr_skew)=(65,63,16,0)_path=aligned_exact fns=BooleanBuffer::from_bitwise_unary_op tier=thorough timeout=240
inst!(bb_unary_65_63_16_0, 10, unary_grid::<65, 63, 16, 0>());
// @unit name=bb_unary_64_65_17_0 props=C19 kind=bounded bound=grid_(offset,len,bytes,ptr_skew)=(64,65,17,0)_path=aligned_suffix fns=BooleanBuffer::from_bitwise_unary_op timeout=240
inst!(bb_unary_64_65_17_0, 10, unary_grid::<64, 65, 17, 0>());
// @unit name=bb_unary_3_70_11_1 props=C19 kind=bounded bound=grid_(offset,len,bytes,ptr_skew)=(3,70,11,1)_path=unaligned_chunks_rem fns=BooleanBuffer::from_bitwise_unary_op timeout=240
inst!(bb_unary_3_70_11_1, 10, unary_grid::<3, 70, 11, 1>());
// @unit name=bb_unary_5_120_19_3 props=C19 kind=bounded bound=grid_(offset,len,bytes,ptr_skew)=(5,120,19,3)_path=unaligned_chunks fns=BooleanBuffer::from_bitwise_unary_op tier=thorough timeout=240
inst!(bb_unary_5_120_19_3, 10, unary_grid::<5, 120, 19, 3>());
// @unit name=bb_unary_0_0_1_0 props=C19 kind=bounded bound=grid_(offset,len,bytes,ptr_skew)=(0,0,1,0)_path=aligned_exact fns=BooleanBuffer::from_bitwise_unary_op tier=thorough timeout=240
inst!(bb_unary_0_0_1_0, 10, unary_grid::<0, 0, 1, 0>());
// @unit name=bb_unary_7_1_1_0 props=C19 kind=bounded bound=grid_(offset,len,bytes,ptr_skew)=(7,1,1,0)_path=aligned_suffix fns=BooleanBuffer::from_bitwise_unary_op tier=thorough timeout=240
inst!(bb_unary_7_1_1_0, 10, unary_grid::<7, 1, 1, 0>());
// @unit name=bb_unary_63_2_9_0 props=C19 kind=bounded bound=grid_(offset,len,bytes,ptr_skew)=(63,2,9,0)_path=aligned_suffix fns=BooleanBuffer::from_bitwise_unary_op tier=thorough timeout=240
inst!(bb_unary_63_2_9_0, 10, unary_grid::<63, 2, 9, 0>());
// @unit name=bb_unary_127_130_33_0 props=C19 kind=bounded bound=grid_(offset,len,bytes,ptr_skew)=(127,130,33,0)_path=aligned_suffix fns=BooleanBuffer::from_bitwise_unary_op tier=thorough timeout=240
inst!(bb_unary_127_130_33_0, 10, unary_grid::<127, 130, 33, 0>());
// @unit name=bb_unary_130_200_42_0 props=C19 kind=bounded bound=grid_(offset,len,bytes,ptr_skew)=(130,200,42,0)_path=aligned_suffix fns=BooleanBuffer::from_bitwise_unary_op tier=thorough timeout=240
inst!(bb_unary_130_200_42_0, 10, unary_grid::<130, 200, 42, 0>());
// @unit name=bb_unary_129_127_40_0 props=C19 kind=bounded bound=grid_(offset,len,bytes,ptr_skew)=(129,127,40,0)_path=aligned_exact fns=BooleanBuffer::from_bitwise_unary_op tier=thorough timeout=240
inst!(bb_unary_129_127_40_0, 10, unary_grid::<129, 127, 40, 0>());
// @unit name=bb_unary_9_200_28_1 props=C19 kind=bounded bound=grid_(offset,len,bytes,ptr_skew)=(9,200,28,1)_path=unaligned_chunks_rem fns=BooleanBuffer::from_bitwise_unary_op tier=thorough timeout=240
inst!(bb_unary_9_200_28_1, 10, unary_grid::<9, 200, 28, 1>());

fn not_grid<const OFF: usize, const LEN: usize, const N: usize, const SK: usize>() {
    let a: [u8; N] = any_bytes();
    let x = BooleanBuffer::new(mk(&a, SK), OFF, LEN);
    set_skews([SK % 8; 6]);
    let z = !&x;
    let c = BooleanBuffer::from_bits(x.values(), OFF, LEN);
    assert!(z.len() == LEN && c.len() == LEN);
    assert!(z.offset() + LEN <= 8 * z.values().len() && c.offset() + LEN <= 8 * c.values().len());
    let i: usize = kani::any();
    kani::assume(i < LEN);
    assert!(z.value(i) == !bit(&a, 8 * SK + OFF + i));
    assert!(c.value(i) == bit(&a, 8 * SK + OFF + i));
    assert!(x.value(i) == bit(&a, 8 * SK + OFF + i));
    kani::cover!(z.value(i));
    kani::cover!(!z.value(i));
}
// Contract (C19) `!&BooleanBuffer` and BooleanBuffer::from_bits: value i of the result is the negation /
// a copy of value i of the operand, same length; the operand is unchanged.
// @unit name=bb_not_3_70_10_0 props=C19 kind=bounded bound=grid_(offset,len,bytes,ptr_skew)=(3,70,10,0)_path=aligned_suffix fns=BooleanBuffer::not,BooleanBuffer::from_bits timeout=300
inst!(bb_not_3_70_10_0, 10, not_grid::<3, 70, 10, 0>());
// @unit name=bb_not_0_64_8_0 props=C19 kind=bounded bound=grid_(offset,len,bytes,ptr_skew)=(0,64,8,0)_path=aligned_exact fns=BooleanBuffer::not,BooleanBuffer::from_bits tier=thorough timeout=300
inst!(bb_not_0_64_8_0, 10, not_grid::<0, 64, 8, 0>());
// @unit name=bb_not_9_65_11_1 props=C19 kind=bounded bound=grid_(offset,len,bytes,ptr_skew)=(9,65,11,1)_path=unaligned_chunks_rem fns=BooleanBuffer::not,BooleanBuffer::from_bits tier=thorough timeout=300
inst!(bb_not_9_65_11_1, 10, not_grid::<9, 65, 11, 1>());

// =============================================================================================
// from_bitwise_binary_op, & | ^
// =============================================================================================

/// one of the 16 uniform bitwise binary operations, selected by its truth table t[2a+b]
fn tt2(t: [bool; 4]) -> impl Fn(u64, u64) -> u64 {
    let (t0, t1, t2, t3) = (mask(t[0]), mask(t[1]), mask(t[2]), mask(t[3]));
    move |a, b| (t0 & !a & !b) | (t1 & !a & b) | (t2 & a & !b) | (t3 & a & b)
}

fn bin_grid<const OL: usize, const OR: usize, const LEN: usize, const NL: usize, const NR: usize, const SKL: usize, const SKR: usize>() {
    let a: [u8; NL] = any_bytes();
    let b: [u8; NR] = any_bytes();
    let t: [bool; 4] = [kani::any(), kani::any(), kani::any(), kani::any()];
    let (ba, bb) = (mk(&a, SKL), mk(&b, SKR));
    set_skews([SKL % 8, SKR % 8, SKL % 8, SKR % 8, 0, 0]);
    let z = BooleanBuffer::from_bitwise_binary_op(&ba, OL, &bb, OR, LEN, tt2(t));
    assert!(z.len() == LEN);
    assert!(z.offset() + LEN <= 8 * z.values().len());
    let (mut c1, mut c2) = (LEN == 0, LEN == 0);
    if LEN > 0 {
        let i: usize = kani::any();
        kani::assume(i < LEN);
        let (x, y) = (bit(&a, 8 * SKL + OL + i), bit(&b, 8 * SKR + OR + i));
        assert!(z.value(i) == t[2 * (x as usize) + (y as usize)]);
        c1 = z.value(i) && x && !y;
        c2 = !z.value(i) && y;
    }
    kani::cover!(c1);
    kani::cover!(c2);
}
// Contract (C19) from_bitwise_binary_op(l, ol, r, or, len, op) for each of the 16 uniform bitwise binary
// operations (truth table t symbolic): result length len, inside its byte buffer, and bit i equals
// t[l-bit ol+i][r-bit or+i] for every i < len. All bytes of both inputs are symbolic, including the
// bits outside the addressed ranges (which the 64-bit fast paths do pass to `op`): the result does
// not depend on them. Paths (label in the bound): aligned_exact / aligned_suffix (ol%64 == or%64,
// 8-byte aligned data pointers, without / with a byte suffix), unaligned_chunks (ol%64 == or%64,
// misaligned data pointer: chunks_exact fallback), bitchunks (ol%64 != or%64).
// @unit name=bb_bin_0_0_64_8_8_0_0 props=C19 kind=bounded bound=grid_(ol,or,len,bytes_l,bytes_r,skew_l,skew_r)=(0,0,64,8,8,0,0)_path=aligned_exact fns=BooleanBuffer::from_bitwise_binary_op timeout=240
inst!(bb_bin_0_0_64_8_8_0_0, 10, bin_grid::<0, 0, 64, 8, 8, 0, 0>());
// @unit name=bb_bin_3_3_70_16_16_0_0 props=C19 kind=bounded bound=grid_(ol,or,len,bytes_l,bytes_r,skew_l,skew_r)=(3,3,70,16,16,0,0)_path=aligned_exact fns=BooleanBuffer::from_bitwise_binary_op timeout=240
inst!(bb_bin_3_3_70_16_16_0_0, 10, bin_grid::<3, 3, 70, 16, 16, 0, 0>());
// @unit name=bb_bin_3_67_70_10_18_0_0 props=C19 kind=bounded bound=grid_(ol,or,len,bytes_l,bytes_r,skew_l,skew_r)=(3,67,70,10,18,0,0)_path=aligned_suffix fns=BooleanBuffer::from_bitwise_binary_op timeout=240
inst!(bb_bin_3_67_70_10_18_0_0, 10, bin_grid::<3, 67, 70, 10, 18, 0, 0>());
// @unit name=bb_bin_0_64_65_9_24_0_0 props=C19 kind=bounded bound=grid_(ol,or,len,bytes_l,bytes_r,skew_l,skew_r)=(0,64,65,9,24,0,0)_path=aligned_suffix fns=BooleanBuffer::from_bitwise_binary_op timeout=240
inst!(bb_bin_0_64_65_9_24_0_0, 10, bin_grid::<0, 64, 65, 9, 24, 0, 0>());
// @unit name=bb_bin_3_3_70_11_17_1_1 props=C19 kind=bounded bound=grid_(ol,or,len,bytes_l,bytes_r,skew_l,skew_r)=(3,3,70,11,17,1,1)_path=unaligned_chunks_rem fns=BooleanBuffer::from_bitwise_binary_op timeout=240
inst!(bb_bin_3_3_70_11_17_1_1, 10, bin_grid::<3, 3, 70, 11, 17, 1, 1>());
// @unit name=bb_bin_3_3_70_10_19_0_3 props=C19 kind=bounded bound=grid_(ol,or,len,bytes_l,bytes_r,skew_l,skew_r)=(3,3,70,10,19,0,3)_path=unaligned_chunks_rem fns=BooleanBuffer::from_bitwise_binary_op tier=thorough timeout=240
inst!(bb_bin_3_3_70_10_19_0_3, 10, bin_grid::<3, 3, 70, 10, 19, 0, 3>());
// @unit name=bb_bin_5_69_59_9_25_1_1 props=C19 kind=bounded bound=grid_(ol,or,len,bytes_l,bytes_r,skew_l,skew_r)=(5,69,59,9,25,1,1)_path=unaligned_chunks fns=BooleanBuffer::from_bitwise_binary_op tier=thorough timeout=240
inst!(bb_bin_5_69_59_9_25_1_1, 10, bin_grid::<5, 69, 59, 9, 25, 1, 1>());
// @unit name=bb_bin_3_5_12_2_3_0_0 props=C19 kind=bounded bound=grid_(ol,or,len,bytes_l,bytes_r,skew_l,skew_r)=(3,5,12,2,3,0,0)_path=bitchunks fns=BooleanBuffer::from_bitwise_binary_op timeout=240
inst!(bb_bin_3_5_12_2_3_0_0, 10, bin_grid::<3, 5, 12, 2, 3, 0, 0>());
// @unit name=bb_bin_0_9_65_9_10_0_0 props=C19 kind=bounded bound=grid_(ol,or,len,bytes_l,bytes_r,skew_l,skew_r)=(0,9,65,9,10,0,0)_path=bitchunks fns=BooleanBuffer::from_bitwise_binary_op timeout=240
inst!(bb_bin_0_9_65_9_10_0_0, 10, bin_grid::<0, 9, 65, 9, 10, 0, 0>());
// @unit name=bb_bin_63_0_64_16_8_0_0 props=C19 kind=bounded bound=grid_(ol,or,len,bytes_l,bytes_r,skew_l,skew_r)=(63,0,64,16,8,0,0)_path=bitchunks fns=BooleanBuffer::from_bitwise_binary_op timeout=240
inst!(bb_bin_63_0_64_16_8_0_0, 10, bin_grid::<63, 0, 64, 16, 8, 0, 0>());
// @unit name=bb_bin_1_66_128_17_25_0_0 props=C19 kind=bounded bound=grid_(ol,or,len,bytes_l,bytes_r,skew_l,skew_r)=(1,66,128,17,25,0,0)_path=bitchunks fns=BooleanBuffer::from_bitwise_binary_op tier=thorough timeout=240
inst!(bb_bin_1_66_128_17_25_0_0, 10, bin_grid::<1, 66, 128, 17, 25, 0, 0>());
// @unit name=bb_bin_63_127_2_9_17_0_0 props=C19 kind=bounded bound=grid_(ol,or,len,bytes_l,bytes_r,skew_l,skew_r)=(63,127,2,9,17,0,0)_path=aligned_suffix fns=BooleanBuffer::from_bitwise_binary_op tier=thorough timeout=240
inst!(bb_bin_63_127_2_9_17_0_0, 10, bin_grid::<63, 127, 2, 9, 17, 0, 0>());
// @unit name=bb_bin_64_0_63_16_8_0_0 props=C19 kind=bounded bound=grid_(ol,or,len,bytes_l,bytes_r,skew_l,skew_r)=(64,0,63,16,8,0,0)_path=aligned_exact fns=BooleanBuffer::from_bitwise_binary_op tier=thorough timeout=240
inst!(bb_bin_64_0_63_16_8_0_0, 10, bin_grid::<64, 0, 63, 16, 8, 0, 0>());
// @unit name=bb_bin_0_0_0_1_1_0_0 props=C19 kind=bounded bound=grid_(ol,or,len,bytes_l,bytes_r,skew_l,skew_r)=(0,0,0,1,1,0,0)_path=aligned_exact fns=BooleanBuffer::from_bitwise_binary_op tier=thorough timeout=240
inst!(bb_bin_0_0_0_1_1_0_0, 10, bin_grid::<0, 0, 0, 1, 1, 0, 0>());
// @unit name=bb_bin_7_7_1_1_1_0_0 props=C19 kind=bounded bound=grid_(ol,or,len,bytes_l,bytes_r,skew_l,skew_r)=(7,7,1,1,1,0,0)_path=aligned_suffix fns=BooleanBuffer::from_bitwise_binary_op tier=thorough timeout=240
inst!(bb_bin_7_7_1_1_1_0_0, 10, bin_grid::<7, 7, 1, 1, 1, 0, 0>());
// @unit name=bb_bin_130_2_200_42_26_0_0 props=C19 kind=bounded bound=grid_(ol,or,len,bytes_l,bytes_r,skew_l,skew_r)=(130,2,200,42,26,0,0)_path=aligned_suffix fns=BooleanBuffer::from_bitwise_binary_op tier=thorough timeout=240
inst!(bb_bin_130_2_200_42_26_0_0, 10, bin_grid::<130, 2, 200, 42, 26, 0, 0>());
// @unit name=bb_bin_129_65_127_32_24_0_0 props=C19 kind=bounded bound=grid_(ol,or,len,bytes_l,bytes_r,skew_l,skew_r)=(129,65,127,32,24,0,0)_path=aligned_exact fns=BooleanBuffer::from_bitwise_binary_op tier=thorough timeout=240
inst!(bb_bin_129_65_127_32_24_0_0, 10, bin_grid::<129, 65, 127, 32, 24, 0, 0>());
// @unit name=bb_bin_127_128_129_32_33_0_0 props=C19 kind=bounded bound=grid_(ol,or,len,bytes_l,bytes_r,skew_l,skew_r)=(127,128,129,32,33,0,0)_path=bitchunks fns=BooleanBuffer::from_bitwise_binary_op tier=thorough timeout=240
inst!(bb_bin_127_128_129_32_33_0_0, 10, bin_grid::<127, 128, 129, 32, 33, 0, 0>());
// @unit name=bb_bin_8_9_200_26_27_0_0 props=C19 kind=bounded bound=grid_(ol,or,len,bytes_l,bytes_r,skew_l,skew_r)=(8,9,200,26,27,0,0)_path=bitchunks fns=BooleanBuffer::from_bitwise_binary_op tier=thorough timeout=240
inst!(bb_bin_8_9_200_26_27_0_0, 10, bin_grid::<8, 9, 200, 26, 27, 0, 0>());
// @unit name=bb_bin_65_1_130_25_17_0_0 props=C19 kind=bounded bound=grid_(ol,or,len,bytes_l,bytes_r,skew_l,skew_r)=(65,1,130,25,17,0,0)_path=aligned_suffix fns=BooleanBuffer::from_bitwise_binary_op tier=thorough timeout=240
inst!(bb_bin_65_1_130_25_17_0_0, 10, bin_grid::<65, 1, 130, 25, 17, 0, 0>());

fn bitop_grid<const OP: u8, const OL: usize, const OR: usize, const LEN: usize, const NL: usize, const NR: usize, const SKL: usize, const SKR: usize>() {
    let a: [u8; NL] = any_bytes();
    let b: [u8; NR] = any_bytes();
    let x = BooleanBuffer::new(mk(&a, SKL), OL, LEN);
    let y = BooleanBuffer::new(mk(&b, SKR), OR, LEN);
    set_skews([SKL % 8, SKR % 8, SKL % 8, SKR % 8, 0, 0]);
    let z = match OP { 0 => &x & &y, 1 => &x | &y, _ => &x ^ &y };
    assert!(z.len() == LEN);
    assert!(z.offset() + LEN <= 8 * z.values().len());
    let i: usize = kani::any();
    kani::assume(i < LEN);
    let (p, q) = (bit(&a, 8 * SKL + OL + i), bit(&b, 8 * SKR + OR + i));
    assert!(z.value(i) == match OP { 0 => p & q, 1 => p | q, _ => p ^ q });
    assert!(x.value(i) == p && y.value(i) == q);
    kani::cover!(z.value(i));
    kani::cover!(!z.value(i));
}
// Contract (C19) `&a & &b`, `&a | &b`, `&a ^ &b` on BooleanBuffers of equal length: value i of the
// result is the and / or / xor of the operands' values i; same length; result inside its byte buffer;
// operands unchanged. (OP 0/1/2 = and/or/xor; goes through buffer_bin_and/or/xor including the
// re-slicing to offset 0 when the fast path returns a non-zero offset.)
// @unit name=bb_and_3_67_70_10_18_0_0 props=C19 kind=bounded bound=grid_(ol,or,len,bytes_l,bytes_r,skew_l,skew_r)=(3,67,70,10,18,0,0)_path=aligned_suffix fns=BooleanBuffer::bitand,buffer_bin_and timeout=300
inst!(bb_and_3_67_70_10_18_0_0, 10, bitop_grid::<0, 3, 67, 70, 10, 18, 0, 0>());
// @unit name=bb_or_3_5_12_2_3_0_0 props=C19 kind=bounded bound=grid_(ol,or,len,bytes_l,bytes_r,skew_l,skew_r)=(3,5,12,2,3,0,0)_path=bitchunks fns=BooleanBuffer::bitor,buffer_bin_or timeout=300
inst!(bb_or_3_5_12_2_3_0_0, 10, bitop_grid::<1, 3, 5, 12, 2, 3, 0, 0>());
// @unit name=bb_xor_0_64_65_9_24_0_0 props=C19 kind=bounded bound=grid_(ol,or,len,bytes_l,bytes_r,skew_l,skew_r)=(0,64,65,9,24,0,0)_path=aligned_suffix fns=BooleanBuffer::bitxor,buffer_bin_xor timeout=300
inst!(bb_xor_0_64_65_9_24_0_0, 10, bitop_grid::<2, 0, 64, 65, 9, 24, 0, 0>());
// @unit name=bb_and_0_9_65_9_10_0_0 props=C19 kind=bounded bound=grid_(ol,or,len,bytes_l,bytes_r,skew_l,skew_r)=(0,9,65,9,10,0,0)_path=bitchunks fns=BooleanBuffer::bitand,buffer_bin_and tier=thorough timeout=300
inst!(bb_and_0_9_65_9_10_0_0, 10, bitop_grid::<0, 0, 9, 65, 9, 10, 0, 0>());
// @unit name=bb_or_3_3_70_11_17_1_1 props=C19 kind=bounded bound=grid_(ol,or,len,bytes_l,bytes_r,skew_l,skew_r)=(3,3,70,11,17,1,1)_path=unaligned_chunks_rem fns=BooleanBuffer::bitor,buffer_bin_or tier=thorough timeout=300
inst!(bb_or_3_3_70_11_17_1_1, 10, bitop_grid::<1, 3, 3, 70, 11, 17, 1, 1>());
// @unit name=bb_xor_3_3_70_16_16_0_0 props=C19 kind=bounded bound=grid_(ol,or,len,bytes_l,bytes_r,skew_l,skew_r)=(3,3,70,16,16,0,0)_path=aligned_exact fns=BooleanBuffer::bitxor,buffer_bin_xor tier=thorough timeout=300
inst!(bb_xor_3_3_70_16_16_0_0, 10, bitop_grid::<2, 3, 3, 70, 16, 16, 0, 0>());
// @unit name=bb_and_8_72_20_4_12_0_0 props=C19 kind=bounded bound=grid_(ol,or,len,bytes_l,bytes_r,skew_l,skew_r)=(8,72,20,4,12,0,0)_path=aligned_suffix fns=BooleanBuffer::bitand,buffer_bin_and tier=thorough timeout=300
inst!(bb_and_8_72_20_4_12_0_0, 10, bitop_grid::<0, 8, 72, 20, 4, 12, 0, 0>());

// =============================================================================================
// &= |= ^=  (bitwise_bin_op_assign)
// =============================================================================================

fn assign_grid<const OP: u8, const SHARED: bool, const OL: usize, const OR: usize, const LEN: usize, const NL: usize, const NR: usize>() {
    let a: [u8; NL] = any_bytes();
    let b: [u8; NR] = any_bytes();
    let ba = Buffer::from_slice_ref(&a);
    let orig_ptr = ba.as_ptr();
    let keep = if SHARED { Some(ba.clone()) } else { None };
    let mut x = BooleanBuffer::new(ba, OL, LEN);
    let y = BooleanBuffer::new(mk(&b, 0), OR, LEN);
    set_skews([0; 6]);
    match OP { 0 => x &= &y, 1 => x |= &y, _ => x ^= &y }
    assert!(x.len() == LEN);
    assert!(x.offset() + LEN <= 8 * x.values().len());
    let i: usize = kani::any();
    kani::assume(i < LEN);
    let (p, q) = (bit(&a, OL + i), bit(&b, OR + i));
    assert!(x.value(i) == match OP { 0 => p & q, 1 => p | q, _ => p ^ q });
    assert!(y.value(i) == q);
    // frame
    let j: usize = kani::any();
    kani::assume(j < 8 * NL);
    if let Some(k) = &keep {
        // the other owner of the (formerly shared) bytes sees no change at all
        assert!(k.len() == NL && bit(k.as_slice(), j) == bit(&a, j));
    }
    if x.values().as_ptr() == orig_ptr {
        // updated in place: every bit outside [OL, OL+LEN) of the byte buffer is unchanged
        assert!(!SHARED);
        assert!(x.offset() == OL && x.values().len() == NL);
        if j < OL || j >= OL + LEN { assert!(bit(x.values(), j) == bit(&a, j)); }
    }
    let in_place = x.values().as_ptr() == orig_ptr;
    kani::cover!(SHARED || OL == 0 || (in_place && j < OL));
    kani::cover!(SHARED || OL + LEN == 8 * NL || (in_place && j >= OL + LEN));
    kani::cover!(SHARED || in_place);
    kani::cover!(x.value(i));
    kani::cover!(!x.value(i));
}
// Contract (C19) `a &= &b`, `a |= &b`, `a ^= &b`: afterwards value i of `a` is the and / or / xor of the
// old value i of `a` and value i of `b`, same length, `b` unchanged. Frame: when `a` is the unique
// owner of its bytes and is updated in place, every bit of its byte buffer outside
// [offset, offset+len) is unchanged; when the bytes are shared with another Buffer, that other Buffer
// still reads exactly the old bytes.
// @unit name=bb_and_assign_unique_3_5_12_3_3 props=C19 kind=bounded bound=grid_(ol,or,len,bytes_l,bytes_r)=(3,5,12,3,3)_unique_owner fns=BooleanBuffer::bitwise_bin_op_assign,BooleanBuffer::bitand_assign timeout=400
inst!(bb_and_assign_unique_3_5_12_3_3, 12, assign_grid::<0, false, 3, 5, 12, 3, 3>());
// @unit name=bb_or_assign_unique_8_3_70_10_10 props=C19 kind=bounded bound=grid_(ol,or,len,bytes_l,bytes_r)=(8,3,70,10,10)_unique_owner fns=BooleanBuffer::bitwise_bin_op_assign,BooleanBuffer::bitor_assign timeout=400
inst!(bb_or_assign_unique_8_3_70_10_10, 12, assign_grid::<1, false, 8, 3, 70, 10, 10>());
// @unit name=bb_xor_assign_shared_3_3_70_16_16 props=C19 kind=bounded bound=grid_(ol,or,len,bytes_l,bytes_r)=(3,3,70,16,16)_shared_bytes fns=BooleanBuffer::bitwise_bin_op_assign,BooleanBuffer::bitxor_assign timeout=400
inst!(bb_xor_assign_shared_3_3_70_16_16, 12, assign_grid::<2, true, 3, 3, 70, 16, 16>());
// @unit name=bb_and_assign_shared_3_5_12_3_3 props=C19 kind=bounded bound=grid_(ol,or,len,bytes_l,bytes_r)=(3,5,12,3,3)_shared_bytes fns=BooleanBuffer::bitwise_bin_op_assign,BooleanBuffer::bitand_assign tier=thorough timeout=400
inst!(bb_and_assign_shared_3_5_12_3_3, 12, assign_grid::<0, true, 3, 5, 12, 3, 3>());
// @unit name=bb_xor_assign_unique_5_64_130_17_25 props=C19 kind=bounded bound=grid_(ol,or,len,bytes_l,bytes_r)=(5,64,130,17,25)_unique_owner fns=BooleanBuffer::bitwise_bin_op_assign,BooleanBuffer::bitxor_assign tier=thorough timeout=400
inst!(bb_xor_assign_unique_5_64_130_17_25, 12, assign_grid::<2, false, 5, 64, 130, 17, 25>());
// @unit name=bb_or_assign_unique_0_0_64_8_8 props=C19 kind=bounded bound=grid_(ol,or,len,bytes_l,bytes_r)=(0,0,64,8,8)_unique_owner fns=BooleanBuffer::bitwise_bin_op_assign,BooleanBuffer::bitor_assign tier=thorough timeout=400
inst!(bb_or_assign_unique_0_0_64_8_8, 12, assign_grid::<1, false, 0, 0, 64, 8, 8>());
// @unit name=bb_and_assign_unique_63_1_2_9_1 props=C19 kind=bounded bound=grid_(ol,or,len,bytes_l,bytes_r)=(63,1,2,9,1)_unique_owner fns=BooleanBuffer::bitwise_bin_op_assign,BooleanBuffer::bitand_assign tier=thorough timeout=400
inst!(bb_and_assign_unique_63_1_2_9_1, 12, assign_grid::<0, false, 63, 1, 2, 9, 1>());
// @unit name=bb_or_assign_shared_0_9_65_9_10 props=C19 kind=bounded bound=grid_(ol,or,len,bytes_l,bytes_r)=(0,9,65,9,10)_shared_bytes fns=BooleanBuffer::bitwise_bin_op_assign,BooleanBuffer::bitor_assign tier=thorough timeout=400
inst!(bb_or_assign_shared_0_9_65_9_10, 12, assign_grid::<1, true, 0, 9, 65, 9, 10>());
// @unit name=bb_xor_assign_unique_1_0_7_1_1 props=C19 kind=bounded bound=grid_(ol,or,len,bytes_l,bytes_r)=(1,0,7,1,1)_unique_owner fns=BooleanBuffer::bitwise_bin_op_assign,BooleanBuffer::bitxor_assign tier=thorough timeout=400
inst!(bb_xor_assign_unique_1_0_7_1_1, 12, assign_grid::<2, false, 1, 0, 7, 1, 1>());

// =============================================================================================
// PartialEq
// =============================================================================================

fn eq_grid<const OL: usize, const OR: usize, const LEN: usize, const NL: usize, const NR: usize>() {
    let a: [u8; NL] = any_bytes();
    let b: [u8; NR] = any_bytes();
    let x = BooleanBuffer::new(mk(&a, 0), OL, LEN);
    let y = BooleanBuffer::new(mk(&b, 0), OR, LEN);
    let r = x == y;
    let mut same = true;
    let mut i = 0;
    while i < LEN {
        if bit(&a, OL + i) != bit(&b, OR + i) { same = false; }
        i += 1;
    }
    assert!(r == same);
    assert!((y == x) == same);
    kani::cover!(r);
    kani::cover!(LEN == 0 || !r);
}
// Contract (C19) BooleanBuffer == BooleanBuffer (equal lengths): true exactly when every value i agrees
// (both directions, both argument orders); bits outside the two addressed ranges are symbolic and
// never influence the answer.
// @unit name=bb_eq_0_0_64 props=C19 kind=bounded bound=grid_(ol,or,len)=(0,0,64) fns=BooleanBuffer::eq tier=thorough timeout=300
inst!(bb_eq_0_0_64, 67, eq_grid::<0, 0, 64, 9, 9>());
// @unit name=bb_eq_3_5_12 props=C19 kind=bounded bound=grid_(ol,or,len)=(3,5,12) fns=BooleanBuffer::eq timeout=300
inst!(bb_eq_3_5_12, 15, eq_grid::<3, 5, 12, 3, 4>());
// @unit name=bb_eq_0_9_65 props=C19 kind=bounded bound=grid_(ol,or,len)=(0,9,65) fns=BooleanBuffer::eq timeout=300
inst!(bb_eq_0_9_65, 68, eq_grid::<0, 9, 65, 10, 11>());
// @unit name=bb_eq_7_7_130 props=C19 kind=bounded bound=grid_(ol,or,len)=(7,7,130) fns=BooleanBuffer::eq tier=thorough timeout=300
inst!(bb_eq_7_7_130, 133, eq_grid::<7, 7, 130, 19, 19>());
// @unit name=bb_eq_63_1_129 props=C19 kind=bounded bound=grid_(ol,or,len)=(63,1,129) fns=BooleanBuffer::eq tier=thorough timeout=300
inst!(bb_eq_63_1_129, 132, eq_grid::<63, 1, 129, 25, 18>());
// @unit name=bb_eq_0_0_0 props=C19 kind=bounded bound=grid_(ol,or,len)=(0,0,0) fns=BooleanBuffer::eq tier=thorough timeout=300
inst!(bb_eq_0_0_0, 12, eq_grid::<0, 0, 0, 2, 2>());
// @unit name=bb_eq_130_65_200 props=C19 kind=bounded bound=grid_(ol,or,len)=(130,65,200) fns=BooleanBuffer::eq tier=thorough timeout=300
inst!(bb_eq_130_65_200, 203, eq_grid::<130, 65, 200, 43, 35>());
// @unit name=bb_eq_5_0_1 props=C19 kind=bounded bound=grid_(ol,or,len)=(5,0,1) fns=BooleanBuffer::eq tier=thorough timeout=300
inst!(bb_eq_5_0_1, 12, eq_grid::<5, 0, 1, 2, 2>());
// @unit name=bb_eq_1_2_63 props=C19 kind=bounded bound=grid_(ol,or,len)=(1,2,63) fns=BooleanBuffer::eq tier=thorough timeout=300
inst!(bb_eq_1_2_63, 66, eq_grid::<1, 2, 63, 9, 10>());
// @unit name=bb_eq_3_3_128 props=C19 kind=bounded bound=grid_(ol,or,len)=(3,3,128) fns=BooleanBuffer::eq timeout=300
inst!(bb_eq_3_3_128, 131, eq_grid::<3, 3, 128, 18, 18>());

fn eq_len_grid<const OL: usize, const LEN1: usize, const LEN2: usize, const N: usize>() {
    let a: [u8; N] = any_bytes();
    let buf = mk(&a, 0);
    let x = BooleanBuffer::new(buf.clone(), OL, LEN1);
    let y = BooleanBuffer::new(buf, OL, LEN2);
    assert!(!(x == y) && !(y == x));
    kani::cover!(x.len() != y.len());
}
// Contract (C19) BooleanBuffer == BooleanBuffer with different lengths is false, even when one is a
// prefix of the other over the same bytes.
// @unit name=bb_eq_len_3_64_65 props=C19 kind=bounded bound=grid_(offset,len1,len2)=(3,64,65) fns=BooleanBuffer::eq timeout=200
inst!(bb_eq_len_3_64_65, 12, eq_len_grid::<3, 64, 65, 9>());
// @unit name=bb_eq_len_0_0_1 props=C19 kind=bounded bound=grid_(offset,len1,len2)=(0,0,1) fns=BooleanBuffer::eq tier=thorough timeout=200
inst!(bb_eq_len_0_0_1, 12, eq_len_grid::<0, 0, 1, 1>());
// @unit name=bb_eq_len_5_128_127 props=C19 kind=bounded bound=grid_(offset,len1,len2)=(5,128,127) fns=BooleanBuffer::eq tier=thorough timeout=200
inst!(bb_eq_len_5_128_127, 12, eq_len_grid::<5, 128, 127, 17>());

// =============================================================================================
// collect_bool, From<&[bool]>, FromIterator<bool>
// =============================================================================================

fn collect_grid<const LEN: usize>() {
    let m: [bool; LEN] = kani::any();
    let mut calls = 0usize;
    let z = BooleanBuffer::collect_bool(LEN, |i| { calls += 1; m[i] });
    assert!(z.len() == LEN && calls == LEN);
    assert!(z.offset() + LEN <= 8 * z.values().len());
    let (mut c1, mut c2) = (LEN == 0, LEN == 0);
    if LEN > 0 {
        let i: usize = kani::any();
        kani::assume(i < LEN);
        assert!(z.value(i) == m[i]);
        c1 = z.value(i);
        c2 = !z.value(i);
    }
    kani::cover!(c1);
    kani::cover!(c2);
}
// Contract (C19) BooleanBuffer::collect_bool(len, f): length len, value i == f(i) for every i < len, f is
// called exactly len times (each index in 0..len, never outside: the model array would panic).
// @unit name=bb_collect_bool_0 props=C19,C01 kind=bounded bound=grid_len=0 fns=BooleanBuffer::collect_bool,MutableBuffer::collect_bool tier=thorough timeout=300
inst!(bb_collect_bool_0, 66, collect_grid::<0>());
// @unit name=bb_collect_bool_1 props=C19,C01 kind=bounded bound=grid_len=1 fns=BooleanBuffer::collect_bool,MutableBuffer::collect_bool tier=thorough timeout=300
inst!(bb_collect_bool_1, 66, collect_grid::<1>());
// @unit name=bb_collect_bool_63 props=C19,C01 kind=bounded bound=grid_len=63 fns=BooleanBuffer::collect_bool,MutableBuffer::collect_bool tier=thorough timeout=300
inst!(bb_collect_bool_63, 66, collect_grid::<63>());
// @unit name=bb_collect_bool_64 props=C19,C01 kind=bounded bound=grid_len=64 fns=BooleanBuffer::collect_bool,MutableBuffer::collect_bool timeout=300
inst!(bb_collect_bool_64, 66, collect_grid::<64>());
// @unit name=bb_collect_bool_65 props=C19,C01 kind=bounded bound=grid_len=65 fns=BooleanBuffer::collect_bool,MutableBuffer::collect_bool timeout=300
inst!(bb_collect_bool_65, 67, collect_grid::<65>());
// @unit name=bb_collect_bool_128 props=C19,C01 kind=bounded bound=grid_len=128 fns=BooleanBuffer::collect_bool,MutableBuffer::collect_bool tier=thorough timeout=300
inst!(bb_collect_bool_128, 130, collect_grid::<128>());
// @unit name=bb_collect_bool_130 props=C19,C01 kind=bounded bound=grid_len=130 fns=BooleanBuffer::collect_bool,MutableBuffer::collect_bool tier=thorough timeout=300
inst!(bb_collect_bool_130, 132, collect_grid::<130>());
// @unit name=bb_collect_bool_200 props=C19,C01 kind=bounded bound=grid_len=200 fns=BooleanBuffer::collect_bool,MutableBuffer::collect_bool tier=thorough timeout=300
inst!(bb_collect_bool_200, 202, collect_grid::<200>());

fn from_bools_grid<const LEN: usize, const ITER: bool>() {
    let m: [bool; LEN] = kani::any();
    let z: BooleanBuffer = if ITER { m.iter().copied().collect() } else { BooleanBuffer::from(&m[..]) };
    assert!(z.len() == LEN);
    assert!(z.offset() + LEN <= 8 * z.values().len());
    let (mut c1, mut c2) = (LEN == 0, LEN == 0);
    if LEN > 0 {
        let i: usize = kani::any();
        kani::assume(i < LEN);
        assert!(z.value(i) == m[i]);
        c1 = z.value(i);
        c2 = !z.value(i);
    }
    kani::cover!(c1);
    kani::cover!(c2);
}
// Contract (C19/C01) BooleanBuffer::from(&[bool]) and FromIterator<bool>: length = number of items,
// value i = i-th item.
// @unit name=bb_from_slice_0 props=C19,C01 kind=bounded bound=grid_len=0 fns=BooleanBuffer::from tier=thorough timeout=300
inst!(bb_from_slice_0, 3, from_bools_grid::<0, false>());
// @unit name=bb_from_slice_9 props=C19,C01 kind=bounded bound=grid_len=9 fns=BooleanBuffer::from timeout=300
inst!(bb_from_slice_9, 12, from_bools_grid::<9, false>());
// @unit name=bb_from_slice_65 props=C19,C01 kind=bounded bound=grid_len=65 fns=BooleanBuffer::from tier=thorough timeout=300
inst!(bb_from_slice_65, 68, from_bools_grid::<65, false>());
// @unit name=bb_from_iter_9 props=C19,C01 kind=bounded bound=grid_len=9 fns=BooleanBuffer::from_iter timeout=300
inst!(bb_from_iter_9, 12, from_bools_grid::<9, true>());
// @unit name=bb_from_iter_65 props=C19,C01 kind=bounded bound=grid_len=65 fns=BooleanBuffer::from_iter tier=thorough timeout=300
inst!(bb_from_iter_65, 68, from_bools_grid::<65, true>());
// @unit name=bb_from_slice_130 props=C19,C01 kind=bounded bound=grid_len=130 fns=BooleanBuffer::from tier=thorough timeout=300
inst!(bb_from_slice_130, 133, from_bools_grid::<130, false>());

// =============================================================================================
// iter / set_indices / set_slices
// =============================================================================================

fn iter_grid<const OFF: usize, const LEN: usize, const N: usize>() {
    let a: [u8; N] = any_bytes();
    let x = BooleanBuffer::new(mk(&a, 0), OFF, LEN);
    set_skews([(OFF / 8) % 8; 6]);
    // iter: exactly LEN items, the i-th is value i
    let mut it = x.iter();
    let mut i = 0;
    while i < LEN {
        assert!(it.next() == Some(bit(&a, OFF + i)));
        i += 1;
    }
    assert!(it.next().is_none());
    // set_indices: strictly increasing, exactly the positions of true values
    let mut next_expected = 0usize; // every position < next_expected has been accounted for
    let mut si = x.set_indices();
    let mut k = 0;
    while k <= LEN {
        match si.next() {
            Some(idx) => {
                assert!(idx >= next_expected && idx < LEN && bit(&a, OFF + idx));
                let mut j = next_expected;
                while j < idx { assert!(!bit(&a, OFF + j)); j += 1; }
                next_expected = idx + 1;
            }
            None => {
                let mut j = next_expected;
                while j < LEN { assert!(!bit(&a, OFF + j)); j += 1; }
                next_expected = LEN + 1;
                break;
            }
        }
        k += 1;
    }
    assert!(next_expected == LEN + 1);
    kani::cover!(x.count_set_bits() == LEN);
    kani::cover!(x.count_set_bits() == 0);
}
// Contract (C19) BooleanBuffer::iter yields exactly len items, the i-th being value i, then None;
// set_indices yields strictly increasing positions, each a true value, with no true value skipped
// before, between or after them (i.e. exactly the positions of the true values).
// @unit name=bb_iter_0_8 props=C19 kind=bounded bound=grid_(offset,len)=(0,8) fns=BooleanBuffer::iter,BooleanBuffer::set_indices tier=thorough timeout=1500
inst!(bb_iter_0_8, 11, iter_grid::<0, 8, 2>());
// @unit name=bb_iter_61_6 props=C19 kind=bounded bound=grid_(offset,len)=(61,6) fns=BooleanBuffer::iter,BooleanBuffer::set_indices timeout=1500
inst!(bb_iter_61_6, 10, iter_grid::<61, 6, 10>());
// @unit name=bb_iter_0_0 props=C19 kind=bounded bound=grid_(offset,len)=(0,0) fns=BooleanBuffer::iter,BooleanBuffer::set_indices tier=thorough timeout=1500
inst!(bb_iter_0_0, 10, iter_grid::<0, 0, 2>());

fn slices_grid<const OFF: usize, const LEN: usize, const N: usize>() {
    let a: [u8; N] = any_bytes();
    let x = BooleanBuffer::new(mk(&a, 0), OFF, LEN);
    set_skews([(OFF / 8) % 8; 6]);
    // set_slices: maximal runs [s, e) of true values, in order, covering every true value
    let mut pos = 0usize; // every position < pos has been accounted for
    let mut ss = x.set_slices();
    let mut k = 0;
    let mut finished = false;
    while k <= LEN {
        match ss.next() {
            Some((s, e)) => {
                assert!(s >= pos && s < e && e <= LEN);
                assert!(k == 0 || s > pos); // runs are maximal: a gap of >= 1 false value between runs
                let mut j = pos;
                while j < s { assert!(!bit(&a, OFF + j)); j += 1; }
                while j < e { assert!(bit(&a, OFF + j)); j += 1; }
                pos = e;
            }
            None => {
                let mut j = pos;
                while j < LEN { assert!(!bit(&a, OFF + j)); j += 1; }
                finished = true;
                break;
            }
        }
        k += 1;
    }
    assert!(finished);
    kani::cover!(x.count_set_bits() == LEN);
    kani::cover!(x.count_set_bits() == 0);
    kani::cover!(LEN < 3 || (x.value(0) && !x.value(1) && x.value(2)));
}
// Contract (C19) BooleanBuffer::set_slices yields, in order, the maximal runs [start, end) of true values:
// every position inside a run is true, every position between runs (at least one), before the first
// and after the last run is false.
// @unit name=bb_slices_0_5 props=C19 kind=bounded bound=grid_(offset,len)=(0,5) fns=BooleanBuffer::set_slices tier=thorough timeout=1500
inst!(bb_slices_0_5, 10, slices_grid::<0, 5, 2>());
// @unit name=bb_slices_61_5 props=C19 kind=bounded bound=grid_(offset,len)=(61,5) fns=BooleanBuffer::set_slices tier=thorough timeout=1500
inst!(bb_slices_61_5, 10, slices_grid::<61, 5, 10>());
// @unit name=bb_slices_0_0 props=C19 kind=bounded bound=grid_(offset,len)=(0,0) fns=BooleanBuffer::set_slices tier=thorough timeout=1500
inst!(bb_slices_0_0, 10, slices_grid::<0, 0, 2>());

fn chunks_grid<const OFF: usize, const LEN: usize, const N: usize>() {
    let a: [u8; N] = any_bytes();
    let x = BooleanBuffer::new(mk(&a, 0), OFF, LEN);
    let bc = x.bit_chunks();
    assert!(bc.chunk_len() == LEN / 64 && bc.remainder_len() == LEN % 64);
    let j: usize = kani::any();
    kani::assume(j < 64);
    let mut it = bc.iter();
    let mut k = 0;
    while k < LEN / 64 {
        let w = it.next().unwrap();
        assert!(((w >> j) & 1 == 1) == bit(&a, OFF + 64 * k + j));
        k += 1;
    }
    assert!(it.next().is_none());
    // the remainder holds the last len % 64 values in its low bits and is zero above them
    let r = bc.remainder_bits();
    assert!(((r >> j) & 1 == 1) == (j < LEN % 64 && bit(&a, OFF + 64 * (LEN / 64) + j)));
    kani::cover!(LEN % 64 == 0 || (r >> j) & 1 == 1);
    kani::cover!(LEN % 64 == 0 || ((r >> j) & 1 == 0 && j < LEN % 64));
    kani::cover!(j >= LEN % 64);
}
// Contract (C19) BooleanBuffer::bit_chunks(): a view of exactly the addressed bits: len/64 chunks, chunk k
// bit j == value 64k+j; remainder_len == len % 64; remainder_bits bit j == value 64*(len/64)+j for
// j < len % 64 and 0 above (bits after the range are symbolic and must not leak into the padding).
// @unit name=bb_bit_chunks_3_70 props=C19 kind=bounded bound=grid_(offset,len,bytes)=(3,70,12) fns=BooleanBuffer::bit_chunks timeout=300
inst!(bb_bit_chunks_3_70, 12, chunks_grid::<3, 70, 12>());
// @unit name=bb_bit_chunks_0_64 props=C19 kind=bounded bound=grid_(offset,len,bytes)=(0,64,10) fns=BooleanBuffer::bit_chunks tier=thorough timeout=300
inst!(bb_bit_chunks_0_64, 12, chunks_grid::<0, 64, 10>());
// @unit name=bb_bit_chunks_0_0 props=C19 kind=bounded bound=grid_(offset,len,bytes)=(0,0,3) fns=BooleanBuffer::bit_chunks tier=thorough timeout=300
inst!(bb_bit_chunks_0_0, 12, chunks_grid::<0, 0, 3>());
// @unit name=bb_bit_chunks_5_12 props=C19 kind=bounded bound=grid_(offset,len,bytes)=(5,12,5) fns=BooleanBuffer::bit_chunks tier=thorough timeout=300
inst!(bb_bit_chunks_5_12, 12, chunks_grid::<5, 12, 5>());
// @unit name=bb_bit_chunks_63_129 props=C19 kind=bounded bound=grid_(offset,len,bytes)=(63,129,26) fns=BooleanBuffer::bit_chunks tier=thorough timeout=300
inst!(bb_bit_chunks_63_129, 12, chunks_grid::<63, 129, 26>());
// @unit name=bb_bit_chunks_130_200 props=C19 kind=bounded bound=grid_(offset,len,bytes)=(130,200,44) fns=BooleanBuffer::bit_chunks tier=thorough timeout=300
inst!(bb_bit_chunks_130_200, 12, chunks_grid::<130, 200, 44>());
// @unit name=bb_bit_chunks_1_128 props=C19 kind=bounded bound=grid_(offset,len,bytes)=(1,128,19) fns=BooleanBuffer::bit_chunks tier=thorough timeout=300
inst!(bb_bit_chunks_1_128, 12, chunks_grid::<1, 128, 19>());

fn ubc_grid<const OFF: usize, const LEN: usize, const N: usize, const SK: usize>() {
    let a: [u8; N] = any_bytes();
    let x = BooleanBuffer::new(mk(&a, SK), OFF, LEN);
    skews().ubc(SK, OFF, LEN).install();
    let u = x.unaligned_bit_chunks();
    let (lead, trail) = (u.lead_padding(), u.trailing_padding());
    let mut words = [0u64; 8];
    let mut n = 0usize;
    for w in u.iter() { words[n] = w; n += 1; }
    assert!(lead < 64 && trail < 64 && lead + LEN + trail == 64 * n);
    let (mut c1, mut c2) = (LEN == 0, LEN == 0);
    if n > 0 {
        let p: usize = kani::any();
        kani::assume(p < 64 * n);
        let b = (words[p / 64] >> (p % 64)) & 1 == 1;
        if p < lead || p >= lead + LEN { assert!(!b); } else { assert!(b == bit(&a, 8 * SK + OFF + p - lead)); }
        c1 = b;
        c2 = !b && p >= lead && p < lead + LEN;
    }
    kani::cover!(c1);
    kani::cover!(c2);
    kani::cover!(n == (lead + LEN + trail) / 64);
}
// Contract (C19) BooleanBuffer::unaligned_bit_chunks(): the words prefix, chunks.., suffix concatenated
// are lead_padding zero bits, then exactly the len addressed values in order, then trailing_padding
// zero bits (both paddings < 64, total a whole number of words); bits outside the range are symbolic
// and appear nowhere.
// @unit name=bb_unaligned_bit_chunks_3_12_2_0 props=C19 kind=bounded bound=grid_(offset,len,bytes,ptr_skew)=(3,12,2,0) fns=BooleanBuffer::unaligned_bit_chunks tier=thorough timeout=300
inst!(bb_unaligned_bit_chunks_3_12_2_0, 12, ubc_grid::<3, 12, 2, 0>());
// @unit name=bb_unaligned_bit_chunks_5_59_8_0 props=C19 kind=bounded bound=grid_(offset,len,bytes,ptr_skew)=(5,59,8,0) fns=BooleanBuffer::unaligned_bit_chunks tier=thorough timeout=300
inst!(bb_unaligned_bit_chunks_5_59_8_0, 12, ubc_grid::<5, 59, 8, 0>());
// @unit name=bb_unaligned_bit_chunks_1_64_9_0 props=C19 kind=bounded bound=grid_(offset,len,bytes,ptr_skew)=(1,64,9,0) fns=BooleanBuffer::unaligned_bit_chunks timeout=300
inst!(bb_unaligned_bit_chunks_1_64_9_0, 12, ubc_grid::<1, 64, 9, 0>());
// @unit name=bb_unaligned_bit_chunks_3_130_24_0 props=C19 kind=bounded bound=grid_(offset,len,bytes,ptr_skew)=(3,130,24,0) fns=BooleanBuffer::unaligned_bit_chunks timeout=300
inst!(bb_unaligned_bit_chunks_3_130_24_0, 12, ubc_grid::<3, 130, 24, 0>());
// @unit name=bb_unaligned_bit_chunks_13_140_22_2 props=C19 kind=bounded bound=grid_(offset,len,bytes,ptr_skew)=(13,140,22,2) fns=BooleanBuffer::unaligned_bit_chunks tier=thorough timeout=300
inst!(bb_unaligned_bit_chunks_13_140_22_2, 12, ubc_grid::<13, 140, 22, 2>());
// @unit name=bb_unaligned_bit_chunks_0_129_17_0 props=C19 kind=bounded bound=grid_(offset,len,bytes,ptr_skew)=(0,129,17,0) fns=BooleanBuffer::unaligned_bit_chunks tier=thorough timeout=300
inst!(bb_unaligned_bit_chunks_0_129_17_0, 12, ubc_grid::<0, 129, 17, 0>());
// @unit name=bb_unaligned_bit_chunks_0_0_1_0 props=C19 kind=bounded bound=grid_(offset,len,bytes,ptr_skew)=(0,0,1,0) fns=BooleanBuffer::unaligned_bit_chunks tier=thorough timeout=300
inst!(bb_unaligned_bit_chunks_0_0_1_0, 12, ubc_grid::<0, 0, 1, 0>());
// @unit name=bb_unaligned_bit_chunks_64_128_24_0 props=C19 kind=bounded bound=grid_(offset,len,bytes,ptr_skew)=(64,128,24,0) fns=BooleanBuffer::unaligned_bit_chunks tier=thorough timeout=300
inst!(bb_unaligned_bit_chunks_64_128_24_0, 12, ubc_grid::<64, 128, 24, 0>());

fn sliced_grid<const OFF: usize, const LEN: usize, const N: usize>() {
    let a: [u8; N] = any_bytes();
    let x = BooleanBuffer::new(mk(&a, 0), OFF, LEN);
    let s = x.sliced();
    assert!(8 * s.len() >= LEN);
    let i: usize = kani::any();
    kani::assume(i < LEN);
    assert!(bit(s.as_slice(), i) == bit(&a, OFF + i));
    assert!(unsafe { x.value_unchecked(i) } == bit(&a, OFF + i));
    // inner()/into_inner() expose the unsliced bytes
    assert!(x.inner().len() == N && bit(x.inner().as_slice(), OFF + i) == bit(&a, OFF + i));
    kani::cover!(bit(s.as_slice(), i));
    kani::cover!(!bit(s.as_slice(), i));
}
// Contract (C19) BooleanBuffer::sliced(): a zero-offset bitmap of at least ceil(len/8) bytes whose bit i
// is value i (copying when offset % 8 != 0, byte-slicing otherwise); value_unchecked(i) == value i
// for i < len; inner() is the unsliced byte buffer.
// @unit name=bb_sliced_3_70 props=C19 kind=bounded bound=grid_(offset,len,bytes)=(3,70,11) fns=BooleanBuffer::sliced,BooleanBuffer::value_unchecked,BooleanBuffer::inner timeout=300
inst!(bb_sliced_3_70, 12, sliced_grid::<3, 70, 11>());
// @unit name=bb_sliced_8_20 props=C19 kind=bounded bound=grid_(offset,len,bytes)=(8,20,5) fns=BooleanBuffer::sliced,BooleanBuffer::value_unchecked,BooleanBuffer::inner tier=thorough timeout=300
inst!(bb_sliced_8_20, 12, sliced_grid::<8, 20, 5>());
// @unit name=bb_sliced_0_64 props=C19 kind=bounded bound=grid_(offset,len,bytes)=(0,64,9) fns=BooleanBuffer::sliced,BooleanBuffer::value_unchecked,BooleanBuffer::inner tier=thorough timeout=300
inst!(bb_sliced_0_64, 12, sliced_grid::<0, 64, 9>());
// @unit name=bb_sliced_65_130 props=C19 kind=bounded bound=grid_(offset,len,bytes)=(65,130,26) fns=BooleanBuffer::sliced,BooleanBuffer::value_unchecked,BooleanBuffer::inner tier=thorough timeout=300
inst!(bb_sliced_65_130, 12, sliced_grid::<65, 130, 26>());

fn u32_grid<const OFF: usize, const LEN: usize, const N: usize>() {
    let a: [u8; N] = any_bytes();
    let x = BooleanBuffer::new(mk(&a, 0), OFF, LEN);
    set_skews([(OFF / 8) % 8; 6]);
    let mut next_expected = 0usize;
    let mut si = x.set_indices_u32();
    let mut k = 0;
    while k <= LEN {
        match si.next() {
            Some(idx) => {
                let idx = idx as usize;
                assert!(idx >= next_expected && idx < LEN && bit(&a, OFF + idx));
                let mut j = next_expected;
                while j < idx { assert!(!bit(&a, OFF + j)); j += 1; }
                next_expected = idx + 1;
            }
            None => {
                let mut j = next_expected;
                while j < LEN { assert!(!bit(&a, OFF + j)); j += 1; }
                next_expected = LEN + 1;
                break;
            }
        }
        k += 1;
    }
    assert!(next_expected == LEN + 1);
    kani::cover!(x.count_set_bits() == LEN);
    kani::cover!(x.count_set_bits() == 0);
}
// Contract (C19) BooleanBuffer::set_indices_u32 yields exactly the positions of the true values, in
// increasing order, as u32.
// @unit name=bb_set_indices_u32_61_5 props=C19 kind=bounded bound=grid_(offset,len)=(61,5) fns=BooleanBuffer::set_indices_u32 tier=thorough timeout=900
inst!(bb_set_indices_u32_61_5, 10, u32_grid::<61, 5, 10>());
// @unit name=bb_set_indices_u32_0_6 props=C19 kind=bounded bound=grid_(offset,len)=(0,6) fns=BooleanBuffer::set_indices_u32 tier=thorough timeout=900
inst!(bb_set_indices_u32_0_6, 10, u32_grid::<0, 6, 2>());
