// Kani contract harnesses for /repo/arrow-buffer/src/buffer/boolean.rs (child module: sees private items via super::)
