// Kani contract harnesses for /repo/arrow-buffer/src/buffer/run.rs (child module: sees private items via super::)
//
// C09/C01: the checked constructor `RunEndBuffer::new` accepts only run-end buffers that are
// well-formed in the sense of the Arrow format (Run-End Encoded layout): run ends are strictly
// increasing, all strictly positive (they are 1-based cumulative lengths), and the last run end
// covers the logical window: last >= logical_offset + logical_length.
// C02: the logical->physical index mapping is the mathematical one (first run whose end exceeds
// the absolute logical index), whatever the slicing.
use super::*;

/// Arrow format predicate, written independently of the code (plain loops, wide arithmetic).
fn wf_run_ends<E: ArrowNativeType>(v: &[E], off: usize, len: usize) -> bool {
    let zero = E::usize_as(0);
    let mut i = 0;
    while i < v.len() {
        if !(v[i] > zero) {
            return false;
        }
        if i + 1 < v.len() && !(v[i] < v[i + 1]) {
            return false;
        }
        i += 1;
    }
    if v.is_empty() {
        return off as u128 + len as u128 == 0;
    }
    // all values are positive here, so as_usize is the identity
    v[v.len() - 1].as_usize() as u128 >= off as u128 + len as u128
}
/// the predicate restricted to what matters when the logical window is empty is discussed in the
/// finding F4: for len == 0 the code checks only "strictly increasing".
fn strictly_increasing<E: ArrowNativeType>(v: &[E]) -> bool {
    let mut i = 0;
    while i + 1 < v.len() {
        if !(v[i] < v[i + 1]) {
            return false;
        }
        i += 1;
    }
    true
}
/// model of the mapping: first k with run_ends[k] > abs (abs = absolute logical index)
fn first_run_above<E: ArrowNativeType>(v: &[E], abs: usize) -> usize {
    let mut k = 0;
    while k < v.len() {
        if v[k].as_usize() > abs {
            return k;
        }
        k += 1;
    }
    v.len()
}

/// builds via the checked constructor; returns (accepted buffer)
fn build<E: ArrowNativeType + kani::Arbitrary, const N: usize>(v: &[E; N], off: usize, len: usize) -> RunEndBuffer<E> {
    RunEndBuffer::new(ScalarBuffer::<E>::from(v.to_vec()), off, len)
}

// Contract (C09): `RunEndBuffer::new(run_ends, offset, len)` for n <= 4 arbitrary run ends and
// arbitrary usize offset / len: IF it returns THEN wf_run_ends(run_ends, offset, len) — strictly
// increasing, all > 0, last >= offset + len (no wrap-around) — and the accessors report the inputs.
// KNOWN FINDING F4 (fails on the unchanged tree): with len == 0 the constructor skips the `> 0`
// and the coverage test, e.g. run ends [-5, 3] with offset 0, len 0 are accepted although the doc
// comment lists "not strictly increasing values greater than zero" as a panic condition.
fn run_end_new_case<E: ArrowNativeType + kani::Arbitrary, const N: usize, const NONEMPTY_ONLY: bool>() -> usize {
    let v: [E; N] = kani::any();
    let (off, len): (usize, usize) = (kani::any(), kani::any());
    if NONEMPTY_ONLY {
        kani::assume(len > 0);
    }
    let r = build(&v, off, len);
    assert!(wf_run_ends(&v, off, len));
    assert!(r.len() == len && r.offset() == off && r.is_empty() == (len == 0) && r.values().len() == N);
    let i: usize = kani::any();
    kani::assume(i < N);
    assert!(r.values()[i] == v[i]);
    len
}
fn run_end_new_upto4<E: ArrowNativeType + kani::Arbitrary, const NONEMPTY_ONLY: bool>() {
    let n: u8 = kani::any();
    let len = match n {
        0 => run_end_new_case::<E, 0, NONEMPTY_ONLY>(),
        1 => run_end_new_case::<E, 1, NONEMPTY_ONLY>(),
        2 => run_end_new_case::<E, 2, NONEMPTY_ONLY>(),
        3 => run_end_new_case::<E, 3, NONEMPTY_ONLY>(),
        _ => run_end_new_case::<E, 4, NONEMPTY_ONLY>(),
    };
    kani::cover!(n == 4 && len > 0);
    kani::cover!(n == 1 && len > 0);
    kani::cover!(NONEMPTY_ONLY || (n == 0 && len == 0));
}
// NOT REGISTERED (over-strong contract, see DESIGN.md 9.3 'F4'): with logical_length == 0 the constructor guarantees only
// 'strictly increasing' (no safe accessor can misbehave, unit run_end_zero_len_accessors_total); the registered contract is the
// pair run_end_new_accept_implies_wf_nonempty_* + run_end_new_zero_len_guarantee.
// unit-disabled name=run_end_new_accept_implies_wf props=C09,C01 kind=bounded bound=n<=4_runs_i16 fns=RunEndBuffer<i16>::new mayreject=1 tier=quick mem=3 timeout=300
#[kani::proof]
#[kani::unwind(8)]
fn run_end_new_accept_implies_wf() {
    run_end_new_upto4::<i16, false>()
}
// Same contract restricted to a non-empty logical window (len > 0): holds on the unchanged tree.
// @unit name=run_end_new_accept_implies_wf_nonempty_i16 props=C09,C01 kind=bounded bound=n<=4_runs_len>0 fns=RunEndBuffer<i16>::new mayreject=1 tier=quick mem=3 timeout=300
#[kani::proof]
#[kani::unwind(8)]
fn run_end_new_accept_implies_wf_nonempty_i16() {
    run_end_new_upto4::<i16, true>()
}
// @unit name=run_end_new_accept_implies_wf_nonempty_i32 props=C09,C01 kind=bounded bound=n<=4_runs_len>0 fns=RunEndBuffer<i32>::new mayreject=1 tier=quick mem=3 timeout=300
#[kani::proof]
#[kani::unwind(8)]
fn run_end_new_accept_implies_wf_nonempty_i32() {
    run_end_new_upto4::<i32, true>()
}

// Contract (C09), evidence for the F4 triage — what `new` DOES guarantee for an empty logical
// window (len == 0) on the unchanged tree: IF it returns THEN the run ends are strictly increasing
// (and nothing else: the cover shows an accepted input that violates the format predicate).
fn run_end_zero_len_guarantee_case<E: ArrowNativeType + kani::Arbitrary, const N: usize>() -> bool {
    let v: [E; N] = kani::any();
    let off: usize = kani::any();
    let r = build(&v, off, 0);
    assert!(strictly_increasing(&v));
    assert!(r.len() == 0 && r.is_empty() && r.offset() == off && r.values().len() == N);
    !wf_run_ends(&v, off, 0) // witnesses the F4 gap
}
// @unit name=run_end_new_zero_len_guarantee props=C09 kind=bounded bound=n<=3_runs_len=0_i16 fns=RunEndBuffer<i16>::new mayreject=1 tier=quick mem=3 timeout=300
#[kani::proof]
#[kani::unwind(8)]
fn run_end_new_zero_len_guarantee() {
    let n: u8 = kani::any();
    let gap = match n {
        0 => run_end_zero_len_guarantee_case::<i16, 0>(),
        1 => run_end_zero_len_guarantee_case::<i16, 1>(),
        2 => run_end_zero_len_guarantee_case::<i16, 2>(),
        _ => run_end_zero_len_guarantee_case::<i16, 3>(),
    };
    kani::cover!(gap && n == 2); // e.g. [-5, 3] is accepted with len 0
    kani::cover!(!gap && n == 3);
}

// Contract (C09/C01), evidence for the F4 triage — NOT may-reject, so any panic / out-of-bounds in
// the constructor or in an accessor is a violation: for ANY strictly increasing run ends (negative,
// zero, not covering the offset: everything `new` lets through with len == 0) and any offset,
// `new(run_ends, offset, 0)` accepts, and every safe accessor of the resulting buffer is total and
// in bounds: values, max_value, get_start_physical_index = get_end_physical_index = 0,
// slice(0, 0), sliced_values (empty), and get_physical_index(i) <= n for every i such that
// offset + i does not overflow usize (the addition in get_physical_index is unchecked; that
// precondition is independent of F4).
fn run_end_zero_len_accessors_case<E: ArrowNativeType + kani::Arbitrary, const N: usize>() -> bool {
    let v: [E; N] = kani::any();
    let off: usize = kani::any();
    kani::assume(strictly_increasing(&v));
    let r = build(&v, off, 0);
    assert!(r.len() == 0 && r.is_empty() && r.offset() == off && r.values().len() == N);
    assert!(r.get_start_physical_index() == 0 && r.get_end_physical_index() == 0);
    let _ = r.max_value();
    assert!(r.sliced_values().count() == 0);
    let s = r.slice(0, 0);
    assert!(s.len() == 0 && s.offset() == off);
    assert!(s.get_start_physical_index() == 0 && s.get_end_physical_index() == 0);
    let i: usize = kani::any();
    kani::assume(off.checked_add(i).is_some());
    let p = r.get_physical_index(i);
    assert!(p <= N);
    !wf_run_ends(&v, off, 0)
}
// @unit name=run_end_zero_len_accessors_total props=C09,C01 kind=bounded bound=n<=3_runs_len=0_i16 fns=RunEndBuffer<i16>::new,RunEndBuffer::get_physical_index,RunEndBuffer::get_start_physical_index,RunEndBuffer::get_end_physical_index,RunEndBuffer::slice,RunEndBuffer::sliced_values,RunEndBuffer::max_value tier=quick mem=3 timeout=300
#[kani::proof]
#[kani::unwind(8)]
fn run_end_zero_len_accessors_total() {
    let n: u8 = kani::any();
    let gap = match n {
        0 => run_end_zero_len_accessors_case::<i16, 0>(),
        1 => run_end_zero_len_accessors_case::<i16, 1>(),
        2 => run_end_zero_len_accessors_case::<i16, 2>(),
        _ => run_end_zero_len_accessors_case::<i16, 3>(),
    };
    kani::cover!(gap && n == 2);
    kani::cover!(!gap && n == 3);
}

// Contract (C09): no over-rejection — every well-formed (run_ends, offset, len) is accepted.
fn run_end_wf_accept_case<E: ArrowNativeType + kani::Arbitrary, const N: usize>() -> usize {
    let v: [E; N] = kani::any();
    let (off, len): (usize, usize) = (kani::any(), kani::any());
    kani::assume(wf_run_ends(&v, off, len));
    let r = build(&v, off, len);
    assert!(r.len() == len && r.offset() == off);
    len
}
// @unit name=run_end_new_wf_implies_accept_i16 props=C09 kind=bounded bound=n<=4_runs fns=RunEndBuffer<i16>::new tier=quick mem=3 timeout=300
#[kani::proof]
#[kani::unwind(8)]
fn run_end_new_wf_implies_accept_i16() {
    let n: u8 = kani::any();
    let len = match n {
        0 => run_end_wf_accept_case::<i16, 0>(),
        1 => run_end_wf_accept_case::<i16, 1>(),
        2 => run_end_wf_accept_case::<i16, 2>(),
        3 => run_end_wf_accept_case::<i16, 3>(),
        _ => run_end_wf_accept_case::<i16, 4>(),
    };
    kani::cover!(n == 4 && len == i16::MAX as usize);
    kani::cover!(n == 0);
    kani::cover!(n == 2 && len == 0);
}
// @unit name=run_end_new_wf_implies_accept_i32 props=C09 kind=bounded bound=n<=4_runs fns=RunEndBuffer<i32>::new tier=quick mem=3 timeout=300
#[kani::proof]
#[kani::unwind(8)]
fn run_end_new_wf_implies_accept_i32() {
    let n: u8 = kani::any();
    let len = match n {
        0 => run_end_wf_accept_case::<i32, 0>(),
        1 => run_end_wf_accept_case::<i32, 1>(),
        2 => run_end_wf_accept_case::<i32, 2>(),
        3 => run_end_wf_accept_case::<i32, 3>(),
        _ => run_end_wf_accept_case::<i32, 4>(),
    };
    kani::cover!(n == 4 && len > 1000);
    kani::cover!(n == 0);
}

// Contract (C02/C01): on a well-formed buffer (N runs, arbitrary offset/len with len > 0):
//   get_physical_index(i), i < len  = first k with run_ends[k] > offset + i, and is < N;
//   get_start_physical_index()      = get_physical_index(0);
//   get_end_physical_index()        = get_physical_index(len - 1).
fn run_end_mapping_case<E: ArrowNativeType + kani::Arbitrary, const N: usize>() {
    let v: [E; N] = kani::any();
    let (off, len): (usize, usize) = (kani::any(), kani::any());
    kani::assume(len > 0 && wf_run_ends(&v, off, len));
    let r = build(&v, off, len);
    let i: usize = kani::any();
    kani::assume(i < len);
    let p = r.get_physical_index(i);
    assert!(p == first_run_above(&v, off + i) && p < N);
    let start = r.get_start_physical_index();
    let end = r.get_end_physical_index();
    assert!(start == first_run_above(&v, off));
    assert!(end == first_run_above(&v, off + len - 1));
    assert!(start <= p && p <= end && end < N);
    kani::cover!(start > 0 && end > start);
    kani::cover!(p > start && p < end);
    kani::cover!(off == 0 && end == N - 1 && v[N - 1].as_usize() == len); // unsliced fast paths
    kani::cover!(off > 0 && v[N - 1].as_usize() > off + len);
}
macro_rules! run_end_mapping_unit {
    ($name:ident, $e:ty, $n:expr) => {
        #[kani::proof]
        #[kani::unwind(8)]
        fn $name() {
            run_end_mapping_case::<$e, $n>()
        }
    };
}
// @unit name=run_end_mapping_i16_n4 props=C02,C01 kind=bounded bound=4_runs fns=RunEndBuffer::get_physical_index,RunEndBuffer::get_start_physical_index,RunEndBuffer::get_end_physical_index,RunEndBuffer::max_value tier=quick mem=3 timeout=400
run_end_mapping_unit!(run_end_mapping_i16_n4, i16, 4);
// @unit name=run_end_mapping_i16_n3 props=C02,C01 kind=bounded bound=3_runs fns=RunEndBuffer::get_physical_index,RunEndBuffer::get_start_physical_index,RunEndBuffer::get_end_physical_index,RunEndBuffer::max_value tier=quick mem=3 timeout=400
run_end_mapping_unit!(run_end_mapping_i16_n3, i16, 3);
// @unit name=run_end_mapping_i32_n4 props=C02,C01 kind=bounded bound=4_runs fns=RunEndBuffer::get_physical_index,RunEndBuffer::get_start_physical_index,RunEndBuffer::get_end_physical_index,RunEndBuffer::max_value tier=quick mem=3 timeout=400
run_end_mapping_unit!(run_end_mapping_i32_n4, i32, 4);

// Contract (C02/C01): `slice(o, l)` with o + l <= len on a well-formed buffer: offset' = offset + o,
// len' = l, same run ends; the slice's logical->physical mapping is the parent's shifted by o
// (get_physical_index / start / end agree with the model at absolute positions); an empty slice
// reports start = end = 0; the parent is unchanged. In-range slices never panic.
fn run_end_slice_case<E: ArrowNativeType + kani::Arbitrary, const N: usize>() {
    let v: [E; N] = kani::any();
    let (off, len): (usize, usize) = (kani::any(), kani::any());
    kani::assume(len > 0 && wf_run_ends(&v, off, len));
    let r = build(&v, off, len);
    let (o, l): (usize, usize) = (kani::any(), kani::any());
    kani::assume(o <= len && l <= len - o);
    let s = r.slice(o, l);
    assert!(s.offset() == off + o && s.len() == l && s.values().len() == N);
    assert!(r.offset() == off && r.len() == len);
    if l > 0 {
        assert!(s.get_start_physical_index() == first_run_above(&v, off + o));
        assert!(s.get_end_physical_index() == first_run_above(&v, off + o + l - 1));
    } else {
        assert!(s.get_start_physical_index() == 0 && s.get_end_physical_index() == 0);
    }
    kani::cover!(l == 0 && o > 0);
    kani::cover!(l > 0 && o > 0 && s.get_start_physical_index() > 0);
    let j: usize = kani::any();
    kani::assume(j < l);
    assert!(s.get_physical_index(j) == first_run_above(&v, off + o + j));
}
// @unit name=run_end_slice_mapping_i16_n3 props=C02,C01 kind=bounded bound=3_runs fns=RunEndBuffer::slice,RunEndBuffer::get_physical_index,RunEndBuffer::get_start_physical_index,RunEndBuffer::get_end_physical_index tier=quick mem=3 timeout=400
#[kani::proof]
#[kani::unwind(8)]
fn run_end_slice_mapping_i16_n3() {
    run_end_slice_case::<i16, 3>()
}
// @unit name=run_end_slice_mapping_i32_n4 props=C02,C01 kind=bounded bound=4_runs fns=RunEndBuffer::slice,RunEndBuffer::get_physical_index,RunEndBuffer::get_start_physical_index,RunEndBuffer::get_end_physical_index tier=quick mem=3 timeout=400
#[kani::proof]
#[kani::unwind(8)]
fn run_end_slice_mapping_i32_n4() {
    run_end_slice_case::<i32, 4>()
}

// Contract (C02/C01): `sliced_values()` on a well-formed buffer yields, for k = start..=end, the
// value min(run_ends[k] - offset, len): positive, strictly increasing and ending exactly at len
// (the run ends of the logical window, re-based at 0); an empty window yields nothing.
fn run_end_sliced_values_case<E: ArrowNativeType + kani::Arbitrary, const N: usize>() {
    let v: [E; N] = kani::any();
    let (off, len): (usize, usize) = (kani::any(), kani::any());
    kani::assume(wf_run_ends(&v, off, len));
    let r = build(&v, off, len);
    let mut it = r.sliced_values();
    if len == 0 {
        assert!(it.next().is_none());
        kani::cover!(true);
        return;
    }
    let start = first_run_above(&v, off);
    let end = first_run_above(&v, off + len - 1);
    let mut last = 0usize;
    let mut k = 0;
    while k < N {
        if start <= k && k <= end {
            let x = it.next();
            assert!(x.is_some());
            let want = v[k].as_usize() - off;
            let want = if want < len { want } else { len };
            assert!(x.unwrap().as_usize() == want && want > last);
            last = want;
        }
        k += 1;
    }
    assert!(it.next().is_none() && last == len && end < N);
    kani::cover!(N < 3 || (start > 0 && end > start));
    kani::cover!(start == 0 && end == N - 1);
}
// @unit name=run_end_sliced_values_i16_n2 props=C02,C01 kind=bounded bound=2_runs fns=RunEndBuffer::sliced_values tier=quick mem=3 timeout=400
#[kani::proof]
#[kani::unwind(8)]
fn run_end_sliced_values_i16_n2() {
    run_end_sliced_values_case::<i16, 2>()
}
// @unit name=run_end_sliced_values_i16_n3 props=C02,C01 kind=bounded bound=3_runs fns=RunEndBuffer::sliced_values tier=thorough mem=3 timeout=900
#[kani::proof]
#[kani::unwind(8)]
fn run_end_sliced_values_i16_n3() {
    run_end_sliced_values_case::<i16, 3>()
}
// @unit name=run_end_sliced_values_i32_n4 props=C02,C01 kind=bounded bound=4_runs fns=RunEndBuffer::sliced_values tier=thorough mem=3 timeout=900
#[kani::proof]
#[kani::unwind(8)]
fn run_end_sliced_values_i32_n4() {
    run_end_sliced_values_case::<i32, 4>()
}

// Contract (C09/C01): `slice(o, l)` with ARBITRARY usize arguments on a well-formed buffer either
// panics or returns a window inside the parent: o + l <= len without wrap-around (so the result is
// again well-formed: last run end >= offset' + len').
// @unit name=run_end_slice_rejects props=C09,C01 kind=bounded bound=3_runs fns=RunEndBuffer::slice mayreject=1 tier=quick mem=3 timeout=300
#[kani::proof]
#[kani::unwind(8)]
fn run_end_slice_rejects() {
    let v: [i32; 3] = kani::any();
    let (off, len): (usize, usize) = (kani::any(), kani::any());
    kani::assume(wf_run_ends(&v, off, len));
    let r = build(&v, off, len);
    let (o, l): (usize, usize) = (kani::any(), kani::any());
    let s = r.slice(o, l);
    assert!(o as u128 + l as u128 <= len as u128);
    assert!(wf_run_ends(&v, s.offset(), s.len()));
    kani::cover!(o + l == len && l > 0);
    kani::cover!(l == 0 && o == len);
}
