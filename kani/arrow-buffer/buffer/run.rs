// Kani contract harnesses for /repo/arrow-buffer/src/buffer/run.rs (child module: sees private items via super::)
