// Kani contract harnesses for /repo/arrow-buffer/src/util/bit_iterator.rs (child module: sees private items via super::)
//
// Specification side (C19, C03 layer 0): a mask is the boolean sequence b_i = bit(buf, off+i),
// 0 <= i < len, with bit(s, i) = (s[i/8] >> (i%8)) & 1 (spec::bit).
// Iterator contracts are written with a universally quantified probe position t (a symbolic
// value): "t is yielded  <=>  t < len && b_t" together with "strictly ascending, every item in
// range" pins the yielded sequence to exactly the ascending set positions, without a
// specification-side search loop (measured in the design phase: a lock-step "find the next set
// bit" loop did not finish in 4.5 min).
use super::*;
#[path = "/verif/kani/support/spec.rs"]
mod spec;
use spec::*;

// ------------------------------------------------------------------------------------------------
// BitIterator
// ------------------------------------------------------------------------------------------------

// Contract (C19): BitIterator::new(buf, off, len) on an 8-byte buffer, EVERY off, len with
// off+len <= 64, followed by EVERY sequence of three operations drawn from
// {next, next_back, nth(n), nth_back(n)} with EVERY usize n. Model: the remaining items are
// b_f .. b_(e-1) (initially f=0, e=len):
//   next()      = Some(b_f), f+1            | None if f == e
//   next_back() = Some(b_(e-1)), e-1        | None if f == e
//   nth(n)      = Some(b_(f+n)), f+n+1      | None and exhausted if n >= e-f (also when f+n overflows)
//   nth_back(n) = Some(b_(e-1-n)), e-n-1    | None and exhausted if n >= e-f
// and after every step len() == e-f, size_hint() == (e-f, Some(e-f)); finally count() == e-f and
// last() == Some(b_(e-1)) (None when empty). No bit outside [off+f, off+e) influences any result.
// @unit name=bit_iterator_ops props=C19,C03 kind=bounded bound=buffer=8_bytes_all_offsets_and_lengths_3_operations timeout=600
//       fns=BitIterator::new,BitIterator::next,BitIterator::next_back,BitIterator::nth,BitIterator::nth_back,BitIterator::size_hint,BitIterator::count,BitIterator::last
#[kani::proof]
#[kani::unwind(5)]
#[kani::stub(alloc::fmt::format, stub_format)]
fn bit_iterator_ops() {
    let d: [u8; 8] = kani::any();
    let off: usize = kani::any();
    let len: usize = kani::any();
    kani::assume(off <= 64 && len <= 64 - off);
    let mut it = BitIterator::new(&d, off, len);
    let (mut f, mut e) = (0usize, len);
    assert!(it.len() == len && it.size_hint() == (len, Some(len)));
    let mut step = 0;
    let (mut some_front, mut some_back, mut none_seen) = (false, false, false);
    while step < 3 {
        let op: u8 = kani::any();
        let n: usize = kani::any();
        let r;
        let want;
        if op == 0 {
            r = it.next();
            want = if f < e { f += 1; Some(bit(&d, off + f - 1)) } else { None };
            some_front |= want.is_some();
        } else if op == 1 {
            r = it.next_back();
            want = if f < e { e -= 1; Some(bit(&d, off + e)) } else { None };
            some_back |= want.is_some();
        } else if op == 2 {
            r = it.nth(n);
            want = if n < e - f { f += n + 1; Some(bit(&d, off + f - 1)) } else { f = e; None };
            some_front |= want.is_some() && n > 0;
        } else {
            r = it.nth_back(n);
            want = if n < e - f { e -= n + 1; Some(bit(&d, off + e)) } else { f = e; None };
            some_back |= want.is_some() && n > 0;
        }
        none_seen |= want.is_none();
        assert!(r == want);
        assert!(it.len() == e - f && it.size_hint() == (e - f, Some(e - f)));
        step += 1;
    }
    assert!(it.clone().count() == e - f);
    assert!(it.clone().last() == if f < e { Some(bit(&d, off + e - 1)) } else { None });
    // the remaining items are still b_f .. b_(e-1)
    let mut rest = it.clone();
    assert!(rest.next() == if f < e { Some(bit(&d, off + f)) } else { None });
    kani::cover!(some_front && some_back && e - f > 3);
    kani::cover!(none_seen && len > 0);
    kani::cover!(len == 64 && e - f == 61);
    kani::cover!(f < e && it.clone().last() == Some(true) && it.clone().next() == Some(false));
}

// Contract (C19): BitIterator::new panics (rejects) whenever ceil((off+len)/8) > len(buf),
// including usize overflow of off+len: if it returns, the range fits and len() == len.
// @unit name=bit_iterator_new_rejects props=C19 kind=complete fns=BitIterator::new mayreject=1 timeout=240
#[kani::proof]
#[kani::stub(alloc::fmt::format, stub_format)]
fn bit_iterator_new_rejects() {
    let d: [u8; 4] = kani::any();
    let n: usize = kani::any();
    kani::assume(n <= 4);
    let off: usize = kani::any();
    let len: usize = kani::any();
    let it = BitIterator::new(&d[..n], off, len);
    assert!(off <= 8 * n && len <= 8 * n - off);
    assert!(it.len() == len);
    kani::cover!(len == 32);
    kani::cover!(len == 0 && off == 8 * n && n == 4);
}

// Contract (C19): BitIterator::max() on the items still to come (after a symbolic number of
// next()/next_back() steps): None if there are none, Some(true) if some remaining b_i is set,
// Some(false) otherwise - bits in front of / behind the remaining range (also those in the same
// byte) do not count. 3-byte buffer, EVERY off, len; "some bit of [a, b) is set" is written on the
// integer view of the buffer (word & range mask != 0).
// @unit name=bit_iterator_max props=C19 kind=bounded bound=buffer=3_bytes_all_offsets_and_lengths timeout=600
//       fns=BitIterator::max,BitIndexIterator::new,BitIndexIterator::next
#[kani::proof]
#[kani::unwind(10)]
#[kani::stub(alloc::fmt::format, stub_format)]
fn bit_iterator_max() {
    let d: [u8; 3] = kani::any();
    let off: usize = kani::any();
    let len: usize = kani::any();
    kani::assume(off <= 24 && len <= 24 - off);
    let mut it = BitIterator::new(&d, off, len);
    let (mut f, mut e) = (0usize, len);
    if kani::any() && f < e {
        it.next();
        f += 1;
    }
    if kani::any() && f < e {
        it.next_back();
        e -= 1;
    }
    let w = u32::from_le_bytes([d[0], d[1], d[2], 0]);
    let mask = (((1u64 << (off + e)) - 1) & !((1u64 << (off + f)) - 1)) as u32;
    let want = if f == e { None } else { Some(w & mask != 0) };
    assert!(it.max() == want);
    kani::cover!(want == Some(false) && w != 0 && f == 1 && e == len - 1);
    kani::cover!(want == Some(true) && (w & mask).count_ones() == 1);
    kani::cover!(want.is_none() && len == 2);
}

// ------------------------------------------------------------------------------------------------
// BitIndexIterator, BitIndexU32Iterator, BitSliceIterator at concrete (offset, length) shapes
// (grid rule: the chunk structure depends on the shape; contents are fully symbolic)
// ------------------------------------------------------------------------------------------------

// Straight-line repetition (no harness loop): the harness-wide unwind bound can then stay at the
// small number the iterator's own chunk loop needs (<= 3 iterations for <= 16 bytes), instead of
// LEN+2, which would unwind that inner loop LEN+2 times in each of the LEN+1 calls (measured: the
// looped form of the 20-bit unit did not finish in 25 min under load).
macro_rules! rep {
    (1, $e:expr) => { $e; };
    (2, $e:expr) => { $e; $e; };
    (4, $e:expr) => { rep!(2, $e); rep!(2, $e); };
    (8, $e:expr) => { rep!(4, $e); rep!(4, $e); };
    (16, $e:expr) => { rep!(8, $e); rep!(8, $e); };
    (32, $e:expr) => { rep!(16, $e); rep!(16, $e); };
    (64, $e:expr) => { rep!(32, $e); rep!(32, $e); };
    // the call counts used below
    (6, $e:expr) => { rep!(4, $e); rep!(2, $e); };
    (11, $e:expr) => { rep!(8, $e); rep!(2, $e); rep!(1, $e); };
    (13, $e:expr) => { rep!(8, $e); rep!(4, $e); rep!(1, $e); };
    (21, $e:expr) => { rep!(16, $e); rep!(4, $e); rep!(1, $e); };
    (25, $e:expr) => { rep!(16, $e); rep!(8, $e); rep!(1, $e); };
    (36, $e:expr) => { rep!(32, $e); rep!(4, $e); };
    (71, $e:expr) => { rep!(64, $e); rep!(4, $e); rep!(2, $e); rep!(1, $e); };
}

// Contract (C19, C03 layer 0): BitIndexIterator::new(buf, OFF, LEN) yields, for EVERY content of
// buf: only positions y < LEN with b_y set, in strictly ascending order, and EVERY set position
// (probe t: t is yielded <=> t < LEN && b_t); it ends with None after at most LEN items. Hence
// the yielded sequence is exactly the ascending set positions of the mask at bit offset OFF; set
// bits of buf in front of OFF or behind OFF+LEN (the buffer has slack on both sides) are never
// yielded. BitIndexU32Iterator: the same positions as u32.
macro_rules! index_iter_unit {
    ($name:ident, $iter:ident, $off:expr, $len:expr, $nbytes:expr, $calls:tt) => {
        #[kani::proof]
        #[kani::unwind(5)]
        #[kani::stub(alloc::fmt::format, stub_format)]
        #[allow(trivial_numeric_casts)]
        fn $name() {
            const OFF: usize = $off;
            const LEN: usize = $len;
            let d: [u8; $nbytes] = kani::any();
            let t: usize = kani::any();
            let mut it = $iter::new(&d, OFF, LEN);
            let (mut seen, mut done, mut count) = (false, false, 0usize);
            let mut prev: Option<usize> = None;
            // LEN+1 calls of next(): at most LEN items, then None
            let mut step = || {
                if !done {
                    match it.next() {
                        Some(y) => {
                            let y = y as usize;
                            assert!(y < LEN && bit(&d, OFF + y));
                            if let Some(p) = prev {
                                assert!(p < y);
                            }
                            prev = Some(y);
                            seen |= y == t;
                            count += 1;
                        }
                        None => done = true,
                    }
                }
            };
            rep!($calls, step());
            assert!(done);
            assert!(seen == (t < LEN && bit(&d, OFF + t)));
            kani::cover!(count == LEN);
            kani::cover!(count == 0 && (OFF == 0 || d[0] & 1 == 1) && (OFF + LEN == 8 * $nbytes || d[$nbytes - 1] >> 7 == 1));
            kani::cover!(count == 2 && seen && t == LEN - 1);
        }
    };
}
// quick: masks <= 24 bits
// (confirmed OK once under 3-5x machine load, 650-2350 s there: thorough until re-measured)
// @unit name=bit_index_iter_0_24 props=C19,C03 kind=bounded tier=thorough bound=mask=24_bits_at_offset_0 fns=BitIndexIterator::new,BitIndexIterator::next timeout=3000 mem=5
index_iter_unit!(bit_index_iter_0_24, BitIndexIterator, 0, 24, 3, 25);
// (confirmed OK under load: 356 s / 544 s: thorough until re-measured)
// @unit name=bit_index_iter_5_20 props=C19,C03 kind=bounded tier=thorough bound=mask=20_bits_at_offset_5 fns=BitIndexIterator::new,BitIndexIterator::next timeout=3000 mem=5
index_iter_unit!(bit_index_iter_5_20, BitIndexIterator, 5, 20, 4, 21);
// @unit name=bit_index_iter_59_10 props=C19,C03 kind=bounded bound=mask=10_bits_at_offset_59_(crosses_the_64-bit_edge) fns=BitIndexIterator::new,BitIndexIterator::next timeout=3000 mem=5
index_iter_unit!(bit_index_iter_59_10, BitIndexIterator, 59, 10, 9, 11);
// (confirmed OK once under 3-5x machine load, 650-2350 s there: thorough until re-measured)
// @unit name=bit_index_u32_iter_5_20 props=C19,C03 kind=bounded tier=thorough bound=mask=20_bits_at_offset_5 fns=BitIndexU32Iterator::new,BitIndexU32Iterator::next timeout=3000 mem=5
index_iter_unit!(bit_index_u32_iter_5_20, BitIndexU32Iterator, 5, 20, 4, 21);
// (confirmed OK once under 3-5x machine load, 650-2350 s there: thorough until re-measured)
// @unit name=bit_index_u32_iter_59_10 props=C19,C03 kind=bounded tier=thorough bound=mask=10_bits_at_offset_59_(crosses_the_64-bit_edge) fns=BitIndexU32Iterator::new,BitIndexU32Iterator::next timeout=3000 mem=5
index_iter_unit!(bit_index_u32_iter_59_10, BitIndexU32Iterator, 59, 10, 9, 11);
// thorough: 70-bit mask at offset 3 (two words: prefix + suffix), every content.
// NOT CONFIRMED: all three 3_70 units hit the 3000 s timeout (one was killed at the 10 GB cap) at 3-5x machine load.
// @unit name=bit_index_iter_3_70 props=C19,C03 kind=bounded bound=mask=70_bits_at_offset_3 fns=BitIndexIterator::new,BitIndexIterator::next tier=thorough timeout=3000 mem=6
index_iter_unit!(bit_index_iter_3_70, BitIndexIterator, 3, 70, 10, 71);
// @unit name=bit_index_u32_iter_3_70 props=C19,C03 kind=bounded bound=mask=70_bits_at_offset_3 fns=BitIndexU32Iterator::new,BitIndexU32Iterator::next tier=thorough timeout=3000 mem=6
index_iter_unit!(bit_index_u32_iter_3_70, BitIndexU32Iterator, 3, 70, 10, 71);

// Contract (C19, C03 layer 0): BitSliceIterator::new(buf, OFF, LEN) yields, for EVERY content of
// buf, runs (s, e) with s < e <= LEN, each run starting strictly behind the end of the previous
// one (so two runs are separated by at least one position), and a position t lies in some yielded
// run <=> t < LEN && b_t. Hence the runs are exactly the maximal runs of set bits, ascending; it
// ends with None after at most ceil(LEN/2) runs. Set bits of buf outside [OFF, OFF+LEN) never
// extend a run.
macro_rules! slice_iter_unit {
    ($name:ident, $off:expr, $len:expr, $nbytes:expr, $calls:tt) => {
        #[kani::proof]
        #[kani::unwind(5)]
        #[kani::stub(alloc::fmt::format, stub_format)]
        fn $name() {
            const OFF: usize = $off;
            const LEN: usize = $len;
            let d: [u8; $nbytes] = kani::any();
            let t: usize = kani::any();
            let mut it = BitSliceIterator::new(&d, OFF, LEN);
            let (mut inside, mut done, mut count) = (false, false, 0usize);
            let mut prev_end: Option<usize> = None;
            // ceil(LEN/2)+1 calls of next(): at most ceil(LEN/2) runs, then None
            let mut step = || {
                if !done {
                    match it.next() {
                        Some((s, e)) => {
                            assert!(s < e && e <= LEN);
                            if let Some(p) = prev_end {
                                assert!(p < s);
                            }
                            prev_end = Some(e);
                            inside |= s <= t && t < e;
                            count += 1;
                        }
                        None => done = true,
                    }
                }
            };
            rep!($calls, step());
            assert!(done);
            assert!(inside == (t < LEN && bit(&d, OFF + t)));
            kani::cover!(count == (LEN + 1) / 2);
            kani::cover!(count == 1 && prev_end == Some(LEN) && inside && t == 0 && (OFF == 0 || d[0] & 1 == 0));
            kani::cover!(count == 0 && (OFF == 0 || d[0] & 1 == 1) && (OFF + LEN == 8 * $nbytes || d[$nbytes - 1] >> 7 == 1));
        }
    };
}
// (confirmed OK once under 3-5x machine load, 650-2350 s there: thorough until re-measured)
// @unit name=bit_slice_iter_0_24 props=C19,C03 kind=bounded tier=thorough bound=mask=24_bits_at_offset_0 fns=BitSliceIterator::new,BitSliceIterator::next,BitSliceIterator::advance_to_set_bit timeout=3000 mem=5
slice_iter_unit!(bit_slice_iter_0_24, 0, 24, 3, 13);
// (confirmed OK once under load in 491 s, 4 GB; timed out at 3000 s in the full pass next to two other heavy units: thorough until re-measured)
// @unit name=bit_slice_iter_5_20 props=C19,C03 kind=bounded tier=thorough bound=mask=20_bits_at_offset_5 fns=BitSliceIterator::new,BitSliceIterator::next,BitSliceIterator::advance_to_set_bit timeout=3000 mem=5
slice_iter_unit!(bit_slice_iter_5_20, 5, 20, 4, 11);
// @unit name=bit_slice_iter_59_10 props=C19,C03 kind=bounded bound=mask=10_bits_at_offset_59_(a_run_may_cross_the_64-bit_edge) fns=BitSliceIterator::new,BitSliceIterator::next,BitSliceIterator::advance_to_set_bit timeout=3000 mem=5
slice_iter_unit!(bit_slice_iter_59_10, 59, 10, 9, 6);
// @unit name=bit_slice_iter_3_70 props=C19,C03 kind=bounded bound=mask=70_bits_at_offset_3 fns=BitSliceIterator::new,BitSliceIterator::next,BitSliceIterator::advance_to_set_bit tier=thorough timeout=3000 mem=6
slice_iter_unit!(bit_slice_iter_3_70, 3, 70, 10, 36);

// ------------------------------------------------------------------------------------------------
// try_for_each_valid_idx
// ------------------------------------------------------------------------------------------------

// Contract (C19): try_for_each_valid_idx(len, off, null_count, nulls, f) with len = 10 at offset 3
// of a 2-byte validity mask (every content), null_count = the number of unset b_i (the caller's
// duty) and f = "record the index; fail with Err at a symbolic index": f is called on exactly the
// positions with b_i set, ascending (all of 0..len when null_count == 0, none when
// null_count == len), up to and including the first position where f fails; the result is that
// Err, or Ok when f never fails. Probe formulation as for BitIndexIterator.
// NOT CONFIRMED: timed out at 3000 s under 3-5x machine load (try_for_each drives the iterator in a loop, so unwind(13) unwinds the inner chunk loop 13 times per item).
// @unit name=try_for_each_valid_idx_3_10 props=C19 kind=bounded bound=len=10_offset=3 fns=try_for_each_valid_idx tier=thorough timeout=3000
#[kani::proof]
#[kani::unwind(13)]
#[kani::stub(alloc::fmt::format, stub_format)]
fn try_for_each_valid_idx_3_10() {
    const OFF: usize = 3;
    const LEN: usize = 10;
    let d: [u8; 2] = kani::any();
    let mut nulls = 0usize;
    let mut i = 0;
    while i < LEN {
        if !bit(&d, OFF + i) {
            nulls += 1;
        }
        i += 1;
    }
    let fail_at: usize = kani::any();
    let t: usize = kani::any();
    let (mut seen, mut prev, mut failed) = (false, None::<usize>, false);
    let r = try_for_each_valid_idx(LEN, OFF, nulls, Some(&d[..]), |y| {
        assert!(!failed); // f is not called again after it failed
        assert!(y < LEN && bit(&d, OFF + y));
        if let Some(p) = prev {
            assert!(p < y);
        }
        prev = Some(y);
        seen |= y == t;
        if y == fail_at {
            failed = true;
            Err(y)
        } else {
            Ok(())
        }
    });
    let fails = fail_at < LEN && bit(&d, OFF + fail_at);
    assert!(r == if fails { Err(fail_at) } else { Ok(()) });
    assert!(seen == (t < LEN && bit(&d, OFF + t) && (!fails || t <= fail_at)));
    kani::cover!(nulls == 0 && !fails);
    kani::cover!(nulls == LEN);
    kani::cover!(nulls == 4 && fails && seen && t < fail_at);
}
