// Kani contract harnesses for /repo/arrow-buffer/src/util/bit_chunk_iterator.rs (child module: sees private items via super::)
