// Kani contract harnesses for /repo/arrow-buffer/src/util/bit_chunk_iterator.rs (child module: sees private items via super::)
//
// Specification side (C19): bit(s, i) = (s[i/8] >> (i%8)) & 1 (spec::bit); a sequence of words
// w_0, w_1, ... is read as the bit sequence whose position q is bit q%64 of w_(q/64).
use super::*;
#[path = "/verif/kani/support/spec.rs"]
mod spec;
use spec::*;

/// bit p of a word (specification helper)
fn wbit(w: u64, p: usize) -> bool {
    (w >> p) & 1 == 1
}

// ------------------------------------------------------------------------------------------------
// compute_prefix_mask, compute_suffix_mask, read_u64 (the private copy of this module)
// ------------------------------------------------------------------------------------------------

// Contract (C19): compute_prefix_mask(lead) for EVERY lead in 0..64: bit k of the mask is set
// exactly when k >= lead (the lead padding positions are masked out, nothing else).
// compute_suffix_mask(len, lead) for EVERY len, lead whose sum does not overflow: with
// t = (len+lead) % 64: t == 0 => (all ones, 0 padding); otherwise bit k of the mask is set exactly
// when k < t and the trailing padding is 64 - t.
// @unit name=prefix_suffix_masks props=C19 kind=complete fns=compute_prefix_mask,compute_suffix_mask timeout=120
#[kani::proof]
fn prefix_suffix_masks() {
    let lead: usize = kani::any();
    let k: usize = kani::any();
    kani::assume(k < 64);
    if lead < 64 {
        let m = compute_prefix_mask(lead);
        assert!(wbit(m, k) == (k >= lead));
    }
    let len: usize = kani::any();
    kani::assume(len <= usize::MAX - lead);
    let (sm, tp) = compute_suffix_mask(len, lead);
    let t = (len + lead) % 64;
    if t == 0 {
        assert!(sm == u64::MAX && tp == 0);
    } else {
        assert!(tp == 64 - t);
        assert!(wbit(sm, k) == (k < t));
    }
    kani::cover!(lead == 0 && k == 0);
    kani::cover!(lead == 63 && k == 63);
    kani::cover!(t == 0 && len > 0);
    kani::cover!(t == 63 && k == 62);
    kani::cover!(t == 1 && k == 1);
}

// Contract (C19): read_u64(s) (module-private copy) for EVERY slice of 0..=8 bytes: bit p of the
// result is bit(s, p) for p < 8*len(s) and 0 otherwise; bytes behind the slice are not read.
// @unit name=chunk_read_u64_contract props=C19 kind=complete fns=read_u64 timeout=120
#[kani::proof]
#[kani::unwind(10)]
fn chunk_read_u64_contract() {
    let d: [u8; 10] = kani::any();
    let n: usize = kani::any();
    kani::assume(n <= 8);
    let w = read_u64(&d[..n]);
    let p: usize = kani::any();
    kani::assume(p < 64);
    assert!(wbit(w, p) == (p < 8 * n && bit(&d, p)));
    kani::cover!(n == 0);
    kani::cover!(n == 8 && wbit(w, 63));
    kani::cover!(n == 3 && p == 24 && bit(&d, p));
}

// ------------------------------------------------------------------------------------------------
// BitChunks / BitChunkIterator
// ------------------------------------------------------------------------------------------------

const NB: usize = 24;

// Contract (C19): BitChunks::new(buf, off, len) on a 24-byte buffer for EVERY off, len with
// off+len <= 192 (the range may end on the very last bit of the allocation, so any read behind the
// addressed bytes is a memory-safety failure):
//   chunk_len() == len/64, remainder_len() == len%64, num_u64s() == ceil(len/64),
//   num_bytes() == ceil(len/8);
//   iter() yields exactly chunk_len() words, word k has bit p == bit(buf, off + 64k + p);
//   size_hint()/len() of the iterator count the words still to come, exactly, after every step,
//   and next() keeps returning None at the end;
//   remainder_bits() has bit p == bit(buf, off + 64*chunk_len + p) for p < len%64 and ZERO above
//   (bits behind the range are not read as data);
//   iter_padded() yields the same words, then remainder_bits(), then None.
// @unit name=bit_chunks_contract props=C19 kind=bounded bound=buffer=24_bytes_all_offsets_and_lengths timeout=900 mem=3
//       fns=BitChunks::new,BitChunks::iter,BitChunks::remainder_bits,BitChunks::remainder_len,BitChunks::chunk_len,BitChunks::num_u64s,BitChunks::num_bytes,BitChunkIterator::next,BitChunkIterator::size_hint,BitChunkIterator::len
#[kani::proof]
#[kani::unwind(10)]
#[kani::stub(alloc::fmt::format, stub_format)]
fn bit_chunks_contract() {
    let d: [u8; NB] = kani::any();
    let off: usize = kani::any();
    let len: usize = kani::any();
    kani::assume(off <= 8 * NB && len <= 8 * NB && off + len <= 8 * NB);
    let c = BitChunks::new(&d, off, len);
    assert!(c.chunk_len() == len / 64 && c.remainder_len() == len % 64);
    assert!(c.num_u64s() == (len + 63) / 64 && c.num_bytes() == (len + 7) / 8);
    let mut it = c.iter();
    let mut words = [0u64; 3];
    let mut m = 0usize;
    assert!(it.len() == len / 64 && it.size_hint() == (len / 64, Some(len / 64)));
    while let Some(w) = it.next() {
        assert!(m < 3);
        words[m] = w;
        m += 1;
        assert!(it.len() == len / 64 - m && it.size_hint() == (len / 64 - m, Some(len / 64 - m)));
    }
    assert!(m == len / 64);
    assert!(it.next().is_none());
    let rem = c.remainder_bits();
    let i: usize = kani::any();
    kani::assume(i < 8 * NB);
    if i < len {
        let got = if i / 64 < m { wbit(words[i / 64], i % 64) } else { wbit(rem, i % 64) };
        assert!(got == bit(&d, off + i));
    }
    let p: usize = kani::any();
    kani::assume(p < 64);
    if p >= len % 64 {
        assert!(!wbit(rem, p));
    }
    kani::cover!(len == 0);
    kani::cover!(off == 0 && len == 192 && i == 191 && bit(&d, i));
    kani::cover!(off % 8 == 5 && len == 187 && i == 186 && bit(&d, off + i));
    kani::cover!(off % 8 == 3 && len % 64 == 9 && p == 9 && off + len + 1 < 192 && bit(&d, off + len)); // set bit right behind the range is masked
    kani::cover!(off % 8 == 0 && len == 64 && m == 1);
}

// Contract (C19): iter_padded() on the same shapes: yields chunk_len() words equal to those of
// iter(), then remainder_bits() (also when the remainder is empty: a zero word), then None.
// @unit name=bit_chunks_iter_padded props=C19 kind=bounded bound=buffer=24_bytes_all_offsets_and_lengths timeout=900 mem=3
//       fns=BitChunks::iter_padded,BitChunks::iter,BitChunks::remainder_bits,BitChunkIterator::next
#[kani::proof]
#[kani::unwind(10)]
#[kani::stub(alloc::fmt::format, stub_format)]
fn bit_chunks_iter_padded() {
    let d: [u8; NB] = kani::any();
    let off: usize = kani::any();
    let len: usize = kani::any();
    kani::assume(off <= 8 * NB && len <= 8 * NB && off + len <= 8 * NB);
    let c = BitChunks::new(&d, off, len);
    let mut it = c.iter_padded();
    let mut words = [0u64; 4];
    let mut m = 0usize;
    while let Some(w) = it.next() {
        assert!(m < 4);
        words[m] = w;
        m += 1;
    }
    assert!(m == len / 64 + 1);
    let i: usize = kani::any();
    kani::assume(i < 4 * 64);
    // the padded sequence is the addressed bits followed by zeros up to the next multiple of 64
    if i < 64 * m {
        assert!(wbit(words[i / 64], i % 64) == (i < len && bit(&d, off + i)));
    }
    kani::cover!(len == 0 && m == 1);
    kani::cover!(len == 192 && m == 4 && off == 0);
    kani::cover!(off % 8 == 7 && len == 130 && i == 129 && bit(&d, off + i));
}

// Contract (C19): BitChunks::new panics (rejects) whenever the range does not fit the buffer
// (ceil((off+len)/8) > len(buf), including usize overflow of off+len): if it returns, the range fits.
// EVERY usize off and len, buffer of 0..=4 bytes.
// @unit name=bit_chunks_new_rejects props=C19 kind=complete fns=BitChunks::new mayreject=1 timeout=240
#[kani::proof]
#[kani::stub(alloc::fmt::format, stub_format)]
fn bit_chunks_new_rejects() {
    let d: [u8; 4] = kani::any();
    let n: usize = kani::any();
    kani::assume(n <= 4);
    let off: usize = kani::any();
    let len: usize = kani::any();
    let c = BitChunks::new(&d[..n], off, len);
    assert!(off <= 8 * n && len <= 8 * n - off);
    assert!(c.chunk_len() == 0 && c.remainder_len() == len);
    kani::cover!(len == 32);
    kani::cover!(len == 0 && off == 8 * n && n == 4);
    kani::cover!(off == 31 && len == 1);
}

// ------------------------------------------------------------------------------------------------
// UnalignedBitChunk
// ------------------------------------------------------------------------------------------------

#[repr(align(8))]
struct Aligned([u8; 40]);

// Contract (C19): UnalignedBitChunk::new(buf, off, len) for a buffer of n <= 24 bytes that starts
// at ANY alignment (byte s in 0..8 of an 8-aligned allocation), EVERY off, len with
// off+len <= 8n. Let w_0..w_(m-1) = iter(), lead = lead_padding(), trail = trailing_padding():
//   len == 0: no words, no padding;
//   len > 0: lead < 64, trail < 64, 64*m == lead + len + trail (so m is minimal), and position q
//   of the word sequence is bit(buf, off + q - lead) for lead <= q < lead+len and ZERO in both
//   paddings: prefix, chunks and suffix together enumerate exactly the addressed bits, and the
//   bits sharing a byte/word with either end are not read as data;
//   iter() is prefix() ++ chunks() ++ suffix();
//   count_ones() == sum of popcount(w_k) (with the clause above: the number of set addressed bits;
//   checked against the naive count by `unaligned_count_ones_naive`).
// @unit name=unaligned_chunk_contract props=C19 kind=bounded bound=buffer<=24_bytes_any_start_alignment_all_offsets_and_lengths timeout=900 mem=3
//       fns=UnalignedBitChunk::new,UnalignedBitChunk::iter,UnalignedBitChunk::lead_padding,UnalignedBitChunk::trailing_padding,UnalignedBitChunk::prefix,UnalignedBitChunk::suffix,UnalignedBitChunk::chunks,UnalignedBitChunk::count_ones,compute_prefix_mask,compute_suffix_mask,read_u64
#[kani::proof]
#[kani::unwind(10)]
#[kani::stub(alloc::fmt::format, stub_format)]
fn unaligned_chunk_contract() {
    let a = Aligned(kani::any());
    let s: usize = kani::any();
    let n: usize = kani::any();
    kani::assume(s < 8 && n <= NB);
    let buf = &a.0[s..s + n];
    let off: usize = kani::any();
    let len: usize = kani::any();
    kani::assume(off <= 8 * n && len <= 8 * n - off);
    let u = UnalignedBitChunk::new(buf, off, len);
    let (lead, trail) = (u.lead_padding(), u.trailing_padding());
    let mut words = [0u64; 5];
    let mut m = 0usize;
    let mut ones = 0usize;
    let mut it = u.iter();
    while let Some(w) = it.next() {
        assert!(m < 5);
        words[m] = w;
        m += 1;
        ones += w.count_ones() as usize;
    }
    if len == 0 {
        assert!(m == 0 && lead == 0 && trail == 0);
    } else {
        assert!(lead < 64 && trail < 64);
        assert!(64 * m == lead + len + trail);
    }
    let q: usize = kani::any();
    kani::assume(q < 5 * 64);
    if q < 64 * m {
        assert!(wbit(words[q / 64], q % 64) == (q >= lead && q < lead + len && bit(buf, off + (q - lead))));
    }
    // accessors agree with iter()
    let np = if u.prefix().is_some() { 1 } else { 0 };
    let ns = if u.suffix().is_some() { 1 } else { 0 };
    assert!(m == np + u.chunks().len() + ns);
    if np == 1 {
        assert!(u.prefix() == Some(words[0]));
    }
    if ns == 1 {
        assert!(u.suffix() == Some(words[m - 1]));
    }
    let k: usize = kani::any();
    if k < u.chunks().len() {
        assert!(u.chunks()[k] == words[np + k]);
    }
    assert!(u.count_ones() == ones);
    kani::cover!(len == 0);
    kani::cover!(n <= 8 && len > 0 && m == 1 && lead == 3 && trail == 2);
    kani::cover!(n > 8 && n <= 16 && m == 2 && off % 8 == 5);
    kani::cover!(n > 16 && u.chunks().len() == 3); // fully aligned: no prefix, no suffix
    kani::cover!(n > 16 && m == 4 && np == 1 && ns == 1 && u.chunks().len() == 2 && lead > 8); // alignment padding in the prefix
    kani::cover!(n > 16 && off / 8 > 0 && np == 1 && ns == 0 && trail == 0);
    kani::cover!(n > 16 && off % 8 != 0 && (s + off / 8) % 8 == 0 && lead < 8 && m == 3); // prefix taken from the first aligned chunk
}

// Contract (C19): UnalignedBitChunk::count_ones() == the number of i in [0, len) with
// bit(buf, off+i), counted naively bit by bit. Bounded: len <= 16 bits at EVERY offset 0..64 of a
// 10-byte buffer at any start alignment (a naive count of a longer range against popcount is a
// hard SAT instance; longer ranges are covered structurally by unaligned_chunk_contract).
// @unit name=unaligned_count_ones_naive props=C19 kind=bounded bound=len<=16_bits_offset<64_buffer=10_bytes timeout=600
//       fns=UnalignedBitChunk::count_ones,UnalignedBitChunk::new,UnalignedBitChunk::iter
#[kani::proof]
#[kani::unwind(18)]
#[kani::stub(alloc::fmt::format, stub_format)]
fn unaligned_count_ones_naive() {
    let a = Aligned(kani::any());
    let s: usize = kani::any();
    kani::assume(s < 8);
    let buf = &a.0[s..s + 10];
    let off: usize = kani::any();
    let len: usize = kani::any();
    kani::assume(off < 64 && len <= 16);
    let got = UnalignedBitChunk::new(buf, off, len).count_ones();
    let mut want = 0usize;
    let mut i = 0;
    while i < 16 {
        if i < len && bit(buf, off + i) {
            want += 1;
        }
        i += 1;
    }
    assert!(got == want);
    kani::cover!(len == 16 && want == 16 && off == 63);
    kani::cover!(len == 0);
    kani::cover!(len == 9 && want == 0 && buf[(off + 9) / 8] == 0xff);
}
