// Kani contract harnesses for /repo/arrow-buffer/src/util/bit_util.rs (child module: sees private items via super::)
