// Kani contract harnesses for /repo/arrow-buffer/src/util/bit_util.rs (child module: sees private items via super::)
//
// Specification side (C19): a bit-packed sequence s is read as bit(s, i) = (s[i/8] >> (i%8)) & 1
// (spec::bit). Every contract below is stated on that definition only; no arrow-rs function is
// called on the specification side.
use super::*;
#[path = "/verif/kani/support/spec.rs"]
mod spec;
use spec::*;

/// bit p of a word (specification helper, independent of the code under test)
fn wbit(w: u64, p: usize) -> bool {
    (w >> p) & 1 == 1
}

// ------------------------------------------------------------------------------------------------
// get_bit / set_bit / unset_bit and the _raw variants
// ------------------------------------------------------------------------------------------------

// Contract (C19): for a slice s of any length n <= 8 bytes (the functions are loop-free and touch
// only byte i/8, so n is immaterial) and EVERY usize index i:
//   get_bit(s, i) panics (rejects) exactly when i/8 >= n, otherwise returns bit(s, i);
//   get_bit_raw(ptr, i) returns the same value for an in-range i.
// @unit name=get_bit_contract props=C19 kind=complete fns=get_bit,get_bit_raw mayreject=1 timeout=60
#[kani::proof]
fn get_bit_contract() {
    let d: [u8; 8] = kani::any();
    let n: usize = kani::any();
    kani::assume(n <= 8);
    let i: usize = kani::any();
    let s = &d[..n];
    let r = get_bit(s, i); // rejects (index panic) iff i / 8 >= n
    assert!(i / 8 < n); // reached => i addressed a byte of s
    assert!(r == bit(s, i));
    assert!(unsafe { get_bit_raw(s.as_ptr(), i) } == r);
    kani::cover!(r && i == 63);
    kani::cover!(!r && i == 0);
    kani::cover!(n == 1 && i == 7);
}

// Contract (C19): get_bit never rejects an index that addresses a byte of the slice.
// @unit name=get_bit_total props=C19 kind=complete fns=get_bit timeout=60
#[kani::proof]
fn get_bit_total() {
    let d: [u8; 8] = kani::any();
    let n: usize = kani::any();
    kani::assume(n <= 8);
    let i: usize = kani::any();
    kani::assume(i / 8 < n);
    let r = get_bit(&d[..n], i);
    assert!(r == bit(&d, i));
    kani::cover!(r);
    kani::cover!(!r);
}

// Contract (C19): set_bit(s, i) for every i with i/8 < len(s): afterwards bit j of the WHOLE
// enclosing buffer (including bytes after the slice) is: true if j == i, the old bit otherwise.
// Rejects (index panic) exactly when i/8 >= len(s). set_bit_raw writes the identical result.
// @unit name=set_bit_contract props=C19 kind=complete fns=set_bit,set_bit_raw mayreject=1 timeout=60
#[kani::proof]
fn set_bit_contract() {
    let mut d: [u8; 8] = kani::any();
    let n: usize = kani::any();
    kani::assume(n <= 8);
    let i: usize = kani::any();
    let old = d;
    let mut d2 = d;
    set_bit(&mut d[..n], i);
    assert!(i / 8 < n);
    unsafe { set_bit_raw(d2.as_mut_ptr(), i) };
    let j: usize = kani::any();
    kani::assume(j < 64);
    assert!(bit(&d, j) == (j == i || bit(&old, j)));
    assert!(d2 == d);
    kani::cover!(j == i && !bit(&old, j));
    kani::cover!(j != i && j / 8 == i / 8 && bit(&old, j));
    kani::cover!(j != i && j / 8 == i / 8 && !bit(&old, j));
    kani::cover!(j / 8 >= n);
}

// Contract (C19): set_bit does not reject an in-range index (companion of set_bit_contract).
// @unit name=set_unset_bit_total props=C19 kind=complete fns=set_bit,unset_bit timeout=60
#[kani::proof]
fn set_unset_bit_total() {
    let mut d: [u8; 8] = kani::any();
    let n: usize = kani::any();
    kani::assume(n <= 8);
    let i: usize = kani::any();
    kani::assume(i / 8 < n);
    let old = d;
    set_bit(&mut d[..n], i);
    assert!(bit(&d, i));
    unset_bit(&mut d[..n], i);
    assert!(!bit(&d, i));
    let j: usize = kani::any();
    kani::assume(j < 64 && j != i);
    assert!(bit(&d, j) == bit(&old, j));
    kani::cover!(bit(&old, i));
    kani::cover!(!bit(&old, i));
}

// Contract (C19): unset_bit(s, i): afterwards bit j of the whole enclosing buffer is: false if
// j == i, the old bit otherwise. Rejects exactly when i/8 >= len(s). unset_bit_raw identical.
// @unit name=unset_bit_contract props=C19 kind=complete fns=unset_bit,unset_bit_raw mayreject=1 timeout=60
#[kani::proof]
fn unset_bit_contract() {
    let mut d: [u8; 8] = kani::any();
    let n: usize = kani::any();
    kani::assume(n <= 8);
    let i: usize = kani::any();
    let old = d;
    let mut d2 = d;
    unset_bit(&mut d[..n], i);
    assert!(i / 8 < n);
    unsafe { unset_bit_raw(d2.as_mut_ptr(), i) };
    let j: usize = kani::any();
    kani::assume(j < 64);
    assert!(bit(&d, j) == (j != i && bit(&old, j)));
    assert!(d2 == d);
    kani::cover!(j == i && bit(&old, j));
    kani::cover!(j != i && j / 8 == i / 8 && bit(&old, j));
    kani::cover!(j != i && j / 8 == i / 8 && !bit(&old, j));
    kani::cover!(j / 8 >= n);
}

// ------------------------------------------------------------------------------------------------
// ceil, round_upto_multiple_of_64, round_upto_power_of_2
// ------------------------------------------------------------------------------------------------

// Contract (C19, sizing arithmetic used by every bit kernel): for the constant divisor K and EVERY
// usize value v, q = ceil(v, K) is the least q with q*K >= v, i.e. (in u128, multiplication by a
// constant only - see the "no 64-bit nonlinear spec" rule) q*K >= v and q*K - v < K. Never panics.
macro_rules! ceil_const {
    ($name:ident, $k:expr) => {
        #[kani::proof]
        fn $name() {
            let v: usize = kani::any();
            let q = ceil(v, $k);
            let (qk, vv) = ((q as u128) * ($k as u128), v as u128);
            assert!(qk >= vv && qk - vv < ($k as u128));
            kani::cover!(v == usize::MAX);
            kani::cover!(v == 0 && q == 0);
            kani::cover!(qk - vv == ($k as u128) - 1);
        }
    };
}
// @unit name=ceil_div_8 props=C19 kind=complete fns=ceil timeout=120
ceil_const!(ceil_div_8, 8usize);
// @unit name=ceil_div_64 props=C19 kind=complete fns=ceil timeout=120
ceil_const!(ceil_div_64, 64usize);
// @unit name=ceil_div_1 props=C19 kind=complete fns=ceil timeout=120
ceil_const!(ceil_div_1, 1usize);
// @unit name=ceil_div_3 props=C19 kind=complete fns=ceil timeout=240
ceil_const!(ceil_div_3, 3usize);

// Contract (C19): ceil(v, d) for symbolic v and symbolic d > 0, both below 2^12 (narrow so that the
// product on the spec side stays cheap): least q with q*d >= v.
// @unit name=ceil_small props=C19 kind=bounded bound=value<4096_divisor<4096 fns=ceil timeout=240
#[kani::proof]
fn ceil_small() {
    let v: usize = kani::any();
    let d: usize = kani::any();
    kani::assume(v < 4096 && d > 0 && d < 4096);
    let q = ceil(v, d);
    assert!(q * d >= v && q * d - v < d);
    kani::cover!(q * d == v && v > 0);
    kani::cover!(q * d - v == d - 1 && d > 1);
}

// Contract (C19): round_upto_multiple_of_64(n) for EVERY n for which a multiple of 64 that is >= n
// exists in usize (n <= usize::MAX - 63): does not panic and returns r with r >= n, r - n < 64,
// r % 64 == 0 (so r is the least such multiple).
// @unit name=round_upto_multiple_of_64_ok props=C19 kind=complete fns=round_upto_multiple_of_64 timeout=60
#[kani::proof]
fn round_upto_multiple_of_64_ok() {
    let n: usize = kani::any();
    kani::assume(n <= usize::MAX - 63);
    let r = round_upto_multiple_of_64(n);
    assert!(r >= n && r - n < 64 && r % 64 == 0);
    kani::cover!(r == n && n > 0);
    kani::cover!(r - n == 63);
    kani::cover!(n == usize::MAX - 63);
}

// Contract (C19): round_upto_multiple_of_64 panics (rejects) on EVERY n whose rounding overflows:
// if the call returns, then n <= usize::MAX - 63 and the result is the least multiple.
// @unit name=round_upto_multiple_of_64_rejects props=C19 kind=complete fns=round_upto_multiple_of_64 mayreject=1 timeout=60
#[kani::proof]
fn round_upto_multiple_of_64_rejects() {
    let n: usize = kani::any();
    let r = round_upto_multiple_of_64(n);
    assert!(n <= usize::MAX - 63);
    assert!(r >= n && r - n < 64 && r % 64 == 0);
    kani::cover!(n == usize::MAX - 63);
    kani::cover!(n == 0);
}

// Contract (C19): round_upto_power_of_2(n, f) for EVERY n and EVERY power of two f = 2^s (s in
// 0..64, the documented precondition) such that a multiple of f that is >= n exists in usize
// (n <= 2^64 - f): does not panic, r >= n, r - n < f, r is a multiple of f. "Multiple of f" is
// written as r & (f-1) == 0, which for a power of two is the definition of r % f == 0 without a
// 64-bit symbolic division.
// @unit name=round_upto_power_of_2_ok props=C19 kind=complete fns=round_upto_power_of_2 timeout=120
#[kani::proof]
fn round_upto_power_of_2_ok() {
    let n: usize = kani::any();
    let s: u32 = kani::any();
    kani::assume(s < 64);
    let f: usize = 1usize << s;
    kani::assume(n <= (usize::MAX - f) + 1);
    let r = round_upto_power_of_2(n, f);
    assert!(r >= n && r - n < f && r & (f - 1) == 0);
    kani::cover!(s == 63 && n == 1);
    kani::cover!(s == 0 && n == usize::MAX);
    kani::cover!(r == n && n > 0 && s == 6);
    kani::cover!(r - n == f - 1 && s == 6);
}

// Contract (C19): round_upto_power_of_2 panics (rejects) exactly when the rounding overflows:
// if the call returns then n <= 2^64 - f, and the result is the least multiple.
// @unit name=round_upto_power_of_2_rejects props=C19 kind=complete fns=round_upto_power_of_2 mayreject=1 timeout=120
#[kani::proof]
fn round_upto_power_of_2_rejects() {
    let n: usize = kani::any();
    let s: u32 = kani::any();
    kani::assume(s < 64);
    let f: usize = 1usize << s;
    let r = round_upto_power_of_2(n, f);
    assert!(n <= (usize::MAX - f) + 1);
    assert!(r >= n && r - n < f && r & (f - 1) == 0);
    kani::cover!(n == (usize::MAX - f) + 1 && s == 3);
    kani::cover!(n == 0);
}

// ------------------------------------------------------------------------------------------------
// read_u64, read_up_to_byte_from_offset
// ------------------------------------------------------------------------------------------------

// Contract (C19): read_u64(s) for EVERY slice of 0..=8 bytes (all call sites pass at most 8 bytes):
// bit p of the result (p in 0..64) is bit(s, p) if p < 8*len(s) and 0 otherwise (zero padding);
// bytes of the enclosing buffer after the slice are not read as data.
// @unit name=read_u64_contract props=C19 kind=complete fns=read_u64 timeout=120
#[kani::proof]
#[kani::unwind(10)]
fn read_u64_contract() {
    let d: [u8; 10] = kani::any();
    let n: usize = kani::any();
    kani::assume(n <= 8);
    let w = read_u64(&d[..n]);
    let p: usize = kani::any();
    kani::assume(p < 64);
    assert!(wbit(w, p) == (p < 8 * n && bit(&d, p)));
    kani::cover!(n == 0);
    kani::cover!(n == 8 && wbit(w, 63));
    kani::cover!(n == 3 && p == 24 && bit(&d, p)); // a set bit just behind the slice is not seen
}

// Contract (C19): read_up_to_byte_from_offset(s, k, o) with 1 <= k < 8, o < 8 and
// len(s) >= ceil(k+o, 8) (the documented precondition): never panics; bit p (p in 0..8) of the
// result is bit(s, o+p) for p < k and 0 for p >= k: the k addressed bits, zero padded; the slice
// may be longer than needed and the extra bytes / the bits beyond o+k are not read as data.
// @unit name=read_up_to_byte_ok props=C19 kind=complete fns=read_up_to_byte_from_offset timeout=120
#[kani::proof]
#[kani::unwind(10)]
fn read_up_to_byte_ok() {
    let d: [u8; 4] = kani::any();
    let n: usize = kani::any();
    let k: usize = kani::any();
    let o: usize = kani::any();
    kani::assume(n <= 4 && k >= 1 && k < 8 && o < 8 && n >= (k + o + 7) / 8);
    let r = read_up_to_byte_from_offset(&d[..n], k, o);
    let p: usize = kani::any();
    kani::assume(p < 8);
    assert!(((r >> p) & 1 == 1) == (p < k && bit(&d, o + p)));
    kani::cover!(o + k > 8 && p + o >= 8 && p < k && bit(&d, o + p)); // bit taken from the 2nd byte
    kani::cover!(o + k == 8);
    kani::cover!(o + k < 8 && p >= k && p + o < 8 && bit(&d, o + p)); // set bit beyond the range is masked
    kani::cover!(n == 4 && k == 1 && o == 0);
}

// Contract (C19): read_up_to_byte_from_offset panics (rejects) on EVERY argument triple outside
// the documented domain (k == 0, k >= 8, o >= 8, empty or too short slice): if the call returns,
// the arguments were inside it and the result is the addressed bits.
// @unit name=read_up_to_byte_rejects props=C19 kind=complete fns=read_up_to_byte_from_offset mayreject=1 timeout=120
#[kani::proof]
#[kani::unwind(10)]
#[kani::stub(alloc::fmt::format, stub_format)]
fn read_up_to_byte_rejects() {
    let d: [u8; 4] = kani::any();
    let n: usize = kani::any();
    let k: usize = kani::any();
    let o: usize = kani::any();
    kani::assume(n <= 4);
    let r = read_up_to_byte_from_offset(&d[..n], k, o);
    assert!(k >= 1 && k < 8 && o < 8 && n >= 1 && n >= (k + o + 7) / 8);
    let p: usize = kani::any();
    kani::assume(p < 8);
    assert!(((r >> p) & 1 == 1) == (p < k && bit(&d, o + p)));
    kani::cover!(o + k > 8);
    kani::cover!(n == 1);
}

// ------------------------------------------------------------------------------------------------
// get_remainder_bits, set_remainder_bits, handle_mutable_buffer_remainder(_unary)
// ------------------------------------------------------------------------------------------------

// Contract (C19): get_remainder_bits(s, L) for EVERY L in 0..64 and the slice s of exactly
// ceil(L/8) bytes placed anywhere in a larger buffer: bit p (p in 0..64) of the result is
// bit(s, p) for p < L and 0 for p >= L; the bits of the last byte above L are not read as data.
// @unit name=get_remainder_bits_contract props=C19 kind=complete fns=get_remainder_bits timeout=120
#[kani::proof]
#[kani::unwind(10)]
fn get_remainder_bits_contract() {
    let d: [u8; 10] = kani::any();
    let l: usize = kani::any();
    let s: usize = kani::any();
    kani::assume(l < 64 && s <= 2);
    let nb = (l + 7) / 8;
    let w = get_remainder_bits(&d[s..s + nb], l);
    let p: usize = kani::any();
    kani::assume(p < 64);
    assert!(wbit(w, p) == (p < l && bit(&d, 8 * s + p)));
    kani::cover!(l == 0);
    kani::cover!(l == 63 && wbit(w, 62));
    kani::cover!(l % 8 != 0 && p >= l && p < 8 * nb && bit(&d, 8 * s + p)); // out-of-range set bit in the boundary byte
    kani::cover!(l == 8);
}

// Contract (C19): set_remainder_bits(s, w, L) for EVERY L in 1..64, EVERY word w and the slice s
// of exactly ceil(L/8) bytes placed anywhere in a larger buffer: afterwards bit p of s is bit p of
// w for p < L; every other bit of the enclosing buffer (the bits of the boundary byte above L,
// bytes before and after the slice) is unchanged; the bits of w at and above L are ignored.
// @unit name=set_remainder_bits_contract props=C19 kind=complete fns=set_remainder_bits timeout=120
#[kani::proof]
#[kani::unwind(10)]
#[kani::stub(alloc::fmt::format, stub_format)]
fn set_remainder_bits_contract() {
    let mut d: [u8; 10] = kani::any();
    let l: usize = kani::any();
    let s: usize = kani::any();
    let w: u64 = kani::any();
    kani::assume(l >= 1 && l < 64 && s <= 2);
    let nb = (l + 7) / 8;
    let old = d;
    set_remainder_bits(&mut d[s..s + nb], w, l);
    let j: usize = kani::any();
    kani::assume(j < 80);
    if j >= 8 * s && j < 8 * s + l {
        assert!(bit(&d, j) == wbit(w, j - 8 * s));
    } else {
        assert!(bit(&d, j) == bit(&old, j));
    }
    kani::cover!(l == 63);
    kani::cover!(l == 1 && s == 2);
    kani::cover!(l % 8 != 0 && j >= 8 * s + l && j < 8 * (s + nb) && bit(&old, j) && !wbit(w, j - 8 * s));
    kani::cover!(l % 8 != 0 && j >= 8 * s + l && j < 8 * (s + nb) && !bit(&old, j) && wbit(w, j - 8 * s));
    kani::cover!(l > 8 && j >= 8 * s && j < 8 * s + l && bit(&old, j) != wbit(w, j - 8 * s));
}

// Contract (C19): handle_mutable_buffer_remainder_unary(op, s, L), 1 <= L < 64, s exactly ceil(L/8)
// bytes inside a larger buffer, op an ARBITRARY function (it returns a nondeterministic word and
// records what it was given): op is called exactly once, its argument is the L addressed bits zero
// padded, bits [0, L) of s become the low L bits of op's result, every other bit is unchanged.
// @unit name=remainder_unary_contract props=C19 kind=complete fns=handle_mutable_buffer_remainder_unary,get_remainder_bits,set_remainder_bits timeout=240
#[kani::proof]
#[kani::unwind(10)]
#[kani::stub(alloc::fmt::format, stub_format)]
fn remainder_unary_contract() {
    let mut d: [u8; 10] = kani::any();
    let l: usize = kani::any();
    let s: usize = kani::any();
    let ret: u64 = kani::any();
    kani::assume(l >= 1 && l < 64 && s <= 2);
    let nb = (l + 7) / 8;
    let old = d;
    let (mut calls, mut seen) = (0usize, 0u64);
    let mut op = |a: u64| {
        calls += 1;
        seen = a;
        ret
    };
    handle_mutable_buffer_remainder_unary(&mut op, &mut d[s..s + nb], l);
    assert!(calls == 1);
    let p: usize = kani::any();
    kani::assume(p < 64);
    assert!(wbit(seen, p) == (p < l && bit(&old, 8 * s + p)));
    let j: usize = kani::any();
    kani::assume(j < 80);
    if j >= 8 * s && j < 8 * s + l {
        assert!(bit(&d, j) == wbit(ret, j - 8 * s));
    } else {
        assert!(bit(&d, j) == bit(&old, j));
    }
    kani::cover!(l == 63);
    kani::cover!(l % 8 != 0 && p >= l && p < 8 * nb && bit(&old, 8 * s + p));
    kani::cover!(l % 8 != 0 && j >= 8 * s + l && j < 8 * (s + nb) && bit(&old, j) && !wbit(ret, j - 8 * s));
}

// Contract (C19): handle_mutable_buffer_remainder(op, s, r, L): as the unary form; op receives
// (the L addressed bits of s zero padded, r unchanged) exactly once.
// @unit name=remainder_binary_contract props=C19 kind=complete fns=handle_mutable_buffer_remainder,get_remainder_bits,set_remainder_bits timeout=240
#[kani::proof]
#[kani::unwind(10)]
#[kani::stub(alloc::fmt::format, stub_format)]
fn remainder_binary_contract() {
    let mut d: [u8; 10] = kani::any();
    let l: usize = kani::any();
    let s: usize = kani::any();
    let ret: u64 = kani::any();
    let right: u64 = kani::any();
    kani::assume(l >= 1 && l < 64 && s <= 2);
    let nb = (l + 7) / 8;
    let old = d;
    let (mut calls, mut seen_l, mut seen_r) = (0usize, 0u64, 0u64);
    let mut op = |a: u64, b: u64| {
        calls += 1;
        seen_l = a;
        seen_r = b;
        ret
    };
    handle_mutable_buffer_remainder(&mut op, &mut d[s..s + nb], right, l);
    assert!(calls == 1 && seen_r == right);
    let p: usize = kani::any();
    kani::assume(p < 64);
    assert!(wbit(seen_l, p) == (p < l && bit(&old, 8 * s + p)));
    let j: usize = kani::any();
    kani::assume(j < 80);
    if j >= 8 * s && j < 8 * s + l {
        assert!(bit(&d, j) == wbit(ret, j - 8 * s));
    } else {
        assert!(bit(&d, j) == bit(&old, j));
    }
    kani::cover!(l == 63);
    kani::cover!(l % 8 != 0 && j >= 8 * s + l && j < 8 * (s + nb) && bit(&old, j) && !wbit(ret, j - 8 * s));
}

// ------------------------------------------------------------------------------------------------
// align_to_byte
// ------------------------------------------------------------------------------------------------

// Contract (C19): align_to_byte(buf, op, off, rem) with off % 8 != 0 (the documented precondition),
// off/8 < len(buf), EVERY rem in 0..=200 and op an ARBITRARY function. Let k = min(8 - off%8, rem)
// be the number of addressed bits (they all lie in byte off/8). Then op is called exactly once;
// bit p of its argument is bit(buf, off+p) for p < k, and is 0 for every p >= 8 - off%8 (nothing
// from another byte); afterwards bit off+p of buf is bit p of op's result for p < k, and EVERY other
// bit of the buffer - below off, from off+k to the end of the byte, all other bytes - is unchanged.
// (What op sees in positions k <= p < 8 - off%8 is specified by the stricter, separately kept
// harness `align_to_byte_op_sees_only_range` below.)
// @unit name=align_to_byte_contract props=C19 kind=complete fns=align_to_byte timeout=120
#[kani::proof]
#[kani::unwind(10)]
#[kani::stub(alloc::fmt::format, stub_format)]
fn align_to_byte_contract() {
    let mut d: [u8; 4] = kani::any();
    let off: usize = kani::any();
    let rem: usize = kani::any();
    let ret: u64 = kani::any();
    kani::assume(off < 32 && off % 8 != 0 && rem <= 200);
    let k = if 8 - off % 8 < rem { 8 - off % 8 } else { rem };
    let old = d;
    let (mut calls, mut seen) = (0usize, 0u64);
    let mut op = |a: u64| {
        calls += 1;
        seen = a;
        ret
    };
    align_to_byte(&mut d, &mut op, off, rem);
    assert!(calls == 1);
    let p: usize = kani::any();
    kani::assume(p < 64);
    if p < k {
        assert!(wbit(seen, p) == bit(&old, off + p));
    } else if p >= 8 - off % 8 {
        assert!(!wbit(seen, p));
    }
    let j: usize = kani::any();
    kani::assume(j < 32);
    if j >= off && j < off + k {
        assert!(bit(&d, j) == wbit(ret, j - off));
    } else {
        assert!(bit(&d, j) == bit(&old, j));
    }
    kani::cover!(rem == 0);
    kani::cover!(rem == 1 && off % 8 == 7);
    kani::cover!(k < 8 - off % 8 && j >= off + k && j / 8 == off / 8 && bit(&old, j) != wbit(ret, j - off));
    kani::cover!(j < off && j / 8 == off / 8 && bit(&old, j));
    kani::cover!(rem > 8 && j >= off && j < off + k && bit(&old, j) != wbit(ret, j - off));
}

// STRICT clause of C19 ("bits outside the addressed range are not read as data") for align_to_byte:
// the argument handed to op is the k addressed bits ZERO PADDED, as it is in the remainder path
// (get_remainder_bits masks). This FAILS on the unchanged code whenever the range ends inside the
// first byte (rem < 8 - off%8): op receives `byte >> off%8`, i.e. also the bits off+k .. end of
// byte, which lie outside the range. Example: buf=[0xFF], off=1, rem=2: op is called with 0x7F,
// not 0b11. The result is masked, so bit-local ops (and/or/xor/not) are unaffected; an op that is
// not bit-local (popcount side effects, arithmetic) observes out-of-range data.
// Kept as a harness but NOT registered as a unit (it is red on the unchanged tree): see REPORT.md.
// finding-harness name=align_to_byte_op_sees_only_range props=C19 fns=align_to_byte,apply_bitwise_unary_op,apply_bitwise_binary_op
#[kani::proof]
#[kani::unwind(10)]
#[kani::stub(alloc::fmt::format, stub_format)]
fn align_to_byte_op_sees_only_range() {
    let mut d: [u8; 2] = kani::any();
    let off: usize = kani::any();
    let rem: usize = kani::any();
    kani::assume(off < 16 && off % 8 != 0 && rem >= 1 && rem <= 200);
    let k = if 8 - off % 8 < rem { 8 - off % 8 } else { rem };
    let old = d;
    let mut seen = 0u64;
    let mut op = |a: u64| {
        seen = a;
        a
    };
    align_to_byte(&mut d, &mut op, off, rem);
    let p: usize = kani::any();
    kani::assume(p < 64);
    assert!(wbit(seen, p) == (p < k && bit(&old, off + p)));
}

// ------------------------------------------------------------------------------------------------
// U64UnalignedSlice::{split, len, zip_modify, apply_unary_op}
// ------------------------------------------------------------------------------------------------

// Contract (C19): U64UnalignedSlice::split(buf, off, len) with off % 8 == 0 (both callers assert
// it), buf of n <= 32 bytes, EVERY off/len <= 400: rejects (assert) exactly when
// ceil((off+len)/8) > n; otherwise the word view starts at byte off/8 and has len/64 words, and
// the returned remainder slice is exactly bytes [off/8 + 8*(len/64), ceil((off+len)/8)) of buf
// (so it has ceil((len%64)/8) < 8 bytes). Nothing is written.
// @unit name=u64_split_contract props=C19 kind=bounded bound=buffer<=32_bytes_offset,len<=400_bits fns=U64UnalignedSlice::split,U64UnalignedSlice::len mayreject=1 timeout=120
#[kani::proof]
#[kani::unwind(10)]
fn u64_split_contract() {
    let mut d: [u8; 32] = kani::any();
    let n: usize = kani::any();
    let off: usize = kani::any();
    let len: usize = kani::any();
    kani::assume(n <= 32 && off <= 400 && len <= 400 && off % 8 == 0);
    let old = d;
    let base = d.as_ptr();
    let (words, rest) = U64UnalignedSlice::split(&mut d[..n], off, len);
    let last = (off + len + 7) / 8;
    assert!(last <= n); // reached => the range fits
    assert!(words.len() == len / 64);
    assert!(words.ptr as *const u8 == unsafe { base.add(off / 8) });
    assert!(rest.as_ptr() == unsafe { base.add(off / 8 + 8 * (len / 64)) });
    assert!(rest.len() == last - (off / 8 + 8 * (len / 64)));
    assert!(rest.len() == (len % 64 + 7) / 8);
    kani::cover!(len == 0 && off / 8 == n);
    kani::cover!(len / 64 == 3 && rest.len() == 7);
    kani::cover!(len == 64 && rest.len() == 0 && off == 8);
    let j: usize = kani::any();
    kani::assume(j < 32);
    assert!(d[j] == old[j]);
}

// Contract (C19): split does not reject a range that fits (companion of u64_split_contract).
// @unit name=u64_split_total props=C19 kind=bounded bound=buffer<=32_bytes fns=U64UnalignedSlice::split timeout=120
#[kani::proof]
#[kani::unwind(10)]
fn u64_split_total() {
    let mut d: [u8; 32] = kani::any();
    let n: usize = kani::any();
    let off: usize = kani::any();
    let len: usize = kani::any();
    kani::assume(n <= 32 && off <= 400 && len <= 400 && off % 8 == 0 && (off + len + 7) / 8 <= n);
    let (words, rest) = U64UnalignedSlice::split(&mut d[..n], off, len);
    assert!(words.len() == len / 64 && rest.len() == (len % 64 + 7) / 8);
    kani::cover!(len == 0);
    kani::cover!(len == 192 && off == 64);
}

/// little-endian word k of the byte sequence starting at byte `b0` (specification helper)
fn le_word(s: &[u8], b0: usize, k: usize) -> u64 {
    let mut w = 0u64;
    let mut i = 0;
    while i < 8 {
        w |= (s[b0 + 8 * k + i] as u64) << (8 * i);
        i += 1;
    }
    w
}

// Contract (C19): U64UnalignedSlice::apply_unary_op(map) on the view of nw <= 3 words starting at
// any byte b0 of a 32-byte buffer (any alignment), map an ARBITRARY FnMut (nondeterministic result
// per call, arguments recorded): map is called exactly nw times, the k-th call receives the
// little-endian word made of the old bytes [b0+8k, b0+8k+8), those bytes become the little-endian
// bytes of the k-th result, and every other byte of the buffer is unchanged.
// @unit name=u64_apply_unary_contract props=C19 kind=bounded bound=words<=3_buffer=32_bytes fns=U64UnalignedSlice::apply_unary_op,U64UnalignedSlice::apply_bin_op timeout=240
#[kani::proof]
#[kani::unwind(10)]
fn u64_apply_unary_contract() {
    let mut d: [u8; 32] = kani::any();
    let b0: usize = kani::any();
    let nw: usize = kani::any();
    kani::assume(b0 <= 8 && nw <= 3);
    let old = d;
    let rets: [u64; 3] = kani::any();
    let mut args = [0u64; 3];
    let mut calls = 0usize;
    let (words, _rest) = U64UnalignedSlice::split(&mut d, 8 * b0, 64 * nw);
    words.apply_unary_op(|a| {
        assert!(calls < 3);
        args[calls] = a;
        calls += 1;
        rets[calls - 1]
    });
    assert!(calls == nw);
    let k: usize = kani::any();
    if k < nw {
        assert!(args[k] == le_word(&old, b0, k));
        assert!(le_word(&d, b0, k) == rets[k]);
    }
    let j: usize = kani::any();
    kani::assume(j < 32 && (j < b0 || j >= b0 + 8 * nw));
    assert!(d[j] == old[j]);
    kani::cover!(nw == 0);
    kani::cover!(nw == 3 && b0 == 5 && k == 2);
    kani::cover!(nw == 1 && j == b0 + 8);
}

// Contract (C19): U64UnalignedSlice::zip_modify(iter, map): as apply_unary_op, with the k-th call
// receiving (old word k, k-th item of the iterator); rejects unless the iterator has exactly nw items.
// @unit name=u64_zip_modify_contract props=C19 kind=bounded bound=words<=3_buffer=32_bytes fns=U64UnalignedSlice::zip_modify,U64UnalignedSlice::apply_bin_op timeout=240
#[kani::proof]
#[kani::unwind(10)]
#[kani::stub(alloc::fmt::format, stub_format)]
fn u64_zip_modify_contract() {
    let mut d: [u8; 32] = kani::any();
    let b0: usize = kani::any();
    let nw: usize = kani::any();
    kani::assume(b0 <= 8 && nw <= 3);
    let old = d;
    let rets: [u64; 3] = kani::any();
    let rights: [u64; 3] = kani::any();
    let mut largs = [0u64; 3];
    let mut rargs = [0u64; 3];
    let mut calls = 0usize;
    let (words, _rest) = U64UnalignedSlice::split(&mut d, 8 * b0, 64 * nw);
    words.zip_modify(rights[..nw].iter().copied(), |a, b| {
        assert!(calls < 3);
        largs[calls] = a;
        rargs[calls] = b;
        calls += 1;
        rets[calls - 1]
    });
    assert!(calls == nw);
    let k: usize = kani::any();
    if k < nw {
        assert!(largs[k] == le_word(&old, b0, k) && rargs[k] == rights[k]);
        assert!(le_word(&d, b0, k) == rets[k]);
    }
    let j: usize = kani::any();
    kani::assume(j < 32 && (j < b0 || j >= b0 + 8 * nw));
    assert!(d[j] == old[j]);
    kani::cover!(nw == 0);
    kani::cover!(nw == 3 && b0 == 5 && k == 2);
    kani::cover!(nw == 1 && j == b0 + 8);
}

// ------------------------------------------------------------------------------------------------
// apply_bitwise_unary_op / apply_bitwise_binary_op (in place, raw slices, no allocation)
// ------------------------------------------------------------------------------------------------

/// Specification of the documented word-at-a-time chunking of the range [off, off+len):
/// an optional head chunk that reaches the next byte boundary (only when off is not byte aligned),
/// then 64-bit words, then one remainder chunk of < 64 bits.
/// Returns (number of chunks, start bit of chunk c, length of chunk c).
fn chunk_of(off: usize, len: usize, c: usize) -> (usize, usize, usize) {
    let h = if off % 8 == 0 { 0 } else if 8 - off % 8 < len { 8 - off % 8 } else { len };
    let hc = if h > 0 { 1 } else { 0 };
    let body = len - h;
    let n = hc + body / 64 + if body % 64 != 0 { 1 } else { 0 };
    if c < hc {
        (n, off, h)
    } else {
        let k = c - hc;
        let left = body - 64 * k;
        (n, off + h + 64 * k, if left < 64 { left } else { 64 })
    }
}

const NB: usize = 24;

// Contract (C19): apply_bitwise_unary_op(buf, off, len, op) on a 24-byte buffer, EVERY off and len
// with off+len <= 192, op an ARBITRARY FnMut (each call returns a fresh nondeterministic word and
// records its argument). With the chunks of `chunk_of`: op is called once per chunk, in order;
// the argument of call c is the addressed bits of chunk c (bit p = bit(buf, start_c + p) for
// p < len_c) and carries no bit of any other byte (0 for p >= len_c; for the head chunk 0 for
// p >= 8 - off%8, see align_to_byte_contract); afterwards bit start_c + p of buf is bit p of the
// c-th result for p < len_c; EVERY bit outside [off, off+len) is unchanged, including the bits
// sharing a byte with either end. len == 0: op is not called, nothing changes.
// @unit name=apply_unary_op_contract props=C19 kind=bounded bound=buffer=24_bytes_all_offsets_and_lengths fns=apply_bitwise_unary_op,byte_aligned_bitwise_unary_op_helper,align_to_byte,handle_mutable_buffer_remainder_unary,U64UnalignedSlice::split,U64UnalignedSlice::apply_unary_op timeout=600
#[kani::proof]
#[kani::unwind(10)]
#[kani::stub(alloc::fmt::format, stub_format)]
fn apply_unary_op_contract() {
    let mut d: [u8; NB] = kani::any();
    let off: usize = kani::any();
    let len: usize = kani::any();
    kani::assume(off <= 8 * NB && len <= 8 * NB && off + len <= 8 * NB);
    let old = d;
    let rets: [u64; 4] = kani::any();
    let mut args = [0u64; 4];
    let mut calls = 0usize;
    apply_bitwise_unary_op(&mut d, off, len, |a| {
        assert!(calls < 4);
        args[calls] = a;
        calls += 1;
        rets[calls - 1]
    });
    let (n, _, _) = chunk_of(off, len, 0);
    assert!(calls == n);
    // what op was given
    let c: usize = kani::any();
    let p: usize = kani::any();
    kani::assume(p < 64);
    if c < n {
        let (_, start, clen) = chunk_of(off, len, c);
        if p < clen {
            assert!(wbit(args[c], p) == bit(&old, start + p));
        } else if !(start == off && off % 8 != 0) || p >= 8 - off % 8 {
            assert!(!wbit(args[c], p));
        }
        // what was written
        if p < clen {
            assert!(bit(&d, start + p) == wbit(rets[c], p));
        }
    }
    // frame
    let j: usize = kani::any();
    kani::assume(j < 8 * NB);
    if j < off || j >= off + len {
        assert!(bit(&d, j) == bit(&old, j));
    }
    kani::cover!(len == 0);
    kani::cover!(n == 4 && c == 3);
    kani::cover!(off == 0 && n == 3 && len == 192);
    kani::cover!(off % 8 != 0 && len < 8 - off % 8 && j / 8 == off / 8 && j >= off + len);
    kani::cover!(off % 8 == 3 && len == 5 + 64 + 13 && c == 2 && p == 12);
    kani::cover!(j >= off + len && j / 8 == (off + len) / 8 && len > 70 && bit(&old, j));
}

// Contract (C19): apply_bitwise_binary_op(left, loff, right, roff, len, op) on 24-byte buffers,
// op an ARBITRARY FnMut (fresh nondeterministic word per call, arguments recorded). With the chunks
// of `chunk_of(loff, len)`: op is called once per chunk, in order; call c receives (the addressed
// bits of chunk c of left - as in apply_unary_op_contract -, the bits
// [roff + (start_c - loff), + len_c) of right ZERO PADDED to 64 bits); afterwards bit start_c + p
// of left is bit p of the c-th result for p < len_c; EVERY bit of left outside [loff, loff+len) is
// unchanged, including the bits sharing a byte with either end; len == 0: op is not called.
// Thorough unit `apply_binary_op_contract`: EVERY loff, roff, len with loff+len <= 192 and
// roff+len <= 192 (all symbolic, measured ~210-260 s).
// Quick units: the same contract with (loff, roff) = (0,0) and EVERY length, and at concrete
// (loff, roff, len) shapes for the shifted right side / the unaligned left side (measured: a
// symbolic length on those paths costs 70 - 230 s); contents and op results always symbolic.
struct BinCtx {
    off: usize,
    roff: usize,
    len: usize,
    n: usize,
    c: usize,
    p: usize,
    j: usize,
    /// (c, p) addresses a bit of the range and the written bit differs from the old one
    flipped: bool,
    /// j is outside the range and was set before the call
    frame_bit_set: bool,
}
fn apply_binary_op_check(off: usize, roff: usize, len: usize, covers: impl FnOnce(BinCtx)) {
    let mut d: [u8; NB] = kani::any();
    let r: [u8; NB] = kani::any();
    kani::assume(off <= 8 * NB && roff <= 8 * NB && len <= 8 * NB && off + len <= 8 * NB && roff + len <= 8 * NB);
    let old = d;
    let rets: [u64; 4] = kani::any();
    let mut largs = [0u64; 4];
    let mut rargs = [0u64; 4];
    let mut calls = 0usize;
    apply_bitwise_binary_op(&mut d, off, &r, roff, len, |a, b| {
        assert!(calls < 4);
        largs[calls] = a;
        rargs[calls] = b;
        calls += 1;
        rets[calls - 1]
    });
    let (n, _, _) = chunk_of(off, len, 0);
    assert!(calls == n);
    let c: usize = kani::any();
    let p: usize = kani::any();
    kani::assume(p < 64);
    let mut flipped = false;
    if c < n {
        let (_, start, clen) = chunk_of(off, len, c);
        if p < clen {
            assert!(wbit(largs[c], p) == bit(&old, start + p));
            assert!(wbit(rargs[c], p) == bit(&r, roff + (start - off) + p));
            assert!(bit(&d, start + p) == wbit(rets[c], p));
            flipped = wbit(rets[c], p) != bit(&old, start + p);
        } else {
            assert!(!wbit(rargs[c], p));
            if !(start == off && off % 8 != 0) || p >= 8 - off % 8 {
                assert!(!wbit(largs[c], p));
            }
        }
    }
    let j: usize = kani::any();
    kani::assume(j < 8 * NB);
    let mut frame_bit_set = false;
    if j < off || j >= off + len {
        assert!(bit(&d, j) == bit(&old, j));
        frame_bit_set = bit(&old, j);
    }
    covers(BinCtx { off, roff, len, n, c, p, j, flipped, frame_bit_set });
}

macro_rules! apply_binary_fixed_offsets {
    ($name:ident, $l:expr, $r:expr) => {
        #[kani::proof]
        #[kani::unwind(10)]
        #[kani::stub(alloc::fmt::format, stub_format)]
        fn $name() {
            apply_binary_op_check($l, $r, kani::any(), |x| {
                kani::cover!(x.len == 0);
                kani::cover!(x.len == 8 * NB - $l && x.c == 2 && x.flipped);
                kani::cover!(x.len == 70 && x.c == 1 && x.p == 5 && x.flipped && x.frame_bit_set && x.j == $l + 70);
            });
        }
    };
}
// @unit name=apply_binary_op_0_0 props=C19 kind=bounded bound=buffers=24_bytes_offsets=(0,0)_all_lengths timeout=300
//       fns=apply_bitwise_binary_op,byte_aligned_bitwise_bin_op_helper,handle_mutable_buffer_remainder,U64UnalignedSlice::split,U64UnalignedSlice::zip_modify
apply_binary_fixed_offsets!(apply_binary_op_0_0, 0, 0);
// the same with the right side at a sub-byte offset: thorough tier (measured 70-230 s depending on machine load)
// @unit name=apply_binary_op_8_5 props=C19 kind=bounded bound=buffers=24_bytes_offsets=(8,5)_all_lengths tier=thorough timeout=1200 mem=3
//       fns=apply_bitwise_binary_op,byte_aligned_bitwise_bin_op_helper,handle_mutable_buffer_remainder,U64UnalignedSlice::split,U64UnalignedSlice::zip_modify
apply_binary_fixed_offsets!(apply_binary_op_8_5, 8, 5);

macro_rules! apply_binary_shape {
    ($name:ident, $l:expr, $r:expr, $len:expr) => {
        #[kani::proof]
        #[kani::unwind(10)]
        #[kani::stub(alloc::fmt::format, stub_format)]
        fn $name() {
            apply_binary_op_check($l, $r, $len, |x| {
                kani::cover!(x.c == x.n - 1 && x.flipped);
                kani::cover!(x.frame_bit_set && x.j == $l + $len); // the first bit after the range shares its byte
            });
        }
    };
}
// left byte aligned, right shifted: one word + 6-bit remainder
// @unit name=apply_binary_op_8_5_70 props=C19 kind=bounded bound=buffers=24_bytes_shape=(loff=8,roff=5,len=70) timeout=300
//       fns=apply_bitwise_binary_op,byte_aligned_bitwise_bin_op_helper,handle_mutable_buffer_remainder,U64UnalignedSlice::split,U64UnalignedSlice::zip_modify
apply_binary_shape!(apply_binary_op_8_5_70, 8, 5, 70);
// head chunk only, ends inside the first byte
// @unit name=apply_binary_op_3_6_2 props=C19 kind=bounded bound=buffers=24_bytes_shape=(loff=3,roff=6,len=2) timeout=300
//       fns=apply_bitwise_binary_op,align_to_byte,read_up_to_byte_from_offset
apply_binary_shape!(apply_binary_op_3_6_2, 3, 6, 2);
// head chunk + one word + 13-bit remainder, right side at a smaller sub-byte offset
// @unit name=apply_binary_op_6_1_79 props=C19 kind=bounded bound=buffers=24_bytes_shape=(loff=6,roff=1,len=79) timeout=300
//       fns=apply_bitwise_binary_op,byte_aligned_bitwise_bin_op_helper,align_to_byte,read_up_to_byte_from_offset,handle_mutable_buffer_remainder,U64UnalignedSlice::split,U64UnalignedSlice::zip_modify
apply_binary_shape!(apply_binary_op_6_1_79, 6, 1, 79);
// head chunk + 11-bit remainder (no full word), equal sub-byte offsets
// @unit name=apply_binary_op_3_3_16 props=C19 kind=bounded bound=buffers=24_bytes_shape=(loff=3,roff=3,len=16) timeout=300
//       fns=apply_bitwise_binary_op,byte_aligned_bitwise_bin_op_helper,align_to_byte,read_up_to_byte_from_offset,handle_mutable_buffer_remainder,U64UnalignedSlice::split
apply_binary_shape!(apply_binary_op_3_3_16, 3, 3, 16);

// @unit name=apply_binary_op_contract props=C19 kind=bounded bound=buffers=24_bytes_all_offsets_and_lengths tier=thorough timeout=1800 mem=4
//       fns=apply_bitwise_binary_op,byte_aligned_bitwise_bin_op_helper,align_to_byte,read_up_to_byte_from_offset,handle_mutable_buffer_remainder,U64UnalignedSlice::split,U64UnalignedSlice::zip_modify
#[kani::proof]
#[kani::unwind(10)]
#[kani::stub(alloc::fmt::format, stub_format)]
fn apply_binary_op_contract() {
    apply_binary_op_check(kani::any(), kani::any(), kani::any(), |x| {
        kani::cover!(x.len == 0);
        kani::cover!(x.off % 8 != 0 && x.len < 8 - x.off % 8 && x.j / 8 == x.off / 8 && x.j >= x.off + x.len && x.frame_bit_set);
        kani::cover!(x.off % 8 == 0 && x.roff % 8 == 5 && x.len == 70 && x.flipped);
        kani::cover!(x.n == 4 && x.c == 3 && x.flipped);
        kani::cover!(x.off == 0 && x.len == 192);
    });
}
