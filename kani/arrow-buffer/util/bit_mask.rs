// Kani contract harnesses for /repo/arrow-buffer/src/util/bit_mask.rs (child module: sees private items via super::)
