// Kani contract harnesses for /repo/arrow-buffer/src/util/bit_mask.rs (child module: sees private items via super::)
//
// Specification side (C19): bit(s, i) = (s[i/8] >> (i%8)) & 1 (spec::bit). The number of zero bits
// of a range is specified on the integer view of the bit sequence: the little-endian integer
// W(s) = sum s[k] * 256^k has bit i equal to bit(s, i), so
// zeros_in(s, from, n) = n - popcount((W(s) >> from) mod 2^n).
use super::*;
#[path = "/verif/kani/support/spec.rs"]
mod spec;
use spec::*;

/// The 24-byte buffer as three little-endian 64-bit words (the integer view, 64 bits at a time).
fn words(s: &[u8; N]) -> [u64; 3] {
    [
        u64::from_le_bytes([s[0], s[1], s[2], s[3], s[4], s[5], s[6], s[7]]),
        u64::from_le_bytes([s[8], s[9], s[10], s[11], s[12], s[13], s[14], s[15]]),
        u64::from_le_bytes([s[16], s[17], s[18], s[19], s[20], s[21], s[22], s[23]]),
    ]
}

/// mask of the positions of word k (bits [64k, 64k+64)) that lie in [from, from+n)
fn range_mask(k: usize, from: usize, n: usize) -> u64 {
    let (b0, b1) = (64 * k, 64 * k + 64);
    let lo = if from < b0 { b0 } else if from > b1 { b1 } else { from } - b0;
    let end = from + n;
    let hi = if end < b0 { b0 } else if end > b1 { b1 } else { end } - b0;
    if lo >= hi {
        0
    } else {
        let upto_hi = if hi == 64 { u64::MAX } else { (1u64 << hi) - 1 };
        upto_hi & !((1u64 << lo) - 1)
    }
}

/// "forall i in [from, from+n): !bit(s, i)" on the integer view (loop-free)
fn range_is_zero(s: &[u8; N], from: usize, n: usize) -> bool {
    let w = words(s);
    w[0] & range_mask(0, from, n) == 0 && w[1] & range_mask(1, from, n) == 0 && w[2] & range_mask(2, from, n) == 0
}

/// The 64-bit little-endian window of `s` that starts at byte `b0` (bytes past the end read as 0).
fn window(s: &[u8; N], b0: usize) -> u64 {
    let g = |k: usize| if b0 + k < N { s[b0 + k] } else { 0 };
    u64::from_le_bytes([g(0), g(1), g(2), g(3), g(4), g(5), g(6), g(7)])
}

/// zeros_in(s, from, n) for a range that lies inside the 8-byte window starting at byte from/8
/// (from%8 + n <= 64): r is the number of zero bits among bits [from, from+n) of s. Written on the
/// integer view of that window in both equivalent forms (count the zeros / subtract the ones).
fn is_zeros_in(r: usize, s: &[u8; N], from: usize, n: usize) -> bool {
    let w = window(s, from / 8);
    let sh = from % 8;
    let m = (if n >= 64 { u64::MAX } else { (1u64 << n) - 1 }) << sh;
    r == (!w & m).count_ones() as usize || r == n - (w & m).count_ones() as usize
}

const N: usize = 24;

// Contract (C19) of `unsafe fn set_upto_64bits(write_data, data, offset_write, offset_read, len)`,
// textually parallel to the `[[extract]] fn = "set_upto_64bits"` block of
// /verif/design_probes/set_bits.spec.toml (this unit DISCHARGES the contract that the Verus proof
// of `set_bits` assumes for its callee), r = the returned pair (zero count, bits set):
//   requires  len >= 1,
//             offset_write + len <= write_data.len() * 8,
//             offset_read + len <= data.len() * 8,
//             forall i in [offset_write, offset_write+len): !bit(old(write_data), i)
//   ensures   1 <= r.1 <= len,
//             r.1 == len || r.1 >= 56,
//             r.0 <= r.1,
//             r.0 == zeros_in(data, offset_read, r.1),                                             (*)
//             forall i in [offset_write, offset_write+r.1): bit(write_data, i) == bit(data, offset_read + (i - offset_write)),
//             forall i in [offset_write+r.1, offset_write+len): !bit(write_data, i),
//             forall i in [0, 8*write_data.len()) outside [offset_write, offset_write+len): bit(write_data, i) == bit(old(write_data), i)
// plus memory safety of the unchecked reads/writes (Kani's pointer checks) under `requires`.
// (*) The count clause is discharged on the DESTINATION side: the harness asserts
//     (in the companion unit `set_upto_64bits_count`, same requires, solved with kissat)
//     r.1 + offset_write%8 <= 64 and r.0 == zeros_in(write_data', offset_write, r.1), and the
//     position-wise clause on the next line makes the two ranges equal bit for bit, hence
//     zeros_in(write_data', offset_write, r.1) == zeros_in(data, offset_read, r.1) (equal sequences
//     have equal counts - a hand lemma, listed in REPORT.md). Measured reason: asserting the count on
//     the source side asks the SAT solver for popcount(x) == popcount(x shifted by a symbolic
//     amount), which did not finish in 25 min with either CaDiCaL or kissat (machine under 5x load).
// Checked for EVERY offset_write, offset_read, len and all contents of two 24-byte buffers (the
// function is loop-free except a copy loop bounded by 8 and addresses at most 9 bytes of each
// buffer, so 24 bytes leave room before and after the 8-byte window at every sub-byte offset).
// @unit name=set_upto_64bits_contract props=C19 kind=complete fns=set_upto_64bits,read_bytes_to_u64,write_u64_bytes,or_write_u64_bytes timeout=600
#[kani::proof]
#[kani::unwind(10)]
fn set_upto_64bits_contract() {
    let mut write_data: [u8; N] = kani::any();
    let data: [u8; N] = kani::any();
    let offset_write: usize = kani::any();
    let offset_read: usize = kani::any();
    let len: usize = kani::any();
    // requires
    kani::assume(len >= 1);
    kani::assume(offset_write <= N * 8 && len <= N * 8 - offset_write);
    kani::assume(offset_read <= N * 8 && len <= N * 8 - offset_read);
    kani::assume(range_is_zero(&write_data, offset_write, len));
    let old = write_data;
    let r = unsafe { set_upto_64bits(&mut write_data, &data, offset_write, offset_read, len) };
    // ensures
    assert!(1 <= r.1 && r.1 <= len);
    assert!(r.1 == len || r.1 >= 56);
    assert!(r.0 <= r.1);
    // r.0 == zeros_in(..): see set_upto_64bits_count
    let i: usize = kani::any();
    kani::assume(i < N * 8);
    if offset_write <= i && i < offset_write + r.1 {
        assert!(bit(&write_data, i) == bit(&data, offset_read + (i - offset_write)));
    } else if offset_write + r.1 <= i && i < offset_write + len {
        assert!(!bit(&write_data, i));
    } else {
        assert!(bit(&write_data, i) == bit(&old, i));
    }
    // one cover per branch of the function and of the contract
    kani::cover!(len >= 64 && offset_read % 8 == 0 && offset_write % 8 == 0 && r.1 == 64);
    kani::cover!(len >= 64 && offset_read % 8 == 0 && offset_write % 8 == 3 && r.1 == 61);
    kani::cover!(len >= 64 && offset_read % 8 == 5 && offset_write % 8 == 0 && r.1 == 56);
    kani::cover!(len >= 64 && offset_read % 8 == 5 && offset_write % 8 == 2 && r.1 == 59);
    kani::cover!(len == 1 && r.0 == 1);
    kani::cover!(len == 63 && offset_read % 8 == 7 && r.1 == 57 && r.0 == 20);
    kani::cover!(len == 168 && !(offset_write <= i && i < offset_write + len) && bit(&old, i));
}

// Contract (C19), count clause (*) of set_upto_64bits (see set_upto_64bits_contract for the full
// text): under the same `requires`, r.1 + offset_write%8 <= 64 (the written range lies inside the
// 8-byte window that starts at byte offset_write/8) and r.0 == the number of zero bits among bits
// [offset_write, offset_write + r.1) of write_data AFTER the call. EVERY offset_write, offset_read,
// len and all contents of two 24-byte buffers. Solver: kissat (CaDiCaL did not finish).
// Measured 840 s under 5x machine load.
// @unit name=set_upto_64bits_count props=C19 kind=complete fns=set_upto_64bits tier=thorough timeout=3000
#[kani::proof]
#[kani::unwind(10)]
#[kani::solver(kissat)]
fn set_upto_64bits_count() {
    let mut write_data: [u8; N] = kani::any();
    let data: [u8; N] = kani::any();
    let offset_write: usize = kani::any();
    let offset_read: usize = kani::any();
    let len: usize = kani::any();
    kani::assume(len >= 1);
    kani::assume(offset_write <= N * 8 && len <= N * 8 - offset_write);
    kani::assume(offset_read <= N * 8 && len <= N * 8 - offset_read);
    kani::assume(range_is_zero(&write_data, offset_write, len));
    let r = unsafe { set_upto_64bits(&mut write_data, &data, offset_write, offset_read, len) };
    assert!(r.1 + offset_write % 8 <= 64);
    assert!(is_zeros_in(r.0, &write_data, offset_write, r.1));
    kani::cover!(len >= 64 && offset_read % 8 == 5 && offset_write % 8 == 2 && r.0 == 30);
    kani::cover!(len == 1 && r.0 == 1);
}

// Contract (C19) of `set_bits(write_data, data, offset_write, offset_read, len)`, the Kani PAIR of
// the Verus proof (same text as the `[[extract]] fn = "set_bits"` block of set_bits.spec.toml):
//   requires  offset_write + len <= write_data.len() * 8, offset_read + len <= data.len() * 8,
//             forall i in [offset_write, offset_write+len): !bit(old(write_data), i)
//   ensures   r == zeros_in(data, offset_read, len),
//             forall i in [offset_write, offset_write+len): bit(write_data, i) == bit(data, offset_read + (i - offset_write)),
//             forall i outside the range: bit(write_data, i) == bit(old(write_data), i)
// and the call does not panic. Bounded: two 9-byte buffers, EVERY offset_write, offset_read, len
// and all contents (so up to two rounds of the 64-bit loop). Its job is to produce a concrete
// counterexample when the unbounded Verus obligation fails.
// NOT CONFIRMED: timed out at 3000 s (9-byte buffers) and at 1200 s (10-byte buffers) under 3-5x machine load: thorough tier.
// @unit name=set_bits_pair props=C19 kind=bounded bound=buffers=9_bytes_all_offsets_and_lengths fns=set_bits,set_upto_64bits tier=thorough timeout=3000 mem=4
#[kani::proof]
#[kani::unwind(10)]
#[kani::stub(alloc::fmt::format, stub_format)]
fn set_bits_pair() {
    const M: usize = 9;
    let mut write_data: [u8; M] = kani::any();
    let data: [u8; M] = kani::any();
    let offset_write: usize = kani::any();
    let offset_read: usize = kani::any();
    let len: usize = kani::any();
    kani::assume(offset_write <= M * 8 && len <= M * 8 - offset_write);
    kani::assume(offset_read <= M * 8 && len <= M * 8 - offset_read);
    // requires: the destination range is zero (constructed on the integer view, loop-free)
    let mut wa = [0u8; 16];
    wa[..M].copy_from_slice(&write_data);
    let cleared = u128::from_le_bytes(wa) & !(((1u128 << len) - 1) << offset_write);
    write_data.copy_from_slice(&cleared.to_le_bytes()[..M]);
    let old = write_data;
    let r = set_bits(&mut write_data, &data, offset_write, offset_read, len);
    // zeros_in on the integer view of the whole 9-byte source
    let mut a = [0u8; 16];
    a[..M].copy_from_slice(&data);
    let w = (u128::from_le_bytes(a) >> offset_read) & ((1u128 << len) - 1);
    assert!(r == len - w.count_ones() as usize);
    let i: usize = kani::any();
    kani::assume(i < M * 8);
    if offset_write <= i && i < offset_write + len {
        assert!(bit(&write_data, i) == bit(&data, offset_read + (i - offset_write)));
    } else {
        assert!(bit(&write_data, i) == bit(&old, i));
    }
    kani::cover!(len == 0);
    kani::cover!(len == 72 && r == 33);
    kani::cover!(len == 65 && offset_read == 7 && offset_write == 3 && i == 68 && bit(&old, i));
    kani::cover!(len == 1 && offset_write == 71 && offset_read == 0 && r == 0);
}

// Contract (C19): set_bits panics (rejects) whenever offset_write + len exceeds 8*len(write_data)
// or offset_read + len exceeds 8*len(data) (the documented panics, including usize overflow of the
// sums) - it never reaches the unchecked writes with an out-of-range request: if the call
// returns, both ranges fit. EVERY usize offset and length, 4-byte buffers.
// @unit name=set_bits_rejects props=C19 kind=complete fns=set_bits mayreject=1 timeout=600
#[kani::proof]
#[kani::unwind(10)]
#[kani::stub(alloc::fmt::format, stub_format)]
fn set_bits_rejects() {
    let mut write_data: [u8; 4] = [0; 4];
    let data: [u8; 4] = kani::any();
    let nw: usize = kani::any();
    let nr: usize = kani::any();
    kani::assume(nw <= 4 && nr <= 4);
    let offset_write: usize = kani::any();
    let offset_read: usize = kani::any();
    let len: usize = kani::any();
    set_bits(&mut write_data[..nw], &data[..nr], offset_write, offset_read, len);
    assert!(offset_write <= 8 * nw && len <= 8 * nw - offset_write);
    assert!(offset_read <= 8 * nr && len <= 8 * nr - offset_read);
    kani::cover!(len == 32);
    kani::cover!(len == 0 && offset_write == 8 * nw && nw == 3);
}

