// Kani contract harnesses for /repo/arrow-buffer/src/bigint/div.rs (child module: sees private items via super::)
