// Kani contract harnesses for /repo/arrow-buffer/src/bigint/div.rs (child module: sees private items via super::)
//
// N-digit (base 2^64, little endian) unsigned division helpers.  The functions are generic in N; the
// units instantiate N = 2 (and N = 1) so that the spec side is plain u128 arithmetic on the value
// d0 + d1 * 2^64.  i256 itself uses N = 4 (see bigint/mod.rs units i256_divrem_small, i256_div_pinned).
// Stub: div_rem_word (x86-64 inline asm `div`, unsupported by Kani) -> div_rem_word_def = the
// function's own portable cfg(not(target_arch = "x86_64")) body (the definition of the instruction).
use super::*;

fn val(d: [u64; 2]) -> u128 { d[0] as u128 | ((d[1] as u128) << 64) }
fn dig(v: u128) -> [u64; 2] { [v as u64, (v >> 64) as u64] }

fn div_rem_word_def(hi: u64, lo: u64, divisor: u64) -> (u64, u64) {
    if hi == 0 { return (lo / divisor, lo % divisor); }
    let x = (u128::from(hi) << 64) + u128::from(lo);
    let y = u128::from(divisor);
    ((x / y) as u64, (x % y) as u64)
}

// Contract (C12): bits(a) = number of significant bits of the 2-digit value (0 for zero) =
// 128 - leading_zeros; full_shl(v, s) for s < 64 returns the exact 192-bit value v * 2^s as (low two
// digits, carry digit); shl_word = its low digits; full_shr((digits, 0), s) = floor(value / 2^s) - precondition
// from the only call site: the extra digit is 0 (full_shr drops it) - and then full_shr(full_shl(v, s), s) = v.
// @unit name=div_bits_shifts props=C12 kind=bounded bound=N=2_digits fns=bits,full_shl,shl_word,full_shr tier=thorough was_quick=1 confirmed=0
#[kani::proof]
#[kani::unwind(20)]
fn div_bits_shifts() {
    let v: u128 = kani::any();
    let d = dig(v);
    assert!(val(d) == v);
    assert!(bits(&d) == (128 - v.leading_zeros()) as usize);
    let s: u32 = kani::any();
    kani::assume(s < 64);
    let sh = full_shl(&d, s);
    assert!(val(sh.0) == v << s);
    assert!(sh.1 as u128 == if s == 0 { 0 } else { v >> (128 - s) });
    assert!(shl_word(&d, s) == sh.0);
    // full_shr ignores the extra (carry) digit: its call-site precondition in div_rem_knuth is that this
    // digit is 0 (the remainder is smaller than the normalized divisor).  Under that precondition it is the
    // exact right shift and the inverse of full_shl.
    if sh.1 == 0 { assert!(full_shr(&sh, s) == d); }
    let w = ArrayPlusOne(d, 0);
    let r = full_shr(&w, s);
    assert!(val(r) == v >> s);
    kani::cover!(s > 0 && sh.1 != 0);
    kani::cover!(s == 0);
    kani::cover!(v == 0);
}

// Contract (C12): add_assign(a, b) / sub_assign(a, b) on 2-digit slices: a becomes (a +/- b) mod 2^128
// and the returned flag is the carry / borrow out (a + b >= 2^128, resp. a < b); b is unchanged.
// full_mul_u64::<1>([a], b) = exact 128-bit product as (low digit, carry digit); full_mul_u64::<2>(a, b)
// = exact 192-bit product a * b as (low two digits, carry digit) - spec by positional arithmetic on the
// two partial products in u128.
// @unit name=div_addsub_mul props=C12 kind=bounded bound=N<=2_digits fns=add_assign,sub_assign,binop_slice,full_mul_u64 timeout=900
#[kani::proof]
#[kani::unwind(20)]
fn div_addsub_mul() {
    let (x, y): (u128, u128) = (kani::any(), kani::any());
    let (mut a, b) = (dig(x), dig(y));
    let c = add_assign(&mut a, &b);
    let (s, o) = x.overflowing_add(y);
    assert!(val(a) == s && c == o && b == dig(y));
    let mut a2 = dig(x);
    let c2 = sub_assign(&mut a2, &b);
    assert!(val(a2) == x.wrapping_sub(y) && c2 == (x < y));
    let (p, q): (u64, u64) = (kani::any(), kani::any());
    let m1 = full_mul_u64(&[p], q);
    let e = p as u128 * q as u128;
    assert!(m1.0[0] == e as u64 && m1.1 == (e >> 64) as u64);
    let m2 = full_mul_u64(&dig(x), q);
    let (p0, p1) = ((x as u64) as u128 * q as u128, (x >> 64) * q as u128);
    assert!(val(m2.0) == p0.wrapping_add(p1 << 64));
    assert!(m2.1 as u128 == (p1 + (p0 >> 64)) >> 64);
    kani::cover!(c);
    kani::cover!(c2);
    kani::cover!(m2.1 != 0);
}

// Contract (C12): div_rem dispatch and the one-digit path.  (a) div_rem::<2>(n, d), d != 0: whenever n has
// fewer significant bits than d the result is (0, n) without dividing.  (b) div_rem::<1>([n], [d]) for all
// n and all d != 0 (the generic div_rem_small loop at one digit): (q, r) with q * d + r = n and r < d, the
// product formed exactly in u128 - the unique quotient and remainder.  Stub: div_rem_word -> div_rem_word_def.
// @unit name=div_rem_small_n1 props=C12 kind=bounded bound=N=1_digit_(all_values)_and_N=2_dispatch fns=div_rem,div_rem_small,bits timeout=1500 tier=thorough was_quick=1 confirmed=0
#[kani::proof]
#[kani::unwind(20)]
#[kani::stub(div_rem_word, div_rem_word_def)]
fn div_rem_small_n1() {
    let (n, d): (u128, u128) = (kani::any(), kani::any());
    kani::assume(d != 0);
    if (128 - n.leading_zeros()) < (128 - d.leading_zeros()) {
        let (q, r) = div_rem(&dig(n), &dig(d));
        assert!(val(q) == 0 && val(r) == n);
    }
    let (n1, d1): (u64, u64) = (kani::any(), kani::any());
    kani::assume(d1 != 0);
    let (q, r) = div_rem(&[n1], &[d1]);
    assert!(r[0] < d1 && q[0] as u128 * d1 as u128 + r[0] as u128 == n1 as u128);
    kani::cover!(q[0] > 1 && r[0] > 0);
    kani::cover!(q[0] == 0 && n1 > 0);
    kani::cover!(n < d && n > 0);
}

// Contract (C12), bounded: Knuth algorithm D with a two-digit divisor: div_rem::<2>(n, d) for
// d >= 2^64 and n >= d returns (q, r) with q * d + r = n and r < d (exact u128 arithmetic; q < 2^64 so
// the product cannot overflow when the identity holds: checked with checked_mul / checked_add).
// Stub: div_rem_word -> div_rem_word_def.
// @unit name=div_rem_n2_knuth props=C12 kind=bounded bound=N=2_(one_quotient_digit) fns=div_rem,div_rem_knuth,full_mul_u64,sub_assign,add_assign,full_shl,full_shr tier=thorough timeout=900 confirmed=0
#[kani::proof]
#[kani::unwind(5)]
#[kani::stub(div_rem_word, div_rem_word_def)]
fn div_rem_n2_knuth() {
    let (n, d): (u128, u128) = (kani::any(), kani::any());
    kani::assume(d > u64::MAX as u128 && n >= d);
    let (q, r) = div_rem(&dig(n), &dig(d));
    let (q, r) = (val(q), val(r));
    assert!(r < d && q <= u64::MAX as u128);
    assert!(q.checked_mul(d).and_then(|p| p.checked_add(r)) == Some(n));
    kani::cover!(q > 1 && r > 0);
    kani::cover!(q == 1);
}

/// a < b on N little-endian digits
fn lt3(a: &[u64; 3], b: &[u64; 3]) -> bool {
    if a[2] != b[2] { return a[2] < b[2]; }
    if a[1] != b[1] { return a[1] < b[1]; }
    a[0] < b[0]
}
// Contract (C12), bounded: Knuth algorithm D at N = 3 with a three-digit NORMALIZED divisor (top bit of
// the top digit set, so the normalization shift is 0; three digits is the smallest shape in which the
// estimate can still be one too large after the two-digit refinement): the add-back branch fires here
// (e.g. n = [0, B/2, B/2 - 1], d = [1, 0, B/2]); q * d + r = n and r < d by schoolbook digit arithmetic.
// Stub: div_rem_word -> div_rem_word_def.
// @unit name=div_rem_n3_knuth_norm props=C12 kind=bounded bound=N=3_normalized_three-digit_divisor_one_quotient_digit fns=div_rem,div_rem_knuth,full_mul_u64,sub_assign,add_assign tier=thorough mem=6 timeout=1500 confirmed=0
#[kani::proof]
#[kani::unwind(6)]
#[kani::stub(div_rem_word, div_rem_word_def)]
fn div_rem_n3_knuth_norm() {
    let (n, d): ([u64; 3], [u64; 3]) = (kani::any(), kani::any());
    kani::assume(d[2] >> 63 == 1 && !lt3(&n, &d));
    let (q, r) = div_rem(&n, &d);
    assert!(q[1] == 0 && q[2] == 0 && lt3(&r, &d));
    let t0 = q[0] as u128 * d[0] as u128 + r[0] as u128;
    let t1 = q[0] as u128 * d[1] as u128 + r[1] as u128 + (t0 >> 64);
    let t2 = q[0] as u128 * d[2] as u128 + r[2] as u128 + (t1 >> 64);
    assert!(t0 as u64 == n[0] && t1 as u64 == n[1] && t2 as u64 == n[2] && t2 >> 64 == 0);
    kani::cover!(q[0] == 1 && (r[0] != 0 || r[1] != 0));
    kani::cover!(q[0] == 0);
}

// Contract (C12): Knuth D "add back" instance on concrete operands (B = 2^64): N = 4, n = (B/2 - 1) B^3 +
// (B/2) B^2, d = (B/2) B^2 + 1: the first estimate B - 1 is one too large and must be corrected to
// q = B - 2 with r = (B/2) B^2 - B + 2.  Second instance with a two-digit divisor at N = 3, checked by
// the identity q * d + r = n, r < d on the digits.
// Stub: div_rem_word -> div_rem_word_def.
// @unit name=div_rem_addback_pinned props=C12 kind=bounded bound=concrete_operands fns=div_rem,div_rem_knuth,add_assign timeout=900 tier=thorough was_quick=1 confirmed=0
#[kani::proof]
#[kani::unwind(34)]
#[kani::stub(div_rem_word, div_rem_word_def)]
fn div_rem_addback_pinned() {
    const H: u64 = 1 << 63;
    // N = 4: n = (B/2-1) B^3 + (B/2) B^2, d = (B/2) B^2 + 1: q = B - 2, r = (B/2) B^2 - B + 2
    let opaque4 = |x: [u64; 4]| { let y: [u64; 4] = kani::any(); kani::assume(y == x); y };
    let opaque3 = |x: [u64; 3]| { let y: [u64; 3] = kani::any(); kani::assume(y == x); y };
    let (q, r) = div_rem(&opaque4([0, 0, H, H - 1]), &opaque4([1, 0, H, 0]));
    assert!(q == [u64::MAX - 1, 0, 0, 0] && r == [2, u64::MAX, H - 1, 0]);
    // N = 3 with the two-digit divisor d = (B/2) B + 1 and n = (B/2 - 1) B^2 + (B/2) B
    let (q3, r3) = div_rem(&opaque3([0, H, H - 1]), &opaque3([1, H, 0]));
    assert!(r3[1] < H || (r3[1] == H && r3[0] < 1));
    let t0 = q3[0] as u128 * 1 + r3[0] as u128;
    let t1 = q3[0] as u128 * H as u128 + r3[1] as u128 + (t0 >> 64);
    assert!(q3[1] == 0 && q3[2] == 0 && r3[2] == 0 && t0 as u64 == 0 && t1 as u64 == H && (t1 >> 64) as u64 == H - 1);
    kani::cover!(q[0] == u64::MAX - 1);
}
