// Kani contract harnesses for /repo/arrow-buffer/src/bigint/mod.rs (child module: sees private items via super::)
