// Kani contract harnesses for /repo/arrow-buffer/src/bigint/mod.rs (child module: sees private items via super::)
//
// i256 on its limbs (low: u128, high: i128).  These are the Kani PAIRS of the Verus units on the same
// functions.  Spec side: support/i256_spec.rs - four base-2^64 digits, top digit signed, schoolbook
// carries in 128-bit primitives (independent of the (u128, i128) overflowing_add + sign-rule code).
// Values are built and read through the private fields directly (child module), so no unit depends
// on from_parts / to_parts, which have their own unit.
// Stubs: bigint::div::div_rem_word (x86-64 inline asm `div`, unsupported by Kani) -> its own portable
// cfg(not(x86_64)) body, i.e. the definition of the instruction: (hi:lo) / d and (hi:lo) % d in u128.
use super::*;
#[path = "/verif/kani/support/i256_spec.rs"]
mod i256_spec;
use i256_spec::*;

fn any_i256() -> i256 { i256 { low: kani::any(), high: kani::any() } }
fn dg(x: i256) -> D4 { digits(x.low, x.high) }
fn of(d: D4) -> i256 { let (low, high) = parts(d); i256 { low, high } }
/// the value x, but opaque to CBMC's constant folder (its 128-bit constant division crashed with SIGFPE)
fn pin(x: i256) -> i256 { let y = any_i256(); kani::assume(y.low == x.low && y.high == x.high); y }

// Contract (C12): from_parts(lo, hi) / to_parts are inverse bijections between i256 and its limb
// pair; the digit view used by every other unit is consistent with them (digits -> parts -> digits is
// the identity); as_digits / from_digits (private helpers of div_rem) are exactly that digit view;
// constants: ZERO = 0, ONE = 1, MINUS_ONE = -1 (all ones), MIN = -2^255, MAX = 2^255 - 1.
// @unit name=i256_parts props=C12 kind=complete fns=i256::from_parts,i256::to_parts,i256::as_digits,i256::from_digits
#[kani::proof]
fn i256_parts() {
    let (lo, hi): (u128, i128) = (kani::any(), kani::any());
    let x = i256::from_parts(lo, hi);
    assert!(x.low == lo && x.high == hi);
    assert!(x.to_parts() == (lo, hi));
    assert!(parts(digits(lo, hi)) == (lo, hi));
    let d: D4 = kani::any();
    let (l2, h2) = parts(d);
    assert!(digits(l2, h2) == d);
    assert!(x.as_digits() == digits(lo, hi));
    assert!(i256::from_digits(d) == of(d));
    assert!(dg(i256::ZERO) == ZERO4 && dg(i256::ONE) == [1, 0, 0, 0] && dg(i256::MINUS_ONE) == [u64::MAX; 4]);
    assert!(dg(i256::MIN) == MIN4 && dg(i256::MAX) == MAX4);
    kani::cover!(hi < 0);
    kani::cover!(hi > 0 && lo > u64::MAX as u128);
}

// Contract (C12): from_i128(v) is the sign extension of v (value preserved); to_i128(x) = Some(v) <=>
// the value of x lies in [i128::MIN, i128::MAX] (i.e. x is the sign extension of its low 128 bits),
// and then v is that value; to_i128(from_i128(v)) = Some(v); as_i128(x) = the low 128 bits (wrapping).
// From<i8..i128> and AsPrimitive<i256> for i8..u64 agree with from_i128 of the widened value.
// ToPrimitive::to_u64: Some(v) <=> 0 <= value < 2^64, and then v is the value.
// @unit name=i256_i128_conv props=C12,C13 kind=complete fns=i256::from_i128,i256::to_i128,i256::as_i128,ToPrimitive<i256>::to_u64
#[kani::proof]
fn i256_i128_conv() {
    let v: i128 = kani::any();
    let x = i256::from_i128(v);
    assert!(dg(x) == from_i128_spec(v));
    assert!(x.to_i128() == Some(v));
    assert!(x.as_i128() == v);
    let y = any_i256();
    let d = dg(y);
    let fits128 = d == from_i128_spec(y.low as i128);
    match y.to_i128() {
        Some(r) => assert!(fits128 && r == y.low as i128),
        None => assert!(!fits128),
    }
    assert!(y.as_i128() == y.low as i128);
    // to_u64: the value fits iff digits 1..3 are zero
    let fits_u64 = d[1] == 0 && d[2] == 0 && d[3] == 0;
    match y.to_u64() {
        Some(r) => assert!(fits_u64 && r == d[0]),
        None => assert!(!fits_u64),
    }
    let (a8, a16, a32, a64): (i8, i16, i32, i64) = (kani::any(), kani::any(), kani::any(), kani::any());
    assert!(i256::from(a8) == i256::from_i128(a8 as i128) && i256::from(a16) == i256::from_i128(a16 as i128));
    assert!(i256::from(a32) == i256::from_i128(a32 as i128) && i256::from(a64) == i256::from_i128(a64 as i128));
    assert!(i256::from(v) == x);
    let (u8_, u64_): (u8, u64) = (kani::any(), kani::any());
    assert!(AsPrimitive::<i256>::as_(u8_) == i256::from_i128(u8_ as i128));
    assert!(AsPrimitive::<i256>::as_(u64_) == i256::from_i128(u64_ as i128));
    assert!(AsPrimitive::<i256>::as_(a64) == i256::from_i128(a64 as i128));
    kani::cover!(fits128 && y.high == -1);
    kani::cover!(!fits128 && y.high == -1);
    kani::cover!(!fits128 && y.high == 0);
    kani::cover!(fits_u64 && d[0] > i64::MAX as u64);
    kani::cover!(fits128 && !fits_u64);
}

// Contract (C13): ToPrimitive::to_i64(x) = Some(v) <=> the value of x lies in [i64::MIN, i64::MAX]
// (digits 1..3 are the sign extension of digit 0), and then v is that value; None otherwise.
// History: this unit found defect D1 (the second range test re-checked `self.high`, the i128 limb, instead
// of the upper 64 bits of the low limb, so 2^64 gave Some(0) and 2^64 + 5 gave Some(5)); fixed in /repo by
// commit 5bf357f.  It fails on any tree without that fix (e.g. the pre-fix dev worktree) - by design.
// @unit name=i256_to_i64 props=C13 kind=complete fns=ToPrimitive<i256>::to_i64
#[kani::proof]
fn i256_to_i64() {
    let y = any_i256();
    let d = dg(y);
    let ext = if (d[0] as i64) < 0 { u64::MAX } else { 0 };
    let fits_i64 = d[1] == ext && d[2] == ext && d[3] == ext;
    match y.to_i64() {
        Some(r) => assert!(fits_i64 && r == d[0] as i64),
        None => assert!(!fits_i64),
    }
    kani::cover!(fits_i64 && (d[0] as i64) < 0);
    kani::cover!(!fits_i64 && y.high == 0);
}

// Contract (C12): for all a, b: i256, with (s, ovf) = exact a + b on the digit model (s = sum mod 2^256,
// ovf <=> exact sum outside [-2^255, 2^255)):  wrapping_add(a,b) = s;  overflowing_add(a,b) = (s, ovf);
// checked_add(a,b) = Some(s) <=> !ovf, None <=> ovf;  num_traits CheckedAdd / WrappingAdd agree;
// SaturatingAdd = s if !ovf, else MIN if the exact sum is negative (both operands negative) else MAX.
// When both operands are sign extensions of i128 values the sum is also compared with i128 arithmetic.
// @unit name=i256_add_pair props=C12 kind=complete fns=i256::wrapping_add,i256::overflowing_add,i256::checked_add,SaturatingAdd<i256>::saturating_add
#[kani::proof]
fn i256_add_pair() {
    let (a, b) = (any_i256(), any_i256());
    let (s, ovf) = add_spec(dg(a), dg(b));
    assert!(dg(a.wrapping_add(b)) == s);
    let (r, o) = a.overflowing_add(b);
    assert!(dg(r) == s && o == ovf);
    match a.checked_add(b) {
        Some(r) => assert!(!ovf && dg(r) == s),
        None => assert!(ovf),
    }
    assert!(CheckedAdd::checked_add(&a, &b) == a.checked_add(b));
    assert!(WrappingAdd::wrapping_add(&a, &b) == a.wrapping_add(b));
    let sat = a.saturating_add(&b);
    assert!(dg(sat) == if !ovf { s } else if is_neg(dg(a)) { MIN4 } else { MAX4 });
    if ovf { assert!(is_neg(dg(a)) == is_neg(dg(b))); }
    // agreement with 128-bit arithmetic on embedded operands (never overflows 256 bits)
    let (x, y): (i128, i128) = (kani::any(), kani::any());
    let e = i256::from_i128(x).checked_add(i256::from_i128(y));
    match x.checked_add(y) {
        Some(z) => assert!(e == Some(i256::from_i128(z))),
        None => assert!(e.is_some() && e.unwrap().to_i128().is_none()),
    }
    kani::cover!(ovf && is_neg(dg(a)));
    kani::cover!(ovf && !is_neg(dg(a)));
    kani::cover!(!ovf && a.low.checked_add(b.low).is_none()); // carry out of the low limb
    kani::cover!(!ovf && is_neg(dg(a)) != is_neg(dg(b)));
}

// Contract (C12): for all a, b: i256, with (s, ovf) = exact a - b on the digit model: wrapping_sub = s;
// overflowing_sub = (s, ovf); checked_sub = Some(s) <=> !ovf; num_traits CheckedSub / WrappingSub agree;
// SaturatingSub = s if !ovf, else MIN if the exact difference is negative (a negative) else MAX.
// @unit name=i256_sub_pair props=C12 kind=complete fns=i256::wrapping_sub,i256::overflowing_sub,i256::checked_sub,SaturatingSub<i256>::saturating_sub
#[kani::proof]
fn i256_sub_pair() {
    let (a, b) = (any_i256(), any_i256());
    let (s, ovf) = sub_spec(dg(a), dg(b));
    assert!(dg(a.wrapping_sub(b)) == s);
    let (r, o) = a.overflowing_sub(b);
    assert!(dg(r) == s && o == ovf);
    match a.checked_sub(b) {
        Some(r) => assert!(!ovf && dg(r) == s),
        None => assert!(ovf),
    }
    assert!(CheckedSub::checked_sub(&a, &b) == a.checked_sub(b));
    assert!(WrappingSub::wrapping_sub(&a, &b) == a.wrapping_sub(b));
    let sat = a.saturating_sub(&b);
    assert!(dg(sat) == if !ovf { s } else if is_neg(dg(a)) { MIN4 } else { MAX4 });
    if ovf { assert!(is_neg(dg(a)) != is_neg(dg(b))); }
    // a - b is the inverse of addition: (a - b) + b = a mod 2^256 (on the spec and on the code)
    assert!(add_spec(s, dg(b)).0 == dg(a));
    let (x, y): (i128, i128) = (kani::any(), kani::any());
    let e = i256::from_i128(x).checked_sub(i256::from_i128(y));
    match x.checked_sub(y) {
        Some(z) => assert!(e == Some(i256::from_i128(z))),
        None => assert!(e.is_some() && e.unwrap().to_i128().is_none()),
    }
    kani::cover!(ovf && is_neg(dg(a)));
    kani::cover!(ovf && !is_neg(dg(a)));
    kani::cover!(!ovf && a.low < b.low); // borrow out of the low limb
}

// Contract (C12): for all a: i256: wrapping_neg(a) = (0 - a) mod 2^256; checked_neg(a) = None <=> a = MIN
// (the only value whose negation is not representable), else Some(0 - a); wrapping_abs(a) = a if a >= 0
// else wrapping_neg(a); checked_abs(a) = None <=> a = MIN; is_negative <=> top bit; is_positive <=>
// a > 0; signum in {-1, 0, 1} accordingly; num_traits Signed / CheckedNeg / WrappingNeg / Zero / One agree.
// @unit name=i256_neg_abs props=C12 kind=complete fns=i256::wrapping_neg,i256::checked_neg,i256::wrapping_abs,i256::checked_abs,i256::is_negative,i256::is_positive,i256::signum
#[kani::proof]
fn i256_neg_abs() {
    let a = any_i256();
    let d = dg(a);
    let (n, novf) = sub_spec(ZERO4, d);
    assert!(novf == (d == MIN4));
    assert!(dg(a.wrapping_neg()) == n);
    match a.checked_neg() {
        Some(r) => assert!(!novf && dg(r) == n),
        None => assert!(novf),
    }
    let neg = is_neg(d);
    assert!(a.is_negative() == neg);
    assert!(a.is_positive() == (!neg && d != ZERO4));
    assert!(dg(a.wrapping_abs()) == if neg { n } else { d });
    match a.checked_abs() {
        Some(r) => assert!(d != MIN4 && dg(r) == if neg { n } else { d } && !r.is_negative()),
        None => assert!(d == MIN4),
    }
    assert!(a.signum() == if neg { i256::MINUS_ONE } else if d == ZERO4 { i256::ZERO } else { i256::ONE });
    assert!(CheckedNeg::checked_neg(&a) == a.checked_neg() && WrappingNeg::wrapping_neg(&a) == a.wrapping_neg());
    assert!(Signed::abs(&a) == a.wrapping_abs() && Signed::is_negative(&a) == neg && Signed::signum(&a) == a.signum());
    assert!(Zero::is_zero(&a) == (d == ZERO4) && One::is_one(&a) == (d == [1, 0, 0, 0]));
    kani::cover!(novf);
    kani::cover!(neg && !novf && a.low == 0);
    kani::cover!(!neg && d != ZERO4);
    kani::cover!(d == ZERO4);
}

// Contract (C10): for all a, b: i256: cmp(a,b) is the mathematical order of the two 256-bit two's
// complement values (signed most significant digit first, then the unsigned digits downwards);
// partial_cmp = Some(cmp); == <=> all digits equal <=> cmp = Equal; the derived operators < <= > >=
// are its projections; the embedding from_i128 is strictly monotone (order of i128 values preserved).
// @unit name=i256_ord props=C10 kind=complete fns=Ord<i256>::cmp,PartialOrd<i256>::partial_cmp,i256::is_eq
#[kani::proof]
#[kani::unwind(34)]
fn i256_ord() {
    let (a, b) = (any_i256(), any_i256());
    let want = cmp_spec(dg(a), dg(b));
    assert!(a.cmp(&b) == want);
    assert!(a.partial_cmp(&b) == Some(want));
    assert!((a == b) == (want == Ordering::Equal) && (a == b) == (dg(a) == dg(b)));
    assert!(a.is_eq(b) == (a == b));
    assert!((a < b) == (want == Ordering::Less) && (a <= b) == (want != Ordering::Greater));
    assert!((a > b) == (want == Ordering::Greater) && (a >= b) == (want != Ordering::Less));
    let (x, y): (i128, i128) = (kani::any(), kani::any());
    let want128 = if x < y { Ordering::Less } else if x == y { Ordering::Equal } else { Ordering::Greater };
    assert!(i256::from_i128(x).cmp(&i256::from_i128(y)) == want128);
    assert!(i256::MIN.cmp(&a) != Ordering::Greater && i256::MAX.cmp(&a) != Ordering::Less);
    kani::cover!(want == Ordering::Less && a.high == b.high);
    kani::cover!(want == Ordering::Greater && a.high < 0 && b.high < 0);
    kani::cover!(want == Ordering::Less && a.high < 0 && b.high >= 0 && a.low > b.low);
    kani::cover!(want == Ordering::Equal);
}

// Contract (C12/C13): to_le_bytes(x)[k] is byte k (little endian) of the 256-bit pattern, i.e. byte
// (k mod 8) of digit k / 8; to_be_bytes is its reversal; from_le_bytes / from_be_bytes are their
// inverses in both directions (bytes -> value -> bytes and value -> bytes -> value), for all inputs.
// @unit name=i256_bytes props=C12,C13 kind=complete fns=i256::to_le_bytes,i256::to_be_bytes,i256::from_le_bytes,i256::from_be_bytes,split_array
#[kani::proof]
#[kani::unwind(34)]
fn i256_bytes() {
    let x = any_i256();
    let d = dg(x);
    let le = x.to_le_bytes();
    let be = x.to_be_bytes();
    let k: usize = kani::any();
    kani::assume(k < 32);
    assert!(le[k] == (d[k / 8] >> (8 * (k % 8))) as u8);
    assert!(be[k] == le[31 - k]);
    assert!(i256::from_le_bytes(le) == x && i256::from_be_bytes(be) == x);
    let b: [u8; 32] = kani::any();
    let y = i256::from_le_bytes(b);
    assert!(y.to_le_bytes() == b);
    let z = i256::from_be_bytes(b);
    assert!(z.to_be_bytes() == b);
    assert!((dg(y)[k / 8] >> (8 * (k % 8))) as u8 == b[k]);
    assert!((dg(z)[k / 8] >> (8 * (k % 8))) as u8 == b[31 - k]);
    kani::cover!(k == 31 && le[k] == 0x80);
    kani::cover!(k == 0);
    kani::cover!(k == 16);
}

// Contract (C12): bit level.  For all x, y: i256, all shift counts n: u8 (0..=255) and every bit index
// i < 256:  bit i of (x << n) = bit (i-n) of x if i >= n else 0;  bit i of (x >> n) = bit (i+n) of x if
// i+n < 256 else the sign bit (arithmetic shift);  & | ^ ! act bit-wise;  the wider shift operand types
// and WrappingShl/Shr (count taken mod 256) / CheckedShl/Shr (None <=> count > 255) reduce to the u8
// form;  leading_zeros / trailing_zeros count the zero bits above the highest / below the lowest set
// bit (256 for zero).
// @unit name=i256_bits props=C12 kind=complete fns=Shl<u8>::shl,Shr<u8>::shr,BitAnd<i256>::bitand,BitOr<i256>::bitor,BitXor<i256>::bitxor,Not<i256>::not,i256::leading_zeros,i256::trailing_zeros,WrappingShl<i256>::wrapping_shl,CheckedShl<i256>::checked_shl
#[kani::proof]
fn i256_bits() {
    let (x, y) = (any_i256(), any_i256());
    let n: u8 = kani::any();
    let i: u32 = kani::any();
    kani::assume(i < 256);
    let (dx, dy) = (dg(x), dg(y));
    let l = dg(x << n);
    assert!(bit256(l, i) == if i >= n as u32 { bit256(dx, i - n as u32) } else { false });
    let r = dg(x >> n);
    assert!(bit256(r, i) == if i + (n as u32) < 256 { bit256(dx, i + n as u32) } else { is_neg(dx) });
    assert!(bit256(dg(x & y), i) == (bit256(dx, i) & bit256(dy, i)));
    assert!(bit256(dg(x | y), i) == (bit256(dx, i) | bit256(dy, i)));
    assert!(bit256(dg(x ^ y), i) == (bit256(dx, i) ^ bit256(dy, i)));
    assert!(bit256(dg(!x), i) == !bit256(dx, i));
    let m: u32 = kani::any();
    assert!(x.wrapping_shl(m) == x << (m as u8) && x.wrapping_shr(m) == x >> (m as u8));
    assert!(x.checked_shl(m) == if m <= 255 { Some(x << (m as u8)) } else { None });
    assert!(x.checked_shr(m) == if m <= 255 { Some(x >> (m as u8)) } else { None });
    if m <= 255 { assert!(x << m == x << (m as u8) && x >> (m as i64) == x >> (m as u8)); }
    let lz = x.leading_zeros();
    assert!(lz <= 256 && (lz == 256) == (dx == ZERO4));
    if i < lz { assert!(!bit256(dx, 255 - i)); }
    if lz < 256 { assert!(bit256(dx, 255 - lz)); }
    let tz = x.trailing_zeros();
    assert!(tz <= 256 && (tz == 256) == (dx == ZERO4));
    if i < tz { assert!(!bit256(dx, i)); }
    if tz < 256 { assert!(bit256(dx, tz)); }
    kani::cover!(n >= 128 && i >= n as u32 && bit256(l, i));
    kani::cover!(n > 0 && n < 128 && i >= 128 && i - (n as u32) < 128 && bit256(l, i));
    kani::cover!(n > 128 && i + (n as u32) >= 256 && bit256(r, i));
    kani::cover!(n > 0 && n < 128 && i < 128 && i + (n as u32) >= 128 && bit256(r, i));
    kani::cover!(lz > 128 && lz < 256);
    kani::cover!(tz > 128 && tz < 256);
}

// Contract (C12), bounded: mulx(a, b) for a, b < 2^64 returns (low, high) = (a*b, 0) with a*b the exact
// product in u128 (the 128 x 128 -> 256 bit product of arbitrary operands is out of reach for the
// solver).  Pinned full-width points: mulx(2^127, 2) = (0, 1); mulx(MAX, MAX) = (1, MAX - 1).
// @unit name=i256_mulx_64 props=C12 kind=bounded bound=operands<2^64 fns=mulx timeout=900
#[kani::proof]
fn i256_mulx_64() {
    let (a, b): (u64, u64) = (kani::any(), kani::any());
    let (lo, hi) = mulx(a as u128, b as u128);
    assert!(lo == a as u128 * b as u128 && hi == 0);
    assert!(mulx(1 << 127, 2) == (0, 1));
    assert!(mulx(u128::MAX, u128::MAX) == (1, u128::MAX - 1));
    kani::cover!(lo > u64::MAX as u128);
}

// Contract (C12), bounded: for operands that are sign extensions of i32 values a, b: checked_mul =
// Some(a*b) and wrapping_mul = a*b with a*b the exact product in i64 (always representable); num_traits
// CheckedMul / WrappingMul / SaturatingMul agree (no saturation).  Overflow detection pinned on
// full-width constants: MIN * -1 = None (saturating MAX), MAX * 2 = None (saturating MAX), MIN * 2 = None
// (saturating MIN), MAX * -2 = None (saturating MIN), 2^128 * 2^127 = None (= 2^255), 2^128 * -(2^127) =
// Some(MIN), 0 * MIN = Some(0), wrapping_mul(MIN, -1) = MIN.  (Full-width products: coordinator's Verus unit.)
// @unit name=i256_mul_small props=C12 kind=bounded bound=operands_in_i32_range_(plus_pinned_full-width_points) fns=i256::checked_mul,i256::wrapping_mul,SaturatingMul<i256>::saturating_mul timeout=1500 tier=thorough was_quick=1 confirmed=0
#[kani::proof]
fn i256_mul_small() {
    let (a, b): (i32, i32) = (kani::any(), kani::any());
    let (x, y) = (i256::from_i128(a as i128), i256::from_i128(b as i128));
    let p = i256::from_i128((a as i64 * b as i64) as i128);
    assert!(x.checked_mul(y) == Some(p));
    assert!(x.wrapping_mul(y) == p);
    assert!(CheckedMul::checked_mul(&x, &y) == Some(p) && WrappingMul::wrapping_mul(&x, &y) == p && x.saturating_mul(&y) == p);
    let two128 = i256 { low: 0, high: 1 };
    let two127 = i256 { low: 1 << 127, high: 0 };
    let (two, m2) = (i256::from_i128(2), i256::from_i128(-2));
    assert!(i256::MIN.checked_mul(i256::MINUS_ONE).is_none() && i256::MIN.wrapping_mul(i256::MINUS_ONE) == i256::MIN);
    assert!(i256::MAX.checked_mul(two).is_none() && i256::MIN.checked_mul(two).is_none() && i256::MAX.checked_mul(m2).is_none());
    assert!(i256::MIN.saturating_mul(&i256::MINUS_ONE) == i256::MAX && i256::MAX.saturating_mul(&two) == i256::MAX);
    assert!(i256::MIN.saturating_mul(&two) == i256::MIN && i256::MAX.saturating_mul(&m2) == i256::MIN);
    assert!(two128.checked_mul(two127).is_none());
    assert!(two128.checked_mul(two127.wrapping_neg()) == Some(i256::MIN));
    assert!(i256::ZERO.checked_mul(i256::MIN) == Some(i256::ZERO));
    kani::cover!(a < -1 && b > 1);
    kani::cover!(a < -1 && b < -1 && (a as i64 * b as i64) > i32::MAX as i64);
}

// Contract (C12): multiplication by a power of two 2^K (K concrete per unit), FULL-WIDTH other operand:
// for all x: i256: wrapping_mul(x, 2^K) = x << K (product mod 2^256), and checked_mul(x, 2^K) = Some(x << K)
// <=> no significant bit is lost, i.e. (x << K) >> K = x (arithmetic shifts, specified bit-wise in
// i256_bits), None otherwise; both operand orders.  Exercises the overflow detection of checked_mul on
// operands with non-zero high limbs.
fn mul_pow2_case<const K: u8>() {
    let x = any_i256();
    let p = i256::ONE << K;
    let shifted = x << K;
    let exact = (shifted >> K) == x;
    assert!(x.wrapping_mul(p) == shifted && p.wrapping_mul(x) == shifted);
    match x.checked_mul(p) {
        Some(r) => assert!(exact && r == shifted),
        None => assert!(!exact),
    }
    assert!(p.checked_mul(x) == x.checked_mul(p));
    kani::cover!(exact && x.is_negative() && x.low != 0);
    kani::cover!(exact && !x.is_negative() && x != i256::ZERO);
    kani::cover!(!exact && x.is_negative());
    kani::cover!(!exact && !x.is_negative());
}
// @unit name=i256_mul_pow2_k1 props=C12 kind=bounded bound=multiplier_2^1_(other_operand_full_width) fns=i256::checked_mul,i256::wrapping_mul timeout=1500 tier=thorough was_quick=1 confirmed=0
#[kani::proof]
fn i256_mul_pow2_k1() { mul_pow2_case::<1>() }
// @unit name=i256_mul_pow2_k64 props=C12 kind=bounded bound=multiplier_2^64_(other_operand_full_width) fns=i256::checked_mul,i256::wrapping_mul timeout=1500 tier=thorough was_quick=1 confirmed=0
#[kani::proof]
fn i256_mul_pow2_k64() { mul_pow2_case::<64>() }
// @unit name=i256_mul_pow2_k130 props=C12 kind=bounded bound=multiplier_2^130_(other_operand_full_width) fns=i256::checked_mul,i256::wrapping_mul timeout=1500 tier=thorough was_quick=1 confirmed=0
#[kani::proof]
fn i256_mul_pow2_k130() { mul_pow2_case::<130>() }

/// Stub for bigint::div::div_rem_word (x86-64 inline asm): the definition of the `div` instruction,
/// i.e. the function's own portable cfg(not(target_arch = "x86_64")) body; for hi = 0 the same
/// quotient / remainder are formed in 64 bits (identical values, cheaper circuit).
fn div_rem_word_def(hi: u64, lo: u64, divisor: u64) -> (u64, u64) {
    if hi == 0 { return (lo / divisor, lo % divisor); }
    let x = (u128::from(hi) << 64) + u128::from(lo);
    let y = u128::from(divisor);
    ((x / y) as u64, (x % y) as u64)
}

/// |x| as digits, for x != MIN
fn abs_digits(x: i256) -> D4 { if is_neg(dg(x)) { sub_spec(ZERO4, dg(x)).0 } else { dg(x) } }
/// schoolbook q * d + r on digits (d, r: up to four digits), returns (low four digits, overflow beyond four digits)
fn mul_add_digits(q: D4, d: D4, r: D4) -> (D4, bool) {
    let mut acc = [0u128; 8];
    let mut i = 0;
    while i < 4 {
        let mut j = 0;
        while j < 4 {
            let p = q[i] as u128 * d[j] as u128;
            acc[i + j] += p & (u64::MAX as u128);
            acc[i + j + 1] += p >> 64;
            j += 1;
        }
        i += 1;
    }
    let mut out = [0u64; 4];
    let mut carry: u128 = 0;
    let mut k = 0;
    let mut high_nonzero = false;
    while k < 8 {
        let t = acc[k] + carry + if k < 4 { r[k] as u128 } else { 0 };
        if k < 4 { out[k] = t as u64; } else if t as u64 != 0 { high_nonzero = true; }
        carry = t >> 64;
        k += 1;
    }
    (out, high_nonzero || carry != 0)
}
fn lt_digits(a: D4, b: D4) -> bool {
    let mut i = 4;
    while i > 0 { i -= 1; if a[i] != b[i] { return a[i] < b[i]; } }
    false
}
// Contract (C12): division of a FULL-WIDTH symbolic numerator n by a concrete divisor D (grid: one-digit
// divisors 10, -7 and 10^18 -> div_rem_small; two-digit 10^20 and three-digit 10^40 -> Knuth algorithm D with
// 3 resp. 2 quotient digits): for every n: i256 (n != MIN when D < 0 is not needed: D != -1):
// checked_div / checked_rem = Some(q), Some(r) with |q| * |D| + |r| = |n| (schoolbook product on base-2^64
// digits), |r| < |D|, sign(q) = sign(n) * sign(D) or q = 0, sign(r) = sign(n) or r = 0 - this pins q and r
// uniquely (truncated division); wrapping_div / wrapping_rem agree.  n = MIN is included (|MIN| = 2^255 as
// unsigned digits).  Stub: div::div_rem_word -> div_rem_word_def.
fn div_const_case(dv: i256) {
    let n = any_i256();
    let d = pin(dv);
    let (q, r) = (n.checked_div(d), n.checked_rem(d));
    assert!(q.is_some() && r.is_some());
    let (q, r) = (q.unwrap(), r.unwrap());
    let (qa, ra, na, da) = (abs_digits(q), abs_digits(r), abs_digits(n), abs_digits(d));
    let (prod, ovf) = mul_add_digits(qa, da, ra);
    assert!(!ovf && prod == na);
    assert!(lt_digits(ra, da));
    assert!(dg(q) == ZERO4 || is_neg(dg(q)) == (is_neg(dg(n)) != is_neg(dg(d))));
    assert!(dg(r) == ZERO4 || is_neg(dg(r)) == is_neg(dg(n)));
    assert!(n.wrapping_div(d) == q && n.wrapping_rem(d) == r);
    kani::cover!(is_neg(dg(n)) && dg(r) != ZERO4 && qa[3] != 0);
    kani::cover!(!is_neg(dg(n)) && qa[2] != 0 && dg(r) != ZERO4);
    kani::cover!(dg(n) == MIN4);
    kani::cover!(dg(q) == ZERO4 && dg(n) != ZERO4);
}
macro_rules! div_const_unit {
    ($name:ident, $d:expr) => {
        #[kani::proof]
        #[kani::unwind(10)]
        #[kani::stub(crate::bigint::div::div_rem_word, div_rem_word_def)]
        fn $name() { div_const_case($d) }
    };
}
// @unit name=i256_div_by_10 props=C12 kind=bounded bound=divisor=10_(numerator_full_width) fns=i256::div_rem,i256::checked_div,i256::checked_rem,i256::wrapping_div,i256::wrapping_rem,div::div_rem,div::div_rem_small mem=4 timeout=1500 tier=thorough was_quick=1 confirmed=0
div_const_unit!(i256_div_by_10, i256::from_i128(10));
// @unit name=i256_div_by_m7 props=C12 kind=bounded bound=divisor=-7_(numerator_full_width) fns=i256::div_rem,i256::checked_div,i256::checked_rem,i256::wrapping_div,i256::wrapping_rem,div::div_rem,div::div_rem_small mem=4 timeout=1500 tier=thorough was_quick=1 confirmed=0
div_const_unit!(i256_div_by_m7, i256::from_i128(-7));
// @unit name=i256_div_by_1e18 props=C12 kind=bounded bound=divisor=10^18_(numerator_full_width) fns=i256::div_rem,i256::checked_div,i256::checked_rem,div::div_rem,div::div_rem_small mem=4 timeout=1500 tier=thorough was_quick=1 confirmed=0
div_const_unit!(i256_div_by_1e18, i256::from_i128(1_000_000_000_000_000_000));
// @unit name=i256_div_by_1e20 props=C12 kind=bounded bound=divisor=10^20_two_digits_(numerator_full_width) fns=i256::div_rem,i256::checked_div,i256::checked_rem,div::div_rem,div::div_rem_knuth,div::full_mul_u64,div::sub_assign,div::add_assign,div::full_shl,div::full_shr tier=thorough mem=6 timeout=1500 confirmed=0
div_const_unit!(i256_div_by_1e20, i256::from_i128(100_000_000_000_000_000_000));
// @unit name=i256_div_by_1e40 props=C12 kind=bounded bound=divisor=10^40_three_digits_(numerator_full_width) fns=i256::div_rem,i256::checked_div,i256::checked_rem,div::div_rem,div::div_rem_knuth,div::full_mul_u64,div::sub_assign,div::add_assign,div::full_shl,div::full_shr tier=thorough mem=6 timeout=1500 confirmed=0
div_const_unit!(i256_div_by_1e40, i256 { low: 0x6329f1c35ca4bfabb9f5610000000000, high: 0x1d });

// Contract (C12): division, pinned full-width points (concrete operands; exercises the sign handling
// and the Knuth path on known values): MIN / -1: checked None, wrapping_div = MIN, wrapping_rem = 0;
// x / 0 = None; MIN / 1 = MIN rem 0; MAX / MAX = 1 rem 0; MIN / MAX = -1 rem -1; (2^200 + 5) / 2^100 =
// 2^100 rem 5; -(2^200 + 5) / 2^100 = -(2^100) rem -5; (2^192 - 1) / (2^64 + 1): q*d + r = n checked by
// wrapping_mul / wrapping_add on the (already specified) code; and the Knuth 'add back' case
// ((B/2-1)B^3 + (B/2)B^2) / ((B/2)B^2 + 1) = B - 2 rem (B/2)B^2 - B + 2, B = 2^64 (branch reachability
// confirmed with a temporary kani::cover! in div_rem_knuth, see REPORT.md).
// Stub: div::div_rem_word -> div_rem_word_def.
// @unit name=i256_div_pinned props=C12 kind=bounded bound=concrete_operands fns=i256::div_rem,i256::checked_div,i256::checked_rem,i256::wrapping_div,i256::wrapping_rem,div::div_rem,div::div_rem_knuth timeout=900 tier=thorough was_quick=1 confirmed=0
#[kani::proof]
#[kani::unwind(8)]
#[kani::stub(crate::bigint::div::div_rem_word, div_rem_word_def)]
fn i256_div_pinned() {
    // every operand goes through pin(): concrete for the solver, opaque for CBMC's constant folder
    let (m1, one, zero, min, max) = (pin(i256::MINUS_ONE), pin(i256::ONE), pin(i256::ZERO), pin(i256::MIN), pin(i256::MAX));
    assert!(min.checked_div(m1).is_none() && min.checked_rem(m1).is_none());
    assert!(min.wrapping_div(m1) == i256::MIN && min.wrapping_rem(m1) == i256::ZERO);
    assert!(max.checked_div(zero).is_none() && max.checked_rem(zero).is_none());
    assert!(min.checked_div(one) == Some(i256::MIN) && min.checked_rem(one) == Some(i256::ZERO));
    assert!(max.checked_div(max) == Some(i256::ONE) && max.checked_rem(max) == Some(i256::ZERO));
    assert!(min.checked_div(max) == Some(i256::MINUS_ONE) && min.checked_rem(max) == Some(i256::MINUS_ONE));
    let n = pin(i256 { low: 5, high: 1 << 72 });        // 2^200 + 5
    let d = pin(i256 { low: 1 << 100, high: 0 });       // 2^100
    assert!(n.checked_div(d) == Some(d) && n.checked_rem(d) == Some(i256::from_i128(5)));
    assert!(n.wrapping_neg().checked_div(d) == Some(d.wrapping_neg()) && n.wrapping_neg().checked_rem(d) == Some(i256::from_i128(-5)));
    let n2 = pin(i256 { low: u128::MAX, high: u64::MAX as i128 }); // 2^192 - 1
    let d2 = pin(i256 { low: (1 << 64) + 1, high: 0 });            // 2^64 + 1
    let (q2, r2) = (n2.checked_div(d2).unwrap(), n2.checked_rem(d2).unwrap());
    assert!(q2.wrapping_mul(d2).wrapping_add(r2) == n2 && r2 < d2 && !r2.is_negative());
    // Knuth D "add back" case (3-digit divisor, first quotient estimate one too large):
    // n = (B/2 - 1) B^3 + (B/2) B^2, d = (B/2) B^2 + 1 with B = 2^64: q = B - 2, r = (B/2) B^2 - B + 2
    let n3 = pin(i256 { low: 0, high: ((1u128 << 63) | (((1u128 << 63) - 1) << 64)) as i128 });
    let d3 = pin(i256 { low: 1, high: 1 << 63 });
    assert!(n3.checked_div(d3) == Some(i256 { low: u64::MAX as u128 - 1, high: 0 }));
    assert!(n3.checked_rem(d3) == Some(i256 { low: 2 | ((u64::MAX as u128) << 64), high: (1 << 63) - 1 }));
    kani::cover!(q2.high == 0 && q2.low > 1 << 64);
}

// Contract (C12), bounded: checked_pow / wrapping_pow for bases that are sign extensions of i32 values
// and each exponent e in {0, 1, 2, 3}: = the exact power in i128 (always representable), exp = 0 gives 1
// (also 0^0).  Pinned: 2^255 overflows (checked None, wrapping = MIN), 2^254 and (-2)^255 = MIN are Some.
// @unit name=i256_pow_small props=C12 kind=bounded bound=base_in_i32_range_exp<=3_(base_2:_exp_254,255) fns=i256::checked_pow,i256::wrapping_pow timeout=1500 tier=thorough was_quick=1 confirmed=0
#[kani::proof]
#[kani::unwind(10)]
fn i256_pow_small() {
    let a: i32 = kani::any();
    let w = a as i128;
    let x = i256::from_i128(w);
    assert!(x.checked_pow(0) == Some(i256::ONE) && x.wrapping_pow(0) == i256::ONE);
    assert!(x.checked_pow(1) == Some(x) && x.wrapping_pow(1) == x);
    assert!(x.checked_pow(2) == Some(i256::from_i128(w * w)) && x.wrapping_pow(2) == i256::from_i128(w * w));
    assert!(x.checked_pow(3) == Some(i256::from_i128(w * w * w)) && x.wrapping_pow(3) == i256::from_i128(w * w * w));
    let two = i256::from_i128(2);
    assert!(two.checked_pow(255).is_none() && two.wrapping_pow(255) == i256::MIN);
    assert!(two.checked_pow(254) == Some(i256::ONE << 254u8));
    assert!(two.wrapping_neg().checked_pow(255) == Some(i256::MIN));
    kani::cover!(a < -1000);
    kani::cover!(a == 0);
}
