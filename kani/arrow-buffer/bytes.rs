// Kani contract harnesses for /repo/arrow-buffer/src/bytes.rs (child module: sees private items via super::)
