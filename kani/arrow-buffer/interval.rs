// Kani contract harnesses for /repo/arrow-buffer/src/interval.rs (child module: sees private items via super::)
