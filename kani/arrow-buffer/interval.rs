// Kani contract harnesses for /repo/arrow-buffer/src/interval.rs (child module: sees private items via super::)
//
// IntervalMonthDayNano (months: i32, days: i32, nanoseconds: i64) and IntervalDayTime (days: i32,
// milliseconds: i32): field-wise checked / wrapping arithmetic and the derived lexicographic order.
// Spec side: exact arithmetic per field in i128; `x as iN` is the reduction mod 2^N.
// div / rem / pow fields at 32 and 64 bits: spec side = core's operator per field (ASSUMPTION, see the
// guide: no >= 32-bit nonlinear specs), what is checked is the field-wise structure (None <=> some
// field is None, no field mixes with another).
use super::*;
use std::cmp::Ordering;

fn f32w(x: i128) -> bool { x >= i32::MIN as i128 && x <= i32::MAX as i128 }
fn f64w(x: i128) -> bool { x >= i64::MIN as i128 && x <= i64::MAX as i128 }
fn any_mdn() -> IntervalMonthDayNano { IntervalMonthDayNano::new(kani::any(), kani::any(), kani::any()) }
fn any_dt() -> IntervalDayTime { IntervalDayTime::new(kani::any(), kani::any()) }
fn w3(x: IntervalMonthDayNano) -> (i128, i128, i128) { (x.months as i128, x.days as i128, x.nanoseconds as i128) }
fn w2(x: IntervalDayTime) -> (i128, i128) { (x.days as i128, x.milliseconds as i128) }
fn ord<T: PartialOrd>(a: T, b: T) -> Ordering { if a < b { Ordering::Less } else if a == b { Ordering::Equal } else { Ordering::Greater } }

// Contract (C10): IntervalMonthDayNano: cmp is the lexicographic order on (months, days, nanoseconds),
// each field in its signed integer order; partial_cmp = Some(cmp); == <=> all three fields equal <=>
// cmp = Equal; < <= > >= are its projections; constants ZERO / ONE / MINUS_ONE / MIN / MAX are
// field-wise 0 / 1 / -1 / MIN / MAX and MIN, MAX are the least / greatest elements.
// @unit name=mdn_ord props=C10 kind=complete fns=Ord<IntervalMonthDayNano>::cmp,PartialOrd<IntervalMonthDayNano>::partial_cmp,PartialEq<IntervalMonthDayNano>::eq
#[kani::proof]
fn mdn_ord() {
    let (a, b) = (any_mdn(), any_mdn());
    let want = match ord(a.months, b.months) {
        Ordering::Equal => match ord(a.days, b.days) {
            Ordering::Equal => ord(a.nanoseconds, b.nanoseconds),
            o => o,
        },
        o => o,
    };
    assert!(a.cmp(&b) == want && a.partial_cmp(&b) == Some(want));
    let all_eq = a.months == b.months && a.days == b.days && a.nanoseconds == b.nanoseconds;
    assert!((a == b) == all_eq && (want == Ordering::Equal) == all_eq);
    assert!((a < b) == (want == Ordering::Less) && (a <= b) == (want != Ordering::Greater));
    assert!((a > b) == (want == Ordering::Greater) && (a >= b) == (want != Ordering::Less));
    assert!(w3(IntervalMonthDayNano::ZERO) == (0, 0, 0) && w3(IntervalMonthDayNano::ONE) == (1, 1, 1) && w3(IntervalMonthDayNano::MINUS_ONE) == (-1, -1, -1));
    assert!(w3(IntervalMonthDayNano::MIN) == (i32::MIN as i128, i32::MIN as i128, i64::MIN as i128));
    assert!(w3(IntervalMonthDayNano::MAX) == (i32::MAX as i128, i32::MAX as i128, i64::MAX as i128));
    assert!(IntervalMonthDayNano::MIN.cmp(&a) != Ordering::Greater && IntervalMonthDayNano::MAX.cmp(&a) != Ordering::Less);
    kani::cover!(want == Ordering::Less && a.months == b.months && a.days == b.days);
    kani::cover!(want == Ordering::Greater && a.months == b.months && a.days > b.days && a.nanoseconds < b.nanoseconds);
    kani::cover!(want == Ordering::Less && a.months < b.months && a.days > b.days);
    kani::cover!(all_eq);
}

// Contract (C10): IntervalDayTime: cmp is the lexicographic order on (days, milliseconds); partial_cmp,
// ==, < <= > >= consistent with it; constants field-wise; MIN / MAX least / greatest.
// @unit name=dt_ord props=C10 kind=complete fns=Ord<IntervalDayTime>::cmp,PartialOrd<IntervalDayTime>::partial_cmp,PartialEq<IntervalDayTime>::eq
#[kani::proof]
fn dt_ord() {
    let (a, b) = (any_dt(), any_dt());
    let want = match ord(a.days, b.days) { Ordering::Equal => ord(a.milliseconds, b.milliseconds), o => o };
    assert!(a.cmp(&b) == want && a.partial_cmp(&b) == Some(want));
    let all_eq = a.days == b.days && a.milliseconds == b.milliseconds;
    assert!((a == b) == all_eq && (want == Ordering::Equal) == all_eq);
    assert!((a < b) == (want == Ordering::Less) && (a <= b) == (want != Ordering::Greater));
    assert!((a > b) == (want == Ordering::Greater) && (a >= b) == (want != Ordering::Less));
    assert!(w2(IntervalDayTime::ZERO) == (0, 0) && w2(IntervalDayTime::ONE) == (1, 1) && w2(IntervalDayTime::MINUS_ONE) == (-1, -1));
    assert!(w2(IntervalDayTime::MIN) == (i32::MIN as i128, i32::MIN as i128) && w2(IntervalDayTime::MAX) == (i32::MAX as i128, i32::MAX as i128));
    assert!(IntervalDayTime::MIN.cmp(&a) != Ordering::Greater && IntervalDayTime::MAX.cmp(&a) != Ordering::Less);
    kani::cover!(want == Ordering::Less && a.days == b.days);
    kani::cover!(want == Ordering::Greater && a.days > b.days && a.milliseconds < b.milliseconds);
    kani::cover!(all_eq);
}

// Contract (C12): IntervalMonthDayNano add / sub / neg / abs, field-wise.  With the exact per-field
// results (e_m, e_d, e_n) in i128:  checked_op = Some(v) <=> e_m, e_d fit i32 and e_n fits i64, and then
// every field of v is the exact value; None otherwise;  wrapping_op = (e_m mod 2^32, e_d mod 2^32,
// e_n mod 2^64).  (abs: |x| per field; neg: 0 - x per field.)
// @unit name=mdn_addsub props=C12 kind=complete fns=IntervalMonthDayNano::checked_add,IntervalMonthDayNano::wrapping_add,IntervalMonthDayNano::checked_sub,IntervalMonthDayNano::wrapping_sub,IntervalMonthDayNano::checked_neg,IntervalMonthDayNano::wrapping_neg,IntervalMonthDayNano::checked_abs,IntervalMonthDayNano::wrapping_abs
#[kani::proof]
fn mdn_addsub() {
    let (a, b) = (any_mdn(), any_mdn());
    let ((am, ad, an), (bm, bd, bn)) = (w3(a), w3(b));
    macro_rules! check {
        ($c:expr, $wr:expr, $e:expr) => {{
            let (em, ed, en): (i128, i128, i128) = $e;
            let ok = f32w(em) && f32w(ed) && f64w(en);
            match $c {
                Some(v) => assert!(ok && w3(v) == (em, ed, en)),
                None => assert!(!ok),
            }
            let v = $wr;
            assert!(v.months == em as i32 && v.days == ed as i32 && v.nanoseconds == en as i64);
            ok
        }};
    }
    let ok_add = check!(a.checked_add(b), a.wrapping_add(b), (am + bm, ad + bd, an + bn));
    let ok_sub = check!(a.checked_sub(b), a.wrapping_sub(b), (am - bm, ad - bd, an - bn));
    let ok_neg = check!(a.checked_neg(), a.wrapping_neg(), (-am, -ad, -an));
    let ok_abs = check!(a.checked_abs(), a.wrapping_abs(), (am.abs(), ad.abs(), an.abs()));
    kani::cover!(!ok_add && f32w(am + bm) && f32w(ad + bd));
    kani::cover!(!ok_add && f64w(an + bn) && f32w(ad + bd));
    kani::cover!(ok_add && am + bm < 0 && an + bn > 0);
    kani::cover!(!ok_sub && f64w(an - bn) && f32w(am - bm));
    kani::cover!(!ok_neg && a.days == i32::MIN && a.months != i32::MIN);
    kani::cover!(!ok_abs && a.nanoseconds == i64::MIN);
    kani::cover!(ok_abs && a.months < 0 && a.days > 0);
}

// Contract (C12): IntervalMonthDayNano checked_mul / wrapping_mul, field-wise exact: products in i128;
// Some <=> months and days products fit i32 and the nanoseconds product fits i64, and then exact; None
// otherwise; wrapping_mul = products mod 2^32 / 2^32 / 2^64.
// @unit name=mdn_mul props=C12 kind=complete fns=IntervalMonthDayNano::checked_mul,IntervalMonthDayNano::wrapping_mul timeout=900
#[kani::proof]
fn mdn_mul() {
    let (a, b) = (any_mdn(), any_mdn());
    let ((am, ad, an), (bm, bd, bn)) = (w3(a), w3(b));
    let (em, ed, en) = ((a.months as i64 * b.months as i64) as i128, (a.days as i64 * b.days as i64) as i128, an * bn);
    let _ = (am, ad, bm, bd);
    let ok = f32w(em) && f32w(ed) && f64w(en);
    match a.checked_mul(b) {
        Some(v) => assert!(ok && w3(v) == (em, ed, en)),
        None => assert!(!ok),
    }
    let v = a.wrapping_mul(b);
    assert!(v.months == em as i32 && v.days == ed as i32 && v.nanoseconds == en as i64);
    kani::cover!(ok && em < -1 && en > 1);
    kani::cover!(!ok && f32w(em) && f32w(ed));
    kani::cover!(!ok && f64w(en) && f32w(em));
}

// Contract (C12): IntervalDayTime add / sub / neg / abs / mul, field-wise exact in i128: checked_op =
// Some(v) <=> both exact field results fit i32, and then v holds them; wrapping_op = both mod 2^32.
// @unit name=dt_ops props=C12 kind=complete fns=IntervalDayTime::checked_add,IntervalDayTime::wrapping_add,IntervalDayTime::checked_sub,IntervalDayTime::wrapping_sub,IntervalDayTime::checked_neg,IntervalDayTime::wrapping_neg,IntervalDayTime::checked_abs,IntervalDayTime::wrapping_abs,IntervalDayTime::checked_mul,IntervalDayTime::wrapping_mul timeout=900
#[kani::proof]
fn dt_ops() {
    let (a, b) = (any_dt(), any_dt());
    let ((ad, am), (bd, bm)) = (w2(a), w2(b));
    macro_rules! check {
        ($c:expr, $wr:expr, $e:expr) => {{
            let (ed, em): (i128, i128) = $e;
            let ok = f32w(ed) && f32w(em);
            match $c {
                Some(v) => assert!(ok && w2(v) == (ed, em)),
                None => assert!(!ok),
            }
            let v = $wr;
            assert!(v.days == ed as i32 && v.milliseconds == em as i32);
            ok
        }};
    }
    let ok_add = check!(a.checked_add(b), a.wrapping_add(b), (ad + bd, am + bm));
    let ok_sub = check!(a.checked_sub(b), a.wrapping_sub(b), (ad - bd, am - bm));
    let ok_neg = check!(a.checked_neg(), a.wrapping_neg(), (-ad, -am));
    let ok_abs = check!(a.checked_abs(), a.wrapping_abs(), (ad.abs(), am.abs()));
    let ok_mul = check!(a.checked_mul(b), a.wrapping_mul(b), ((a.days as i64 * b.days as i64) as i128, (a.milliseconds as i64 * b.milliseconds as i64) as i128));
    kani::cover!(!ok_add && f32w(ad + bd));
    kani::cover!(!ok_add && f32w(am + bm));
    kani::cover!(!ok_sub);
    kani::cover!(!ok_neg && a.days != i32::MIN);
    kani::cover!(!ok_abs);
    kani::cover!(ok_mul && ad * bd < -1 && am * bm > 1);
    kani::cover!(!ok_mul && f32w(ad * bd));
}

// Contract (C12), ASSUMPTION (core's 32/64-bit `/`, `%` trusted per field for the VALUES):
// IntervalMonthDayNano checked_div / checked_rem are field-wise: None <=> some field's core checked op is
// None - decided here without a second divider: None <=> some divisor field is 0 or some field pair is
// (MIN, -1).  Field independence is pinned on divisors with a 1 / -1 field: that output field is a / 1 = a,
// a % 1 = 0, a / -1 = -a whatever the other fields are.  For all-nonzero divisors the wrapping forms do
// not panic and obey the same pinned facts (MIN / -1 wraps to MIN, MIN % -1 = 0).
// @unit name=mdn_divrem props=C12 kind=complete fns=IntervalMonthDayNano::checked_div,IntervalMonthDayNano::checked_rem,IntervalMonthDayNano::wrapping_div,IntervalMonthDayNano::wrapping_rem timeout=1500
#[kani::proof]
fn mdn_divrem() {
    let (a, b) = (any_mdn(), any_mdn());
    let bad = |x: i128, y: i128, min: i128| y == 0 || (x == min && y == -1);
    let ((am, ad, an), (bm, bd, bn)) = (w3(a), w3(b));
    let none = bad(am, bm, i32::MIN as i128) || bad(ad, bd, i32::MIN as i128) || bad(an, bn, i64::MIN as i128);
    let (q, r) = (a.checked_div(b), a.checked_rem(b));
    assert!(q.is_none() == none && r.is_none() == none);
    if let (Some(q), Some(r)) = (q, r) {
        if bm == 1 { assert!(q.months == a.months && r.months == 0); }
        if bd == -1 { assert!(q.days as i128 == -ad && r.days == 0); }
        if bn == 1 { assert!(q.nanoseconds == a.nanoseconds && r.nanoseconds == 0); }
    }
    if bm != 0 && bd != 0 && bn != 0 {
        let (qw, rw) = (a.wrapping_div(b), a.wrapping_rem(b));
        if bm == 1 { assert!(qw.months == a.months && rw.months == 0); }
        if bd == -1 { assert!(qw.days == a.days.wrapping_neg() && rw.days == 0); }
        if bn == -1 { assert!(qw.nanoseconds == a.nanoseconds.wrapping_neg() && rw.nanoseconds == 0); }
    }
    kani::cover!(none && bm != 0 && bd != 0 && bn != 0);
    kani::cover!(none && bn == 0 && bm != 0);
    kani::cover!(!none && bm > 2 && am > bm);
    kani::cover!(bd == -1 && a.days == i32::MIN && bm != 0 && bn != 0);
}

// Contract (C12): the same for IntervalDayTime (days, milliseconds).
// @unit name=dt_divrem props=C12 kind=complete fns=IntervalDayTime::checked_div,IntervalDayTime::checked_rem,IntervalDayTime::wrapping_div,IntervalDayTime::wrapping_rem timeout=1500
#[kani::proof]
fn dt_divrem() {
    let (c, d) = (any_dt(), any_dt());
    let bad = |x: i128, y: i128| y == 0 || (x == i32::MIN as i128 && y == -1);
    let ((cd, cm), (dd, dm)) = (w2(c), w2(d));
    let none = bad(cd, dd) || bad(cm, dm);
    let (q, r) = (c.checked_div(d), c.checked_rem(d));
    assert!(q.is_none() == none && r.is_none() == none);
    if let (Some(q), Some(r)) = (q, r) {
        if dd == 1 { assert!(q.days == c.days && r.days == 0); }
        if dm == -1 { assert!(q.milliseconds as i128 == -cm && r.milliseconds == 0); }
    }
    if dd != 0 && dm != 0 {
        let (qw, rw) = (c.wrapping_div(d), c.wrapping_rem(d));
        if dd == 1 { assert!(qw.days == c.days && rw.days == 0); }
        if dm == -1 { assert!(qw.milliseconds == c.milliseconds.wrapping_neg() && rw.milliseconds == 0); }
    }
    kani::cover!(none && dd != 0 && dm != 0);
    kani::cover!(!none && dd > 2 && cd > dd);
    kani::cover!(dm == -1 && c.milliseconds == i32::MIN && dd != 0);
}
