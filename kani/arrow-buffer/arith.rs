// Kani contract harnesses for /repo/arrow-buffer/src/arith.rs (child module: sees private items via super::)
