// Kani contract harnesses for /repo/arrow-buffer/src/arith.rs (child module of `arith`)
//
// arith.rs only holds the macro derive_arith!, which derives std::ops::{Add, Sub, Mul, Div, Rem} and
// the *Assign / by-reference forms for i256, IntervalDayTime and IntervalMonthDayNano from their
// checked_* / wrapping_* methods.  Kani compiles with debug assertions, so the cfg(debug_assertions)
// expansion is the one under contract: the operator is the checked method + expect (it panics instead of
// wrapping).  The cfg(not(debug_assertions)) expansion (wrapping) is not compiled here: n/d.
use crate::bigint::i256;
use crate::interval::{IntervalDayTime, IntervalMonthDayNano};

// Contract (C12): derive_arith! expansion (debug build).  Precondition: checked_op(a, b) = Some(v)
// (otherwise the operator panics - documented debug behaviour, never a wrapped value).  Then a op b,
// &a op b, a op &b, &a op &b and `a op= b` all equal v, for op in + - on i256 (all operands) and
// + - * on IntervalDayTime / IntervalMonthDayNano; unary minus = checked_neg under the same rule.
// @unit name=derive_arith_ops props=C12 kind=complete fns=derive_arith timeout=900
#[kani::proof]
fn derive_arith_ops() {
    let (a, b) = (i256::from_parts(kani::any(), kani::any()), i256::from_parts(kani::any(), kani::any()));
    if let Some(v) = a.checked_add(b) {
        assert!(a + b == v && &a + b == v && a + &b == v && &a + &b == v);
        let mut c = a;
        c += b;
        assert!(c == v);
    }
    if let Some(v) = a.checked_sub(b) {
        assert!(a - b == v && &a - b == v && a - &b == v && &a - &b == v);
        let mut c = a;
        c -= b;
        assert!(c == v);
    }
    if let Some(v) = a.checked_neg() { assert!(-a == v); }
    let (x, y) = (IntervalDayTime::new(kani::any(), kani::any()), IntervalDayTime::new(kani::any(), kani::any()));
    if let Some(v) = x.checked_add(y) { assert!(x + y == v && &x + &y == v); let mut c = x; c += y; assert!(c == v); }
    if let Some(v) = x.checked_sub(y) { assert!(x - y == v); let mut c = x; c -= y; assert!(c == v); }
    if let Some(v) = x.checked_mul(y) { assert!(x * y == v); }
    if let Some(v) = x.checked_neg() { assert!(-x == v); }
    let (m, n) = (IntervalMonthDayNano::new(kani::any(), kani::any(), kani::any()), IntervalMonthDayNano::new(kani::any(), kani::any(), kani::any()));
    if let Some(v) = m.checked_add(n) { assert!(m + n == v && &m + n == v); let mut c = m; c += n; assert!(c == v); }
    if let Some(v) = m.checked_sub(n) { assert!(m - n == v); let mut c = m; c -= n; assert!(c == v); }
    if let Some(v) = m.checked_neg() { assert!(-m == v); }
    kani::cover!(a.checked_add(b).is_some() && a.checked_sub(b).is_none());
    kani::cover!(x.checked_mul(y).is_some() && x.checked_add(y).is_none());
    kani::cover!(m.checked_add(n).is_some());
}
