// Kani contract harnesses for /repo/parquet-variant/src/utils.rs (child module: sees private items via super::)
