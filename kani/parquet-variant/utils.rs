// Kani contract harnesses for /repo/parquet-variant/src/utils.rs (child module: sees private items via super::)
use super::*;
#[path = "/verif/kani/support/spec.rs"]
mod spec;
use spec::*;

fn any_input<const N: usize>() -> ([u8; N], usize) {
    let a: [u8; N] = kani::any();
    let n: usize = kani::any();
    kani::assume(n <= N);
    (a, n)
}

fn stub_basic_from_utf8(input: &[u8]) -> Result<&str, simdutf8::basic::Utf8Error> {
    if kani::any() {
        Ok(unsafe { core::str::from_utf8_unchecked(input) })
    } else {
        Err(simdutf8::basic::Utf8Error {})
    }
}
fn stub_compat_from_utf8(_input: &[u8]) -> Result<&str, simdutf8::compat::Utf8Error> {
    Err(unsafe { core::mem::zeroed::<simdutf8::compat::Utf8Error>() })
}

// Contract (C08): the checked slicing helpers on arbitrary bytes (<= 20) and ARBITRARY usize indices:
//  slice_from_slice(b, s..e)            Ok(sub) iff s <= e <= len; sub is b[s..e] itself (same memory)
//  slice_from_slice(b, s..)             Ok iff s <= len
//  slice_from_slice_at_offset(b,o,s..e) Ok iff o+s and o+e do not overflow and o+s <= o+e <= len
//  array_from_slice::<4>(b, o)          Ok(arr) iff o + 4 <= len (no overflow); arr = the 4 bytes at o
//  first_byte_from_slice(b)             Ok(b[0]) iff len >= 1
// Err otherwise; never a panic, never a wrap-around.
// Stub: alloc::fmt::format.
// @unit name=variant_slice_helpers props=C08 kind=bounded bound=bytes<=20 fns=slice_from_slice,slice_from_slice_at_offset,array_from_slice,first_byte_from_slice,overflow_error tier=quick timeout=480 mem=3
#[kani::proof]
#[kani::unwind(6)]
#[kani::stub(alloc::fmt::format, stub_format)]
fn variant_slice_helpers() {
    let (a, n) = any_input::<20>();
    let b = &a[..n];
    let s: usize = kani::any();
    let e: usize = kani::any();
    let o: usize = kani::any();
    match kani::any::<u8>() {
        0 => {
            let r = slice_from_slice(b, s..e);
            assert!(r.is_ok() == (s <= e && e <= n));
            if let Ok(sub) = &r {
                assert!(sub.len() == e - s && sub.as_ptr() == a[s..].as_ptr());
            }
            kani::cover!(r.is_ok() && s == e && e == n);
            kani::cover!(r.is_err() && s > e && e <= n);
            std::mem::forget(r);
        }
        1 => {
            let r = slice_from_slice(b, s..);
            assert!(r.is_ok() == (s <= n));
            if let Ok(sub) = &r {
                assert!(sub.len() == n - s && sub.as_ptr() == a[s..].as_ptr());
            }
            kani::cover!(r.is_ok() && s == n);
            kani::cover!(r.is_err());
            std::mem::forget(r);
        }
        2 => {
            let r = slice_from_slice_at_offset(b, o, s..e);
            let st = o as u128 + s as u128;
            let en = o as u128 + e as u128;
            let fits = st <= en && en <= n as u128;
            assert!(r.is_ok() == fits);
            if let Ok(sub) = &r {
                assert!(sub.len() as u128 == en - st && sub.as_ptr() == a[st as usize..].as_ptr());
            }
            kani::cover!(r.is_ok() && o == 4 && e == 16);
            kani::cover!(r.is_err() && o == usize::MAX && s == 1);
            kani::cover!(r.is_err() && en == n as u128 + 1);
            std::mem::forget(r);
        }
        3 => {
            let r = array_from_slice::<4>(b, o);
            let fits = o as u128 + 4 <= n as u128;
            assert!(r.is_ok() == fits);
            if let Ok(arr) = &r {
                let i: usize = kani::any();
                kani::assume(i < 4);
                assert!(arr[i] == a[o + i]);
            }
            kani::cover!(r.is_ok() && o == 16);
            kani::cover!(r.is_err() && o == usize::MAX - 2);
            std::mem::forget(r);
        }
        _ => {
            let r = first_byte_from_slice(b);
            assert!(r.is_ok() == (n >= 1));
            if let Ok(x) = &r {
                assert!(*x == a[0]);
            }
            kani::cover!(r.is_err());
            std::mem::forget(r);
        }
    }
}

// Contract (C08): string_from_slice(b, o, s..e): out-of-bounds or overflowing indices => Err whatever the
// bytes are; Ok(str) => the indices are in bounds and str is b[o+s .. o+e] itself (same memory).
// Stubs: alloc::fmt::format; simdutf8::{basic,compat}::from_utf8 by a nondeterministic validator.
// @unit name=variant_string_from_slice props=C08 kind=bounded bound=bytes<=20 fns=string_from_slice tier=quick timeout=480 mem=3
#[kani::proof]
#[kani::unwind(6)]
#[kani::stub(alloc::fmt::format, stub_format)]
#[kani::stub(simdutf8::basic::from_utf8, stub_basic_from_utf8)]
#[kani::stub(simdutf8::compat::from_utf8, stub_compat_from_utf8)]
fn variant_string_from_slice() {
    let (a, n) = any_input::<20>();
    let s: usize = kani::any();
    let e: usize = kani::any();
    let o: usize = kani::any();
    let r = string_from_slice(&a[..n], o, s..e);
    let st = o as u128 + s as u128;
    let en = o as u128 + e as u128;
    let fits = st <= en && en <= n as u128;
    if let Ok(t) = &r {
        assert!(fits);
        assert!(t.len() as u128 == en - st && t.as_ptr() == a[st as usize..].as_ptr());
    }
    assert!(fits || r.is_err());
    kani::cover!(r.is_ok() && en - st == 20);
    kani::cover!(r.is_err() && fits);
    kani::cover!(r.is_err() && !fits && e < s);
    std::mem::forget(r);
}

// Contract (C08): try_binary_search_range_by over a sorted table of <= 7 keys (the shape used for
// object field lookup), with a key extractor that may FAIL at a solver-chosen index:
//  None           => the extractor failed on some probed index;
//  Some(Ok(i))    => i is in the range and key[i] == target;
//  Some(Err(i))   => target does not occur in the range and i is its insertion point
//                    (every key before i is smaller, every key from i on is larger);
// never panics, never probes outside the range, terminates within ceil(log2(len))+1 probes.
// NOT CONFIRMED: all checks passed in 7 s; one cover (empty range) was unreachable because of an over-strong harness assumption, corrected, not re-run
// @unit name=variant_binary_search props=C08 kind=bounded bound=table<=7_keys fns=try_binary_search_range_by tier=thorough timeout=900 mem=3
#[kani::proof]
#[kani::unwind(9)]
fn variant_binary_search() {
    let keys: [u8; 7] = kani::any();
    let lo: usize = kani::any();
    let hi: usize = kani::any();
    kani::assume(lo <= hi && hi <= 7);
    // sorted, strictly increasing inside the range
    let mut i = 0;
    while i + 1 < 7 {
        kani::assume(i < lo || i + 1 >= hi || keys[i] < keys[i + 1]);
        i += 1;
    }
    let target: u8 = kani::any();
    let bad: usize = kani::any(); // index at which key extraction fails (may be outside the range: never fails)
    let r = try_binary_search_range_by(lo..hi, |k| {
        assert!(k >= lo && k < hi);
        if k == bad { None } else { Some(keys[k].cmp(&target)) }
    });
    let w: usize = kani::any(); // witness index (any index of the range, if the range is not empty)
    match r {
        None => assert!(bad >= lo && bad < hi),
        Some(Ok(i)) => assert!(i >= lo && i < hi && keys[i] == target),
        Some(Err(i)) => {
            assert!(i >= lo && i <= hi);
            if (bad < lo || bad >= hi) && w >= lo && w < hi {
                assert!(keys[w] != target);
                assert!((w < i) == (keys[w] < target));
            }
        }
    }
    kani::cover!(matches!(r, Some(Ok(6))) && lo == 0);
    kani::cover!(matches!(r, Some(Err(0))) && hi == 7 && lo == 0);
    kani::cover!(matches!(r, Some(Err(7))));
    kani::cover!(r.is_none());
    kani::cover!(lo == hi);
}
