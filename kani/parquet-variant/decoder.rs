// Kani contract harnesses for /repo/parquet-variant/src/decoder.rs (child module: sees private items via super::)
